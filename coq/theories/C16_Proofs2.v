(* C16_Proofs2.v — handles, Session/WithContext position, FirstOrInit / FirstOrCreate. *)
From Verif Require Import Base C16_Model C16_Spec C16_Proofs.
Open Scope Z_scope.

(* ---- chains -------------------------------------------------------------------------------- *)
Definition is_session (e : cel) : bool := match e with ESession | ECtx => true | _ => false end.
Definition erase (ch : list cel) : list cel := filter (fun e => negb (is_session e)) ch.

(* no Session/WithContext after an Attrs/Assign ([seen] = an Attrs/Assign came earlier) *)
Fixpoint safe (seen : bool) (ch : list cel) : bool :=
  match ch with
  | [] => true
  | (ESession | ECtx) :: r => negb seen && safe seen r
  | (EAttrs _ | EAssign _) :: r => safe true r
  | EWhere _ :: r => safe seen r
  end.
Definition session_safe (ch : list cel) : bool := safe false ch.

(* ---- handles ------------------------------------------------------------------------------- *)
(* reachable handles: one that still asks for a fresh statement (clone = 1) carries nothing *)
Definition hinv (h : handle) : Prop :=
  h_clone h = 1%N -> h_where h = [] /\ h_attrs h = [] /\ h_assigns h = [].
Definition same_stmt (h1 h2 : handle) : Prop :=
  h_where h1 = h_where h2 /\ h_attrs h1 = h_attrs h2 /\ h_assigns h1 = h_assigns h2.
Definition carries_nothing (h : handle) : Prop := h_attrs h = [] /\ h_assigns h = [].
Definition heq (keep : bool) (h1 h2 : handle) : Prop :=
  hinv h1 /\ hinv h2 /\ same_stmt h1 h2
  /\ (keep = true \/ (h_clone h1 = 0%N /\ h_clone h2 = 0%N) \/ carries_nothing h1).

Ltac use_hinv H := let a := fresh in let b := fresh in let c := fresh in
  destruct (H eq_refl) as (a & b & c); cbn in a, b, c; subst.

Lemma gi_eq keep h1 h2 : heq keep h1 h2 -> get_instance keep h1 = get_instance keep h2.
Proof.
  destruct h1 as [c1 w1 a1 s1], h2 as [c2 w2 a2 s2].
  intros (I1 & I2 & (Hw & Ha & Hs) & D). unfold hinv in I1, I2. cbn in *. subst w2 a2 s2.
  unfold get_instance, clone_stmt, with_clone; cbn.
  destruct keep; destruct c1 as [|[p1|p1|]]; destruct c2 as [|[p2|p2|]]; cbn;
    try (use_hinv I1); try (use_hinv I2); try reflexivity;
    destruct D as [D|[[D1 D2]|[D1 D2]]]; cbn in *; try discriminate; subst; reflexivity.
Qed.

Lemma gi_clone keep h : h_clone (get_instance keep h) = 0%N.
Proof. destruct h as [[|[p|p|]] w a s]; reflexivity. Qed.

Lemma gi_where keep h : hinv h -> h_where (get_instance keep h) = h_where h.
Proof.
  destruct h as [[|[p|p|]] w a s]; intros I; cbn; try reflexivity.
  use_hinv I. reflexivity.
Qed.

Lemma gi_carries keep h : carries_nothing h -> carries_nothing (get_instance keep h).
Proof.
  destruct h as [[|[p|p|]] w a s]; intros [H1 H2]; cbn in *; subst; split; cbn;
    try reflexivity; destruct keep; reflexivity.
Qed.

Lemma hinv_clone0 h : h_clone h = 0%N -> hinv h.
Proof. intros H H'. rewrite H in H'. discriminate. Qed.

Lemma heq_refl0 keep h : h_clone h = 0%N -> heq keep h h.
Proof.
  intros H. pose proof (hinv_clone0 h H) as I.
  split; [exact I|]. split; [exact I|]. split; [repeat split; reflexivity|]. right; left. auto.
Qed.

Lemma cel_clone keep h e : is_session e = false -> h_clone (apply_cel keep h e) = 0%N.
Proof. destruct e; cbn; intros H; try discriminate; apply gi_clone. Qed.

Lemma cel_eq keep h1 h2 e : heq keep h1 h2 -> is_session e = false ->
  apply_cel keep h1 e = apply_cel keep h2 e.
Proof.
  intros H Hs. destruct e; cbn in *; try discriminate; now rewrite (gi_eq _ _ _ H).
Qed.

Lemma cel_session_left keep h1 h2 e : heq keep h1 h2 -> is_session e = true ->
  keep = true \/ carries_nothing h1 ->
  heq keep (apply_cel keep h1 e) h2 /\ (carries_nothing h1 -> carries_nothing (apply_cel keep h1 e)).
Proof.
  destruct h1 as [c1 w1 a1 s1], h2 as [c2 w2 a2 s2].
  intros (I1 & I2 & (Hw & Ha & Hs) & D) He K. cbn in Hw, Ha, Hs. subst w2 a2 s2.
  assert (N2 : forall w a s, hinv (mk_handle 2 w a s)) by (intros w a s X; discriminate X).
  destruct e; cbn in He; try discriminate; cbn; unfold with_clone, clone_stmt; cbn.
  - split; [|auto].
    split; [apply N2|]. split; [exact I2|]. split; [repeat split; reflexivity|].
    destruct K as [K|K]; [now left|right; right; exact K].
  - destruct K as [->|[K1 K2]]; cbn in *.
    + split; [|auto].
      split; [apply N2|]. split; [exact I2|]. split; [repeat split; reflexivity|]. now left.
    + subst a1 s1.
      assert (E : (if keep then @nil arg else []) = []) by (destruct keep; reflexivity).
      rewrite !E. split; [|intros _; split; reflexivity].
      split; [apply N2|]. split; [exact I2|]. split; [repeat split; reflexivity|].
      right; right; split; reflexivity.
Qed.

Lemma cel_where_carries keep h c : carries_nothing h -> carries_nothing (apply_cel keep h (EWhere c)).
Proof. intros H. destruct (gi_carries keep h H) as [H1 H2]. split; cbn; assumption. Qed.

Lemma chain_heq keep : forall ch h1 h2 seen,
  heq keep h1 h2 -> (seen = false -> carries_nothing h1) ->
  keep = true \/ safe seen ch = true ->
  heq keep (fold_left (apply_cel keep) ch h1) (fold_left (apply_cel keep) (erase ch) h2).
Proof.
  induction ch as [|e ch IH]; intros h1 h2 seen H Hc Hs; cbn [fold_left erase filter]; [exact H|].
  destruct (is_session e) eqn:Es; cbn [negb].
  - (* a Session / WithContext: dropped on the right *)
    assert (K : keep = true \/ carries_nothing h1).
    { destruct Hs as [Hs|Hs]; [now left|]. right. apply Hc.
      destruct e; cbn in Es; try discriminate; cbn in Hs; destruct seen; cbn in Hs; auto; discriminate. }
    destruct (cel_session_left keep h1 h2 e H Es K) as [H' Hc'].
    apply (IH _ _ seen H').
    + intros Hseen. apply Hc', Hc, Hseen.
    + destruct Hs as [Hs|Hs]; [now left|]. right.
      destruct e; cbn in Es; try discriminate; cbn in Hs; apply andb_prop in Hs; tauto.
  - (* same element on both sides: the two handles become equal *)
    fold (erase ch). cbn [fold_left]. rewrite <- (cel_eq keep h1 h2 e H Es).
    set (h := apply_cel keep h1 e).
    assert (Hh : heq keep h h) by (apply heq_refl0, cel_clone, Es).
    destruct e; cbn in Es; try discriminate.
    + apply (IH h h seen Hh).
      * intros Hseen. apply cel_where_carries, Hc, Hseen.
      * destruct Hs as [Hs|Hs]; [now left|right; exact Hs].
    + apply (IH h h true Hh); [discriminate|]. destruct Hs as [Hs|Hs]; [now left|right; exact Hs].
    + apply (IH h h true Hh); [discriminate|]. destruct Hs as [Hs|Hs]; [now left|right; exact Hs].
Qed.

Lemma heq_root keep : heq keep root root.
Proof.
  assert (I : hinv root) by (intros _; repeat split; reflexivity).
  split; [exact I|]. split; [exact I|]. split; [repeat split; reflexivity|].
  right; right. split; reflexivity.
Qed.

Lemma fin_congr keep t now h1 h2 f : heq keep h1 h2 ->
  match f with
  | FInit ic => first_or_init keep t h1 ic = first_or_init keep t h2 ic
  | FFoc ic => first_or_create keep t now h1 ic = first_or_create keep t now h2 ic
  | _ => True
  end.
Proof.
  intros H. pose proof (gi_eq _ _ _ H) as G. destruct H as (_ & _ & (Hw & Ha & Hs) & _).
  destruct f; auto.
  - unfold first_or_init. now rewrite G.
  - unfold first_or_create. now rewrite G, Hw, Ha, Hs.
Qed.

Lemma step_erase keep t now ch f :
  keep = true \/ session_safe ch = true ->
  step keep t now ch f = step keep t now (erase ch) f.
Proof.
  intros Hs. unfold step, run_chain.
  assert (H : heq keep (fold_left (apply_cel keep) ch root) (fold_left (apply_cel keep) (erase ch) root)).
  { apply (chain_heq keep ch root root false (heq_root keep)); [intros _; split; reflexivity|exact Hs]. }
  pose proof (fin_congr keep t now _ _ f H) as F. destruct f; auto.
Qed.

(* ---- what a Session/WithContext-free chain leaves in the statement ------------------------ *)
Definition no_session (ch : list cel) : Prop := forallb (fun e => negb (is_session e)) ch = true.

Lemma erase_no_session ch : no_session (erase ch).
Proof.
  unfold no_session, erase. apply forallb_forall. intros e He. apply filter_In in He. tauto.
Qed.

Definition plain (h : handle) : Prop := hinv h /\ (h_clone h = 0%N \/ h_clone h = 1%N).

Lemma gi_plain keep h : plain h ->
  h_where (get_instance keep h) = h_where h /\ h_attrs (get_instance keep h) = h_attrs h
  /\ h_assigns (get_instance keep h) = h_assigns h.
Proof.
  destruct h as [c w a s]. intros [I [C|C]]; cbn in C; subst c; cbn; auto.
  use_hinv I. auto.
Qed.

Lemma chain_plain keep : forall ch h, plain h -> no_session ch ->
  let g := fold_left (apply_cel keep) ch h in
  plain g
  /\ h_where g = h_where h ++ ch_conds ch
  /\ h_attrs g = fold_left (fun acc e => match e with EAttrs a => a | _ => acc end) ch (h_attrs h)
  /\ h_assigns g = fold_left (fun acc e => match e with EAssign a => a | _ => acc end) ch (h_assigns h).
Proof.
  induction ch as [|e ch IH]; intros h P N; cbn [fold_left].
  - split; [exact P|]. split; [unfold ch_conds; cbn; now rewrite app_nil_r|]. split; reflexivity.
  - unfold no_session in N. cbn [forallb] in N. apply andb_prop in N. destruct N as [Ne N].
    destruct (gi_plain keep h P) as (Gw & Ga & Gs).
    assert (P' : plain (apply_cel keep h e)).
    { split; [apply hinv_clone0|left]; apply cel_clone; now destruct (is_session e). }
    destruct (IH _ P' N) as (Q1 & Q2 & Q3 & Q4). cbv zeta in *.
    split; [exact Q1|].
    destruct e; cbn in Ne; try discriminate; cbn [apply_cel h_where h_attrs h_assigns] in *;
      rewrite Q2, Q3, Q4, ?Gw, ?Ga, ?Gs; unfold ch_conds; cbn [flat_map]; rewrite <- ?app_assoc;
      repeat split; reflexivity.
Qed.

Lemma plain_root : plain root.
Proof. split; [intros _; repeat split; reflexivity|now right]. Qed.

(* the statement FirstOrInit / FirstOrCreate read after a session-free chain = what was written *)
Lemma run_erased keep ch : no_session ch ->
  let h := run_chain keep ch in
  plain h /\ h_where h = ch_conds ch /\ h_attrs h = ch_attrs ch /\ h_assigns h = ch_assigns ch.
Proof.
  intros N. destruct (chain_plain keep ch root plain_root N) as (P & W & A & S).
  unfold run_chain. repeat split; try apply P; assumption.
Qed.

Lemma ch_conds_erase ch : ch_conds (erase ch) = ch_conds ch.
Proof.
  unfold ch_conds, erase. induction ch as [|e ch IH]; cbn; [reflexivity|].
  destruct e; cbn; now rewrite IH.
Qed.
Lemma fold_erase {A} (f : A -> cel -> A) :
  (forall a e, is_session e = true -> f a e = a) ->
  forall ch a, fold_left f (erase ch) a = fold_left f ch a.
Proof.
  intros Hf. induction ch as [|e ch IH]; intros a; cbn; [reflexivity|].
  destruct (is_session e) eqn:E; cbn; [now rewrite IH, Hf|apply IH].
Qed.
Lemma ch_attrs_erase ch : ch_attrs (erase ch) = ch_attrs ch.
Proof. unfold ch_attrs. apply fold_erase. intros a e; destruct e; cbn; intros; try discriminate; reflexivity. Qed.
Lemma ch_assigns_erase ch : ch_assigns (erase ch) = ch_assigns ch.
Proof. unfold ch_assigns. apply fold_erase. intros a e; destruct e; cbn; intros; try discriminate; reflexivity. Qed.

(* ---- FirstOrInit / FirstOrCreate read through the erased chain ---------------------------- *)
(* the reference reading of the property text, on what the caller wrote *)
Definition built (cs : list cond) (attrs assigns : list arg) : rec :=
  assign_args assigns (assign_args attrs (apply_conds cs zero_rec)).

Definition ref_init (t : table) (cs : list cond) (attrs assigns : list arg) : result :=
  match first_match t cs with
  | Some r => mk_result (assign_args assigns r) 1 false 0 t
  | None => mk_result (built cs attrs assigns) 0 false 0 t
  end.

Lemma init_reading keep t now ch ic :
  keep = true \/ session_safe ch = true ->
  step keep t now ch (FInit ic) = ref_init t (ch_conds ch ++ ic) (ch_attrs ch) (ch_assigns ch).
Proof.
  intros Hs. rewrite (step_erase keep t now ch _ Hs). unfold step.
  destruct (run_erased keep (erase ch) (erase_no_session ch)) as (P & W & A & S).
  destruct (gi_plain keep _ P) as (Gw & Ga & Gs).
  unfold first_or_init, ref_init, built. rewrite Gw, Ga, Gs, W, A, S.
  now rewrite ch_conds_erase, ch_attrs_erase, ch_assigns_erase.
Qed.

Definition ref_foc (t : table) (now : Z) (wh cs : list cond) (attrs assigns : list arg) : result :=
  match first_match t cs with
  | None => create t now None (built cs attrs assigns)
  | Some r =>
      match assigns with
      | [] => mk_result r 0 false 0 t
      | _ =>
          let f := fun x => with_uat now (set_pairs (assign_map assigns) x) in
          let hit := fun x => conds_hold wh x && (r_id x =? r_id r) && visible wh x in
          mk_result (f r) (count_where hit t) false 1 (upd_where hit f t)
      end
  end.

Lemma foc_reading keep t now ch ic :
  keep = true \/ session_safe ch = true ->
  step keep t now ch (FFoc ic)
  = ref_foc t now (ch_conds ch) (ch_conds ch ++ ic) (ch_attrs ch) (ch_assigns ch).
Proof.
  intros Hs. rewrite (step_erase keep t now ch _ Hs). unfold step.
  destruct (run_erased keep (erase ch) (erase_no_session ch)) as (P & W & A & S).
  destruct (gi_plain keep _ P) as (Gw & Ga & Gs).
  unfold first_or_create, ref_foc, built. rewrite Gw, W, A, S.
  now rewrite ch_conds_erase, ch_attrs_erase, ch_assigns_erase.
Qed.

(* ---- never / at most one row ---------------------------------------------------------------- *)
Lemma init_never_writes keep t now ch ic :
  let r := step keep t now ch (FInit ic) in
  res_tbl r = t /\ res_writes r = 0 /\ res_err r = false.
Proof.
  cbn. unfold first_or_init. destruct (first_match t _); cbn; auto.
Qed.

Lemma create_one t now ru v :
  let r := create t now ru v in
  (exists k, without k (res_tbl r) = without k t)
  /\ (length (res_tbl r) <= S (length t))%nat /\ res_writes r = 1.
Proof.
  cbn. unfold create. destruct (r_id (fill_times now v) =? 0).
  - cbn. repeat split; [|rewrite length_insert; lia].
    eexists. apply without_insert.
  - destruct (lookup t (r_id (fill_times now v))) as [old|] eqn:L.
    + assert (Hpres : forall r0 x, (r_id x =? r_id (fill_times now v)) = true ->
                r_id x = r_id (fill_times now v) /\ r_id (oc_apply now r0 (fill_times now v) x) = r_id (fill_times now v)).
      { intros r0 x Hx. apply Z.eqb_eq in Hx. split; [exact Hx|]. rewrite oc_apply_id; congruence. }
      destruct ru as [r0|]; [destruct (rule_fires r0 old)|]; cbn [res_tbl res_writes];
        repeat split; try lia; try (now exists 0);
        try (rewrite length_upd_where; lia);
        exists (r_id (fill_times now v)); apply without_upd_where, Hpres.
    + cbn. repeat split; [|rewrite length_insert; lia]. eexists. apply without_insert.
Qed.

Definition names_key (ps : list (col * val)) : bool := existsb (fun p => col_eqb (fst p) CId) ps.

Lemma set_col_id c v r : col_eqb c CId = false -> r_id (set_col c v r) = r_id r.
Proof. destruct r, c, v; cbn; intros H; try reflexivity; discriminate. Qed.

Lemma set_pairs_id ps r : names_key ps = false -> r_id (set_pairs ps r) = r_id r.
Proof.
  unfold set_pairs. revert r; induction ps as [|p ps IH]; intros r H; cbn in *; [reflexivity|].
  apply orb_false_elim in H. destruct H as [H1 H2]. rewrite (IH _ H2). apply set_col_id, H1.
Qed.

Lemma foc_one keep t now h ic :
  names_key (assign_map (h_assigns h)) = false ->
  let r := first_or_create keep t now h ic in
  (exists k, without k (res_tbl r) = without k t)
  /\ (length (res_tbl r) <= S (length t))%nat /\ res_writes r <= 1.
Proof.
  intros Hk. cbn. unfold first_or_create.
  destruct (first_match t _) as [r|].
  - destruct (h_assigns h) as [|a l] eqn:Ea.
    + cbn. repeat split; try lia. now exists 0.
    + cbn [res_tbl res_writes]. repeat split; try lia; [|rewrite length_upd_where; lia].
      exists (r_id r). apply without_upd_where. intros x Hx.
      apply andb_prop in Hx. destruct Hx as [Hx _]. apply andb_prop in Hx. destruct Hx as [_ Hx].
      apply Z.eqb_eq in Hx. split; [exact Hx|].
      rewrite with_uat_id, set_pairs_id; auto.
  - destruct (create_one t now None (assign_args (h_assigns h) (assign_args (h_attrs h)
               (apply_conds (h_where h ++ ic) zero_rec)))) as (H1 & H2 & H3).
    repeat split; auto. lia.
Qed.

(* every handle of a chain holds an Assign list that the chain wrote (or none) *)
Lemma chain_assigns (P : list arg -> Prop) keep : P [] ->
  forall ch h, P (h_assigns h) -> (forall a, In (EAssign a) ch -> P a) ->
  P (h_assigns (fold_left (apply_cel keep) ch h)).
Proof.
  intros P0. induction ch as [|e ch IH]; intros h Ph Hch; cbn [fold_left]; [exact Ph|].
  apply IH; [|intros a Ha; apply Hch; now right].
  assert (G : P (h_assigns (get_instance keep h))).
  { destruct h as [[|[p|p|]] w a s]; cbn in *; auto; destruct keep; auto. }
  destruct e; cbn; auto.
  - apply Hch. now left.
  - destruct keep; cbn; auto.
Qed.

(* ---- found rows -------------------------------------------------------------------------------- *)
Lemma first_match_some t cs r : first_match t cs = Some r ->
  In r t /\ visible cs r = true /\ conds_hold cs r = true.
Proof.
  unfold first_match. intros H. apply find_some in H. destruct H as [H1 H2].
  apply andb_prop in H2. tauto.
Qed.

Lemma conds_hold_app a b r : conds_hold (a ++ b) r = conds_hold a r && conds_hold b r.
Proof. unfold conds_hold. apply forallb_app. Qed.

Lemma wf_in_gt lo t r : wf_from lo t -> In r t -> lo < r_id r.
Proof.
  revert lo; induction t as [|x t IH]; intros lo W I; [contradiction|].
  cbn in W. destruct W as [W1 W2]. destruct I as [->|I]; [exact W1|].
  specialize (IH _ W2 I). lia.
Qed.

Lemma filter_key_none (p : rec -> bool) lo t k :
  wf_from lo t -> k <= lo -> (forall x, p x = true -> r_id x = k) -> filter p t = [].
Proof.
  intros W L Hp. induction t as [|x t IH] in lo, W, L |- *; [reflexivity|].
  cbn in W. destruct W as [W1 W2]. cbn [filter].
  destruct (p x) eqn:E; [apply Hp in E; lia|]. apply (IH (r_id x)); [exact W2|lia].
Qed.

Lemma filter_key_one (p : rec -> bool) lo t r :
  wf_from lo t -> In r t -> p r = true -> (forall x, p x = true -> r_id x = r_id r) ->
  filter p t = [r].
Proof.
  intros W I Hr Hp. induction t as [|x t IH] in lo, W, I |- *; [contradiction|].
  cbn in W. destruct W as [W1 W2]. cbn [filter]. destruct I as [->|I].
  - rewrite Hr. f_equal. apply (filter_key_none p (r_id r) t (r_id r)); [exact W2|lia|exact Hp].
  - pose proof (wf_in_gt _ _ _ W2 I) as Hlt.
    destruct (p x) eqn:E; [apply Hp in E; lia|]. apply (IH _ W2 I).
Qed.

Lemma unscoped_app a b : unscoped (a ++ b) = unscoped a || unscoped b.
Proof. unfold unscoped. apply existsb_app. Qed.

Lemma foc_found_assign t now wh ic attrs assigns r :
  wf t -> unscoped ic = false -> first_match t (wh ++ ic) = Some r -> assigns <> [] ->
  names_key (assign_map assigns) = false ->
  let res := ref_foc t now wh (wh ++ ic) attrs assigns in
  let r' := with_uat now (set_pairs (assign_map assigns) r) in
  res_ret res = r' /\ res_err res = false /\ res_ra res = 1
  /\ lookup (res_tbl res) (r_id r) = Some r'
  /\ without (r_id r) (res_tbl res) = without (r_id r) t /\ wf (res_tbl res).
Proof.
  intros Hwf Hu Hm Hne Hk. cbn. unfold ref_foc. rewrite Hm.
  destruct assigns as [|a l]; [congruence|].
  destruct (first_match_some _ _ _ Hm) as (Hin & Hlive & Hc).
  rewrite conds_hold_app in Hc. apply andb_prop in Hc. destruct Hc as [Hc _].
  unfold visible in Hlive. rewrite unscoped_app, Hu, orb_false_r in Hlive. fold (visible wh r) in Hlive.
  set (f := fun x => with_uat now (set_pairs (assign_map (a :: l)) x)).
  set (hit := fun x => conds_hold wh x && (r_id x =? r_id r) && visible wh x).
  assert (Hf : forall x, r_id (f x) = r_id x).
  { intros x. unfold f. rewrite with_uat_id. now apply set_pairs_id. }
  assert (Hhit : hit r = true) by (unfold hit; now rewrite Hc, Z.eqb_refl, Hlive).
  cbn [res_ret res_err res_ra res_tbl].
  repeat split.
  - (* exactly one row is hit *)
    unfold count_where. destruct Hwf as [lo Hlo]. rewrite (filter_key_one hit lo t r Hlo Hin Hhit); [reflexivity|].
    intros x Hx. unfold hit in Hx. apply andb_prop in Hx. destruct Hx as [Hx _].
    apply andb_prop in Hx. destruct Hx as [_ Hx]. now apply Z.eqb_eq.
  - rewrite lookup_upd_where by (intros; apply Hf).
    rewrite (lookup_in' _ _ Hwf Hin). cbn. now rewrite Hhit.
  - apply without_upd_where. intros x Hx. unfold hit in Hx.
    apply andb_prop in Hx. destruct Hx as [Hx _]. apply andb_prop in Hx. destruct Hx as [_ Hx].
    apply Z.eqb_eq in Hx. rewrite Hf. auto.
  - apply wf_upd'; [intros; apply Hf|exact Hwf].
Qed.

(* ---- histories: every step keeps the table well-formed ------------------------------------ *)
Definition chain_keeps_key (ch : list cel) : Prop :=
  forall a, In (EAssign a) ch -> names_key (assign_map a) = false.

Lemma foc_wf keep t now h ic : names_key (assign_map (h_assigns h)) = false ->
  wf t -> wf (res_tbl (first_or_create keep t now h ic)).
Proof.
  intros Hk Hwf. unfold first_or_create. destruct (first_match t _) as [r|].
  - destruct (h_assigns h) as [|a l] eqn:Ea; [exact Hwf|]. cbn [res_tbl].
    apply wf_upd'; [|exact Hwf]. intros x _. rewrite with_uat_id. now apply set_pairs_id.
  - now apply create_wf.
Qed.

Lemma slice_run_wf now vs : forall t acc, wf t ->
  wf (fst (fold_left (fun acc v => let r := create (fst acc) now (Some RAll) (with_uat now v) in
                                   (res_tbl r, snd acc ++ [res_ret r])) vs (t, acc))).
Proof.
  induction vs as [|v vs IH]; intros t acc Hwf; cbn [fold_left fst snd]; [exact Hwf|].
  apply IH. now apply create_wf.
Qed.

Lemma slice_run_len now vs : forall t acc,
  length (snd (fold_left (fun acc v => let r := create (fst acc) now (Some RAll) (with_uat now v) in
                                       (res_tbl r, snd acc ++ [res_ret r])) vs (t, acc)))
  = (length acc + length vs)%nat.
Proof.
  induction vs as [|v vs IH]; intros t acc; cbn [fold_left fst snd]; [cbn; lia|].
  rewrite IH, app_length. cbn. lia.
Qed.

Lemma copy_cols_id cs src dst : existsb (col_eqb CId) cs = false -> r_id (copy_cols cs src dst) = r_id dst.
Proof.
  unfold copy_cols. revert dst; induction cs as [|c cs IH]; intros dst H; cbn in *; [reflexivity|].
  apply orb_false_elim in H. destruct H as [H1 H2]. rewrite (IH _ H2). apply set_col_id.
  destruct c; cbn in *; try reflexivity; discriminate.
Qed.

Lemma kept_no_id os cs : existsb (col_eqb CId) cs = false -> existsb (col_eqb CId) (kept os cs) = false.
Proof.
  unfold kept. induction cs as [|c cs IH]; intros H; cbn in *; [reflexivity|].
  apply orb_false_elim in H. destruct H as [H1 H2]. destruct (negb (omitted os c)); cbn; [rewrite H1|]; auto.
Qed.

Lemma create_omit_wf t now os up v : wf t -> wf (res_tbl (create_omit t now os up v)).
Proof.
  intros Hwf. unfold create_omit.
  set (v1 := copy_cols (kept os [CCat; CUat]) (fill_times now v) v).
  set (k := if r_id v1 =? 0 then next_id t else r_id v1).
  destruct (if r_id v1 =? 0 then None else lookup t k) as [old|] eqn:L.
  - destruct up; cbn [res_tbl]; [|exact Hwf]. apply wf_upd'; [|exact Hwf]. intros r _.
    assert (E : r_id (copy_cols (kept os [CName; CAge; CEmail; CDel]) v1 r) = r_id r)
      by (apply copy_cols_id, kept_no_id; reflexivity).
    destruct (omitted os CUat); [exact E|]. now rewrite with_uat_id.
  - cbn [res_tbl]. apply wf_insert'; [exact Hwf|]. rewrite with_id_id.
    destruct (r_id v1 =? 0) eqn:Z; [subst k; apply next_id_fresh|exact L].
Qed.

Lemma save_omit_wf t now os v : wf t -> wf (res_tbl (save_omit t now os v)).
Proof.
  intros Hwf. unfold save_omit. destruct (r_id v =? 0); [now apply create_omit_wf|].
  destruct (0 <? count_where _ t); cbn [res_tbl]; [|now apply create_omit_wf].
  apply wf_upd'; [|exact Hwf]. intros r _. apply copy_cols_id, kept_no_id. reflexivity.
Qed.

(* ---- Create from map values -------------------------------------------------------------------------- *)
Lemma copy_cols_same_id cs ex old : r_id ex = r_id old -> r_id (copy_cols cs ex old) = r_id old.
Proof.
  intros H. unfold copy_cols. apply r_id_of_get. rewrite copy_cols_get.
  destruct (mem_col CId cs); cbn; congruence.
Qed.
Lemma mall_cols_no_id ks : existsb (col_eqb CId) (mall_cols ks) = false.
Proof. unfold mall_cols. induction ks as [|c ks IH]; [reflexivity|]. destruct c; cbn; auto. Qed.
Lemma moc_apply_id now ru ks ex old : r_id ex = r_id old -> r_id (moc_apply now ru ks ex old) = r_id old.
Proof.
  intros H. induction ru as [|cols| |k r IH|k r IH]; cbn [moc_apply]; [reflexivity| | | |exact IH].
  - now apply copy_cols_same_id.
  - destruct (named ks CUat); rewrite ?with_uat_id; apply copy_cols_id, mall_cols_no_id.
  - destruct (r_age old <? k); [exact IH|reflexivity].
Qed.
Lemma copy_cols_nil ex old : copy_cols [] ex old = old.
Proof. reflexivity. Qed.
Lemma moc_apply_idle now ru ks ex old : mrule_fires ru ks old = false -> moc_apply now ru ks ex old = old.
Proof.
  induction ru as [|cols| |k r IH|k r IH]; cbn [moc_apply mrule_fires]; intros H; try discriminate; auto.
  - destruct (mall_cols ks); [rewrite H; reflexivity|discriminate].
  - destruct (r_age old <? k); [apply IH, H|reflexivity].
Qed.

(* one map: the rows other than the map's key are untouched; a stored key gets exactly what the rule writes,
   a fresh key the map's row; the table stays well-formed *)
Lemma create_map_rule t now ru ks m : wf t -> r_id (map_rec m) <> 0 ->
  let ex := map_rec m in
  let r := create_map t now ru ks m in
  res_err r = false /\ wf (res_tbl r)
  /\ without (r_id ex) (res_tbl r) = without (r_id ex) t
  /\ match lookup t (r_id ex) with
     | None => lookup (res_tbl r) (r_id ex) = Some ex /\ res_ra r = 1
     | Some old => lookup (res_tbl r) (r_id ex) = Some (moc_apply now ru ks ex old)
                   /\ res_ra r = (if mrule_fires ru ks old then 1 else 0)
     end.
Proof.
  intros Hwf Hnz ex r. subst r. unfold create_map. fold ex.
  destruct (r_id ex =? 0) eqn:E; [apply Z.eqb_eq in E; contradiction|].
  destruct (lookup t (r_id ex)) as [old|] eqn:L.
  - destruct (lookup_some _ _ _ L) as [Hin Hid].
    assert (Hpres : forall x, (r_id x =? r_id ex) = true -> r_id (moc_apply now ru ks ex x) = r_id x).
    { intros x Hx. apply Z.eqb_eq in Hx. apply moc_apply_id. congruence. }
    destruct (mrule_fires ru ks old) eqn:F; cbn [res_err res_tbl res_ra].
    + repeat split; auto.
      * apply wf_upd'; [exact Hpres|exact Hwf].
      * apply without_upd_where. intros x Hx. split; [now apply Z.eqb_eq|].
        rewrite (Hpres x Hx). now apply Z.eqb_eq.
      * rewrite lookup_upd_where by exact Hpres. rewrite L. cbn. now rewrite Hid, Z.eqb_refl.
    + rewrite (moc_apply_idle now ru ks ex old F). repeat split; auto.
  - cbn [res_err res_tbl res_ra]. repeat split; auto.
    + now apply wf_insert'.
    + apply without_insert.
    + now apply lookup_insert_same.
Qed.

Lemma create_map_wf t now ru ks m : wf t -> wf (res_tbl (create_map t now ru ks m)).
Proof.
  intros Hwf. destruct (Z.eq_dec (r_id (map_rec m)) 0) as [Hz|Hnz].
  - unfold create_map. rewrite Hz. cbn [Z.eqb res_tbl].
    apply wf_insert'; [exact Hwf|]. rewrite with_id_id. apply next_id_fresh.
  - now destruct (create_map_rule t now ru ks m Hwf Hnz) as (_ & W & _).
Qed.

Lemma step_wf keep t now ch f : is_composite f = false -> chain_keeps_key ch -> wf t -> wf (res_tbl (step keep t now ch f)).
Proof.
  intros Hc Hk Hwf. unfold step. destruct f; try discriminate Hc.
  - now apply save_wf.
  - now apply create_wf.
  - unfold first_or_init. now destruct (first_match t _).
  - apply foc_wf; [|exact Hwf]. unfold run_chain.
    apply (chain_assigns (fun a => names_key (assign_map a) = false)); auto.
  - cbn [res_tbl]. unfold save_slice_run. now apply slice_run_wf.
  - now apply save_omit_wf.
  - cbn [res_tbl]. unfold create_slice_run.
    assert (G : forall vs t0 a, wf t0 -> wf (fst (fold_left (fun acc v0 => let r := create (fst acc) now (Some ru) v0 in
                (res_tbl r, snd acc + res_ra r)) vs (t0, a)))).
    { induction vs0 as [|v0 vs0 IH]; intros t0 a W; cbn [fold_left fst snd]; [exact W|]. apply IH. now apply create_wf. }
    now apply G.
  - unfold create_u. destruct (if r_id (fill_times now v) =? 0 then None else lookup t _) as [old|].
    + destruct (rule_fires ru old && _); [exact Hwf|now apply create_wf].
    + destruct (email_clash t _ _); [destruct (untargeted_nothing ru tgt); exact Hwf|now apply create_wf].
  - cbn [res_tbl]. unfold create_maps_run. generalize (map_keys ms) as ks. intros ks.
    assert (G : forall l t0 a, wf t0 -> wf (fst (fold_left (fun acc m => let r := create_map (fst acc) now ru ks m in
                (res_tbl r, snd acc + res_ra r)) l (t0, a)))).
    { induction l as [|m l IH]; intros t0 a W; cbn [fold_left fst snd]; [exact W|]. apply IH. now apply create_map_wf. }
    now apply G.
Qed.

(* a history = steps (now, chain, finisher) applied to the evolving table *)
Definition hstep := (Z * list cel * fin)%type.
Definition run_history (keep : bool) (t : table) (hs : list hstep) : table :=
  fold_left (fun t s => res_tbl (step keep t (fst (fst s)) (snd (fst s)) (snd s))) hs t.

Lemma history_wf keep hs : forall t,
  Forall (fun s : hstep => is_composite (snd s) = false /\ chain_keeps_key (snd (fst s))) hs ->
  wf t -> wf (run_history keep t hs).
Proof.
  unfold run_history. induction hs as [|s hs IH]; intros t Hk Hwf; cbn; [exact Hwf|].
  inversion Hk as [|s' hs' [Hc Hch] Hrest]; subst. apply IH; [assumption|]. now apply step_wf.
Qed.

(* ---- statements used by Props_C16 --------------------------------------------------------- *)
Lemma foc_step_one keep t now ch ic : chain_keeps_key ch ->
  let r := step keep t now ch (FFoc ic) in
  (exists k, without k (res_tbl r) = without k t)
  /\ (length (res_tbl r) <= S (length t))%nat /\ res_writes r <= 1.
Proof.
  intros Hk. apply foc_one. unfold run_chain.
  apply (chain_assigns (fun a => names_key (assign_map a) = false)); auto.
Qed.

Lemma session_refuted : exists t now ch f,
  res_ret (step false t now ch f) <> res_ret (step false t now (erase ch) f).
Proof.
  exists [], 20, [EAttrs [AStruct (mk_rec 0 "" 0 "m@e" 0 0 None)]; ESession],
         (FInit [CMap [(CName, VStr "zz")]]).
  vm_compute. discriminate.
Qed.

Lemma session_partial t now ch f : session_safe ch = true ->
  step false t now ch f = step false t now (erase ch) f.
Proof. intros H. apply step_erase. now right. Qed.

Lemma session_invariant t now ch f : step_repo t now ch f = step_repo t now (erase ch) f.
Proof. apply step_erase. now left. Qed.

Lemma init_reading_repo t now ch ic :
  step_repo t now ch (FInit ic) = ref_init t (ch_conds ch ++ ic) (ch_attrs ch) (ch_assigns ch).
Proof. apply init_reading. now left. Qed.

Lemma foc_reading_repo t now ch ic :
  step_repo t now ch (FFoc ic)
  = ref_foc t now (ch_conds ch) (ch_conds ch ++ ic) (ch_attrs ch) (ch_assigns ch).
Proof. apply foc_reading. now left. Qed.

Lemma save_slice_wf_len t now vs : wf t ->
  wf (fst (save_slice_run t now vs)) /\ length (snd (save_slice_run t now vs)) = length vs.
Proof.
  intros Hwf. unfold save_slice_run. split; [now apply slice_run_wf|]. now rewrite slice_run_len.
Qed.

(* ---- Omit(...).Save with an empty Omit list is Save ------------------------------------------------ *)
Lemma upd_where_ext p f g t : (forall r, p r = true -> f r = g r) -> upd_where p f t = upd_where p g t.
Proof.
  intros H. unfold upd_where. apply map_ext_in. intros r _. destruct (p r) eqn:E; [now apply H|reflexivity].
Qed.

Lemma with_id_self v : with_id (r_id v) v = v.
Proof. now destruct v. Qed.

Lemma copy_all_into v r : r_id r = r_id v -> copy_cols save_cols v r = v.
Proof. destruct v as [i n a e ct ut d], r as [i' n' a' e' ct' ut' d']; destruct d; cbn; intros ->; reflexivity. Qed.

Lemma copy_times_fill now v : copy_cols [CCat; CUat] (fill_times now v) v = fill_times now v.
Proof. now destruct v. Qed.

Lemma copy_all_zero k v : with_id k (copy_cols save_cols v zero_rec) = with_id k v.
Proof. destruct v as [i n a e ct ut d]; destruct d; reflexivity. Qed.

Lemma create_omit_nil t now v up :
  create_omit t now [] up v = create t now (if up then Some RAll else None) v.
Proof.
  unfold create_omit, create. change (kept [] [CCat; CUat]) with [CCat; CUat].
  change (kept [] save_cols) with save_cols. change (kept [] [CName; CAge; CEmail; CDel]) with [CName; CAge; CEmail; CDel].
  rewrite copy_times_fill. set (v1 := fill_times now v). rewrite copy_all_zero.
  destruct (r_id v1 =? 0) eqn:Z; [reflexivity|].
  rewrite with_id_self. destruct (lookup t (r_id v1)) as [old|]; [|reflexivity].
  destruct up; reflexivity.
Qed.

Lemma save_omit_nil t now v : save_omit t now [] v = save t now v.
Proof.
  unfold save_omit, save. destruct (r_id v =? 0) eqn:Z; [apply (create_omit_nil t now v false)|].
  change (omitted [] CUat) with false. cbv iota. change (kept [] save_cols) with save_cols.
  destruct (0 <? count_where _ t).
  - f_equal. apply upd_where_ext. intros r Hr. apply copy_all_into.
    apply andb_prop in Hr. destruct Hr as [Hr _]. apply Z.eqb_eq in Hr. now rewrite with_uat_id.
  - now rewrite (create_omit_nil t now (with_uat now v) true).
Qed.

(* ---- the second unique index -------------------------------------------------------------------------- *)
Lemma create_rule_no_err t now ru v : res_err (create t now (Some ru) v) = false.
Proof.
  unfold create. destruct (r_id (fill_times now v) =? 0); [reflexivity|].
  destruct (lookup t _) as [old|]; [destruct (rule_fires ru old)|]; reflexivity.
Qed.

(* a collision on the unique e-mail index is an error that leaves the table untouched; it is swallowed
   only by DO NOTHING without a conflict target, and then nothing is written either *)
Lemma create_u_clash t now ru tgt v : r_id v <> 0 -> lookup t (r_id v) = None ->
  email_clash t (r_id v) (r_email v) = true ->
  let r := create_u t now ru tgt v in
  res_tbl r = t /\ res_err r = negb (untargeted_nothing ru tgt) /\ res_ra r = 0.
Proof.
  intros Hz L C. cbn. unfold create_u.
  assert (E : r_email (fill_times now v) = r_email v) by now destruct v.
  rewrite fill_times_id, E. destruct (r_id v =? 0) eqn:Z; [apply Z.eqb_eq in Z; congruence|].
  rewrite L, C. destruct (untargeted_nothing ru tgt); auto.
Qed.

Lemma create_u_err t now ru tgt v : res_err (create_u t now ru tgt v) = true -> res_tbl (create_u t now ru tgt v) = t.
Proof.
  unfold create_u. destruct (if r_id (fill_times now v) =? 0 then None else lookup t _) as [old|].
  - destruct (rule_fires ru old && _); [reflexivity|]. now rewrite create_rule_no_err.
  - destruct (email_clash t _ _); [destruct (untargeted_nothing ru tgt); [discriminate|reflexivity]|].
    now rewrite create_rule_no_err.
Qed.

(* ---- composite primary key ----------------------------------------------------------------------------- *)
Lemma ckey_refl v : ckey_eq v v = true.
Proof. unfold ckey_eq. now rewrite Z.eqb_refl, String.eqb_refl. Qed.

Lemma ccreate_other_member t ru v : clookup t v = None ->
  ccreate t ru v = mk_result v 1 false 1 (t ++ [v]).
Proof. unfold ccreate. now intros ->. Qed.

Lemma copy_qn_key v r : ckey_eq v (copy_cols [CAge; CEmail] v r) = ckey_eq v r.
Proof. destruct v, r; reflexivity. Qed.

Lemma copy_qn_idem v r : copy_cols [CAge; CEmail] v (copy_cols [CAge; CEmail] v r) = copy_cols [CAge; CEmail] v r.
Proof. destruct v, r; reflexivity. Qed.

Lemma copy_qn_self v : copy_cols [CAge; CEmail] v v = v.
Proof. destruct v; reflexivity. Qed.

Lemma clookup_none_all t v : clookup t v = None -> forall r, In r t -> ckey_eq v r = false.
Proof. unfold clookup. intros H r Hr. apply (find_none _ _ H r Hr). Qed.

Lemma cupd_idem t v : cupd (cupd t v (copy_cols [CAge; CEmail] v)) v (copy_cols [CAge; CEmail] v)
                      = cupd t v (copy_cols [CAge; CEmail] v).
Proof.
  unfold cupd. rewrite map_map. apply map_ext. intros r. destruct (ckey_eq v r) eqn:E.
  - now rewrite copy_qn_key, E, copy_qn_idem.
  - now rewrite E.
Qed.

Lemma clookup_cupd_some t v r f : clookup t v = Some r -> (forall x, ckey_eq v (f x) = ckey_eq v x) ->
  exists r', clookup (cupd t v f) v = Some r'.
Proof.
  unfold clookup, cupd. intros H Hf. induction t as [|x t IH]; [discriminate|]. cbn in *.
  destruct (ckey_eq v x) eqn:E.
  - rewrite Hf, E. eauto.
  - rewrite E. apply IH, H.
Qed.

Lemma find_app' {A} (p : A -> bool) l1 l2 :
  find p (l1 ++ l2) = match find p l1 with Some x => Some x | None => find p l2 end.
Proof. induction l1 as [|a l1 IH]; cbn; [reflexivity|]. destruct (p a); [reflexivity|exact IH]. Qed.

(* saving twice equals saving once, on a table where only the PAIR (id, region) identifies a row *)
Lemma csave_keyed_twice t v : res_tbl (csave_keyed (res_tbl (csave_keyed t v)) v) = res_tbl (csave_keyed t v).
Proof.
  unfold csave_keyed at 2 3. destruct (clookup t v) as [r|] eqn:L; cbn [res_tbl].
  - unfold csave_keyed. destruct (clookup_cupd_some t v r (copy_cols [CAge; CEmail] v) L (copy_qn_key v)) as [r' L'].
    rewrite L'. cbn [res_tbl]. apply cupd_idem.
  - rewrite (ccreate_other_member t (Some RAll) v L). cbn [res_tbl]. unfold csave_keyed.
    assert (L2 : clookup (t ++ [v]) v = Some v).
    { unfold clookup. rewrite find_app'. unfold clookup in L. rewrite L. cbn. now rewrite ckey_refl. }
    rewrite L2. cbn [res_tbl]. unfold cupd. rewrite map_app. cbn [map]. rewrite ckey_refl, copy_qn_self. f_equal.
    rewrite <- (map_id t) at 2. apply map_ext_in. intros x Hx. now rewrite (clookup_none_all t v L x Hx).
Qed.

(* a value with a zero-valued key member is INSERTED whatever rows share its other member *)
Lemma csave_zero_member t v : ckey_zero v = true -> clookup t v = None ->
  csave t v = mk_result v 1 false 1 (t ++ [v]).
Proof. intros Z L. unfold csave. rewrite Z. now apply ccreate_other_member. Qed.

(* ... also for a value with a zero-valued key member: the first Save inserts it (or fails on a stored row
   with that very key), the second one fails and leaves the table as it is *)
Lemma csave_twice t v : res_tbl (csave (res_tbl (csave t v)) v) = res_tbl (csave t v).
Proof.
  unfold csave. destruct (ckey_zero v); [|apply csave_keyed_twice].
  unfold ccreate at 2 3. destruct (clookup t v) as [r|] eqn:L; cbn [res_tbl].
  - unfold ccreate. now rewrite L.
  - unfold ccreate. assert (L2 : clookup (t ++ [v]) v = Some v).
    { unfold clookup. rewrite find_app'. unfold clookup in L. rewrite L. cbn. now rewrite ckey_refl. }
    now rewrite L2.
Qed.
