(* C12_Check.v — correspondence checker for C12.
   model_agrees: after every operation the model's foreign-key columns / join rows, target table,
   Count, Find and in-memory fields equal what real gorm + SQLite produced.
   spec_holds: written from the property text on the OBSERVED snapshots: each operation changes each
   owner's stored link set as the finite-set reading says, Count/Find report exactly those links,
   the distinct in-memory records are exactly those links, associated records survive (and no kept
   link loses its record). *)
From Verif Require Export Base C12_Model.
Open Scope Z_scope.

Fixpoint insz (x : Z) (l : list Z) : list Z :=
  match l with [] => [x] | y :: r => if x <=? y then x :: l else y :: insz x r end.
Definition sortz (l : list Z) : list Z := fold_right insz [] l.
Fixpoint dedup_sorted (l : list Z) : list Z :=
  match l with
  | a :: ((b :: _) as r) => if a =? b then dedup_sorted r else a :: dedup_sorted r
  | _ => l
  end.
Definition setz (l : list Z) : list Z := dedup_sorted (sortz l).
Definition set_eqb (a b : list Z) : bool := zlist_eqb (setz a) (setz b).
Definition subset (a b : list Z) : bool := forallb (fun x => memz x b) a.

(* one snapshot, taken after an operation (or before the first one) *)
Record snap := mk_snap {
  n_links : list (list Z);   (* per owner of the handle: raw foreign-key column / join rows (ids) *)
  n_tgts  : list Z;          (* ids of all rows of the target (child) table *)
  n_count : Z;               (* Association(...).Count() *)
  n_find  : list Z;          (* ids returned by Association(...).Find() *)
  n_mem   : list (list Z);   (* per owner: ids held by the in-memory relation field, in order *)
  n_other : list (Z * Z);    (* raw links of the same tables that do not belong to the handle *)
  n_err   : Z                (* 0 = the operation returned no error *)
}.

Record case := mk_case {
  c_kind : kind;
  c_os : list Z;                 (* owners of the handle *)
  c_init : st;                   (* tables as dumped before the first operation; memory empty *)
  c_ops : list (bool * op);      (* (Unscoped?, operation as executed: new targets carry their assigned ids) *)
  c_snap0 : snap;
  c_snaps : list snap
}.

Definition snap_of (k : kind) (os : list Z) (se : st * bool) : snap :=
  let s := fst se in
  mk_snap (map (fun o => sortz (links k s o)) os) (sortz (all_targets k s))
          (count_ids k os s) (sortz (find_ids k os s)) (mem s) (others k os s) (if snd se then 1 else 0).

Definition lists_eqb (a b : list (list Z)) : bool := list_eqb zlist_eqb a b.
Definition pairs_sub (a b : list (Z * Z)) : bool := forallb (fun p => memp p b) a.
Definition pairs_seteq (a b : list (Z * Z)) : bool := pairs_sub a b && pairs_sub b a.
Definition snap_eqb (a b : snap) : bool :=
  lists_eqb (n_links a) (n_links b) && zlist_eqb (n_tgts a) (n_tgts b)
  && (n_count a =? n_count b) && zlist_eqb (n_find a) (n_find b)
  && lists_eqb (n_mem a) (n_mem b) && pairs_seteq (n_other a) (n_other b) && (n_err a =? n_err b).

Definition model_agrees (c : case) : bool :=
  snap_eqb (c_snap0 c) (snap_of (c_kind c) (c_os c) (c_init c, false))
  && list_eqb snap_eqb (c_snaps c) (map (snap_of (c_kind c) (c_os c)) (run (c_kind c) (c_os c) (c_init c) (c_ops c))).

(* ---- the property, step by step on the observed snapshots ---- *)
Definition snapshot_ok (k : kind) (s : snap) : bool :=
  let all := List.concat (n_links s) in
  (* Count and Find report exactly the stored links (belongs to: the distinct linked records,
     several owners may share one) *)
  let reported := match k with KBelongs => setz all | _ => sortz all end in
  (n_count s =? Z.of_nat (length reported))
  && zlist_eqb (n_find s) reported
  (* the distinct in-memory records are exactly the links *)
  && (length (n_mem s) =? length (n_links s))%nat
  && forallb (fun p => set_eqb (fst p) (snd p)) (combine (n_mem s) (n_links s))
  (* every stored link points at an existing record *)
  && subset all (n_tgts s).

Definition step_ok (k : kind) (before after : snap) (uo : bool * op) : bool :=
  let '(u, o) := uo in
  (n_err after =? 0)
  && (length (n_links after) =? length (n_links before))%nat
  && forallb (fun p => set_eqb (fst p) (snd p))
             (combine (n_links after) (spec_step k o (n_links before)))
  (* only the links of THIS relation and handle change: every other link of the same tables stays,
     except that a has-one / has-many target given to an owner of the handle leaves its previous owner *)
  && (let given := List.concat (op_values o (length (n_links before))) in
      pairs_seteq (n_other after)
        (match k with
         | KHasOne | KHasMany => filter (fun p => negb (memz (fst p) given)) (n_other before)
         | _ => n_other before
         end))
  (* only links are removed: associated records survive unless Unscoped *)
  && (u || subset (n_tgts before) (n_tgts after))
  (* ... and WITH Unscoped the records of the removed links are removed too (has one / has many /
     belongs to; many2many only ever deletes join rows): a record that was linked to an owner of
     the handle before and is linked to none of them after must be gone *)
  && (negb u
      || match k with KM2M => true | _ =>
           let linked_after := List.concat (n_links after) in
           forallb (fun t => memz t linked_after || negb (memz t (n_tgts after)))
                   (List.concat (n_links before))
         end)
  && snapshot_ok k after.

Fixpoint steps_ok (k : kind) (prev : snap) (snaps : list snap) (ops : list (bool * op)) : bool :=
  match snaps, ops with
  | [], [] => true
  | s :: snaps', o :: ops' => step_ok k prev s o && steps_ok k s snaps' ops'
  | _, _ => false
  end.

Definition spec_holds (c : case) : bool :=
  snapshot_ok (c_kind c) (c_snap0 c) && steps_ok (c_kind c) (c_snap0 c) (c_snaps c) (c_ops c).

Definition check_case (c : case) : N := code_of (model_agrees c) (spec_holds c).

(* diagnosis helper (not part of the verdict): index of the first operation whose step_ok fails *)
Fixpoint first_bad (k : kind) (prev : snap) (snaps : list snap) (ops : list (bool * op)) (i : N) : option N :=
  match snaps, ops with
  | s :: snaps', o :: ops' => if step_ok k prev s o then first_bad k s snaps' ops' (N.succ i) else Some i
  | _, _ => None
  end.
Definition diag (c : case) : option N := first_bad (c_kind c) (c_snap0 c) (c_snaps c) (c_ops c) 0.
