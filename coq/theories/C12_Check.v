(* C12_Check.v — correspondence checker for C12.
   model_agrees: after every operation the object-level model's (C12_Elems.run_e) foreign-key columns /
   join rows, target table, Count, Find, in-memory fields and the in-memory key of every held element
   equal what real gorm + SQLite produced; the key-level model (C12_Model.run) on the erased history
   gives the same tables.
   spec_holds: written from the property text on the OBSERVED snapshots: each operation changes each
   owner's stored link set as the finite-set reading says, Count/Find report exactly those links,
   the distinct in-memory records are exactly those links and carry their owner's key, only the links
   of this relation and handle change, associated records survive (and no kept link loses its record). *)
From Verif Require Export Base C12_Model C12_Elems.
Open Scope Z_scope.

Fixpoint insz (x : Z) (l : list Z) : list Z :=
  match l with [] => [x] | y :: r => if x <=? y then x :: l else y :: insz x r end.
Definition sortz (l : list Z) : list Z := fold_right insz [] l.
Fixpoint dedup_sorted (l : list Z) : list Z :=
  match l with
  | a :: ((b :: _) as r) => if a =? b then dedup_sorted r else a :: dedup_sorted r
  | _ => l
  end.
Definition setz (l : list Z) : list Z := dedup_sorted (sortz l).
Definition set_eqb (a b : list Z) : bool := zlist_eqb (setz a) (setz b).
Definition subset (a b : list Z) : bool := forallb (fun x => memz x b) a.

(* one snapshot, taken after an operation (or before the first one) *)
Record snap := mk_snap {
  n_links : list (list Z);   (* per owner of the handle: raw foreign-key column / join rows (ids) *)
  n_tgts  : list Z;          (* ids of all rows of the target (child) table *)
  n_count : Z;               (* Association(...).Count() *)
  n_find  : list Z;          (* ids returned by Association(...).Find() *)
  n_mem   : list (list Z);   (* per owner: ids held by the in-memory relation field, in order *)
  n_fks   : list (list (option Z)); (* per owner: what the foreign-key FIELD of each held element holds in
                                memory (has one / has many; as an owner id), None = unset / no such field *)
  n_other : list (Z * Z);    (* raw links of the same tables that do not belong to the handle *)
  n_err   : Z                (* 0 = the operation returned no error *)
}.

Record case := mk_case {
  c_kind : kind;
  c_os : list Z;                 (* owners of the handle *)
  c_init : est;                  (* tables as dumped before the first operation; the in-memory fields as loaded *)
  c_eops : list (bool * eop);    (* (Unscoped?, operation as executed: the objects passed - new targets carry
                                    their assigned ids, every object the foreign key its field held when the
                                    call was made - or references into the owner's own relation field) *)
  c_snap0 : snap;
  c_snaps : list snap
}.

Definition snap_of (k : kind) (os : list Z) (fks : list (list (option Z))) (se : st * bool) : snap :=
  let s := fst se in
  mk_snap (map (fun o => sortz (links k s o)) os) (sortz (all_targets k s))
          (count_ids k os s) (sortz (find_ids k os s)) (mem s) fks (others k os s) (if snd se then 1 else 0).
(* a state of the object-level model (C12_Elems): the tables and ids through to_st, plus the key fields *)
Definition snap_of_e (k : kind) (os : list Z) (e : est) : snap :=
  snap_of k os (map (map snd) (e_mem e)) (to_st e, false).

Definition lists_eqb (a b : list (list Z)) : bool := list_eqb zlist_eqb a b.
Definition pairs_sub (a b : list (Z * Z)) : bool := forallb (fun p => memp p b) a.
Definition pairs_seteq (a b : list (Z * Z)) : bool := pairs_sub a b && pairs_sub b a.
Definition snap_eqb (a b : snap) : bool :=
  lists_eqb (n_links a) (n_links b) && zlist_eqb (n_tgts a) (n_tgts b)
  && (n_count a =? n_count b) && zlist_eqb (n_find a) (n_find b)
  && lists_eqb (n_mem a) (n_mem b)
  && list_eqb (list_eqb (option_eqb Z.eqb)) (n_fks a) (n_fks b) && pairs_seteq (n_other a) (n_other b) && (n_err a =? n_err b).

(* the object-level model (run_e) against every observed snapshot; and the key-level model (run) on the
   erased history gives the same tables, ids and errors (C12_ElemsProofs proves it for all inputs) *)
Definition snap_eqb_keys (a b : snap) : bool :=
  snap_eqb a (mk_snap (n_links b) (n_tgts b) (n_count b) (n_find b) (n_mem b) (n_fks a) (n_other b) (n_err b)).
Definition model_agrees (c : case) : bool :=
  let k := c_kind c in let os := c_os c in
  snap_eqb (c_snap0 c) (snap_of_e k os (c_init c))
  && list_eqb snap_eqb (c_snaps c) (map (snap_of_e k os) (run_e k os (c_init c) (c_eops c)))
  && list_eqb snap_eqb_keys (c_snaps c)
       (map (snap_of k os []) (run k os (to_st (c_init c)) (erase_hist k os (c_init c) (c_eops c)))).

(* ---- the property, step by step on the observed snapshots ---- *)
Definition snapshot_ok (k : kind) (os : list Z) (s : snap) : bool :=
  let all := List.concat (n_links s) in
  (* Count and Find report exactly the stored links (belongs to: the distinct linked records,
     several owners may share one) *)
  let reported := match k with KBelongs => setz all | _ => sortz all end in
  (n_count s =? Z.of_nat (length reported))
  && zlist_eqb (n_find s) reported
  (* the distinct in-memory records are exactly the links *)
  && (length (n_mem s) =? length (n_links s))%nat
  && forallb (fun p => set_eqb (fst p) (snd p)) (combine (n_mem s) (n_links s))
  (* ... and every element a has-one / has-many field holds carries ITS OWNER's key in its foreign-key
     field: the in-memory value names the same link as the stored one *)
  && (length (n_fks s) =? length (n_mem s))%nat
  && match k with
     | KHasOne | KHasMany =>
         forallb (fun p => forallb (fun f => option_eqb Z.eqb f (Some (fst p))) (snd p)) (combine os (n_fks s))
     | _ => true
     end
  (* every stored link points at an existing record *)
  && subset all (n_tgts s).

(* the call as the property reads it: the primary keys of the records passed.  A reference into the
   owner's own relation field names the record that field held BEFORE the call (observed snapshot). *)
Definition obs_vals (before : snap) (vs : list (list arg)) : list (list Z) :=
  map (fun mv => map (fun a => match a with AObj t _ => t | ARef p => nth p (fst mv) 0 end) (snd mv))
      (combine (n_mem before) vs).
Definition obs_op (before : snap) (o : eop) : op :=
  match o with
  | EAppend vs => OAppend (obs_vals before vs)
  | EReplace vs => OReplace (obs_vals before vs)
  | EDelete ts => ODelete ts
  | EClear => OClear
  | EAppendNone => OAppendNone
  end.

Definition step_ok (k : kind) (os : list Z) (before after : snap) (ueo : bool * eop) : bool :=
  let '(u, eo) := ueo in
  let o := obs_op before eo in
  (n_err after =? 0)
  && (length (n_links after) =? length (n_links before))%nat
  && forallb (fun p => set_eqb (fst p) (snd p))
             (combine (n_links after) (spec_step k o (n_links before)))
  (* only the links of THIS relation and handle change: every other link of the same tables stays,
     except that a has-one / has-many target given to an owner of the handle leaves its previous owner *)
  && (let given := List.concat (op_values o (length (n_links before))) in
      pairs_seteq (n_other after)
        (match k with
         | KHasOne | KHasMany => filter (fun p => negb (memz (fst p) given)) (n_other before)
         | _ => n_other before
         end))
  (* only links are removed: associated records survive unless Unscoped *)
  && (u || subset (n_tgts before) (n_tgts after))
  (* ... and WITH Unscoped the records of the removed links are removed too (has one / has many /
     belongs to; many2many only ever deletes join rows): a record that was linked to an owner of
     the handle before and is linked to none of them after must be gone *)
  && (negb u
      || match k with KM2M => true | _ =>
           let linked_after := List.concat (n_links after) in
           forallb (fun t => memz t linked_after || negb (memz t (n_tgts after)))
                   (List.concat (n_links before))
         end)
  && snapshot_ok k os after.

Fixpoint steps_ok (k : kind) (os : list Z) (prev : snap) (snaps : list snap) (ops : list (bool * eop)) : bool :=
  match snaps, ops with
  | [], [] => true
  | s :: snaps', o :: ops' => step_ok k os prev s o && steps_ok k os s snaps' ops'
  | _, _ => false
  end.

Definition spec_holds (c : case) : bool :=
  snapshot_ok (c_kind c) (c_os c) (c_snap0 c) && steps_ok (c_kind c) (c_os c) (c_snap0 c) (c_snaps c) (c_eops c).

Definition check_case (c : case) : N := code_of (model_agrees c) (spec_holds c).

(* diagnosis helper (not part of the verdict): index of the first operation whose step_ok fails *)
Fixpoint first_bad (k : kind) (os : list Z) (prev : snap) (snaps : list snap) (ops : list (bool * eop)) (i : N) : option N :=
  match snaps, ops with
  | s :: snaps', o :: ops' => if step_ok k os prev s o then first_bad k os s snaps' ops' (N.succ i) else Some i
  | _, _ => None
  end.
Definition diag (c : case) : option N := first_bad (c_kind c) (c_os c) (c_snap0 c) (c_snaps c) (c_eops c) 0.
