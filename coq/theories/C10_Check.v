(* C10_Check.v — correspondence checker for C10.  One case = one write finisher that real gorm
   executed on a 4-row table:
   model_agrees: the model predicts exactly the observed cell diff (row, column, value source), the
                 error flag, and gorm parsed the permission tags into the flags [perm] computes;
   spec_holds:   the property (C10_Spec.spec_case) holds of the observed diff. *)
From Verif Require Export Base C10_Model C10_Spec.
Open Scope Z_scope.

Record pf := mk_pf { pf_name : string; pf_db : string; pf_c : bool; pf_u : bool; pf_r : bool }.

Record case := mk_case {
  k_table : string; k_schema : schema; k_op : op;
  k_selects : list sitem; k_omits : list sitem;
  k_rows : list payload; k_stored : list srow; k_model_key : mkey; k_where : option (list Z);
  k_vschema : option schema;             (* the value's own struct type, when it is not the model's *)
  k_earlier : list (bool * payload);     (* map updates made before through the same handle: (skip_hooks, map) *)
  (* observed *)
  o_cells : list cell; o_err : bool; o_parsed : list pf; o_vparsed : list pf; o_setup_failed : bool
}.

Fixpoint all2 {A B} (f : A -> B -> bool) (la : list A) (lb : list B) : bool :=
  match la, lb with
  | [], [] => true
  | a :: la', b :: lb' => f a b && all2 f la' lb'
  | _, _ => false
  end.

Definition cells_eqb : list cell -> list cell -> bool := list_eqb cell_eqb.

Definition pf_agrees (f : field) (p : pf) : bool :=
  String.eqb (pf_name p) (f_name f) && String.eqb (pf_db p) (f_db f)
  && Bool.eqb (pf_c p) (creatable f) && Bool.eqb (pf_u p) (updatable f) && Bool.eqb (pf_r p) (readable f).

Definition model_agrees (c : case) : bool :=
  let m := run_case (k_schema c) (k_table c) (k_op c) (k_selects c) (k_omits c) (k_rows c)
                    (k_stored c) (k_model_key c) (k_where c) (k_vschema c) (k_earlier c) in
  negb (o_setup_failed c)
  (* the hypotheses of the Props_C10 theorems hold of this case *)
  && wfb (k_schema c) && local (k_table c) (k_selects c) && local (k_table c) (k_omits c)
  && raw_dom (k_schema c) (k_selects c) (k_omits c) (k_rows c)
  && match k_vschema c with
     | Some us => wfb us && patch_dom (k_schema c) us && all2 pf_agrees us (o_vparsed c)
     | None => true
     end
  && Bool.eqb (o_err c) (out_err m)
  && cells_eqb (o_cells c) (out_cells m)
  && all2 pf_agrees (k_schema c) (o_parsed c).

Definition spec_holds (c : case) : bool :=
  negb (o_setup_failed c)
  && spec_case (k_schema c) (k_table c) (k_op c) (k_selects c) (k_omits c) (k_rows c)
               (k_stored c) (k_model_key c) (k_where c) (k_vschema c) (o_cells c) (o_err c).

Definition check_case (c : case) : N := code_of (model_agrees c) (spec_holds c).
