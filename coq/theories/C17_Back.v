(* C17_Back.v — the "backward" domain, part 1: one compile.
   Before/After requests that name a callback registered EARLIER in p.callbacks (built-in or user) or a
   name under which nothing is registered, no "*".  Every request met by sortCallback is then inert at
   the moment the callback is visited (its target is already in [sorted], or is no callback at all):
   the closure neither recurses nor writes, and sortCallbacks is the simple insertion procedure
   [C17_Plugin.simple_loop].  The plugin domain (targets = built-ins only) is the special case in which
   the set of already sorted names is frozen after the built-ins; here it grows with the loop. *)
From Verif Require Import Base C17_Model C17_Check C17_Proofs C17_Plugin C17_Plugin2.
From Coq Require Import Permutation.
Open Scope string_scope.
Open Scope list_scope.

Lemma simple_cb_in : forall sorted c s', simple_cb sorted c = Some s' -> In (cb_name c) s'.
Proof.
  intros sorted c s' H. destruct (simple_cb_shape _ _ _ H) as [[Hin ->]|[_ [k ->]]]; [exact Hin|].
  apply in_insert_at. left. reflexivity.
Qed.

Lemma ready_incl : forall S1 S2 names c, incl S1 S2 -> ready S1 names c -> ready S2 names c.
Proof.
  intros S1 S2 names c Hi (Ns & Ib & Ia). split; [exact Ns|].
  split; [destruct Ib as [H|[H|H]]|destruct Ia as [H|[H|H]]]; unfold inert; auto.
Qed.

(* the loop over a suffix of cs; Sd = names known to be sorted already, growing with the loop *)
Lemma sort_loop_back : forall names post rest Sd pre cs sorted f,
  cs = pre ++ rest ++ post ->
  (forall r1 c r2, rest = r1 ++ c :: r2 -> ready (Sd ++ map cb_name r1) names c) ->
  incl Sd sorted ->
  match simple_loop sorted rest with
  | Some s' => sort_loop (Datatypes.S f) names (mk_sst cs sorted) (length pre) (length rest) = Done (mk_sst cs s')
  | None => is_conflict cs (sort_loop (Datatypes.S f) names (mk_sst cs sorted) (length pre) (length rest))
  end.
Proof.
  intros names post rest. induction rest as [|c rest IH]; intros Sd pre cs sorted f Hcs HR HS;
    cbn [simple_loop sort_loop length].
  - reflexivity.
  - assert (Hc : nth_error cs (length pre) = Some c).
    { subst cs. rewrite nth_error_app2 by lia. now rewrite Nat.sub_diag. }
    assert (Rc : ready Sd names c).
    { pose proof (HR [] c rest eq_refl) as R. cbn in R. now rewrite app_nil_r in R. }
    pose proof (sort_cb_simple Sd names cs sorted c (length pre) f Hc Rc HS) as H1.
    destruct (simple_cb sorted c) as [s1|] eqn:E1.
    + rewrite H1.
      assert (HS1 : incl (Sd ++ [cb_name c]) s1).
      { intros x Hx. apply in_app_iff in Hx. destruct Hx as [Hx|[<-|[]]].
        - eapply simple_cb_grows; eauto.
        - eapply simple_cb_in; eauto. }
      specialize (IH (Sd ++ [cb_name c]) (pre ++ [c]) cs s1 f).
      rewrite app_length in IH. cbn [length] in IH. rewrite Nat.add_1_r in IH.
      apply IH; auto.
      * subst cs. rewrite <- app_assoc. reflexivity.
      * intros r1 d r2 E. rewrite <- app_assoc. cbn [app].
        apply (HR (c :: r1) d r2). cbn. now rewrite E.
    + destruct H1 as (st & n & t & -> & Hst). eexists _, _, _. split; [reflexivity|exact Hst].
Qed.

(* ------------------------------------------------------------------ one compile in the backward domain *)
(* cs = B ++ U : B the plain built-in originals (distinct names); every request of a callback of U names
   something that stands in front of it in cs, or no callback of cs *)
Record back_ok (B U : list cb) : Prop := {
  bo_plain : forall b, In b B -> plain b;
  bo_nodup : NoDup (map cb_name B);
  bo_ready : forall pre c post, U = pre ++ c :: post ->
             ready (map cb_name (B ++ pre)) (map cb_name (B ++ U)) c
}.

Lemma back_ok_nostar : forall B U, back_ok B U -> forall c, In c (B ++ U) -> nostar c.
Proof.
  intros B U [HP _ HR] c Hc. apply in_app_iff in Hc. destruct Hc as [Hc|Hc].
  - destruct (HP c Hc) as [A B']. unfold nostar. now rewrite A, B'.
  - destruct (in_split _ _ Hc) as (pre & post & E). apply (HR pre c post E).
Qed.

Lemma back_sort_loop : forall B U f,
  back_ok B U ->
  let cs := B ++ U in
  match simple_loop [] cs with
  | Some s => sort_loop (Datatypes.S f) (map cb_name cs) (mk_sst cs []) 0 (length cs) = Done (mk_sst cs s)
  | None => is_conflict cs (sort_loop (Datatypes.S f) (map cb_name cs) (mk_sst cs []) 0 (length cs))
  end.
Proof.
  intros B U f [HP HN HR]. cbn zeta.
  set (names := map cb_name (B ++ U)).
  rewrite app_length, sort_loop_app, simple_loop_app.
  pose proof (sort_loop_simple [] names U B [] (B ++ U) [] f eq_refl
               (fun c Hc => plain_ready [] names c (HP c Hc)) (incl_refl _)) as P1.
  rewrite (simple_loop_plain B [] HP HN (fun _ _ H => H)) in *. cbn [app length] in P1.
  rewrite P1. cbn [Nat.add app].
  apply (sort_loop_back names [] U (map cb_name B) B (B ++ U) (map cb_name B) f).
  - now rewrite app_nil_r.
  - intros r1 c r2 E. rewrite <- map_app. apply (HR r1 c r2 E).
  - apply incl_refl.
Qed.

Theorem back_compile : forall B U,
  back_ok B U ->
  match simple_loop [] (B ++ U) with
  | Some s => sort_callbacks (B ++ U) = SOk (B ++ U) (pick (B ++ U) (map cb_name (B ++ U)) s)
  | None => exists n t, sort_callbacks (B ++ U) = SErr (B ++ U) n t
  end.
Proof.
  intros B U OK.
  unfold sort_callbacks. rewrite (presort_nostar (B ++ U) (back_ok_nostar B U OK)).
  assert (Hf : depth_fuel (B ++ U) = Datatypes.S (2 * length (B ++ U) + 1)) by (unfold depth_fuel; lia).
  rewrite Hf. pose proof (back_sort_loop B U (2 * length (B ++ U) + 1) OK) as L. cbn zeta in L.
  destruct (simple_loop [] (B ++ U)) as [s|].
  - rewrite L. reflexivity.
  - destruct L as (st & n & t & -> & Hst). exists n, t. now rewrite Hst.
Qed.

(* ------------------------------------------------------------------ sides, for targets placed by the loop itself *)
Lemma simple_loop_sides_back : forall pre c post sorted s,
  simple_loop sorted (pre ++ c :: post) = Some s -> NoDup sorted ->
  ~ In (cb_name c) sorted -> ~ In (cb_name c) (map cb_name pre) ->
  (In (cb_before c) (sorted ++ map cb_name pre) -> is_none (cb_before c) = false ->
   ord s (cb_name c) (cb_before c))
  /\ (In (cb_after c) (sorted ++ map cb_name pre) -> is_none (cb_after c) = false -> cb_after c <> cb_name c ->
      ord s (cb_after c) (cb_name c)).
Proof.
  intros pre c post sorted s H Hnd Hs Hp.
  rewrite simple_loop_app in H. destruct (simple_loop sorted pre) as [s0|] eqn:E0; [|discriminate].
  cbn [simple_loop] in H. destruct (simple_cb s0 c) as [s1|] eqn:E1; [|discriminate].
  destruct (simple_loop_props _ _ _ E0 Hnd) as (N0 & G0 & _ & A0 & U0 & _).
  assert (Hout0 : ~ In (cb_name c) s0).
  { intro Hin. apply U0 in Hin. apply in_app_iff in Hin. tauto. }
  assert (Hin0 : forall t, In t (sorted ++ map cb_name pre) -> In t s0).
  { intros t Ht. apply in_app_iff in Ht. destruct Ht as [Ht|Ht]; [apply G0, Ht|].
    apply in_map_iff in Ht. destruct Ht as (d & <- & Hd). apply A0, Hd. }
  assert (N1 : NoDup s1).
  { destruct (simple_cb_shape _ _ _ E1) as [[_ ->]|[Hout [k ->]]]; [exact N0|apply nodup_insert_at; assumption]. }
  destruct (simple_loop_props _ _ _ H N1) as (_ & _ & O1 & _).
  split.
  - intros Ht Hn. apply O1. eapply simple_cb_before_side; eauto.
  - intros Ht Hn Hne. apply O1. eapply simple_cb_after_side; eauto.
Qed.

(* a plain copy of a name that is already there changes nothing (Replace) *)
Lemma simple_loop_copy : forall cs n i s,
  In n (map cb_name cs) -> simple_loop [] cs = Some s ->
  simple_loop [] (cs ++ [mk_cb n "" "" false true true i]) = Some s.
Proof.
  intros cs n i s Hn Hs. rewrite simple_loop_app, Hs. cbn [simple_loop].
  rewrite simple_cb_plain by (split; reflexivity). cbn [cb_name].
  destruct (simple_loop_props _ _ _ Hs (NoDup_nil _)) as (_ & _ & _ & A & _).
  assert (Hin : In n s).
  { apply in_map_iff in Hn. destruct Hn as (c & <- & Hc). apply A, Hc. }
  unfold simple_finish. apply absent_false in Hin. now rewrite Hin.
Qed.

(* callbacks without any request fire in the order of their (first) registration *)
Lemma simple_loop_plain_order : forall pre c mid d post sorted s,
  simple_loop sorted (pre ++ c :: mid ++ d :: post) = Some s -> NoDup sorted ->
  plain d -> ~ In (cb_name d) sorted -> ~ In (cb_name d) (map cb_name (pre ++ c :: mid)) ->
  ord s (cb_name c) (cb_name d).
Proof.
  intros pre c mid d post sorted s H Hnd Pd Hs Hp.
  replace (pre ++ c :: mid ++ d :: post) with ((pre ++ c :: mid) ++ d :: post) in H
    by (rewrite <- app_assoc; reflexivity).
  rewrite simple_loop_app in H. destruct (simple_loop sorted (pre ++ c :: mid)) as [s0|] eqn:E0; [|discriminate].
  cbn [simple_loop] in H. rewrite simple_cb_plain in H by exact Pd.
  destruct (simple_loop_props _ _ _ E0 Hnd) as (N0 & G0 & _ & A0 & U0 & _).
  assert (Hout0 : ~ In (cb_name d) s0).
  { intro Hin. apply U0 in Hin. apply in_app_iff in Hin. tauto. }
  assert (Hc0 : In (cb_name c) s0) by (apply A0, in_app_iff; right; left; reflexivity).
  unfold simple_finish in H. apply absent_true in Hout0 as Ea. rewrite Ea in H.
  assert (N1 : NoDup (s0 ++ [cb_name d])) by (apply nodup_snoc; assumption).
  destruct (simple_loop_props _ _ _ H N1) as (_ & _ & O1 & _).
  apply O1. exists s0, [cb_name d]. split; [reflexivity|]. split; [exact Hc0|left; reflexivity].
Qed.
