(* C18_Proofs.v — every driver call of an operation tree carries the caller's context. *)
From Verif Require Import Base C18_Model.
Open Scope Z_scope.

(* induction over operation trees (nested lists) *)
Section NodeInd.
  Variable P : node -> Prop.
  Hypothesis Hcall : forall k f, P (NCall k f).
  Hypothesis Hwrap : forall f inner, P (NWrapped f inner).
  Hypothesis Hsess : forall l body, Forall P body -> P (NSess l body).
  Hypothesis Hwith : forall c body, Forall P body -> P (NWith c body).
  Hypothesis Hbegin : forall l f body, Forall P body -> P (NBegin l f body).
  Hypothesis HbeginW : forall l f g body, Forall P body -> P (NBeginW l f g body).
  Fixpoint node_ind' (n : node) : P n :=
    match n with
    | NCall k f => Hcall k f
    | NWrapped f inner => Hwrap f inner
    | NSess l body => Hsess l body ((fix go (ns : list node) : Forall P ns :=
                         match ns with [] => Forall_nil P | x :: r => Forall_cons x (node_ind' x) (go r) end) body)
    | NWith c body => Hwith c body ((fix go (ns : list node) : Forall P ns :=
                         match ns with [] => Forall_nil P | x :: r => Forall_cons x (node_ind' x) (go r) end) body)
    | NBegin l f body => Hbegin l f body ((fix go (ns : list node) : Forall P ns :=
                         match ns with [] => Forall_nil P | x :: r => Forall_cons x (node_ind' x) (go r) end) body)
    | NBeginW l f g body => HbeginW l f g body ((fix go (ns : list node) : Forall P ns :=
                         match ns with [] => Forall_nil P | x :: r => Forall_cons x (node_ind' x) (go r) end) body)
    end.
End NodeInd.

Lemma get_instance_ctx : forall cp h, copies_ok cp = true -> h_ctx (get_instance cp h) = h_ctx h.
Proof.
  intros cp h C. unfold copies_ok in C. apply andb_prop in C. destruct C as [C C3]. apply andb_prop in C. destruct C as [C1 C2].
  unfold get_instance. destruct (h_clone h =? 0); [reflexivity|].
  destruct (h_clone h =? 1); cbn; [rewrite C1 | rewrite C2]; reflexivity.
Qed.

Lemma session_keeps : forall cp l p h, copies_ok cp = true -> session_keeps_ctx l = true ->
  h_ctx (session cp l p h) = h_ctx h.
Proof.
  intros cp l p h C K. unfold session, session_keeps_ctx in *.
  assert (C3 : cp_session cp = true) by (unfold copies_ok in C; apply andb_prop in C; apply C).
  assert (C2 : cp_clone cp = true).
  { unfold copies_ok in C. apply andb_prop in C. destruct C as [C _]. apply andb_prop in C. apply C. }
  destruct (l_ctx l); try discriminate; cbn [eval_form]; rewrite ?C3, ?C2;
    destruct (l_own l); destruct (l_init l); rewrite ?get_instance_ctx by exact C; reflexivity.
Qed.

Lemma session_rebinds : forall cp c h, copies_ok cp = true ->
  h_ctx (session cp (mk_slit FParam false false false) c h) = c.
Proof.
  intros cp c h C. unfold session. cbn.
  assert (C3 : cp_session cp = true) by (unfold copies_ok in C; apply andb_prop in C; apply C).
  rewrite C3. reflexivity.
Qed.

Lemma run_list_eq : forall cp ns h,
  (fix go (ns : list node) : list call := match ns with [] => [] | x :: r => run cp x h ++ go r end) ns
  = flat_map (fun x => run cp x h) ns.
Proof. intros cp ns h. induction ns as [|x r IH]; [reflexivity|]. cbn [flat_map]. rewrite IH. reflexivity. Qed.

Lemma flat_map_ext_forall {A B} (f g : A -> list B) (l : list A) :
  Forall (fun x => f x = g x) l -> flat_map f l = flat_map g l.
Proof. induction 1; cbn; congruence. Qed.

(* the main statement: with the facts in place, the calls of [run] are exactly [expected] *)
Theorem run_expected : forall cp n h, copies_ok cp = true -> node_ok n = true ->
  run cp n h = expected n (h_ctx h).
Proof.
  intros cp n. induction n as [k f | f inner | l body IH | c body IH | l f body IH | l f g body IH] using node_ind'; intros h C OK.
  - cbn in *. unfold site_passes_stmt_ctx in OK. destruct f; try discriminate.
    unfold arg_ctx. cbn. rewrite get_instance_ctx by exact C. reflexivity.
  - cbn in *. apply andb_prop in OK. destruct OK as [O1 O2].
    unfold site_passes_stmt_ctx in O1. destruct f; try discriminate.
    assert (P : arg_ctx FStmt (get_instance cp h) ctx_unknown = h_ctx h).
    { unfold arg_ctx. cbn [eval_form]. apply get_instance_ctx. exact C. }
    rewrite P.
    induction inner as [|[k f'] r IHr]; [reflexivity|]. cbn in *. apply andb_prop in O2. destruct O2 as [A B].
    unfold site_passes_param in A. destruct f'; try discriminate. cbn. f_equal. apply IHr. exact B.
  - cbn [run expected node_ok] in *. apply andb_prop in OK. destruct OK as [K B].
    rewrite run_list_eq. apply flat_map_ext_forall.
    rewrite Forall_forall in *. intros x Hin. rewrite IH; try assumption.
    + rewrite session_keeps by assumption. reflexivity.
    + rewrite forallb_forall in B. apply B. exact Hin.
  - cbn [run expected node_ok] in *.
    rewrite run_list_eq. apply flat_map_ext_forall.
    rewrite Forall_forall in *. intros x Hin. rewrite IH; try assumption.
    + rewrite session_rebinds by assumption. reflexivity.
    + rewrite forallb_forall in OK. apply OK. exact Hin.
  - cbn [run expected node_ok] in *. apply andb_prop in OK. destruct OK as [K B]. apply andb_prop in K. destruct K as [K S].
    unfold site_passes_stmt_ctx in S. destruct f; try discriminate.
    assert (HC : h_ctx (session cp l ctx_unknown (get_instance cp h)) = h_ctx h).
    { rewrite session_keeps by assumption. apply get_instance_ctx. exact C. }
    unfold arg_ctx. cbn [eval_form]. rewrite HC. f_equal.
    rewrite run_list_eq. apply flat_map_ext_forall.
    rewrite Forall_forall in *. intros x Hin. rewrite IH; try assumption.
    + rewrite HC. reflexivity.
    + rewrite forallb_forall in B. apply B. exact Hin.
  - cbn [run expected node_ok] in *. apply andb_prop in OK. destruct OK as [K B]. apply andb_prop in K. destruct K as [K G].
    apply andb_prop in K. destruct K as [K S].
    unfold site_passes_stmt_ctx in S. destruct f; try discriminate.
    unfold site_passes_param in G. destruct g; try discriminate.
    assert (HC : h_ctx (session cp l ctx_unknown (get_instance cp h)) = h_ctx h).
    { rewrite session_keeps by assumption. apply get_instance_ctx. exact C. }
    unfold arg_ctx. cbn [eval_form]. rewrite HC. f_equal.
    rewrite run_list_eq. apply flat_map_ext_forall.
    rewrite Forall_forall in *. intros x Hin. rewrite IH; try assumption.
    + rewrite HC. reflexivity.
    + rewrite forallb_forall in B. apply B. exact Hin.
Qed.

(* without an explicit rebinding inside, every call carries the context of the handle the operation
   was started from *)
Lemma expected_no_rebind : forall n c, has_rebind n = false -> Forall (fun kc => snd kc = c) (expected n c).
Proof.
  intros n. induction n as [k f | f inner | l body IH | c' body IH | l f body IH | l f g body IH] using node_ind'; intros c NR.
  - cbn. repeat constructor.
  - cbn. apply Forall_forall. intros x Hin. apply in_map_iff in Hin. destruct Hin as (y & <- & _). reflexivity.
  - cbn in *. apply Forall_forall. intros x Hin. apply in_flat_map in Hin. destruct Hin as (y & Hy & Hx).
    rewrite Forall_forall in IH. specialize (IH y Hy c).
    assert (has_rebind y = false).
    { destruct (has_rebind y) eqn:E; [|reflexivity]. exfalso.
      assert (existsb has_rebind body = true) by (apply existsb_exists; exists y; auto). congruence. }
    rewrite Forall_forall in IH. apply IH; assumption.
  - cbn in NR. discriminate.
  - cbn in *. constructor; [reflexivity|]. apply Forall_forall. intros x Hin. apply in_flat_map in Hin. destruct Hin as (y & Hy & Hx).
    rewrite Forall_forall in IH. specialize (IH y Hy c).
    assert (has_rebind y = false).
    { destruct (has_rebind y) eqn:E; [|reflexivity]. exfalso.
      assert (existsb has_rebind body = true) by (apply existsb_exists; exists y; auto). congruence. }
    rewrite Forall_forall in IH. apply IH; assumption.
  - cbn in *. constructor; [reflexivity|]. apply Forall_forall. intros x Hin. apply in_flat_map in Hin. destruct Hin as (y & Hy & Hx).
    rewrite Forall_forall in IH. specialize (IH y Hy c).
    assert (has_rebind y = false).
    { destruct (has_rebind y) eqn:E; [|reflexivity]. exfalso.
      assert (existsb has_rebind body = true) by (apply existsb_exists; exists y; auto). congruence. }
    rewrite Forall_forall in IH. apply IH; assumption.
Qed.

Theorem ctx_preserved : forall cp n h, copies_ok cp = true -> node_ok n = true -> has_rebind n = false ->
  Forall (fun kc => snd kc = h_ctx h) (run cp n h).
Proof.
  intros cp n h C OK NR. rewrite run_expected by assumption. apply expected_no_rebind. exact NR.
Qed.

(* ---------------------------------------------------------------- a cancelled context *)
Section Cancelled.
  (* database/sql: a call whose context is already done is refused before it reaches the driver
     (BeginTx / ExecContext / QueryContext / PrepareContext check ctx.Done() first) *)
  Variable done : ctx -> bool.
  Variable reaches_driver : call -> bool.
  Hypothesis sql_refuses_done : forall k c, done c = true -> reaches_driver (k, c) = false.

  Theorem cancelled_runs_nothing : forall cp n h,
    copies_ok cp = true -> node_ok n = true -> has_rebind n = false -> done (h_ctx h) = true ->
    filter reaches_driver (run cp n h) = [].
  Proof.
    intros cp n h C OK NR D.
    pose proof (ctx_preserved cp n h C OK NR) as F.
    induction (run cp n h) as [|[k c] r IH]; [reflexivity|].
    inversion F as [|? ? Hc Fr]; subst. cbn [snd] in Hc. subst c. cbn [filter].
    rewrite sql_refuses_done by exact D. apply IH. exact Fr.
  Qed.
End Cancelled.

(* ---------------------------------------------------------------- what goes wrong otherwise (non-vacuity of the hypotheses) *)
Definition cp_all := mk_copies true true true.
Example bad_site_loses_ctx :
  run cp_all (NCall KExec FBackground) (mk_h 7 1) = [(KExec, 0)].
Proof. reflexivity. Qed.
Example bad_session_loses_ctx :
  run cp_all (NSess (mk_slit FBackground true false false) [NCall KQuery FStmt]) (mk_h 7 1) = [(KQuery, 0)].
Proof. reflexivity. Qed.
Example getinstance_must_copy :
  run (mk_copies false true true) (NSess (mk_slit FAbsent true false false) [NCall KQuery FStmt]) (mk_h 7 1) = [(KQuery, ctx_nil)].
Proof. reflexivity. Qed.
Example own_statement_needs_clone :
  run (mk_copies true false true) (NSess (mk_slit FAbsent true false true) [NCall KExec FStmt]) (mk_h 7 1) = [(KExec, ctx_nil)].
Proof. reflexivity. Qed.
Example good_tree :
  let t := NBegin (mk_slit FStmt true false false) FStmt
             [NCall KExec FStmt;
              NSess (mk_slit FAbsent true false false) [NSess (mk_slit FAbsent false false true) [NWrapped FStmt [(KPrepare, FParam); (KExec, FParam)]]];
              NSess (mk_slit FStmt true true true) [NCall KQuery FStmt]] in
  node_ok t = true /\ has_rebind t = false
  /\ run cp_all t (mk_h 7 1) = [(KBegin, 7); (KExec, 7); (KPrepare, 7); (KExec, 7); (KQuery, 7)].
Proof. repeat split. Qed.
