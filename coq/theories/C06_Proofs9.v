(* C06_Proofs9.v — corollaries: the tree's classification (Returning appends in place) is harmless for
   histories without a Returning clause; the proposed patch; Go's growth policy. *)
From Verif Require Import Base C06_Model C06_Proofs C06_Proofs2 C06_Proofs3 C06_Proofs8.
Open Scope nat_scope.

Definition inplace_free (md : field -> bool) : Prop := forall f, md f = false.

Lemma tree_md_free : inplace_free tree_md.
Proof. intro f. reflexivity. Qed.

(* fix 6cb0e65 (copy before append in Returning.MergeClause) is the only difference to the old tree *)
Lemma tree_md_is_patched_old : forall f, tree_md f = if field_eqb f FRet then false else old_md f.
Proof. intro f. destruct f; reflexivity. Qed.

Definition no_returning_op (o : op) : bool := match o with OReturning _ => false | _ => true end.
Definition no_returning_step (x : step) : bool :=
  match x with Derive _ o => no_returning_op o | _ => true end.

Section Irrel.
Variable grow : field -> nat -> nat -> nat.
Variables md md' : field -> bool.
Hypothesis Hag : forall f, f <> FRet -> md f = md' f.

Ltac irrel :=
  unfold m_where, m_order, m_group, merge_append;
  rewrite ?(Hag FWhere), ?(Hag FOrder), ?(Hag FGroup), ?(Hag FHaving) by discriminate; reflexivity.

Lemma apply_op_irrel s o : no_returning_op o = true -> apply_op grow md s o = apply_op grow md' s o.
Proof. intro H. destruct o; try discriminate H; cbn [apply_op]; try reflexivity; try irrel. Qed.

Lemma m_where_irrel s c : m_where grow md s c = m_where grow md' s c.
Proof. irrel. Qed.

Lemma run_scopes_irrel xs : forall s h, run_scopes grow md s xs h = run_scopes grow md' s xs h.
Proof.
  induction xs as [|x r IH]; intros s h; cbn [run_scopes]; auto.
  unfold bind. destruct (h_lit FWhere [x] h) as [[c h1] w1]. rewrite m_where_irrel.
  destruct (m_where grow md' s c h1) as [[s1 h2] w2]. rewrite IH. reflexivity.
Qed.

Lemma bind_ext {A B} (m m' : cmd A) (k k' : A -> cmd B) :
  (forall h, m h = m' h) -> (forall a h, k a h = k' a h) -> forall h, bind m k h = bind m' k' h.
Proof. intros Hm Hk h. unfold bind. rewrite Hm. destruct (m' h) as [[a h1] w1]. rewrite Hk. reflexivity. Qed.

Lemma finish_irrel s f h : finish grow md s f h = finish grow md' s f h.
Proof.
  unfold finish. apply bind_ext.
  - intro h0. destruct f; auto. irrel.
  - intros s1 h1. apply bind_ext; [|reflexivity].
    intro h0. unfold exec_scopes. apply bind_ext; [reflexivity|]. intros xs h2. apply run_scopes_irrel.
Qed.

Lemma do_step_irrel st x : no_returning_step x = true -> do_step grow md st x = do_step grow md' st x.
Proof.
  intro H. unfold do_step. destruct x as [p o | p k | p f | p]; auto.
  - cbn in H. destruct (get_instance _ _ _) as [[[sts1 i] h1] w1].
    unfold chain_op. rewrite (apply_op_irrel _ _ H). reflexivity.
  - destruct (get_instance _ _ _) as [[[sts1 i] h1] w1]. rewrite finish_irrel. reflexivity.
Qed.

Lemma run_hist_irrel hist : forallb no_returning_step hist = true ->
  run_hist grow md hist = run_hist grow md' hist.
Proof.
  unfold run_hist. generalize state0. induction hist as [|x r IH]; intros st H; cbn in *; auto.
  apply andb_prop in H. destruct H as (H1 & H2). rewrite (do_step_irrel _ _ H1). apply IH, H2.
Qed.
End Irrel.

(* even with Returning appending in place (the old tree), histories without a Returning clause are isolated *)
Lemma isolation_without_returning grow hist :
  forallb no_returning_step hist = true -> isolated (run_hist grow old_md hist).
Proof.
  intro H. rewrite (run_hist_irrel grow old_md tree_md) with (hist := hist); auto.
  - apply isolation_all. exact tree_md_free.
  - intros f N. destruct f; auto. contradiction.
Qed.

Lemma go_grow_ge f old needed : needed <= go_grow f old needed.
Proof. unfold go_grow. apply Nat.le_max_l. Qed.

(* ---- the classification regenerated from the sources ---- *)
Lemma tree_md_of_classes : forall f, md_of_classes tree_classes f = tree_md f.
Proof. intro f. destruct f; reflexivity. Qed.

Definition slice_clauses : list string := ["Where"%string; "GroupBy"%string; "OrderBy"%string; "Returning"%string].

Lemma isolation_from_classes cl :
  (forall n, In n slice_clauses -> is_inplace (class_of cl n) = false) ->
  forall grow hist, isolated (run_hist grow (md_of_classes cl) hist).
Proof.
  intros H grow hist. apply isolation_all. intro f.
  destruct f; cbn [md_of_classes]; auto; apply H; cbn; auto.
Qed.
