(* C17_Check.v — correspondence checker for C17.
   [model_agrees]: the model of callbacks.go, run on the registration history gorm just executed,
   returns the same thing after EVERY step (nil / the same error text / stack overflow) and fires the
   same handlers in the same order.
   [spec_holds]: the property, written from its text, evaluated on what gorm returned and fired.
   It never calls the model: it keeps its own book of what is registered ([rstate]). *)
From Verif Require Export Base C17_Model.
Open Scope string_scope.

(* Wire format of a case: every distinct string of the case is written once, in [w_names]
   (index 0 is always the empty string); steps and observations refer to it by index.  The
   observations of the first [w_skip] steps (all but the last built-in registration) are not
   recorded. *)
Inductive wstep := WS (k : kind) (name before after : Z) (builtin matched : bool).
Inductive wobs := WOk (fired : list (Z * Z)) | WErr (msg : string) (fired : list (Z * Z)) | WCrash.
Record case := mk_case { w_names : list string; w_steps : list wstep; w_skip : Z; w_obs : list wobs }.

Definition name_of (tbl : list string) (i : Z) : string := nth (Z.to_nat i) tbl "?".
Definition dec_step (tbl : list string) (w : wstep) : step :=
  match w with
  | WS k n b a bi m => mk_step k (name_of tbl n) (name_of tbl b) (name_of tbl a) bi m
  end.
Definition dec_fired (tbl : list string) (f : list (Z * Z)) : list (string * N) :=
  map (fun x => (name_of tbl (fst x), Z.to_N (snd x))) f.
Definition dec_obs (tbl : list string) (w : wobs) : obs :=
  match w with
  | WOk f => OOk (dec_fired tbl f)
  | WErr m f => OErr m (dec_fired tbl f)
  | WCrash => OCrash
  end.
Definition c_steps (c : case) : list step := map (dec_step (w_names c)) (w_steps c).
Definition c_obs (c : case) : list obs := map (dec_obs (w_names c)) (w_obs c).
Definition c_skip (c : case) : nat := Z.to_nat (w_skip c).

(* ------------------------------------------------------------------ model = implementation *)
Definition fire_eqb (a b : string * N) : bool := String.eqb (fst a) (fst b) && N.eqb (snd a) (snd b).
Definition fired_eqb := list_eqb fire_eqb.
Definition obs_eqb (a b : obs) : bool :=
  match a, b with
  | OOk f, OOk g => fired_eqb f g
  | OErr m f, OErr m' g => String.eqb m m' && fired_eqb f g
  | OCrash, OCrash => true
  | _, _ => false
  end.
(* sort.SliceStable is one insertion sort up to 20 elements; the model is that insertion sort *)
Definition max_callbacks : nat := 20.
Definition model_agrees (c : case) : bool :=
  Nat.ltb max_callbacks (length (c_steps c))
  || list_eqb obs_eqb (c_obs c) (skipn (c_skip c) (run (c_steps c))).

(* ------------------------------------------------------------------ the property's own book *)
Record entry := mk_entry {
  e_name : string; e_before : string; e_after : string;
  e_hid : N;        (* the call whose handler must run: the Register, or the last Replace *)
  e_reg : N;        (* the call that registered it *)
  e_builtin : bool }.
Record rstate := mk_rstate {
  r_live : list entry;     (* registered and not removed, in registration order *)
  r_used : list string;    (* every name ever registered (also the removed ones) *)
  r_dom : bool;            (* the history so far is in the property's domain (DESIGN §8 C17 Domain) *)
  r_user : bool;           (* a call that is not part of the default registration has been seen *)
  r_ghosts : list (string * N * string)
    (* bookkeeping for C17_Known only (the specification never reads it): (t, registration of t, n) =
       a callback n that had asked to run Before/After the live callback t was removed *)
}.
Definition r0 := mk_rstate [] [] true false [].

Definition named (n : string) (e : entry) : bool := String.eqb (e_name e) n.
Definition find_live (l : list entry) (n : string) : option entry := find (named n) l.
Definition is_live (l : list entry) (n : string) : bool := existsb (named n) l.
Definition unconstrained (s : step) : bool :=
  is_none (st_before s) && is_none (st_after s) && st_matched s.

(* the requests of the callback [n] (about to be removed) that name another live callback *)
Definition new_ghosts (live : list entry) (n : string) : list (string * N * string) :=
  match find_live live n with
  | Some e =>
    flat_map (fun tn => if is_none tn || is_star tn || String.eqb tn n then []
                        else match find_live live tn with
                             | Some t => [(tn, e_reg t, n)]
                             | None => []
                             end) [e_before e; e_after e]
  | None => []
  end.

(* the default registration is a prefix of plain Register calls *)
Definition builtin_ok (r : rstate) (s : step) : bool :=
  negb (st_builtin s) ||
  (negb (r_user r) && match st_kind s with KRegister => true | _ => false end
   && is_none (st_before s) && is_none (st_after s)).

Definition ref_apply (r : rstate) (i : N) (s : step) : rstate :=
  let dom := r_dom r && builtin_ok r s in
  let user := r_user r || negb (st_builtin s) in
  match st_kind s with
  | KRegister =>
    if negb (st_matched s) then mk_rstate (r_live r) (r_used r) dom user (r_ghosts r)
      (* guarded out by Match: never part of the pipeline, by design *)
    else
      (* a name that is live may not be registered again (the code itself warns "duplicated callback");
         a name that was removed may *)
      let bad := is_none (st_name s) || is_star (st_name s) || is_live (r_live r) (st_name s) in
      mk_rstate (r_live r ++ [mk_entry (st_name s) (st_before s) (st_after s) i i (st_builtin s)])
                (st_name s :: r_used r) (dom && negb bad) user (r_ghosts r)
  | KReplace =>
    if is_live (r_live r) (st_name s) && unconstrained s
    then mk_rstate (map (fun e => if named (st_name s) e
                                  then mk_entry (e_name e) (e_before e) (e_after e) i (e_reg e) (e_builtin e) else e)
                        (r_live r)) (r_used r) dom user (r_ghosts r)
    else mk_rstate (r_live r) (r_used r) false user (r_ghosts r)
  | KRemove =>
    if is_live (r_live r) (st_name s) && unconstrained s
    then mk_rstate (filter (fun e => negb (named (st_name s) e)) (r_live r)) (r_used r) dom user
                   (r_ghosts r ++ new_ghosts (r_live r) (st_name s))
    else mk_rstate (r_live r) (r_used r) false user (r_ghosts r)
  end.

(* position of a name in the firing order *)
Fixpoint pos (f : list (string * N)) (n : string) : option nat :=
  match f with
  | [] => None
  | x :: r => if String.eqb (fst x) n then Some O
              else match pos r n with Some k => Some (S k) | None => None end
  end.
Definition fires_before (f : list (string * N)) (a b : string) : bool :=
  match pos f a, pos f b with Some i, Some j => Nat.ltb i j | _, _ => false end.

Fixpoint nodupb (l : list string) : bool :=
  match l with [] => true | x :: r => negb (mem r x) && nodupb r end.

(* "runs every registered, non-removed callback exactly once" *)
Definition spec_once (live : list entry) (f : list (string * N)) : bool :=
  Nat.eqb (length f) (length live) && nodupb (map fst f)
  && forallb (fun x => is_live live (fst x)) f.
(* ... and what runs under a name is the handler registered last under it (Replace takes effect) *)
Definition spec_handler (live : list entry) (f : list (string * N)) : bool :=
  forallb (fun x => match find_live live (fst x) with
                    | Some e => N.eqb (e_hid e) (snd x) | None => false end) f.
(* "each on the requested side of the callback it names" (when that callback is live);
   "*" = before / after every callback that is not itself a "*" callback of the same side *)
Definition side_ok (live : list entry) (f : list (string * N)) (e : entry) : bool :=
  (if is_none (e_before e) then true
   else if is_star (e_before e) then
     forallb (fun g => named (e_name e) g || is_star (e_before g) || fires_before f (e_name e) (e_name g)) live
   else negb (is_live live (e_before e)) || fires_before f (e_name e) (e_before e))
  &&
  (if is_none (e_after e) then true
   else if is_star (e_after e) then
     forallb (fun g => named (e_name e) g || is_star (e_after g) || fires_before f (e_name g) (e_name e)) live
   else negb (is_live live (e_after e)) || fires_before f (e_after e) (e_name e)).
Definition spec_sides (live : list entry) (f : list (string * N)) : bool := forallb (side_ok live f) live.
(* "with the built-in callbacks in their original relative order" *)
Definition builtin_names (live : list entry) : list string := map e_name (filter e_builtin live).
Definition spec_builtin (live : list entry) (f : list (string * N)) : bool :=
  let bn := builtin_names live in
  list_eqb String.eqb (filter (mem bn) (map fst f)) bn.
(* "Replace taking the replaced callback's position": same order of names as before the call *)
Definition spec_replace (prev : option obs) (s : step) (f : list (string * N)) : bool :=
  match st_kind s, prev with
  | KReplace, Some (OOk g) => list_eqb String.eqb (map fst g) (map fst f)
  | _, _ => true
  end.

(* a clause of the property: book, previous observation, the call, what fired *)
Definition clause := rstate -> option obs -> step -> list (string * N) -> bool.
Definition cl_once : clause := fun r _ _ f => spec_once (r_live r) f.
Definition cl_handler : clause := fun r _ _ f => spec_handler (r_live r) f.
Definition cl_sides : clause := fun r _ _ f => spec_sides (r_live r) f.
Definition cl_builtin : clause := fun r _ _ f => spec_builtin (r_live r) f.
Definition cl_replace : clause := fun _ prev s f => spec_replace prev s f.
Definition cl_and (p q : clause) : clause := fun r prev s f => p r prev s f && q r prev s f.
Definition spec_ok : clause := cl_and cl_once (cl_and cl_handler (cl_and cl_sides (cl_and cl_builtin cl_replace))).

(* one step: "either an error is returned, or ..." ; a dead process is neither ([crash_ok] = false).
   Out of the domain nothing is judged. *)
Definition judge_step (q : clause) (crash_ok : bool) (r : rstate) (prev : option obs) (s : step) (o : obs) : bool :=
  negb (r_dom r) ||
  match o with
  | OCrash => crash_ok
  | OErr _ _ => true
  | OOk f => q r prev s f
  end.

(* [skip] leading steps have no recorded observation: the book is kept, nothing is judged *)
Fixpoint judge (q : clause) (crash_ok : bool) (r : rstate) (i : N) (prev : option obs) (skip : nat)
         (h : list step) (os : list obs) : bool :=
  match h with
  | [] => true
  | s :: h' =>
    let r' := ref_apply r i s in
    match skip with
    | S k => judge q crash_ok r' (N.succ i) None k h' os
    | O => match os with
           | [] => true
           | o :: os' => judge_step q crash_ok r' prev s o && judge q crash_ok r' (N.succ i) (Some o) O h' os'
           end
    end
  end.
Definition spec_from := judge spec_ok false.

(* every step was answered, unless the process died *)
Definition complete (skip : nat) (h : list step) (os : list obs) : bool :=
  Nat.eqb (skip + length os) (length h) ||
  (Nat.ltb (skip + length os) (length h) && match last os (OOk []) with OCrash => true | _ => false end).

Definition spec_holds (c : case) : bool :=
  complete (c_skip c) (c_steps c) (c_obs c) && spec_from r0 0%N None (c_skip c) (c_steps c) (c_obs c).

Definition check_case (c : case) : N := code_of (model_agrees c) (spec_holds c).
