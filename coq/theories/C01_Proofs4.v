(* C01_Proofs4.v — set-up of the main induction over [val]: top-level copies of the local
   functions of [bval] / [bound_values] / [wfb] with their unfolding equations, a hereditary
   predicate over sub-values, and the quoting of identifiers. *)
From Verif Require Import Base C01_Model C01_Stmt C01_Spec C01_Ind C01_Proofs C01_Proofs2 C01_Proofs3.

(* ------------------------------------------------------------------ *)
(* hereditary predicates                                                *)
Definition kids (v : val) : list val :=
  match v with
  | VList _ l | VNameSrc l | VAnd l | VOr l | VNot l | VWhere l | VSeq _ l | VExpr _ _ l | VNamedExpr _ l
  | VRawSub _ l | VSub _ l | KSelect _ l | KTable _ _ l | KJoins _ l | KClauses l | VMapCond l | VStructCond l => l
  | VNamed _ x | VGormValuer _ x | KOrderExpr x | VField _ _ x => [x]
  | VCmp _ c x => [c; x]
  | VIn c l | VSubN _ c l | KCond _ c l | KHaving c l => c :: l
  | VOnConflict c _ s w => c ++ s ++ w
  | _ => []
  end.

Inductive Her (Q : val -> Prop) : val -> Prop :=
| her_intro : forall v, Q v -> Forall (Her Q) (kids v) -> Her Q v.

Lemma her_q : forall Q v, Her Q v -> Q v.
Proof. intros Q v H. destruct H. assumption. Qed.
Lemma her_kids : forall Q v, Her Q v -> Forall (Her Q) (kids v).
Proof. intros Q v H. destruct H. assumption. Qed.

Lemma her_all : forall Q : val -> Prop,
  (forall v, Forall (Her Q) (kids v) -> Q v) -> forall v, Her Q v.
Proof.
  intros Q HQ.
  assert (K : forall v, Forall (Her Q) (kids v) -> Her Q v).
  { intros v H. apply her_intro; [apply HQ|]; exact H. }
  apply val_ind'; intros; apply K; cbn [kids];
    repeat first [assumption | apply Forall_nil | apply Forall_cons | apply Forall_app; split].
Qed.

(* ------------------------------------------------------------------ *)
(* identifiers                                                          *)
Definition id_char_ok (c : ascii) : bool := plain_char c.

Lemma in_quote_loop : forall s uq sq cb sd0 c,
  In c (quote_loop s uq sq cb sd0) -> In c s \/ c = "`"%char.
Proof.
  induction s as [|v r IH]; intros uq sq cb sd0 c H.
  - cbn in H. destruct ((0 <? cb)%Z && negb sq); cbn in H; intuition.
  - cbn [quote_loop] in H.
    destruct (ceq v "`") eqn:E1.
    + destruct (cb + 1 =? 2)%Z.
      * cbn in H. destruct H as [H|[H|H]]; auto. apply IH in H. cbn. tauto.
      * apply IH in H. cbn. tauto.
    + destruct (ceq v ".") eqn:E2.
      * destruct ((0 <? cb)%Z || negb sq); cbn in H.
        -- destruct H as [H|[H|H]]; auto; [cbn; auto|]. apply IH in H. cbn. tauto.
        -- destruct H as [H|H]; [cbn; auto|]. apply IH in H. cbn. tauto.
      * apply in_app_or in H. destruct H as [H|H].
        { destruct ((sd0 - cb <=? 0)%Z && negb uq); cbn in H; intuition. }
        apply in_app_or in H. destruct H as [H|H].
        { right. apply in_concat in H. destruct H as [x [Hx Hc]]. apply repeat_spec in Hx. subst x.
          cbn in Hc. intuition. }
        cbn in H. destruct H as [H|H]; [cbn; auto|]. apply IH in H. cbn. tauto.
Qed.

Lemma contains_in : forall c s, contains_c c s = true -> In c s.
Proof.
  induction s as [|x r IH]; intro H; [discriminate|].
  cbn in H. apply orb_prop in H. destruct H as [H|H]; [left; symmetry; apply ceq_eq; exact H | right; auto].
Qed.
Lemma not_in_contains : forall c s, ~ In c s -> contains_c c s = false.
Proof. intros c s H. destruct (contains_c c s) eqn:E; [|reflexivity]. apply contains_in in E. tauto. Qed.
Lemma contains_false_in : forall c s, contains_c c s = false -> ~ In c s.
Proof.
  induction s as [|x r IH]; intros H Hin; [exact Hin|].
  apply contains_cons_false in H. destruct H as [H1 H2]. destruct Hin as [Hin|Hin]; [|exact (IH H2 Hin)].
  subst x. rewrite ceq_refl in H1. discriminate.
Qed.

Lemma quote_loop_head : forall s cb sd0,
  (sd0 - cb <= 0)%Z -> (0 <= cb)%Z -> exists t, quote_loop s false false cb sd0 = "`"%char :: t.
Proof.
  induction s as [|v r IH]; intros cb sd0 H H0.
  - cbn. destruct (0 <? cb)%Z; cbn; eauto.
  - cbn [quote_loop]. destruct (ceq v "`").
    + destruct (cb + 1 =? 2)%Z; [eauto|]. apply IH; lia.
    + destruct (ceq v ".").
      * cbn [negb orb]. rewrite orb_true_r. eauto.
      * replace ((sd0 - cb <=? 0)%Z) with true by (symmetry; apply Z.leb_le; exact H). cbn. eauto.
Qed.

Lemma clean_quote : forall s, clean_str s = true -> clean_la (quote_id s) = true.
Proof.
  intros s H. unfold clean_str, clean_text in H.
  repeat (apply andb_prop in H; destruct H as [H ?]).
  apply negb_true_iff in H, H1, H2.
  unfold clean_la, quote_id.
  assert (N : forall c, c <> "`"%char -> contains_c c (s2l s) = false ->
              contains_c c (quote_loop (s2l s) false false 0 0) = false).
  { intros c Hc Hn. apply not_in_contains. intro Hin. apply in_quote_loop in Hin.
    destruct Hin as [Hin|Hin]; [|tauto]. exact (contains_false_in _ _ Hn Hin). }
  rewrite !N by (assumption || discriminate).
  destruct (quote_loop_head (s2l s) 0 0) as [t Et]; [lia | lia |]. rewrite Et. reflexivity.
Qed.

Lemma clean_la_text : forall s, clean_text s = clean_la s.
Proof. reflexivity. Qed.

Lemma clean_wr : forall raw s, clean_str s = true -> clean_la (wr raw s) = true.
Proof. intros [] s H; [exact H | apply clean_quote; exact H]. Qed.

Lemma clean_la_app : forall a b, clean_la a = true -> clean_la b = true -> clean_la (a ++ b) = true.
Proof.
  intros a b Ha Hb. apply goodp_ptext in Ha. apply goodp_ptext in Hb.
  pose proof (goodp_app _ _ Ha Hb) as G. unfold ptext in G. rewrite <- map_app in G.
  apply goodp_elim in G. destruct G as (g1 & g2 & g3 & _ & _ & g6).
  unfold no_char in g1, g2, g3. fold (ptext (a ++ b)) in g1, g2, g3, g6.
  rewrite existsb_pc_ptext in g1, g2, g3.
  unfold clean_la. rewrite g1, g2, g3. cbn.
  destruct (a ++ b); [reflexivity|]. cbn in g6 |- *. rewrite g6. reflexivity.
Qed.
Lemma clean_la_nil : clean_la [] = true. Proof. reflexivity. Qed.

Lemma good_quote_col : forall e tbl name alias raw,
  tinfo_ok e = true -> clean_str tbl = true -> clean_str name = true -> clean_str alias = true ->
  clean_la (quote_col e tbl name alias raw) = true.
Proof.
  intros e tbl name alias raw He Ht Hn Ha. unfold tinfo_ok in He. apply andb_prop in He. destruct He as [He1 He2].
  unfold quote_col.
  repeat apply clean_la_app.
  - destruct (String.eqb tbl ""); [reflexivity|]. apply clean_la_app; [|reflexivity].
    apply clean_wr. destruct (String.eqb tbl current_table); assumption.
  - destruct (String.eqb name primary_key); [|apply clean_wr; assumption].
    destruct (t_pk e); [apply clean_wr; assumption | reflexivity].
  - destruct (String.eqb alias ""); [reflexivity|]. apply clean_la_app; [reflexivity | apply clean_wr; assumption].
Qed.

Lemma good_quote_table : forall e name alias raw,
  tinfo_ok e = true -> clean_str name = true -> clean_str alias = true ->
  clean_la (quote_table e name alias raw) = true.
Proof.
  intros e name alias raw He Hn Ha. unfold tinfo_ok in He. apply andb_prop in He. destruct He as [He1 He2].
  unfold quote_table. apply clean_la_app.
  - apply clean_wr. destruct (String.eqb name current_table); assumption.
  - destruct (String.eqb alias ""); [reflexivity|].
    change (" "%char :: wr raw alias) with ([" "%char] ++ wr raw alias).
    apply clean_la_app; [reflexivity | apply clean_wr; assumption].
Qed.
