(* C07_WritesLemmas.v — where the statement-level operations of a chain write.
   Part 1: every write of a chain method goes to an array allocated by the chain itself
   (or beyond the length of its own Joins/scopes slice).  *)
From Verif Require Import Base C06_Model C06_Proofs C06_Proofs2 C06_Proofs3 C06_Proofs4 C06_Proofs5 C06_Proofs6 C06_Proofs7.
From Verif Require Import C07_Writes.
Open Scope nat_scope.

Section Confined.
Variable grow : field -> nat -> nat -> nat.
Variable md : field -> bool.
Hypothesis Hmd : forall f, md f = false.
(* the fields whose slice of s may be appended onto in place *)
Variable ex : field -> bool.
Variable h0 : heap.
Variable s : mstmt.

Definition wok (w : wset) : Prop :=
  forall l i, In (l, i) w ->
    length h0 <= l \/ exists f n c, ex f = true /\ sl s f = SArr l n c /\ n <= i.
Definition good (f : field) (x : slice) : Prop :=
  x = SNil \/ fresh h0 x
  \/ (ex f = true /\ exists l n n' c, sl s f = SArr l n c /\ x = SArr l n' c /\ n <= n').
Definition conf {A} (Q : A -> Prop) (m : cmd A) : Prop :=
  forall h a h' w, length h0 <= length h -> m h = (a, h', w) ->
    wok w /\ length h <= length h' /\ Q a.

Lemma wok_nil : wok [].
Proof. intros l i []. Qed.
Lemma wok_app w1 w2 : wok w1 -> wok w2 -> wok (w1 ++ w2).
Proof. intros H1 H2 l i Hin. apply in_app_iff in Hin. destruct Hin; auto. Qed.

Lemma conf_ret {A} (Q : A -> Prop) a : Q a -> conf Q (ret a).
Proof. intros H h b h' w L E. apply ret_inv in E. destruct E as (-> & -> & ->). split; [apply wok_nil | split; auto]. Qed.

Lemma conf_bind {A B} (Q1 : A -> Prop) (Q2 : B -> Prop) (m : cmd A) (k : A -> cmd B) :
  conf Q1 m -> (forall a, Q1 a -> conf Q2 (k a)) -> conf Q2 (bind m k).
Proof.
  intros H1 H2 h b h' w L E. apply bind_inv in E. destruct E as (a & h1 & w1 & w2 & E1 & E2 & ->).
  destruct (H1 _ _ _ _ L E1) as (W1 & L1 & Qa).
  destruct (H2 a Qa _ _ _ _ (Nat.le_trans _ _ _ L L1) E2) as (W2 & L2 & Qb).
  split; [apply wok_app; auto | split; [lia | auto]].
Qed.

Lemma conf_weaken {A} (Q Q' : A -> Prop) m : (forall a, Q a -> Q' a) -> conf Q m -> conf Q' m.
Proof. intros I H h a h' w L E. destruct (H _ _ _ _ L E) as (W & L' & Qa). auto. Qed.

Lemma conf_rdc x : conf (fun _ => True) (rdc x).
Proof. intros h a h' w L E. apply rdc_inv in E. destruct E as (-> & -> & ->). split; [apply wok_nil | auto]. Qed.

Lemma conf_user f xs cap : conf (good f) (h_user f xs cap).
Proof.
  intros h a h' w L E. rewrite h_user_eq in E. inversion E; subst.
  split; [apply wok_nil | split; [rewrite app_length; lia | right; left; exact L]].
Qed.
Lemma conf_lit f xs : conf (good f) (h_lit f xs).
Proof. apply conf_user. Qed.
Lemma conf_copy f x : conf (good f) (h_copy f x).
Proof.
  intros h a h' w L E. rewrite h_copy_eq in E. inversion E; subst.
  split; [apply wok_nil | split; [rewrite app_length; lia | right; left; exact L]].
Qed.

Lemma conf_append f x xs : good f x -> conf (good f) (h_append grow f x xs).
Proof.
  intros G h a h' w L E. unfold h_append in E. destruct xs as [|y r].
  { apply ret_inv in E. destruct E as (-> & -> & ->). split; [apply wok_nil | auto]. }
  destruct x as [|l n c].
  - apply (conf_user f (y :: r) _ _ _ _ _ L E).
  - destruct (n + length (y :: r) <=? c).
    + apply bind_inv in E. destruct E as (u & h1 & w1 & w2 & E1 & E2 & ->).
      rewrite wr_list_eq in E1. inversion E1; subst; clear E1.
      apply ret_inv in E2. destruct E2 as (-> & -> & ->). rewrite app_nil_r.
      assert (Lh : length (hwrite_list h l n (y :: r)) = length h).
      { generalize (y :: r) n h. clear. intro xs. induction xs as [|z xs IH]; intros n h; cbn; auto.
        rewrite IH. apply hwrite_length. }
      cbn [hwrite_list] in Lh.
      change ((l, n) :: wcells l (S n) (length r)) with (wcells l n (length (y :: r))).
      split; [|split; [lia|]].
      * intros l' i Hin. apply in_wcells in Hin. destruct Hin as (-> & Hi).
        destruct G as [Q | [F | (Ex & l0 & n0 & n0' & c0 & Es & Ex' & Hn)]]; [discriminate | left; exact F |].
        inversion Ex'; subst. right. exists f, n0, c0. repeat split; auto. lia.
      * destruct G as [Q | [F | (Ex & l0 & n0 & n0' & c0 & Es & Ex' & Hn)]]; [discriminate | right; left; exact F |].
        inversion Ex'; subst. right; right. split; auto. exists l0, n0, (n0' + length (y :: r)), c0.
        repeat split; auto. lia.
    + apply bind_inv in E. destruct E as (old & h1 & w1 & w2 & E1 & E2 & ->).
      apply rdc_inv in E1. destruct E1 as (-> & -> & ->).
      apply bind_inv in E2. destruct E2 as (l' & h2 & w3 & w4 & E2 & E3 & ->).
      unfold alloc in E2. inversion E2; subst; clear E2.
      apply ret_inv in E3. destruct E3 as (-> & -> & ->).
      split; [apply wok_nil | split; [rewrite app_length; lia | right; left; exact L]].
Qed.

Lemma conf_append_each f xs : forall x, good f x -> conf (good f) (h_append_each grow f x xs).
Proof.
  induction xs as [|y r IH]; intros x G; cbn [h_append_each].
  - apply conf_ret, G.
  - eapply conf_bind; [apply conf_append, G | intros a Ga; apply IH, Ga].
Qed.

Lemma good_own f : ex f = true -> good f (sl s f).
Proof.
  intro E. destruct (sl s f) as [|l n c] eqn:Es; [left; auto|].
  right; right. split; auto. exists l, n, n, c. auto.
Qed.

Definition any {A} (_ : A) : Prop := True.

Lemma conf_merge_append f old xs : conf (good f) (merge_append grow md f old xs).
Proof.
  unfold merge_append. rewrite Hmd. eapply conf_bind; [apply conf_copy | intros c Gc; apply conf_append, Gc].
Qed.

Lemma conf_m_where (t : mstmt) c : conf any (m_where grow md t c).
Proof.
  unfold m_where. destruct (sl t FWhere); [apply conf_ret; exact I|]. rewrite Hmd.
  eapply conf_bind; [apply conf_rdc | intros new _].
  eapply conf_bind; [apply conf_rdc | intros o _].
  eapply conf_bind; [apply conf_lit | intros w _]. apply conf_ret. exact I.
Qed.
Lemma conf_m_order (t : mstmt) c re : conf any (m_order grow md t c re).
Proof.
  unfold m_order. destruct (sl t FOrder); [apply conf_ret; exact I|]. destruct re; [apply conf_ret; exact I|].
  eapply conf_bind; [apply conf_rdc | intros new _].
  eapply conf_bind; [apply conf_merge_append | intros w _]. apply conf_ret. exact I.
Qed.
Lemma conf_m_group (t : mstmt) c hv : conf any (m_group grow md t c hv).
Proof.
  unfold m_group. destruct (k_grpp (sc t)); [|apply conf_ret; exact I].
  eapply conf_bind; [apply conf_rdc | intros nc _].
  eapply conf_bind; [apply conf_merge_append | intros g _].
  eapply conf_bind; [apply conf_rdc | intros nh _].
  eapply conf_bind; [apply conf_merge_append | intros hv' _]. apply conf_ret. exact I.
Qed.
Lemma conf_m_ret (t : mstmt) c : conf any (m_ret grow md t c).
Proof.
  unfold m_ret. eapply conf_bind with (Q1 := any); [|intros new _; apply conf_ret; exact I].
  destruct (k_retp (sc t) && negb (slen c =? 0)); [|apply conf_ret; exact I].
  destruct (sl t FRet); [apply conf_ret; exact I|].
  eapply conf_bind; [apply conf_rdc | intros xs _]. rewrite Hmd.
  eapply conf_bind; [apply conf_rdc | intros o _].
  eapply conf_weaken; [|apply conf_lit]. intros; exact I.
Qed.
Lemma conf_do_select (t : mstmt) c more : good FSel c -> conf any (do_select grow t c more).
Proof.
  intro G. unfold do_select. eapply conf_bind; [apply conf_append_each, G | intros v _]. apply conf_ret. exact I.
Qed.
End Confined.

(* every write of a chain method on statement s (in a heap at least as large as h0): above h0, or
   beyond the length of s's own Joins / scopes slice *)
Lemma apply_op_conf grow md (Hmd : forall f, md f = false) h0 s o :
  conf excl h0 s any (apply_op grow md s o).
Proof.
  destruct o; cbn [apply_op];
    try (apply conf_ret; exact I);
    try (eapply conf_bind; [apply conf_lit | intros c Gc]);
    try (eapply conf_bind; [apply conf_user | intros c Gc]);
    try (apply conf_m_where; auto); try (apply conf_m_order; auto); try (apply conf_m_group; auto);
    try (apply conf_do_select; auto); try (apply conf_ret; exact I).
  - destruct xs; [apply conf_ret; exact I|].
    eapply conf_bind; [apply conf_user | intros c Gc]. apply conf_m_where; auto.
  - destruct args; [apply conf_ret; exact I|].
    eapply conf_bind; [apply conf_lit | intros c Gc]. apply conf_do_select; auto.
  - destruct xs; [apply conf_ret; exact I|].
    eapply conf_bind; [apply conf_lit | intros c Gc]. apply conf_ret; exact I.
  - eapply conf_bind; [apply conf_append, good_own; reflexivity | intros c Gc]. apply conf_ret; exact I.
  - eapply conf_bind; [apply conf_append, good_own; reflexivity | intros c Gc]. apply conf_ret; exact I.
  - eapply conf_bind with (Q1 := any); [|intros c _; apply conf_m_ret; auto].
    destruct u as [[xs cap]|]; [eapply conf_weaken; [|apply conf_user]; intros; exact I | apply conf_ret; exact I].
Qed.

(* ---- Part 2: the writes of a finisher ---- *)
Section FinWrites.
Variable grow : field -> nat -> nat -> nat.
Variable md : field -> bool.
Hypothesis Hmd : forall f, md f = false.

Definition none (_ : field) : bool := false.

Lemma conf_run_scopes h0 s0 xs : forall t, conf none h0 s0 any (run_scopes grow md t xs).
Proof.
  induction xs as [|x r IH]; intro t; cbn [run_scopes]; [apply conf_ret; exact I|].
  eapply conf_bind; [apply conf_lit | intros c _].
  eapply conf_bind; [apply conf_m_where; auto | intros t1 _]. apply IH.
Qed.

Lemma conf_prologue h0 s0 t f :
  conf none h0 s0 any
    (match f with
     | FFirst => c <- h_lit FOrder [pk_cell] ;; m_order grow md (m_limit t (Some 1%Z) 0%Z) c false
     | FTake => ret (m_limit t (Some 1%Z) 0%Z)
     | _ => ret t
     end).
Proof.
  destruct f; try (apply conf_ret; exact I).
  eapply conf_bind; [apply conf_lit | intros c _]. apply conf_m_order; auto.
Qed.
Lemma conf_exec_scopes h0 s0 t : conf none h0 s0 any (exec_scopes grow md t).
Proof. unfold exec_scopes. eapply conf_bind; [apply conf_rdc | intros xs _]. apply conf_run_scopes. Qed.

Lemma wok_none h0 s0 w : wok none h0 s0 w -> forall l i, In (l, i) w -> length h0 <= l.
Proof. intros H l i Hin. destruct (H _ _ Hin) as [L | (f & n & c & Q & _)]; [exact L | discriminate Q]. Qed.

(* every write of a finisher on statement s: above h (private), or a spare cell of s's FROM joins array *)
Definition fin_wok (h : heap) (s : mstmt) (w : wset) : Prop :=
  forall l i, In (l, i) w ->
    length h <= l \/ (exists n c, sl s FFromj = SArr l n c /\ n <= i < c).

Lemma finish_writes h s f r h' w :
  swf h s -> finish grow md s f h = (r, h', w) -> fin_wok h s w.
Proof.
  intros W E. unfold finish in E.
  binv E as EA E1. binv E1 as EB E2. binv E2 as EC E3. binv E3 as ED E4. binv E4 as EE E5.
  binv E5 as EF E6. apply ret_inv in E6. destruct E6 as (_ & -> & ->).
  inversion EF; subst a4 h5 w4; clear EF.
  assert (OA := prologue_spec grow md Hmd _ _ _ _ _ _ W EA).
  assert (OB := exec_scopes_spec grow md Hmd _ _ _ _ _ (os_wf _ _ _ _ _ _ OA) EB).
  assert (OAB := ospec_trans _ _ _ _ _ _ _ _ _ _ (p_allscopes_peq) OA OB).
  assert (XA := os_ext _ _ _ _ _ _ OA). assert (LA : length h <= length h0) by apply XA.
  assert (CA := conf_prologue h s s f h a h0 w0 (le_n _) EA).
  assert (CB := conf_exec_scopes h s a h0 a0 h1 w LA EB).
  assert (FA := wok_none _ _ _ (proj1 CA)). assert (FB := wok_none _ _ _ (proj1 CB)).
  assert (W2 := os_wf _ _ _ _ _ _ OAB). assert (Ev := os_ev _ _ _ _ _ _ OAB).
  assert (L01 : length h0 <= length h1) by apply CB.
  assert (XB : hext h1 h2 w1 /\ (forall l i, In (l, i) w1 -> length h1 <= l \/ exists n c, sl a0 FFromj = SArr l n c /\ n <= i < c)
               /\ sl a1 FWhere = sl a0 FWhere /\ sl a1 FHaving = sl a0 FHaving).
  { destruct (is_query f).
    - binv EC as Ea Eb. rdinv Ea. binv Eb as Ec Ed. rinv Ed. cbn [app]. rewrite app_nil_r.
      assert (RB := h_append_each_spec grow _ _ _ _ _ _ _ (W2 FFromj) Ec).
      split; [apply (sr_ext _ _ _ _ _ _ _ RB)|]. split; [apply (sr_w _ _ _ _ _ _ _ RB)|]. auto.
    - rinv EC. split; [apply hext_refl|]. split; [intros l i []|]. auto. }
  destruct XB as (XB & WB & Ew & Eh).
  rewrite Ew in ED. rewrite Eh in EE.
  assert (Ww2 : wf_slice h2 FWhere (sl a0 FWhere)) by (eapply wf_slice_ext; eauto).
  assert (Wh2 : wf_slice h2 FHaving (sl a0 FHaving)) by (eapply wf_slice_ext; eauto).
  destruct (stagec grow _ _ _ _ _ _ _ _ _ _ Ww2 Wh2 ED EE) as (-> & -> & _).
  intros l i Hin. rewrite !in_app_iff in Hin.
  destruct Hin as [Hin | [Hin | [Hin | [[] | [[] | [[] | []]]]]]].
  - left. eauto.
  - left. apply FB in Hin. lia.
  - destruct (WB _ _ Hin) as [Lf | (n & c & Ef & Hi)]; [left; lia|].
    destruct (Nat.lt_ge_cases l (length h)) as [Ll | Ll]; [|left; exact Ll].
    right. exists n, c. split; [|exact Hi].
    destruct (Ev FFromj) as [Q | [Q | [F | (Q & _)]]]; try congruence; try discriminate.
    rewrite Ef in F. cbn in F. lia.
Qed.
End FinWrites.
