(* C08_Hist.v — soft delete over histories: a table whose rows carry a deletion stamp, the
   operations of a history (create, scoped / Unscoped delete, update, read), and the plain table
   the property compares with ("as if the marked rows did not exist").  No proofs here.
   Modelled code: soft_delete.go (query / update / delete clauses), callbacks/delete.go,
   callbacks/update.go, callbacks/query.go as far as they decide WHICH rows an operation sees. *)
From Verif Require Import Base.
Open Scope Z_scope.

(* a stored row: key, one data column, deletion stamp (None = live) *)
Record hrow := mk_hrow { hid : Z; hval : Z; hdel : option Z }.
Definition hstate := list hrow.

(* conditions of a history step: they read the key and the data column, never the stamp *)
Inductive hpred :=
| HAll
| HIds (l : list Z)
| HKeys (l : list Z)   (* the records of a write named through the Model / Delete value: one record
                          or a slice of records with these keys (0 = a record without a key) *)
| HMod (m r : Z)
| HValIs (v : Z)
| HOr (a b : hpred)
| HAnd (a b : hpred)
| HNot (a : hpred).

(* schema.GetIdentityFieldValuesMap skips the records whose key is zero *)
Definition named_keys (l : list Z) : list Z := filter (fun k => negb (k =? 0)) l.

Fixpoint holds (p : hpred) (i v : Z) : bool :=
  match p with
  | HAll => true
  | HIds l => existsb (Z.eqb i) l
  (* callbacks/update.go ConvertToAssignments, callbacks/delete.go, soft_delete.go: the keys of the
     records that have one become `key IN (...)`; when no record has a key no condition is added *)
  | HKeys l => match named_keys l with [] => true | ks => existsb (Z.eqb i) ks end
  | HMod m r => (i mod m) =? r
  | HValIs w => v =? w
  | HOr a b => holds a i v || holds b i v
  | HAnd a b => holds a i v && holds b i v
  | HNot a => negb (holds a i v)
  end.
Definition rholds (p : hpred) (r : hrow) : bool := holds p (hid r) (hval r).
Definition live (r : hrow) : bool := match hdel r with None => true | Some _ => false end.

Inductive hop :=
| OCreate (i v : Z)               (* a new live row *)
| ODelete (p : hpred) (t : Z)     (* Delete without Unscoped, at time t *)
| OUDelete (p : hpred)            (* Unscoped().Delete *)
| OUpdate (p : hpred) (v : Z)     (* Update of the data column without Unscoped *)
| OUUpdate (p : hpred) (v : Z)    (* Unscoped().Update *)
| OFind (p : hpred)               (* Find / Count / Pluck ... without Unscoped: the ids *)
| OUFind (p : hpred).             (* Unscoped().Find *)

Definition is_scoped (o : hop) : bool :=
  match o with OUDelete _ | OUUpdate _ _ | OUFind _ => false | _ => true end.

Definition count {A} (f : A -> bool) (l : list A) : Z := Z.of_nat (length (filter f l)).

(* one step: the new table and what the caller observes (ids for reads, rows affected for writes) *)
Definition hstep (s : hstate) (o : hop) : hstate * list Z :=
  match o with
  | OCreate i v => (s ++ [mk_hrow i v None], [1])
  | ODelete p t =>
    (map (fun r => if live r && rholds p r then mk_hrow (hid r) (hval r) (Some t) else r) s,
     [count (fun r => live r && rholds p r) s])
  | OUDelete p => (filter (fun r => negb (rholds p r)) s, [count (rholds p) s])
  | OUpdate p v =>
    (map (fun r => if live r && rholds p r then mk_hrow (hid r) v (hdel r) else r) s,
     [count (fun r => live r && rholds p r) s])
  | OUUpdate p v =>
    (map (fun r => if rholds p r then mk_hrow (hid r) v (hdel r) else r) s, [count (rholds p) s])
  | OFind p => (s, map hid (filter (fun r => live r && rholds p r) s))
  | OUFind p => (s, map hid (filter (rholds p) s))
  end.

Fixpoint hrun (s : hstate) (ops : list hop) : hstate * list (list Z) :=
  match ops with
  | [] => (s, [])
  | o :: r => let (s1, ob) := hstep s o in
              let (s2, obs) := hrun s1 r in (s2, ob :: obs)
  end.

(* ---- the plain table: no stamps, Delete really deletes ---- *)
Definition prow := (Z * Z)%type.
Definition pholds (p : hpred) (r : prow) : bool := holds p (fst r) (snd r).

Definition pstep (s : list prow) (o : hop) : list prow * list Z :=
  match o with
  | OCreate i v => (s ++ [(i, v)], [1])
  | ODelete p _ | OUDelete p => (filter (fun r => negb (pholds p r)) s, [count (pholds p) s])
  | OUpdate p v | OUUpdate p v =>
    (map (fun r => if pholds p r then (fst r, v) else r) s, [count (pholds p) s])
  | OFind p | OUFind p => (s, map fst (filter (pholds p) s))
  end.

Fixpoint prun (s : list prow) (ops : list hop) : list prow * list (list Z) :=
  match ops with
  | [] => (s, [])
  | o :: r => let (s1, ob) := pstep s o in
              let (s2, obs) := prun s1 r in (s2, ob :: obs)
  end.

(* what a caller who never says Unscoped can see of a table *)
Definition erase (s : hstate) : list prow :=
  map (fun r => (hid r, hval r)) (filter live s).

(* the observations of the scoped steps only ([None] for Unscoped steps) *)
Fixpoint scoped_obs (ops : list hop) (obs : list (list Z)) : list (option (list Z)) :=
  match ops, obs with
  | o :: r, b :: bs => (if is_scoped o then Some b else None) :: scoped_obs r bs
  | _, _ => []
  end.
