(* C01_Proofs8.v — non-interference, part 1: every builder commutes with the erasure of values
   (pieces up to the values they carry), and rendering does not look at values. *)
From Verif Require Import Base C01_Model C01_Stmt C01_Spec C01_Proofs C01_Proofs2 C01_Proofs3.

Lemma erase_app : forall a b, erase (a ++ b) = erase a ++ erase b.
Proof. intros. unfold erase. apply map_app. Qed.
Lemma erase_ptext : forall s, erase (ptext s) = ptext s.
Proof. intro s. unfold erase, ptext. rewrite map_map. reflexivity. Qed.
Lemma erase_pstr : forall s, erase (pstr s) = pstr s.
Proof. intro s. apply erase_ptext. Qed.
Lemma erase_sepc : forall s l, erase (sepc s l) = sepc (erase s) (map erase l).
Proof.
  intros s l. induction l as [|p l IH]; [reflexivity|].
  destruct l as [|q l']; [reflexivity|].
  change (sepc s (p :: q :: l')) with (p ++ s ++ sepc s (q :: l')).
  rewrite !erase_app, IH. reflexivity.
Qed.
Lemma erase_wrap : forall b p, erase (wrap_par b p) = wrap_par b (erase p).
Proof. intros [] p; [|reflexivity]. cbn [wrap_par]. cbn [erase map]. fold (erase (p ++ [PC ")"])). rewrite erase_app. reflexivity. Qed.

Lemma render_erase : forall numbered ps n, render_from numbered n (erase ps) = render_from numbered n ps.
Proof.
  intros numbered ps. induction ps as [|[c|v|v] r IH]; intro n; cbn; rewrite ?IH; reflexivity.
Qed.
Lemma vars_erase : forall ps, vars_of (erase ps) = map shape_scalar (vars_of ps).
Proof. unfold erase. induction ps as [|[c|v|v] r IH]; cbn [map erase_piece vars_of]; rewrite ?IH; reflexivity. Qed.

Lemma s2l_l2s : forall l, s2l (l2s l) = l.
Proof. intro l. unfold s2l, l2s. apply list_ascii_of_string_of_list_ascii. Qed.
Lemma shape_scalar_idem : forall s, shape_scalar (shape_scalar s) = shape_scalar s.
Proof.
  intros [z|s|s|b|]; cbn; try reflexivity. rewrite s2l_l2s, map_map. reflexivity.
Qed.
Lemma erase_idem : forall ps, erase (erase ps) = erase ps.
Proof.
  intro ps. unfold erase. rewrite map_map. apply map_ext. intros [c|v|v]; cbn; rewrite ?shape_scalar_idem; reflexivity.
Qed.

(* ---- arguments ---- *)
Definition erase_names (nm : list (string * pieces)) : list (string * pieces) :=
  map (fun kp => (fst kp, erase (snd kp))) nm.
Definition erase_argr (a : argr) : argr :=
  mk_argr (erase (a_var a)) (erase (a_par a)) (shape_scalar (a_hid a)) (erase_names (a_names a)).

Lemma expr_scan_erase : forall wop bs args ap,
  erase (expr_scan wop bs args ap) = expr_scan wop bs (map erase_argr args) ap.
Proof.
  induction bs as [|c r IH]; intros args ap.
  - cbn [expr_scan]. unfold erase. rewrite !map_map. reflexivity.
  - cbn [expr_scan]. destruct (ceq c "?").
    + destruct args as [|a args']; cbn [map].
      * cbn [erase map]. fold (erase (expr_scan wop r [] false)). rewrite IH. reflexivity.
      * rewrite erase_app, IH. destruct (ap || wop); reflexivity.
    + cbn [erase map]. fold (erase (expr_scan wop r args (ceq c "("))). rewrite IH. reflexivity.
Qed.

Lemma lookup_last_erase : forall nm n acc,
  lookup_last (erase_names nm) n (option_map erase acc) = option_map erase (lookup_last nm n acc).
Proof.
  induction nm as [|[k p] nm IH]; intros n acc; [reflexivity|].
  cbn [erase_names map lookup_last fst snd]. fold (erase_names nm).
  replace (if String.eqb k n then Some (erase p) else option_map erase acc)
    with (option_map erase (if String.eqb k n then Some p else acc)) by (destruct (String.eqb k n); reflexivity).
  apply IH.
Qed.
Lemma flush_erase : forall nm name, erase (flush_name nm name) = flush_name (erase_names nm) name.
Proof.
  intros nm name. unfold flush_name.
  pose proof (lookup_last_erase nm (l2s name) None) as L. cbn [option_map] in L. rewrite L.
  destruct (lookup_last nm (l2s name) None); cbn [option_map]; [reflexivity|].
  cbn [erase map]. fold (erase (ptext name)). rewrite erase_ptext. reflexivity.
Qed.

Lemma named_scan_erase : forall nm bs args inname name ap,
  erase (named_scan nm bs args inname name ap)
  = named_scan (erase_names nm) bs (map erase_argr args) inname name ap.
Proof.
  induction bs as [|c r IH]; intros args inname name ap.
  - cbn [named_scan]. destruct inname; [apply flush_erase | reflexivity].
  - cbn [named_scan]. destruct (ceq c "@" && negb inname); [apply IH|].
    destruct (is_name_end c).
    + rewrite erase_app. cbn [erase map]. fold (erase (named_scan nm r args false [] false)).
      rewrite IH. destruct inname; [rewrite flush_erase|]; reflexivity.
    + destruct (ceq c "?").
      * destruct args as [|a args']; cbn [map].
        -- destruct inname; [apply IH|]. cbn [erase map].
           fold (erase (named_scan nm r [] false name (ceq c "("))). rewrite IH. reflexivity.
        -- rewrite erase_app, IH. destruct ap; reflexivity.
      * destruct inname; [apply IH|]. cbn [erase map].
        fold (erase (named_scan nm r args false name (ceq c "("))). rewrite IH. reflexivity.
Qed.

Lemma all_names_erase : forall args, all_names (map erase_argr args) = erase_names (all_names args).
Proof.
  unfold all_names. induction args as [|a args IH]; [reflexivity|].
  cbn [map flat_map]. rewrite IH. unfold erase_names. rewrite map_app. reflexivity.
Qed.

Lemma raw_scan_erase : forall sql args, erase (raw_scan sql args) = raw_scan sql (map erase_argr args).
Proof.
  intros sql args. unfold raw_scan. destruct (contains_c "@" sql).
  - rewrite named_scan_erase, all_names_erase. reflexivity.
  - apply expr_scan_erase.
Qed.

(* ---- the renumbering of a built sub-query ---- *)
Lemma scalar_argr_erase : forall s, erase_argr (scalar_argr s) = scalar_argr (shape_scalar s).
Proof.
  intros [z|s|s|b|]; try reflexivity.
  unfold scalar_argr, erase_argr, erase.
  cbn [a_var a_par a_hid a_names erase_names map erase_piece shape_scalar scalar_par].
  rewrite s2l_l2s. remember (s2l s) as l eqn:E. destruct l as [|c r]; cbn [map erase_piece shape_scalar]; rewrite <- ?E; reflexivity.
Qed.

Lemma rebuild_erase : forall numbered ps, erase (rebuild_sub numbered ps) = rebuild_sub numbered (erase ps).
Proof.
  intros numbered ps. unfold rebuild_sub. rewrite raw_scan_erase.
  unfold render. rewrite render_erase, vars_erase, map_length, !map_map.
  f_equal. apply map_ext. intro s. apply scalar_argr_erase.
Qed.

(* ---- comparison builders ---- *)
Lemma cmp_build_erase : forall o qc el isnil var,
  erase (cmp_build o qc el isnil var) = cmp_build o (erase qc) (option_map (map erase) el) isnil (erase var).
Proof.
  intros o qc el isnil var.
  destruct o; cbn [cmp_build]; try (rewrite !erase_app, erase_pstr; reflexivity);
    destruct el as [[|p l]|]; try destruct isnil; cbn [option_map map];
    rewrite ?erase_app, ?erase_pstr, ?erase_sepc; reflexivity.
Qed.
Lemma in_build_erase : forall neg qc vals si,
  erase (in_build neg qc vals si) = in_build neg (erase qc) (map erase vals) si.
Proof.
  intros neg qc vals si. destruct vals as [|x [|y r]]; cbn [in_build map].
  - rewrite erase_app, erase_pstr. reflexivity.
  - destruct si; rewrite !erase_app, erase_pstr; reflexivity.
  - rewrite !erase_app, erase_pstr, erase_sepc. reflexivity.
Qed.
Lemma join_exprs_erase : forall multi join first l,
  erase (join_exprs multi join first l)
  = join_exprs multi join first (map (fun m => (fst m, erase (snd m))) l).
Proof.
  intros multi join first l. revert first. induction l as [|[[sor np] p] r IH]; intro first; [reflexivity|].
  cbn [join_exprs map fst snd]. rewrite !erase_app, erase_wrap, IH.
  destruct first; [reflexivity|]. rewrite erase_pstr. reflexivity.
Qed.
