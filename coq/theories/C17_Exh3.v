(* C17_Exh3.v — bounded-exhaustive check, pipeline shape of Query (three built-ins), two user names.
   The built-ins are called b1, b2, b3: the model looks at names through String.eqb only, and short
   names keep the evaluation (dominated by string comparisons) near half a minute. *)
From Verif Require Import Base C17_Model C17_Check C17_Known C17_Proofs3.
Open Scope string_scope.
Open Scope list_scope.

Definition alpha_query : alphabet :=
  mk_alphabet ["b1"; "b2"; "b3"] ["u1"; "u2"].

Lemma exh_query_count : count_ext 3 alpha_query (builtin_steps (a_builtins alpha_query)) = 115811%N.
Proof. vm_compute. reflexivity. Qed.

Lemma exh_query : all_ok 3 alpha_query (builtin_steps (a_builtins alpha_query)) = true.
Proof. rewrite <- all_ok_inc_eq. vm_compute. reflexivity. Qed.
