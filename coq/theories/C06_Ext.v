(* C06_Ext.v — the NON-SLICE state of a handle's statement, next to the HEAP model of C06_Model.v:
     Statement.Context, Statement.SkipHooks (plain fields written by DB.Session),
     Statement.Preloads  (a Go MAP: a reference; writing through it is seen by every statement that
                          holds the same map object — no capacity condition as for slices),
     Statement.Settings  (a sync.Map held BY VALUE: copied entry by entry by Statement.clone).
   Modelled code (line by line where aliasing matters):
     gorm.go            DB.getInstance (clone 0 / 1: new Statement that inherits Context and SkipHooks /
                        2: Statement.clone), DB.Session (the guard `Context != nil || PrepareStmt ||
                        SkipHooks` that gives the new handle a statement of its own BEFORE Context and
                        SkipHooks are written; NewDB -> clone mode 1 else 2), WithContext, Debug, Begin, Set
     statement.go       Statement.clone (Preloads: a NEW map filled entry by entry; Settings: Range+Store)
     chainable_api.go   Preload (allocates the map when nil, then writes Preloads[query] = args)
   Maps live in a heap of map objects; a statement holds None (nil map) or Some loc.  The handle
   table and the clone modes are those of C06_Model (same histories, see C06_Check.ustep).  No proofs here. *)
From Verif Require Export Base C06_Model.
Open Scope Z_scope.

Notation amap := (list (Z * Z)) (only parsing).       (* content of a map, kept sorted by key *)
Fixpoint ains (k v : Z) (l : amap) : amap :=
  match l with
  | [] => [(k, v)]
  | (k', v') :: r => if k <? k' then (k, v) :: l
                     else if k =? k' then (k, v) :: r
                     else (k', v') :: ains k v r
  end.

(* chain methods, as far as this state is concerned *)
Inductive xop :=
| XPreload (k v : Z)        (* Preload(name_k, args_v) *)
| XSet (k v : Z)            (* Set(key_k, v) *)
| XOther.                   (* any chain method of C06_Model.op: touches none of this state *)
(* DB.Session(&Session{NewDB, Context, SkipHooks, PrepareStmt, + options that do not touch the statement}) *)
Inductive xsess :=
| XSession (newdb : bool) (ctx : option Z) (skip prep : bool)
| XDebug | XBegin.
(* what was applied to a statement since Open (ghost) *)
Inductive xpop := XPOp (o : xop) | XPCtx (c : Z) | XPSkip | XPNew | XPFin.

Record xstmt := mk_x { x_ctx : Z; x_skip : bool; x_pre : option nat; x_set : amap; x_gp : list xpop }.
Definition xstmt0 : xstmt := mk_x 0 false None [] [].
Definition x_push (s : xstmt) (p : xpop) : xstmt := mk_x (x_ctx s) (x_skip s) (x_pre s) (x_set s) (x_gp s ++ [p]).

Inductive xstep :=
| XDerive (p : nat) (o : xop)
| XSess (p : nat) (k : xsess)
| XFinish (p : nat)
| XAbandon (p : nat).

(* what a finisher (its hooks, its preload queries, its driver calls) sees of this state *)
Record xobs := mk_xo { o_ctx : Z; o_skip : bool; o_pre : amap; o_set : amap }.
Definition xo0 : xobs := mk_xo 0 false [] [].

Definition xget (sts : list xstmt) (i : nat) : xstmt := nth i sts xstmt0.
Definition mget (mh : list amap) (r : option nat) : amap :=
  match r with None => [] | Some l => nth l mh [] end.
Definition xabs (mh : list amap) (s : xstmt) : xobs :=
  mk_xo (x_ctx s) (x_skip s) (mget mh (x_pre s)) (x_set s).

Definition is_some {A} (o : option A) : bool := match o with Some _ => true | None => false end.

Section WithCode.
(* two facts about the sources the model follows (probed on the running gorm on every run, FactsOK_C06):
   [share_pre]: Statement.clone hands the Preloads map itself to the new statement (false: a new map
   filled entry by entry); [guard newdb ctx skip prep]: DB.Session gives the new handle a statement of
   its own (tree: Context != nil || PrepareStmt || SkipHooks) *)
Variable share_pre : bool.
Variable guard : bool -> option Z -> bool -> bool -> bool.

(* Statement.clone: Preloads: map[string][]interface{}{} + a copy of every entry; Settings copied *)
Definition x_clone (mh : list amap) (s : xstmt) : list amap * xstmt :=
  if share_pre then (mh, s)
  else (mh ++ [mget mh (x_pre s)], mk_x (x_ctx s) (x_skip s) (Some (length mh)) (x_set s) (x_gp s)).
(* getInstance, clone == 1: &Statement{Context: db.Statement.Context, SkipHooks: db.Statement.SkipHooks, ...} *)
Definition x_fresh (s : xstmt) : xstmt := mk_x (x_ctx s) (x_skip s) None [] (x_gp s ++ [XPNew]).

Definition x_get_instance (mh : list amap) (sts : list xstmt) (hd : nat * nat) : list amap * list xstmt * nat :=
  match snd hd with
  | O => (mh, sts, fst hd)
  | S O => (mh, sts ++ [x_fresh (xget sts (fst hd))], length sts)
  | _ => let '(mh1, c) := x_clone mh (xget sts (fst hd)) in (mh1, sts ++ [c], length sts)
  end.

(* one chain method on the statement of tx (after getInstance) *)
Definition x_apply (mh : list amap) (s : xstmt) (o : xop) : list amap * xstmt :=
  match o with
  | XPreload k v =>
      match x_pre s with
      | None => (mh ++ [ains k v []], mk_x (x_ctx s) (x_skip s) (Some (length mh)) (x_set s) (x_gp s))
      | Some l => (upd_nth mh l (ains k v (nth l mh [])), s)     (* written THROUGH the map reference *)
      end
  | XSet k v => (mh, mk_x (x_ctx s) (x_skip s) (x_pre s) (ains k v (x_set s)) (x_gp s))
  | XOther => (mh, s)
  end.

Definition x_set_ctx (s : xstmt) (c : Z) : xstmt := mk_x c (x_skip s) (x_pre s) (x_set s) (x_gp s ++ [XPCtx c]).
Definition x_set_skip (s : xstmt) : xstmt := mk_x (x_ctx s) true (x_pre s) (x_set s) (x_gp s ++ [XPSkip]).
(* DB.Session on a handle whose statement is number i: the new handle (statement, clone mode) *)
Definition x_session (mh : list amap) (sts : list xstmt) (i : nat) (newdb : bool) (ctx : option Z) (skip prep : bool)
  : list amap * list xstmt * (nat * nat) :=
  let mode := if newdb then 1%nat else 2%nat in
  (* the writes tx.Statement.Context = ... / tx.Statement.SkipHooks = true happen whether or not the
     guard gave tx a statement of its own *)
  let wr c := let c1 := match ctx with Some v => x_set_ctx c v | None => c end in
              if skip then x_set_skip c1 else c1 in
  if guard newdb ctx skip prep then
    let '(mh1, c) := x_clone mh (xget sts i) in
    (mh1, sts ++ [wr c], (length sts, mode))
  else
    (* no statement of its own: the writes land in the statement the PARENT handle (and every handle that
       shares it) keeps using; they are no part of that statement's own derivation (ghost unchanged) *)
    let s := xget sts i in
    let raw := mk_x (match ctx with Some v => v | None => x_ctx s end) (x_skip s || skip) (x_pre s) (x_set s) (x_gp s) in
    (mh, upd_nth sts i raw, (i, mode)).

Record xstate := mk_xs {
  xs_maps : list amap;
  xs_stmts : list xstmt;
  xs_handles : list (nat * nat);
  xs_outs : list (list xpop * xobs)
}.
Definition xstate0 : xstate := mk_xs [] [xstmt0] [(O, 1%nat)] [].

Definition do_xstep (st : xstate) (x : xstep) : xstate :=
  let hd p := nth p (xs_handles st) (O, 1%nat) in
  match x with
  | XDerive p o =>
      let '(mh1, sts1, i) := x_get_instance (xs_maps st) (xs_stmts st) (hd p) in
      let '(mh2, s') := x_apply mh1 (xget sts1 i) o in
      mk_xs mh2 (upd_nth sts1 i (x_push s' (XPOp o))) (xs_handles st ++ [(i, O)]) (xs_outs st)
  | XFinish p =>
      let '(mh1, sts1, i) := x_get_instance (xs_maps st) (xs_stmts st) (hd p) in
      let s' := x_push (xget sts1 i) XPFin in
      mk_xs mh1 (upd_nth sts1 i s') (xs_handles st ++ [(i, O)]) (xs_outs st ++ [(x_gp s', xabs mh1 s')])
  | XSess p k =>
      match k with
      | XSession newdb ctx skip prep =>
          let '(mh1, sts1, h) := x_session (xs_maps st) (xs_stmts st) (fst (hd p)) newdb ctx skip prep in
          mk_xs mh1 sts1 (xs_handles st ++ [h]) (xs_outs st)
      | XDebug =>      (* tx = db.getInstance(); tx.Session(&Session{Logger}) *)
          let '(mh1, sts1, i) := x_get_instance (xs_maps st) (xs_stmts st) (hd p) in
          let '(mh2, sts2, h) := x_session mh1 sts1 i false None false false in
          mk_xs mh2 sts2 (xs_handles st ++ [h]) (xs_outs st)
      | XBegin =>      (* db.getInstance().Session(&Session{Context: db.Statement.Context, NewDB: db.clone == 1}) *)
          let '(mh1, sts1, i) := x_get_instance (xs_maps st) (xs_stmts st) (hd p) in
          let nd := match snd (hd p) with S O => true | _ => false end in
          let '(mh2, sts2, h) := x_session mh1 sts1 i nd (Some (x_ctx (xget sts1 i))) false false in
          mk_xs mh2 sts2 (xs_handles st ++ [h]) (xs_outs st)
      end
  | XAbandon p => mk_xs (xs_maps st) (xs_stmts st) (xs_handles st ++ [hd p]) (xs_outs st)
  end.

Definition run_xhist (hist : list xstep) : xstate := fold_left do_xstep hist xstate0.
End WithCode.

(* the tree: clone makes a new map; Session's guard *)
Definition tree_guard (newdb : bool) (ctx : option Z) (skip prep : bool) : bool := is_some ctx || prep || skip.
(* a guard is SOUND when it holds whenever Session writes Context or SkipHooks into the statement *)
Definition guard_sound (g : bool -> option Z -> bool -> bool -> bool) : Prop :=
  forall newdb ctx skip prep, is_some ctx || skip = true -> g newdb ctx skip prep = true.
(* round-7 seeded change 19: "a NewDB session has nothing to copy" *)
Definition weak_guard (newdb : bool) (ctx : option Z) (skip prep : bool) : bool :=
  prep || (negb newdb && (is_some ctx || skip)).

(* ---- the same chain alone: no heap, no other statement ---- *)
Definition xp_pop (a : xobs) (p : xpop) : xobs :=
  match p with
  | XPOp (XPreload k v) => mk_xo (o_ctx a) (o_skip a) (ains k v (o_pre a)) (o_set a)
  | XPOp (XSet k v) => mk_xo (o_ctx a) (o_skip a) (o_pre a) (ains k v (o_set a))
  | XPOp XOther => a
  | XPCtx c => mk_xo c (o_skip a) (o_pre a) (o_set a)
  | XPSkip => mk_xo (o_ctx a) true (o_pre a) (o_set a)
  | XPNew => mk_xo (o_ctx a) (o_skip a) [] []
  | XPFin => a
  end.
Definition xreplay (chain : list xpop) : xobs := fold_left xp_pop chain xo0.

(* every finisher saw exactly what its own chain, built alone, sees *)
Definition xisolated (st : xstate) : Prop :=
  forall chain o, In (chain, o) (xs_outs st) -> o = xreplay chain.

(* ---- ONE history for both models: the slice state (C06_Model) and the non-slice state (above) run
        over the same handle table ---- *)
Inductive uop := UOp (o : op) | UPreload (k v : Z) | USet (k v : Z).
Inductive usess := USession (newdb : bool) (ctx : option Z) (skip : bool) | UDebug | UBegin.
Inductive ustep :=
| UDerive (p : nat) (o : uop)
| USess (p : nat) (k : usess)
| UFinish (p : nat) (f : fin)
| UAbandon (p : nat).

Definition neutral_op : op := OWhere [] 0.      (* a chain method that touches no slice: getInstance only *)
Definition to_step (u : ustep) : step :=
  match u with
  | UDerive p (UOp o) => Derive p o
  | UDerive p _ => Derive p neutral_op
  | USess p (USession nd ctx skip) =>
      Sess p (if tree_guard nd ctx skip false then (if nd then SNewCtx else SCtx) else (if nd then SNewDB else SPlain))
  | USess p UDebug => Sess p SDebug
  | USess p UBegin => Sess p SBegin
  | UFinish p f => Finish p f
  | UAbandon p => Abandon p
  end.
Definition to_xstep (u : ustep) : xstep :=
  match u with
  | UDerive p (UOp _) => XDerive p XOther
  | UDerive p (UPreload k v) => XDerive p (XPreload k v)
  | UDerive p (USet k v) => XDerive p (XSet k v)
  | USess p (USession nd ctx skip) => XSess p (XSession nd ctx skip false)
  | USess p UDebug => XSess p XDebug
  | USess p UBegin => XSess p XBegin
  | UFinish p _ => XFinish p
  | UAbandon p => XAbandon p
  end.

(* ---- the SYNTACTIC derivation path of every handle, computed from the history alone (what the harness
        replays on a fresh gorm.Open); [linearb]: a chain result (clone mode 0) is used at most once ---- *)
Local Open Scope nat_scope.
Record hent := mk_h { he_mode : nat; he_path : list xpop; he_dead : bool }.
Definition hent0 : hent := mk_h 1 [] false.
Definition inst' (m : nat) (g : list xpop) : list xpop := match m with 1 => g ++ [XPNew] | _ => g end.
Definition inst (e : hent) : list xpop := inst' (he_mode e) (he_path e).
Definition sess_path (path : list xpop) (ctx : option Z) (skip : bool) : list xpop :=
  let p1 := match ctx with Some v => path ++ [XPCtx v] | None => path end in
  if skip then p1 ++ [XPSkip] else p1.

(* a chain result (clone mode 0) that has been used is dead *)
Definition kill (tbl : list hent) (p : nat) : list hent :=
  match he_mode (nth p tbl hent0) with
  | O => upd_nth tbl p (mk_h 0 (he_path (nth p tbl hent0)) true)
  | _ => tbl
  end.
Definition new_ent (tbl : list hent) (x : xstep) : hent :=
  let e p := nth p tbl hent0 in
  match x with
  | XDerive p o => mk_h 0 (inst (e p) ++ [XPOp o]) false
  | XFinish p => mk_h 0 (inst (e p) ++ [XPFin]) false
  | XSess p (XSession nd ctx skip prep) => mk_h (if nd then 1 else 2) (sess_path (he_path (e p)) ctx skip) false
  | XSess p XDebug => mk_h 2 (inst (e p)) false
  | XSess p XBegin =>
      let q := inst (e p) in
      mk_h (match he_mode (e p) with 1 => 1 | _ => 2 end) (q ++ [XPCtx (o_ctx (xreplay q))]) false
  | XAbandon p => mk_h (he_mode (e p)) (he_path (e p)) (match he_mode (e p) with O => true | _ => false end)
  end.
Definition step_parent (x : xstep) : nat :=
  match x with XDerive p _ | XSess p _ | XFinish p | XAbandon p => p end.
Definition tstep (tbl : list hent) (x : xstep) : list hent := kill tbl (step_parent x) ++ [new_ent tbl x].
Definition tbl0 : list hent := [hent0].
Definition hpaths (hist : list xstep) : list hent := fold_left tstep hist tbl0.

Definition usable (tbl : list hent) (p : nat) : bool := (p <? length tbl) && negb (he_dead (nth p tbl hent0)).
Fixpoint linearb (tbl : list hent) (hist : list xstep) : bool :=
  match hist with
  | [] => true
  | x :: r => usable tbl (step_parent x) && linearb (tstep tbl x) r
  end.
(* the derivation paths of the finishers of a history, in order *)
Fixpoint fin_paths (tbl : list hent) (hist : list xstep) : list (list xpop) :=
  match hist with
  | [] => []
  | x :: r => (match x with XFinish _ => [he_path (new_ent tbl x)] | _ => [] end) ++ fin_paths (tstep tbl x) r
  end.

