(* C07_Check.v — correspondence checker for C07.
   One ROUND of the harness (G goroutines on one shared handle / one shared schema cache) yields
   two or three cases that differ only in [c_part]:
     part 0  everything except schema-initialisation races: results equal to the serial run,
             returns after close, one winner per type, every return of a type with a malformed
             relation carries an error and every return of a type that reaches none carries none
             (errs_as_alone), no hang / crash, no other gorm race;
             and the model half: the observed coarse trace of the Parse calls is a trace of
             C07_Model (the witness schedule found by the harness is REPLAYED here with [run]),
             resp. for database rounds the set of model types built is the relation closure of
             the types used (cold) or empty (warm);
     part 1  no data race whose stack lies in schema.ParseWithSpecialTableName (the getOrParse
             hazard of Props_C07.c07_getorparse_caveat_refuted, observed by the race detector);
     part 2  (rounds with a shared Or-first Session handle) no race inside clause.Where.Build;
     part 3  (PrepareStmt rounds whose pool is smaller than the number of goroutines, with
             transactions) the round does not hang. *)
From Verif Require Export Base C07_Model C07_ErrSpec.
Open Scope Z_scope.

Inductive vev :=
| VStart (g : tid) (t : ty)
| VBuild (g : tid) (t : ty)
| VRet (g : tid) (t : ty) (pid : nat) (err : bool).

Record case := mk_case {
  c_part : nat;
  c_kind : nat;                 (* 0 = protocol round (schema.Parse), 1 = database round *)
  c_valid : bool;               (* false: the child died inside schema initialisation, nothing observed *)
  c_cfg : config; c_progs : list (list ty); c_warm : bool;
  c_searched : bool;            (* the harness found a witness schedule (false = search budget exhausted) *)
  c_sched : list tid;
  o_events : list vev;
  o_closed : list bool;         (* per return: initialized was closed *)
  o_conc : list (list (bool * Z * Z));    (* per goroutine, per call/op: error?, digest|#relations, rows affected|#fields *)
  o_serial : list (list (bool * Z * Z));
  c_optys : list (list ty);     (* database rounds: per goroutine, per operation: the model type it works on *)
  o_final_c : Z; o_final_s : Z; (* digest of the final dump: concurrent, serial *)
  c_used : list ty;
  c_prewarm : list ty;          (* cold rounds: types used once, serially, before the goroutines start *)
  o_builds : list ty;
  o_bad : Z;                    (* hangs + crashes outside schema initialisation + panics + setup errors *)
  o_races : list (nat * string * string)  (* category, normalised function pair *)
}.

(* ---- projection of a model trace to the visible events -------------------------------- *)
Fixpoint lookup_pid (m : list (sid * nat)) (s : sid) : option nat :=
  match m with [] => None | (k, v) :: r => if Nat.eqb k s then Some v else lookup_pid r s end.

Fixpoint visible (evs : list event) (m : list (sid * nat)) (next : nat) : list vev :=
  match evs with
  | [] => []
  | EStart g t :: r => VStart g t :: visible r m next
  | EBuild g t _ :: r => VBuild g t :: visible r m next
  | ERet g t s e :: r =>
      match lookup_pid m s with
      | Some p => VRet g t p e :: visible r m next
      | None => VRet g t next e :: visible r ((s, next) :: m) (S next)
      end
  | _ :: r => visible r m next
  end.

Definition vev_eqb (a b : vev) : bool :=
  match a, b with
  | VStart g t, VStart g' t' => Nat.eqb g g' && Nat.eqb t t'
  | VBuild g t, VBuild g' t' => Nat.eqb g g' && Nat.eqb t t'
  | VRet g t p e, VRet g' t' p' e' => Nat.eqb g g' && Nat.eqb t t' && Nat.eqb p p' && Bool.eqb e e'
  | _, _ => false
  end.

Definition init_state (c : case) : state :=
  if c_warm c then warm (c_cfg c) (c_progs c) else initial (c_progs c).

Definition replay_agrees (c : case) : bool :=
  match run (c_cfg c) (init_state c) (c_sched c) with
  | Some st => all_finished st && list_eqb vev_eqb (visible (rev (st_trace st)) [] 0) (o_events c)
  | None => false
  end.

(* without a witness: every goroutine's own events have the shape of its program *)
Definition ev_g (e : vev) : tid := match e with VStart g _ | VBuild g _ | VRet g _ _ _ => g end.
Fixpoint shape_ok (prog : list ty) (evs : list vev) (in_call : option ty) : bool :=
  match evs with
  | [] => match prog, in_call with [], None => true | _, _ => false end
  | VStart _ t :: r =>
      match in_call, prog with
      | None, p :: prog' => Nat.eqb p t && shape_ok prog' r (Some t)
      | _, _ => false
      end
  | VBuild _ _ :: r => match in_call with Some _ => shape_ok prog r in_call | None => false end
  | VRet _ t _ _ :: r =>
      match in_call with Some t' => Nat.eqb t t' && shape_ok prog r None | None => false end
  end.
Definition local_agrees (c : case) : bool :=
  forallb (fun g => shape_ok (nth g (c_progs c) [])
                             (filter (fun e => Nat.eqb (ev_g e) g) (o_events c)) None)
          (seq 0 (length (c_progs c))).

(* relation closure of a set of types (what a cold first use must build) *)
Fixpoint closure (cfg : config) (fuel : nat) (todo seen : list ty) : list ty :=
  match fuel with
  | O => seen
  | S k =>
      match todo with
      | [] => seen
      | t :: r =>
          if existsb (Nat.eqb t) seen then closure cfg k r seen
          else closure cfg k (map r_to (rels cfg t) ++ r) (t :: seen)
      end
  end.
Definition subset (a b : list ty) : bool := forallb (fun x => existsb (Nat.eqb x) b) a.
Definition set_eqb (a b : list ty) : bool := subset a b && subset b a.
Definition closure_fuel (c : case) : nat :=
  S (length (c_used c) + length (c_prewarm c)) + fold_right (fun l n => (S (length l) + n)%nat) 0%nat (c_cfg c) * S (length (c_cfg c)).

Definition builds_agree (c : case) : bool :=
  if c_warm c then match o_builds c with [] => true | _ => false end
  else
    let pre := closure (c_cfg c) (closure_fuel c) (c_prewarm c) [] in
    set_eqb (o_builds c)
            (filter (fun t => negb (existsb (Nat.eqb t) pre))
                    (closure (c_cfg c) (closure_fuel c) (c_used c) [])).

Definition model_agrees (c : case) : bool :=
  negb (c_valid c) ||
  match c_part c with
  | O => match c_kind c with
         | O => if c_searched c then replay_agrees c else local_agrees c
         | _ => builds_agree c
         end
  | _ => true
  end.

(* ---- the property, on what gorm did --------------------------------------------------- *)
Definition res_eqb (a b : bool * Z * Z) : bool :=
  Bool.eqb (fst (fst a)) (fst (fst b)) && (snd (fst a) =? snd (fst b)) && (snd a =? snd b).

(* one winner per type among the error-free returns observed *)
Fixpoint winners_ok (evs : list vev) (m : list (ty * nat)) : bool :=
  match evs with
  | [] => true
  | VRet _ t p false :: r =>
      match lookup_pid m t with
      | Some p' => Nat.eqb p p' && winners_ok r m
      | None => winners_ok r ((t, p) :: m)
      end
  | _ :: r => winners_ok r m
  end.

(* "the same result (error included) as alone", on the returns observed in a protocol round: alone
   a model type with a malformed relation of its own always fails, a type that reaches no malformed
   relation never does (in between the lone outcome is an error too, but the known getOrParse hazard
   can hide it: those types are judged by the comparison with the serial run only) *)
Definition errs_as_alone (c : case) : bool :=
  forallb (fun e => match e with
                    | VRet _ t _ err =>
                        (if malformedb (c_cfg c) t then err else true) &&
                        (if taintedb (c_cfg c) t then true else negb err)
                    | _ => true
                    end) (o_events c).

(* database rounds: an operation on a model type with a malformed relation of its own returns an
   error (the parse error), whoever else uses the type at that moment *)
Fixpoint ops_fail (cfg : config) (tys : list ty) (rs : list (bool * Z * Z)) : bool :=
  match tys, rs with
  | t :: tys', r :: rs' => (if malformedb cfg t then fst (fst r) else true) && ops_fail cfg tys' rs'
  | _, _ => true
  end.
Fixpoint all2 {A B} (f : A -> B -> bool) (a : list A) (b : list B) : bool :=
  match a, b with x :: a', y :: b' => f x y && all2 f a' b' | _, _ => true end.
Definition ops_as_alone (c : case) : bool := all2 (ops_fail (c_cfg c)) (c_optys c) (o_conc c).

Definition no_race_cat (c : case) (k : nat) : bool :=
  forallb (fun r => negb (Nat.eqb (fst (fst r)) k)) (o_races c).

Definition spec_holds (c : case) : bool :=
  match c_part c with
  | O => negb (c_valid c) ||
         ((o_bad c =? 0)
          && forallb (fun b => b) (o_closed c)
          && list_eqb (list_eqb res_eqb) (o_conc c) (o_serial c)
          && (o_final_c c =? o_final_s c)
          && winners_ok (o_events c) []
          && errs_as_alone c
          && ops_as_alone c
          && no_race_cat c 1)
  | 1%nat => no_race_cat c 0
  | 2%nat => no_race_cat c 3
  | _ => o_bad c =? 0
  end.

Definition check_case (c : case) : N := code_of (model_agrees c) (spec_holds c).
