(* C12_Elems.v — association mode at the level of the Go OBJECTS a call passes (no proofs here).

   C12_Model works on primary keys.  Two things about the arguments of Append / Replace are decided by
   gorm code and are modelled here:

   * the foreign-key FIELD of a passed object (has one / has many): a record handed to Append may carry
     any key in memory - unset for a fresh struct, another owner's key when it was loaded from the
     database or was appended to another owner before.  SaveAfterAssociations writes the owner's key
     into the field of EVERY element of the relation field (ref.ForeignKey.Set(elem, pv)) and only then
     upserts the elements with ON CONFLICT DO UPDATE SET fk = excluded.fk: the stored link is what the
     element's field holds at that moment ([set_keys], [upsert_fk]).

   * an argument may BE an element (or a sub-slice) of the owner's own in-memory relation field
     ([ARef pos]).  appendToRelations builds the new field value in a fresh slice (reflect.MakeSlice),
     so every argument is read from the field as it was when the call was made ([resolve] against the
     old field), whatever the order of the arguments.

   State: the tables of C12_Model.st, and per owner of the handle the ELEMENTS its in-memory field
   holds: (primary key, value of the foreign-key field in memory).  [to_st] forgets the key fields;
   C12_ElemsProofs shows that every operation here is the C12_Model operation on [to_st] (for all
   arguments, whatever their in-memory keys), and that every element a has-kind field holds carries
   its owner's key. *)
From Verif Require Import Base C12_Model.
Open Scope Z_scope.

Definition elem := (Z * option Z)%type.

Inductive arg :=
| AObj (id : Z) (fk : option Z)   (* an object of its own: primary key (the assigned one for a new record) and
                                     what its foreign-key field holds when the call is made (None: unset,
                                     or the kind has no such field: belongs to / many2many) *)
| ARef (pos : nat).               (* the element at position pos of the owner's own relation field *)

Inductive eop :=
| EAppend (vs : list (list arg))
| EReplace (vs : list (list arg))
| EDelete (ts : list Z)
| EClear
| EAppendNone.

Record est := mk_est {
  e_rows  : list (Z * option Z);
  e_joins : list (Z * Z);
  e_tgt   : list Z;
  e_mem   : list (list elem)
}.

Definition to_st (e : est) : st := mk_st (e_rows e) (e_joins e) (e_tgt e) (map (map fst) (e_mem e)).
Definition with_mem (s : st) (m : list (list elem)) : est := mk_est (rows s) (joins s) (tgt s) m.

(* ---- appendToRelations ---- *)
(* every argument is read from the field value the owner held when the call was made *)
Definition resolve (m : list elem) (a : arg) : elem :=
  match a with AObj t f => (t, f) | ARef p => nth p m (0, None) end.
Definition last_or_e (d v : list elem) : list elem :=
  match rev v with [] => d | x :: _ => [x] end.
Definition new_field_e (k : kind) (clear : bool) (m : list elem) (a : list arg) : list elem :=
  let v := map (resolve m) a in
  match k with
  | KHasOne | KBelongs => last_or_e (if clear then [] else m) v
  | KHasMany | KM2M => (if clear then [] else m) ++ v
  end.

(* ---- SaveAfterAssociations: the owner's key goes into the foreign-key field of EVERY element ---- *)
Definition set_keys (k : kind) (o : Z) (m : list elem) : list elem :=
  match k with
  | KHasOne | KHasMany => map (fun x => (fst x, Some o)) m
  | KBelongs | KM2M => m
  end.
(* INSERT ... ON CONFLICT (id) DO UPDATE SET fk = excluded.fk : the value of the element's field *)
Fixpoint upsert_fk (t : Z) (f : option Z) (r : list (Z * option Z)) : list (Z * option Z) :=
  match r with
  | [] => [(t, f)]
  | (t', f') :: r' => if t' =? t then (t', f) :: r' else (t', f') :: upsert_fk t f r'
  end.
Definition save_owner_e (k : kind) (o : Z) (m : list elem) (s : st) : st :=
  match k with
  | KHasOne | KHasMany =>
      mk_st (fold_left (fun r x => upsert_fk (fst x) (snd x) r) m (rows s)) (joins s) (tgt s) (mem s)
  | KBelongs =>
      match m with
      | x :: _ => mk_st (set_fk o (Some (fst x)) (rows s)) (joins s) (add_z (fst x) (tgt s)) (mem s)
      | [] => s
      end
  | KM2M =>
      mk_st (rows s) (fold_left (fun j x => add_join (o, fst x) j) m (joins s)) (add_zs (map fst m) (tgt s)) (mem s)
  end.

(* saveAssociation: per owner field := new value, keys written, Updates(owner) *)
Fixpoint save_loop_e (k : kind) (clear : bool) (os : list Z) (vs : list (list arg)) (ms : list (list elem)) (s : st)
  : list (list elem) * st :=
  match os, vs, ms with
  | o :: os', v :: vs', m :: ms' =>
      let m' := set_keys k o (new_field_e k clear m v) in
      let s' := save_owner_e k o m' s in
      let '(rest, s'') := save_loop_e k clear os' vs' ms' s' in
      (m' :: rest, s'')
  | _, _, _ => ([], s)
  end.
Definition save_assoc_e (k : kind) (clear : bool) (os : list Z) (vs : list (list arg)) (e : est) : est :=
  let '(ms, s') := save_loop_e k clear os vs (e_mem e) (to_st e) in with_mem s' ms.

(* the primary keys of the values passed, per owner *)
Definition erase_vals (ms : list (list elem)) (vs : list (list arg)) : list (list Z) :=
  map (fun mv => map fst (map (resolve (fst mv)) (snd mv))) (combine ms vs).

Definition do_replace_e (k : kind) (u : bool) (os : list Z) (vs : list (list arg)) (e : est) : est :=
  let e1 := save_assoc_e k true os vs e in
  with_mem (detach_others k u os (erase_vals (e_mem e) vs) (mem (to_st e)) false (to_st e1)) (e_mem e1).
Definition do_append_e (k : kind) (u : bool) (os : list Z) (vs : list (list arg)) (e : est) : est :=
  match k with
  | KHasOne | KBelongs => do_replace_e k u os vs e
  | KHasMany | KM2M => save_assoc_e k false os vs e
  end.
Definition do_clear_e (k : kind) (u : bool) (os : list Z) (e : est) : est :=
  with_mem (do_clear k u os (to_st e)) (map (fun _ => []) (e_mem e)).
(* cleanUpDeletedRelations keeps the elements that are not named *)
Definition do_delete_e (k : kind) (u : bool) (os : list Z) (ts : list Z) (e : est) : est :=
  with_mem (do_delete k u os ts (to_st e)) (map (filter (fun x : elem => negb (memz (fst x) ts))) (e_mem e)).

Definition assoc_step_e (k : kind) (os : list Z) (e : est) (uo : bool * eop) : est :=
  let '(u, o) := uo in
  match o with
  | EAppend vs => do_append_e k u os vs e
  | EReplace vs => do_replace_e k u os vs e
  | EDelete ts => do_delete_e k u os ts e
  | EClear => do_clear_e k u os e
  | EAppendNone => e
  end.

Fixpoint run_e (k : kind) (os : list Z) (e : est) (ops : list (bool * eop)) : list est :=
  match ops with
  | [] => []
  | uo :: r => let e' := assoc_step_e k os e uo in e' :: run_e k os e' r
  end.
Definition final_e (k : kind) (os : list Z) (e : est) (ops : list (bool * eop)) : est :=
  fold_left (assoc_step_e k os) ops e.

(* ---- the same call with the objects forgotten: primary keys only (C12_Model.op) ---- *)
Definition erase_op (ms : list (list elem)) (o : eop) : op :=
  match o with
  | EAppend vs => OAppend (erase_vals ms vs)
  | EReplace vs => OReplace (erase_vals ms vs)
  | EDelete ts => ODelete ts
  | EClear => OClear
  | EAppendNone => OAppendNone
  end.
Fixpoint erase_hist (k : kind) (os : list Z) (e : est) (ops : list (bool * eop)) : list (bool * op) :=
  match ops with
  | [] => []
  | uo :: r => (fst uo, erase_op (e_mem e) (snd uo)) :: erase_hist k os (assoc_step_e k os e uo) r
  end.
