(* C15_ScanProofs.v — the loops of C15_Scan.scan computed in closed form, for every row list. *)
From Verif Require Import Base C15_Model C15_Scan.
Open Scope Z_scope.

Lemma fold_append : forall k rs d ra,
  (k = DStructSlice \/ k = DPtrSlice \/ k = DMapSlice) ->
  fold_left (scan_step k) rs {| s_dest := d; s_ra := ra |}
  = {| s_dest := d ++ rs; s_ra := ra + Z.of_nat (length rs) |}.
Proof.
  intros k rs; induction rs as [|r rs IH]; intros d ra Hk.
  - cbn. rewrite app_nil_r, Z.add_0_r. reflexivity.
  - cbn [fold_left].
    assert (Hs : scan_step k {| s_dest := d; s_ra := ra |} r = {| s_dest := d ++ [r]; s_ra := ra + 1 |})
      by (destruct Hk as [-> | [-> | ->]]; reflexivity).
    rewrite Hs, IH by exact Hk. rewrite <- app_assoc. cbn [app length]. f_equal. lia.
Qed.

Lemma fold_prim : forall rs d ra,
  fold_left (scan_step DPrim) rs {| s_dest := d; s_ra := ra |}
  = {| s_dest := match rev rs with [] => d | r :: _ => [r] end; s_ra := ra + Z.of_nat (length rs) |}.
Proof.
  induction rs as [|r rs IH]; intros d ra.
  - cbn. rewrite Z.add_0_r. reflexivity.
  - cbn [fold_left scan_step s_dest s_ra]. rewrite IH. cbn [rev length].
    f_equal; [|lia].
    destruct (rev rs) as [|x xs] eqn:E; reflexivity.
Qed.

Lemma fold_array : forall n rs d ra,
  ra = Z.of_nat (length d) -> (length d <= n)%nat ->
  fold_left (scan_step (DArray n)) rs {| s_dest := d; s_ra := ra |}
  = {| s_dest := d ++ firstn (n - length d) rs; s_ra := ra + Z.of_nat (length rs) |}.
Proof.
  intros n rs; induction rs as [|r rs IH]; intros d ra Hra Hle.
  - cbn. rewrite firstn_nil, app_nil_r, Z.add_0_r. reflexivity.
  - cbn [fold_left scan_step s_dest s_ra].
    destruct (ra + 1 <=? Z.of_nat n) eqn:E.
    + apply Z.leb_le in E.
      rewrite IH; [| rewrite app_length; cbn; lia | rewrite app_length; cbn; lia ].
      rewrite app_length. cbn [length].
      replace (n - length d)%nat with (S (n - (length d + 1)))%nat by lia.
      cbn [firstn]. rewrite <- app_assoc. cbn [app]. f_equal. lia.
    + apply Z.leb_gt in E.
      assert (Hfull : length d = n) by lia.
      (* the array is full: every further row only counts *)
      assert (Hgen : forall rs' ra', Z.of_nat n < ra' + 1 ->
                fold_left (scan_step (DArray n)) rs' {| s_dest := d; s_ra := ra' |}
                = {| s_dest := d; s_ra := ra' + Z.of_nat (length rs') |}).
      { induction rs' as [|x xs IHx]; intros ra' Hlt.
        - cbn. rewrite Z.add_0_r. reflexivity.
        - cbn [fold_left scan_step s_dest s_ra].
          destruct (ra' + 1 <=? Z.of_nat n) eqn:E'; [apply Z.leb_le in E'; lia|].
          rewrite IHx by lia. cbn [length]. f_equal. lia. }
      rewrite Hgen by lia.
      replace (n - length d)%nat with 0%nat by lia. cbn [firstn]. rewrite app_nil_r.
      cbn [length]. f_equal. lia.
Qed.

(* scan = the closed form, for every kind, every previous content and every row list *)
Lemma scan_closed : forall k pre rs,
  scan k pre rs =
  {| s_dest := match k with
               | DMapSlice => pre ++ rs
               | DStruct | DMap | DPrim => match reported k rs with [] => pre | l => l end
               | _ => reported k rs
               end;
     s_ra := reported_ra k rs |}.
Proof.
  intros k pre rs; destruct k as [| |n| | | |]; unfold scan, scan_init, reported, reported_ra.
  - rewrite fold_append by auto. reflexivity.
  - rewrite fold_append by auto. reflexivity.
  - rewrite fold_array by (cbn; lia). cbn [app length]. rewrite Nat.sub_0_r. reflexivity.
  - destruct rs; reflexivity.
  - destruct rs; reflexivity.
  - rewrite fold_append by auto. reflexivity.
  - rewrite fold_prim. cbn. destruct (rev rs); reflexivity.
Qed.

(* RowsAffected = number of rows the statement returned, for every looping kind; for the
   single-record kinds: 1 iff there is a row *)
Lemma scan_ra : forall k pre rs,
  s_ra (scan k pre rs) =
  match k with DStruct | DMap => (if match rs with [] => true | _ => false end then 0 else 1)
             | _ => Z.of_nat (length rs) end.
Proof.
  intros k pre rs. rewrite scan_closed. cbn [s_ra]. unfold reported_ra.
  destruct k; try reflexivity; destruct rs; reflexivity.
Qed.

(* a fresh slice / slice-of-pointers / slice-of-maps destination holds exactly the rows of the
   statement, in their order; what a reused slice held before is gone *)
Lemma scan_slices_same_rows : forall pre rs,
  s_dest (scan DStructSlice pre rs) = rs /\ s_dest (scan DPtrSlice pre rs) = rs
  /\ s_dest (scan DMapSlice [] rs) = rs.
Proof. intros; rewrite !scan_closed; cbn; auto. Qed.

(* an array destination holds the first n rows and nothing of its previous content *)
Lemma scan_array : forall n pre rs, s_dest (scan (DArray n) pre rs) = firstn n rs.
Proof. intros; rewrite scan_closed; reflexivity. Qed.

Lemma scan_array_fits : forall n pre rs, (length rs <= n)%nat -> s_dest (scan (DArray n) pre rs) = rs.
Proof. intros n pre rs H; rewrite scan_array. apply firstn_all2; exact H. Qed.

(* the single-record kinds hold the first row; a primitive holds the last one *)
Lemma scan_single : forall pre r rs,
  s_dest (scan DStruct pre (r :: rs)) = [r] /\ s_dest (scan DMap pre (r :: rs)) = [r].
Proof. intros; split; reflexivity. Qed.

Lemma scan_prim_last : forall pre rs r, s_dest (scan DPrim pre (rs ++ [r])) = [r].
Proof. intros; rewrite scan_closed; cbn. rewrite rev_app_distr. reflexivity. Qed.

(* no row: the destination keeps what it held (slices and arrays are emptied), RowsAffected = 0,
   and ErrRecordNotFound is raised exactly when the finder asked for it *)
Lemma scan_no_rows : forall k pre raise,
  s_ra (scan k pre []) = 0 /\ scan_not_found raise (scan k pre []) = raise
  /\ s_dest (scan k pre []) = match k with DStructSlice | DPtrSlice | DArray _ => [] | _ => pre end.
Proof.
  intros k pre raise; destruct k; cbn; unfold scan_not_found; cbn; rewrite ?Bool.andb_true_r; auto.
Qed.

Lemma scan_not_found_iff : forall k pre rs,
  scan_not_found true (scan k pre rs) = true <-> rs = [].
Proof.
  intros k pre rs. unfold scan_not_found. cbn [andb]. rewrite scan_ra. split.
  - intro H. apply Z.eqb_eq in H. destruct rs as [|r rs]; [reflexivity|]. exfalso.
    destruct k; cbn in H; lia.
  - intros ->. destruct k; reflexivity.
Qed.

(* all kinds agree: each reports a prefix-or-last view of the same row list, and two looping kinds
   report the same RowsAffected *)
Lemma scan_kinds_agree : forall pre rs,
  s_dest (scan DStructSlice pre rs) = s_dest (scan DPtrSlice pre rs)
  /\ s_dest (scan DStructSlice pre rs) = s_dest (scan DMapSlice [] rs)
  /\ s_ra (scan DStructSlice pre rs) = s_ra (scan DMapSlice pre rs)
  /\ s_ra (scan DStructSlice pre rs) = s_ra (scan DPrim pre rs)
  /\ (forall n, s_ra (scan (DArray n) pre rs) = s_ra (scan DStructSlice pre rs))
  /\ hd_error (s_dest (scan DStructSlice pre rs)) = hd_error (s_dest (scan DStruct [] rs))
  /\ hd_error (s_dest (scan DStruct [] rs)) = hd_error (s_dest (scan DMap [] rs))
  /\ hd_error (rev (s_dest (scan DStructSlice pre rs))) = hd_error (s_dest (scan DPrim [] rs)).
Proof.
  intros pre rs. rewrite !scan_closed. cbn [s_dest s_ra reported reported_ra].
  repeat split; try reflexivity.
  - intro n. rewrite scan_closed. reflexivity.
  - destruct rs; reflexivity.
  - destruct (rev rs); reflexivity.
Qed.
