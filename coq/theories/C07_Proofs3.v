(* C07_Proofs3.v — the steps that change shared state (allocation, LoadOrStore, relation
   installation, error, Delete, close, return) preserve the invariant. *)
From Verif Require Import Base C07_Model C07_Proofs C07_Proofs2.

Section Steps2.
Variable cfg : config.
Notation frame_inv := (frame_inv cfg).
Notation inv := (inv cfg).

Ltac upd_cases x k :=
  unfold upd; destruct (Nat.eqb_spec x k).

(* the first three clauses of frame_inv carry over when the schemas owned below are untouched *)
Lemma frame_head st st' g below f b' :
  frame_inv st g below f -> frames_ok (frame_inv st g) below ->
  b' = f_born f -> st_clk st <= st_clk st' ->
  (forall x, x < st_nsch st -> s_depth (st_sch st x) < length below -> st_sch st' x = st_sch st x) ->
  b' < st_clk st' /\ Forall is_nest below /\
  (forall p s, In p below -> own_of (f_pc p) = Some s -> s_pub (st_sch st' s) < b').
Proof.
  intros (A & B & C & _) Hb -> Hc Hs. split; [lia|]. split; [exact B|].
  intros p s Hin Ho. destruct (frames_own _ _ _ _ _ _ Hb Hin Ho) as (X & _ & Y).
  rewrite (Hs s X Y). eauto.
Qed.

Lemma step_start st g t todo :
  inv st -> g < st_nthr st -> t_stack (st_thr st g) = [] ->
  inv (with_thr st g (mk_t [mk_f t PLoad1 (st_clk st)] todo (t_rets (st_thr st g)))).
Proof.
  intros I Hg Hs.
  apply (inv_update cfg g st _ [] [mk_f t PLoad1 (st_clk st)] [] I Hg); [reflexivity|..].
  - constructor; cbn; auto.
  - exact Hs.
  - cbn. now rewrite upd_same.
  - intros g' Ng. cbn. now rewrite upd_other.
  - cbn. split; [|trivial]. unfold C07_Proofs.frame_inv. cbn. repeat split; auto.
    + intros p s [].
    + intro H. now elim H.
  - cbn. tauto.
  - cbn. rewrite upd_same. cbn. destruct (i_T _ _ I g) as (_ & _ & R).
    eapply Forall_impl; [|exact R]. intros rr. apply ret_ok_stable with (g0 := g) (K := 0).
    constructor; cbn; auto.
  - exact (i_N _ _ I).
  - intros t' s H1 H2. cbn in H1. contradiction.
  - intros s H1 H2 [H3|H3] _; cbn in *; [lia|congruence].
  - exact (i_G _ _ I).
  - intros s H1 H2 [H3|[H3 H4]]; cbn in *; [lia|].
    destruct (i_L _ _ I s H1 H2) as [_ W]. rewrite H3, Hs in W. apply owns_lt in W. cbn in W. lia.
Qed.

Lemma step_build st g f below :
  inv st -> g < st_nthr st -> t_stack (st_thr st g) = f :: below -> f_pc f = PBuild ->
  inv (with_thr (with_nsch (with_sch st (st_nsch st)
                  (mk_s (f_ty f) g (length below) false false [] 0)) (S (st_nsch st)))
                g (set_top (st_thr st g) (PLoad2 (st_nsch st)))).
Proof.
  intros I Hg Hs Epc. destruct (top_frame cfg _ _ _ _ I Hs) as (Hf & Hb & Hnn).
  set (s := st_nsch st). set (f' := mk_f (f_ty f) (PLoad2 s) (f_born f)).
  assert (Hsch : forall x, x < s -> upd (st_sch st) s (mk_s (f_ty f) g (length below) false false [] 0) x = st_sch st x).
  { intros x Hx. apply upd_other. lia. }
  apply (inv_update cfg g st _ [f] [f'] below I Hg); [reflexivity|..].
  - constructor; cbn; [reflexivity|lia| | |auto].
    + intros x Hx. left. now apply Hsch.
    + intro x. left. upd_cases x s; [|reflexivity]. subst. cbn. now rewrite (i_N _ _ I s (le_n _)).
  - exact Hs.
  - cbn. rewrite upd_same. unfold set_top. now rewrite Hs.
  - intros g' Ng. cbn. now rewrite upd_other.
  - cbn. split; [|trivial].
    destruct (frame_head st (with_thr (with_nsch (with_sch st s (mk_s (f_ty f) g (length below) false false [] 0)) (S s)) g (set_top (st_thr st g) (PLoad2 s))) g below f (f_born f) Hf Hb eq_refl) as (A & B & C).
    { cbn. lia. } { intros x Hx _. cbn. now apply Hsch. }
    unfold C07_Proofs.frame_inv. cbn [f_born f_ty f_pc f']. split; [exact A|]. split; [exact B|]. split; [exact C|].
    split.
    + unfold unpub, mine. cbn. rewrite upd_same. cbn. repeat split; auto.
    + intros Hne w Hw. cbn in *. destruct (i_C _ _ I _ _ Hw) as (X & _ & _).
      rewrite Hsch by exact X. destruct Hf as (_ & _ & _ & F). rewrite Epc in F. now apply F.
  - cbn. tauto.
  - cbn. rewrite upd_same. unfold set_top. rewrite Hs. cbn.
    destruct (i_T _ _ I g) as (_ & _ & R). eapply Forall_impl; [|exact R].
    intros rr (R1 & R2 & R3 & R4 & R5). unfold ret_ok. cbn. rewrite Hsch by exact R4.
    repeat split; try tauto. lia.
  - intros x Hx. cbn in *. rewrite upd_other by (fold s; lia). apply (i_N _ _ I). fold s. lia.
  - intros t' x H1 H2. cbn in H1. contradiction.
  - intros x H1 H2 H3 _. cbn in *. fold s in H1, H3. revert H2. upd_cases x s; [subst; cbn; discriminate|].
    intro H2. destruct H3; [lia|congruence].
  - intros x H1 H2 H3. cbn in *. fold s in H1. revert H2 H3. upd_cases x s; [subst; cbn; lia|].
    intros H2 H3. apply (i_G _ _ I); auto. fold s. lia.
  - intros x H1 H2 H3. cbn in *. fold s in H1, H3. revert H2. upd_cases x s.
    + subst x. cbn. intros _. split; [reflexivity|]. apply (owns_at [] f' below s). reflexivity.
    + intro H2. assert (Hx : x < s) by lia. destruct H3 as [H3|[H3 H4]]; [lia|].
      destruct (i_L _ _ I x Hx H2) as [_ W]. rewrite H3, Hs in W.
      destruct (owns_top _ _ _ _ W H4) as [_ Eo]. rewrite Epc in Eo. discriminate.
Qed.

Ltac head_of Hf Hb :=
  match goal with |- C07_Proofs.frame_inv _ ?S ?g ?below _ =>
    let A := fresh "A" in let B := fresh "B" in let C := fresh "C" in
    destruct (frame_head _ S g below _ _ Hf Hb eq_refl) as (A & B & C);
    [cbn; lia| |unfold C07_Proofs.frame_inv; cbn [f_born f_ty f_pc];
                split; [exact A|]; split; [exact B|]; split; [exact C|]]
  end.

(* a step that rewrites the record of the schema owned by the top frame *)
Lemma step_own_update st g f below s r' p' :
  inv st -> g < st_nthr st -> t_stack (st_thr st g) = f :: below ->
  own_of (f_pc f) = Some s ->
  s_ty r' = s_ty (st_sch st s) -> s_owner r' = s_owner (st_sch st s) ->
  s_depth r' = s_depth (st_sch st s) -> s_pub r' = s_pub (st_sch st s) ->
  (own_of p' = Some s /\ s_closed r' = false \/ own_of p' = None /\ s_closed r' = true) ->
  ~ is_nest (mk_f (f_ty f) p' (f_born f)) ->
  frame_inv (with_thr (with_sch st s r') g (set_top (st_thr st g) p')) g below
            (mk_f (f_ty f) p' (f_born f)) ->
  (s_closed r' = true -> 0 < s_pub r' -> s_err r' = false -> length (s_rel r') = length (rels cfg (s_ty r'))) ->
  (0 < s_pub r' -> s_err r' = false -> st_cache st (s_ty r') = Some s) ->
  inv (with_thr (with_sch st s r') g (set_top (st_thr st g) p')).
Proof.
  intros I Hg Hs Ho Ety Eow Edp Epb Hp' Hnn Hf' HD HG.
  destruct (top_frame cfg _ _ _ _ I Hs) as (Hf & Hb & _).
  destruct (own_mine cfg _ _ _ _ _ Hf Ho) as (M1 & M2 & M3 & M4 & M5).
  set (f' := mk_f (f_ty f) p' (f_born f)).
  apply (inv_update cfg g st _ [f] [f'] below I Hg); [reflexivity|..].
  - constructor; cbn; [reflexivity|lia| | |auto].
    + intros x Hx. upd_cases x s; [subst x; right|left; reflexivity].
      repeat split; auto; try lia.
    + intro x. left. upd_cases x s; [subst; auto|reflexivity].
  - exact Hs.
  - cbn. rewrite upd_same. unfold set_top. now rewrite Hs.
  - intros g' Ng. cbn. now rewrite upd_other.
  - cbn. split; [exact Hf'|trivial].
  - exact Hnn.
  - cbn. rewrite upd_same. unfold set_top. rewrite Hs. cbn.
    destruct (i_T _ _ I g) as (_ & _ & R). eapply Forall_impl; [|exact R].
    intros rr (R1 & R2 & R3 & R4 & R5 & R6). unfold ret_ok. cbn.
    rewrite upd_other by (intro; subst; congruence). repeat split; tauto.
  - intros x Hx. cbn in *. rewrite upd_other by lia. now apply (i_N _ _ I).
  - intros t' x H1 H2. cbn in H1. contradiction.
  - intros x H1 H2 H3 H4. cbn in *. revert H2 H4. upd_cases x s.
    + subst x. intros H2 H4 Er. unfold complete in *. cbn in *. rewrite upd_same in *. auto.
    + intros H2 H4. destruct H3; [lia|congruence].
  - intros x H1. cbn in *. upd_cases x s.
    + subst x. intros H2 H3. now apply HG.
    + apply (i_G _ _ I); auto.
  - intros x H1 H2 [H3|[H3 H4]]; cbn in *; [lia|]. revert H2. upd_cases x s.
    + subst x. intro H2. split; [congruence|]. rewrite Edp, M4.
      apply (owns_at [] f' below s). cbn. destruct Hp' as [[? _]|[_ ?]]; congruence.
    + intro H2. destruct (i_L _ _ I x H1 H2) as [_ W]. rewrite H3, Hs in W.
      destruct (owns_top _ _ _ _ W H4) as [_ Eo]. congruence.
Qed.

Lemma clk_pos st : inv st -> 0 < st_clk st.
Proof. intro I. pose proof (i_K _ _ I 0). lia. Qed.

Lemma step_store st g f below s :
  inv st -> g < st_nthr st -> t_stack (st_thr st g) = f :: below -> f_pc f = PStore s ->
  st_cache st (f_ty f) = None ->
  inv (with_thr (with_sch (with_cache st (f_ty f) (Some s)) s (set_pub (st_sch st s) (st_clk st)))
                g (set_top (st_thr st g) (PRel s 0))).
Proof.
  intros I Hg Hs Epc Hc. destruct (top_frame cfg _ _ _ _ I Hs) as (Hf & Hb & _).
  assert (Ho : own_of (f_pc f) = Some s) by now rewrite Epc.
  destruct (own_mine cfg _ _ _ _ _ Hf Ho) as (M1 & M2 & M3 & M4 & M5).
  assert (Un : unpub st g (length below) (f_ty f) s).
  { destruct Hf as (_ & _ & _ & F). rewrite Epc in F. tauto. }
  destruct Un as (_ & P0 & Er0 & Rl0).
  set (f' := mk_f (f_ty f) (PRel s 0) (f_born f)).
  pose proof (clk_pos _ I) as Cp.
  apply (inv_update cfg g st _ [f] [f'] below I Hg); [reflexivity|..].
  - constructor; cbn; [reflexivity|lia| | |].
    + intros x Hx. upd_cases x s; [subst x; right|left; reflexivity]. cbn. repeat split; auto; lia.
    + intro x. upd_cases x s; [subst; right; reflexivity|left; reflexivity].
    + intro t. upd_cases t (f_ty f); [subst t; right; left|left; reflexivity].
      split; [exact Hc|]. exists s. split; [reflexivity|]. now rewrite Nat.eqb_refl.
  - exact Hs.
  - cbn. rewrite upd_same. unfold set_top. now rewrite Hs.
  - intros g' Ng. cbn. now rewrite upd_other.
  - cbn. split; [|trivial]. head_of Hf Hb.
    { intros x Hx Hd. cbn. apply upd_other. intro; subst. lia. }
    cbn. split; [|lia]. unfold in_loop, mine. cbn. rewrite !upd_same. cbn. repeat split; auto.
    now rewrite Rl0.
  - cbn. tauto.
  - cbn. rewrite upd_same. unfold set_top. rewrite Hs. cbn.
    destruct (i_T _ _ I g) as (_ & _ & R). eapply Forall_impl; [|exact R].
    intros rr (R1 & R2 & R3 & R4 & R5 & R6). unfold ret_ok. cbn.
    rewrite upd_other by (intro; subst; congruence). repeat split; tauto.
  - intros x Hx. cbn in *. rewrite upd_other by lia. now apply (i_N _ _ I).
  - intros t' x H1 H2. cbn in *. revert H1. upd_cases t' (f_ty f).
    + subst t'. intro H1. inversion H1; subst x. rewrite Nat.eqb_refl. cbn. auto.
    + intro H1. contradiction.
  - intros x H1 H2 H3 H4. cbn in *. revert H2. upd_cases x s; [subst; cbn; congruence|].
    intro H2. destruct H3; [lia|congruence].
  - intros x H1. cbn in *. upd_cases x s.
    + subst x. cbn. intros _ _. now rewrite M2, Nat.eqb_refl.
    + intros H2 H3. pose proof (i_G _ _ I x H1 H2 H3) as G.
      upd_cases (s_ty (st_sch st x)) (f_ty f); [congruence|exact G].
  - intros x H1 H2 [H3|[H3 H4]]; cbn in *; [lia|]. revert H2. upd_cases x s.
    + subst x. cbn. intro H2. split; [exact M3|]. rewrite M4.
      apply (owns_at [] f' below s). reflexivity.
    + intro H2. destruct (i_L _ _ I x H1 H2) as [_ W]. rewrite H3, Hs in W.
      destruct (owns_top _ _ _ _ W H4) as [_ Eo]. congruence.
Qed.

Lemma step_delete st g f below s :
  inv st -> g < st_nthr st -> t_stack (st_thr st g) = f :: below -> f_pc f = PDelete s ->
  inv (with_thr (with_cache st (f_ty f) None) g (set_top (st_thr st g) (PClose s s))).
Proof.
  intros I Hg Hs Epc. destruct (top_frame cfg _ _ _ _ I Hs) as (Hf & Hb & _).
  assert (Ho : own_of (f_pc f) = Some s) by now rewrite Epc.
  destruct (own_mine cfg _ _ _ _ _ Hf Ho) as (M1 & M2 & M3 & M4 & M5).
  assert (D : st_cache st (f_ty f) = Some s /\ 0 < s_pub (st_sch st s) /\ s_err (st_sch st s) = true).
  { destruct Hf as (_ & _ & _ & F). rewrite Epc in F. tauto. }
  destruct D as (Dc & Dp & De).
  set (f' := mk_f (f_ty f) (PClose s s) (f_born f)).
  apply (inv_update cfg g st _ [f] [f'] below I Hg); [reflexivity|..].
  - constructor; cbn; [reflexivity|lia|auto|auto|].
    intro t. upd_cases t (f_ty f); [subst t; right; right|left; reflexivity].
    exists s. repeat split; auto. lia.
  - exact Hs.
  - cbn. rewrite upd_same. unfold set_top. now rewrite Hs.
  - intros g' Ng. cbn. now rewrite upd_other.
  - cbn. split; [|trivial]. head_of Hf Hb. { intros; reflexivity. }
    split; [exact (conj M1 (conj M2 (conj M3 (conj M4 M5))))|]. left.
    split; [reflexivity|]. split; [exact Dp|]. cbn. intro. congruence.
  - cbn. tauto.
  - cbn. rewrite upd_same. unfold set_top. rewrite Hs. cbn.
    destruct (i_T _ _ I g) as (_ & _ & R). exact R.
  - exact (i_N _ _ I).
  - intros t' x H1 H2. cbn in *. revert H1. upd_cases t' (f_ty f); [discriminate|]. intro. contradiction.
  - intros x H1 H2 [H3|H3] _; cbn in *; [lia|congruence].
  - intros x H1 H2 H3. cbn in *. pose proof (i_G _ _ I x H1 H2 H3) as G.
    upd_cases (s_ty (st_sch st x)) (f_ty f); [|exact G]. rewrite e in G. congruence.
  - intros x H1 H2 [H3|[H3 H4]]; cbn in *; [lia|].
    destruct (i_L _ _ I x H1 H2) as [_ W]. rewrite H3, Hs in W.
    destruct (owns_top _ _ _ _ W H4) as [Ed Eo]. rewrite Epc in Eo. inversion Eo; subst x.
    split; [exact H3|]. rewrite Ed. apply (owns_at [] f' below s). reflexivity.
Qed.

(* getOrParse missed: a nested Parse(target) starts *)
Lemma step_push st g f below s i tgt ok :
  inv st -> g < st_nthr st -> t_stack (st_thr st g) = f :: below -> f_pc f = PRel s i ->
  i < length (rels cfg (f_ty f)) -> st_cache st tgt = None ->
  inv (with_thr st g (mk_t (mk_f tgt PLoad1 (st_clk st)
                            :: t_stack (set_top (st_thr st g) (PNest s i ok)))
                           (t_todo (st_thr st g)) (t_rets (st_thr st g)))).
Proof.
  intros I Hg Hs Epc Hi Hc. destruct (top_frame cfg _ _ _ _ I Hs) as (Hf & Hb & _).
  assert (Ho : own_of (f_pc f) = Some s) by now rewrite Epc.
  set (fn := mk_f (f_ty f) (PNest s i ok) (f_born f)).
  set (f' := mk_f tgt PLoad1 (st_clk st)).
  assert (Est : t_stack (set_top (st_thr st g) (PNest s i ok)) = fn :: below).
  { unfold set_top. now rewrite Hs. }
  rewrite Est.
  apply (inv_update cfg g st _ [f] [f'; fn] below I Hg); [reflexivity|..].
  - constructor; cbn; auto.
  - exact Hs.
  - cbn. now rewrite upd_same.
  - intros g' Ng. cbn. now rewrite upd_other.
  - cbn. split; [|split; [|trivial]].
    + unfold C07_Proofs.frame_inv. cbn. split; [lia|]. split.
      { constructor; [exact Logic.I|]. destruct Hf as (_ & B & _). exact B. }
      split.
      { intros p x _ _. apply (i_K _ _ I). }
      intros _ w Hw. cbn in Hw. congruence.
    + head_of Hf Hb. { intros; reflexivity. }
      destruct Hf as (_ & _ & _ & F). rewrite Epc in F. cbn. tauto.
  - cbn. tauto.
  - cbn. rewrite upd_same. cbn. destruct (i_T _ _ I g) as (_ & _ & R).
    eapply Forall_impl; [|exact R]. intros rr. apply ret_ok_stable with (g0 := g) (K := 0).
    constructor; cbn; auto.
  - exact (i_N _ _ I).
  - intros t' x H1 H2. cbn in H1. contradiction.
  - intros x H1 H2 [H3|H3] _; cbn in *; [lia|congruence].
  - exact (i_G _ _ I).
  - intros x H1 H2 [H3|[H3 H4]]; cbn in *; [lia|].
    destruct (i_L _ _ I x H1 H2) as [_ W]. rewrite H3, Hs in W.
    destruct (owns_top _ _ _ _ W H4) as [Ed Eo]. rewrite Epc in Eo. inversion Eo; subst x.
    split; [exact H3|]. rewrite Ed. apply (owns_at [f'] fn below s). reflexivity.
Qed.
End Steps2.
