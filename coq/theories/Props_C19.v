(* Props_C19.v — property C19: ONLY theorem statements, each closed by [exact] of a lemma from
   C19_Proofs, followed by Print Assumptions.
   [execute c k b s] = processor.Execute of operation kind k whose builder yields b, under
   configuration c (DryRun, SkipDefaultTransaction), from state s; the log is the list of driver
   calls; the oracle [orc] is what the database answers, call by call (quantified: any answers). *)
From Verif Require Import Base C01_Model C19_Model C19_Proofs C19_Tx C19_TxProofs C19_TxProofs2.

(* DryRun: no statement reaches the driver; only transaction control may *)
Theorem c19_silent : forall skip k b orc,
  forallb is_tx_event (r_log (execute (dry_cfg skip) k b (rst0 orc))) = true.
Proof. exact dry_silent. Qed.
Print Assumptions c19_silent.

(* ToSQL (DryRun + SkipDefaultTransaction): no driver call at all *)
Theorem c19_tosql_silent : forall k b orc, r_log (execute tosql_cfg k b (rst0 orc)) = [].
Proof. exact tosql_silent. Qed.
Print Assumptions c19_tosql_silent.

(* the statement a dry run exposes is what the builder built ... *)
Theorem c19_dry_shows_built : forall skip k b orc,
  begin_ok skip orc = true -> builds k b = true ->
  shown (execute (dry_cfg skip) k b (rst0 orc)) = (b_sql b, b_vars b).
Proof. exact dry_shows_built. Qed.
Print Assumptions c19_dry_shows_built.

(* ... and the real run sends exactly that statement first (the builders do not see the
   configuration), whatever the database answers *)
Theorem c19_same_statement : forall skip k b orc orc',
  begin_ok skip orc = true -> begin_ok skip orc' = true -> builds k b = true -> b_err b = false ->
  first_stmt (r_log (execute (real_cfg skip) k b (rst0 orc')))
  = Some (shown (execute (dry_cfg skip) k b (rst0 orc))).
Proof.
  intros skip k b orc orc' H1 H2 H3 H4.
  rewrite (dry_shows_built skip k b orc H1 H3). apply real_sends_built; assumption.
Qed.
Print Assumptions c19_same_statement.

(* whatever a real run sends first is the built statement; after a building error nothing is sent *)
Theorem c19_real_sends_only_built : forall skip k b orc x,
  first_stmt (r_log (execute (real_cfg skip) k b (rst0 orc))) = Some x -> x = (b_sql b, b_vars b).
Proof. exact real_sends_only_built. Qed.
Print Assumptions c19_real_sends_only_built.

Theorem c19_build_error_sends_nothing : forall c k b orc,
  b_err b = true -> first_stmt (r_log (execute c k b (rst0 orc))) = None.
Proof. exact build_error_sends_nothing. Qed.
Print Assumptions c19_build_error_sends_nothing.

(* Rows / Row / Scan in DryRun: nothing sent, the statement is exposed, the call reports an error *)
Theorem c19_rows_dry : forall skip b orc,
  r_log (rows_finisher (dry_cfg skip) b (rst0 orc)) = []
  /\ r_err (rows_finisher (dry_cfg skip) b (rst0 orc)) = true
  /\ shown (rows_finisher (dry_cfg skip) b (rst0 orc)) = (b_sql b, b_vars b).
Proof. exact rows_dry_silent. Qed.
Print Assumptions c19_rows_dry.

(* Save on a record with a key: the dry run exposes the UPDATE, which is the first statement of the
   real run even when the real run goes on to insert *)
Theorem c19_save : forall skip bu bc orc orc',
  begin_ok skip orc = true -> begin_ok skip orc' = true -> b_empty bu = false -> b_err bu = false ->
  forallb is_tx_event (r_log (save (dry_cfg skip) bu bc (rst0 orc))) = true
  /\ first_stmt (r_log (save (real_cfg skip) bu bc (rst0 orc')))
     = Some (shown (save (dry_cfg skip) bu bc (rst0 orc))).
Proof.
  intros skip bu bc orc orc' H1 H2 H3 H4. destruct (save_dry skip bu bc orc) as [S D].
  split; [exact S|]. rewrite (D H1 H3). apply save_real_first; assumption.
Qed.
Print Assumptions c19_save.

(* CreateInBatches / CreateBatchSize: DryRun sends transaction control only, ToSQL nothing *)
Theorem c19_batches_silent : forall skip bs orc,
  forallb is_tx_event (r_log (create_in_batches (dry_cfg skip) bs (rst0 orc))) = true.
Proof. exact batches_dry_silent. Qed.
Print Assumptions c19_batches_silent.

Theorem c19_batches_tosql_silent : forall bs orc, r_log (create_in_batches tosql_cfg bs (rst0 orc)) = [].
Proof. exact batches_tosql_silent. Qed.
Print Assumptions c19_batches_tosql_silent.

(* statements derived through Session{NewDB: true} (hooks, selected associations, Preload) and
   operations inside Begin()...Rollback(): still nothing but transaction control in DryRun *)
Theorem c19_nested_silent : forall skip k b bf af orc,
  forallb is_tx_event (r_log (execute_nested (dry_cfg skip) k b bf af (rst0 orc))) = true.
Proof. exact nested_dry_silent. Qed.
Print Assumptions c19_nested_silent.

Theorem c19_nested_tosql_silent : forall k b bf af orc,
  r_log (execute_nested tosql_cfg k b bf af (rst0 orc)) = [].
Proof. exact nested_tosql_silent. Qed.
Print Assumptions c19_nested_tosql_silent.

Theorem c19_manual_tx_silent : forall skip k b orc,
  forallb is_tx_event (r_log (manual_tx (dry_cfg skip) k b (rst0 orc))) = true.
Proof. exact manual_tx_dry_silent. Qed.
Print Assumptions c19_manual_tx_silent.

(* user transaction scripts: db.Transaction blocks nested to any depth (the inner ones are SAVEPOINT /
   ROLLBACK TO SAVEPOINT statements sent through the raw-exec callback), explicit SavePoint / RollbackTo
   and operations in between, on a handle that is or is not already inside a transaction: in DryRun
   the driver sees transaction control only - no SAVEPOINT, no statement *)
Theorem c19_script_silent : forall skip encl steps orc,
  forallb is_tx_event (r_log (ts (run_script (dry_cfg skip) encl steps (rst0 orc)))) = true.
Proof. exact script_dry_silent. Qed.
Print Assumptions c19_script_silent.

(* ... and on a dry handle that is already inside a transaction (tx.Session(&Session{DryRun: true}),
   tx.ToSQL(...)) blocks, savepoints and operations make no driver call at all *)
Theorem c19_script_in_tx_silent : forall c steps st, c_dry c = true ->
  r_log (ts (run_steps c true steps st)) = r_log (ts st).
Proof. exact steps_in_tx_dry_silent. Qed.
Print Assumptions c19_script_in_tx_silent.

(* what the operations of a dry script expose, in order, is what the real run of the same script sends,
   savepoint control apart - at any nesting depth, with failing and swallowed blocks (against a database
   that answers every call without error; operations that build a statement without error) *)
Theorem c19_script_same_statements : forall skip encl steps, Forall step_good steps ->
  main_stmts (r_log (ts (run_script (real_cfg skip) encl steps (rst0 []))))
  = tshown (run_script (dry_cfg skip) encl steps (rst0 [])).
Proof. exact script_same_statements. Qed.
Print Assumptions c19_script_same_statements.

(* non-vacuity: a nested block in the real run sends SAVEPOINT sp1 / ROLLBACK TO SAVEPOINT sp1, the dry run BEGIN / COMMIT only *)
Example c19_script_instance :
  let b := mk_built "UPDATE t SET a=? WHERE id = ?" [SStr "x"; SInt 1] false false false in
  let sc := [TBlock false false [TOp OpUpdate b; TBlock true true [TOp OpUpdate b]]] in
  r_log (ts (run_script (real_cfg false) false sc (rst0 []))) =
    [EBegin; EStmt false "UPDATE t SET a=? WHERE id = ?" [SStr "x"; SInt 1];
     EStmt false "SAVEPOINT sp1" []; EStmt false "UPDATE t SET a=? WHERE id = ?" [SStr "x"; SInt 1];
     EStmt false "ROLLBACK TO SAVEPOINT sp1" []; ECommit]
  /\ r_log (ts (run_script (dry_cfg false) false sc (rst0 []))) = [EBegin; ECommit]
  /\ tshown (run_script (dry_cfg false) false sc (rst0 [])) = main_stmts (r_log (ts (run_script (real_cfg false) false sc (rst0 [])))).
Proof. vm_compute. repeat split. Qed.

(* non-vacuity *)
Example c19_instance :
  let b := mk_built "UPDATE t SET a=? WHERE id = ?" [SStr "x"; SInt 1] false false false in
  begin_ok false [ok_res] = true /\ builds OpUpdate b = true /\ b_err b = false
  /\ r_log (execute (real_cfg false) OpUpdate b (rst0 [ok_res; ok_res])) =
     [EBegin; EStmt false "UPDATE t SET a=? WHERE id = ?" [SStr "x"; SInt 1]; ECommit]
  /\ r_log (execute (dry_cfg false) OpUpdate b (rst0 [])) = [EBegin; ECommit].
Proof. vm_compute. repeat split. Qed.
