(* C02_Args.v — Statement.BuildCondition (statement.go) below the string-SQL cases: the loop over
   the Go values `query, args...` that turns maps, structs, slices of structs and bare key values
   into conditions.  A condition is represented by its ARITY (number of bound values: Eq / IS NULL
   = 1, IN over n values = n, IN over an empty list = 0): which value each atom compares with is
   C01's matter, that no argument, map entry, field or key is lost on the way is this file's.
   Used by C02_Check and C09_Check on every map / struct / key unit of every case.  No proofs. *)
From Verif Require Import Base.

(* a struct field as the schema parser sees it *)
Record gfield := mk_gf { gf_zero : bool; gf_selected : bool; gf_readable : bool }.

(* one Go value of the argument list, reduced to what the type switch looks at *)
Inductive garg :=
| ANil                               (* nil: skipped *)
| AExpr (ar : nat)                   (* a clause.Expression: appended as it is *)
| AMapSS (blanks : list bool)        (* map[string]string, entries in key order: is the value "" *)
| AMapSI (ars : list nat)            (* map[string]interface{}, entries in key order: scalar / nil = 1,
                                        a slice of n elements = n (IN) *)
| AMapII (ars : list nat)            (* map[interface{}]interface{} *)
| AStruct (fs : list gfield)         (* a struct / pointer to struct the schema parser accepts *)
| AStructs (rs : list (list gfield)) (* a slice / array of such structs *)
| AStr                               (* a string after the first value: a selected column name *)
| ABare                              (* any other valid value: a primary key *)
| ABares (n : nat).                  (* a slice / array of n such values *)

(* the conditions one struct contributes: `selected || (!restricted && Readable)`, then
   `!isZero || selected` *)
Definition struct_conds (restricted : bool) (fs : list gfield) : list nat :=
  flat_map (fun f =>
    if (gf_selected f || (negb restricted && gf_readable f)) && (negb (gf_zero f) || gf_selected f)
    then [1%nat] else []) fs.

Definition is_restricted (fs : list gfield) : bool := existsb gf_selected fs.

(* the loop `for idx, arg := range args`; [nargs] = len(args) (query included); result None = the
   early `return nil`, Some conds otherwise (the caller wraps a non-empty list in clause.And) *)
Fixpoint bc_loop (nargs : nat) (args : list garg) (conds : list nat) : option (list nat) :=
  match args with
  | [] => Some conds
  | a :: r =>
    match a with
    | ANil => bc_loop nargs r conds
    | AExpr ar => bc_loop nargs r (conds ++ [ar])
    | AMapSS blanks => bc_loop nargs r (conds ++ map (fun _ => 1%nat) blanks)
    | AMapSI ars => bc_loop nargs r (conds ++ ars)
    | AMapII ars => bc_loop nargs r (conds ++ ars)
    | AStruct fs =>
      let restricted := is_restricted fs in
      let conds' := conds ++ struct_conds restricted fs in
      if restricted then Some conds' (* break *) else bc_loop nargs r conds'
    | AStructs rs =>
      let restricted := existsb is_restricted rs in
      let conds' := conds ++ flat_map (struct_conds restricted) rs in
      if restricted then Some conds' else bc_loop nargs r conds'
    | AStr | ABare =>
      (* `else if len(conds) == 0 { ... conds = append(conds, IN{PrimaryColumn, Values: args}) }` *)
      match conds with
      | [] => bc_loop nargs r [nargs]
      | _ => bc_loop nargs r conds
      end
    | ABares n =>
      match conds with
      | [] =>
        if (nargs =? 1)%nat then (if (0 <? n)%nat then Some [n] else None)
        else bc_loop nargs r [nargs]
      | _ => bc_loop nargs r conds
      end
    end
  end.

(* arities of the conditions BuildCondition returns for the argument list *)
Definition bc_args (args : list garg) : list nat :=
  match bc_loop (length args) args [] with Some c => c | None => [] end.

(* an argument list that supplies nothing to compare with: nil, empty maps, all-zero structs
   without selection, empty slices *)
Definition arg_empty (a : garg) : bool :=
  match a with
  | ANil => true
  | AExpr _ => false
  | AMapSS l => match l with [] => true | _ => false end
  | AMapSI l | AMapII l => match l with [] => true | _ => false end
  | AStruct fs => match struct_conds (is_restricted fs) fs with [] => true | _ => false end
  | AStructs rs => match flat_map (struct_conds (existsb is_restricted rs)) rs with [] => true | _ => false end
  | AStr | ABare => false
  | ABares n => (n =? 0)%nat
  end.
