(* C13_Proofs2.v — composition of hook phases: schedules, callbacks, association saves. *)
From Verif Require Import Base C13_Model C13_Proofs.
Open Scope Z_scope.

(* ---------------------------------------------------------------- schedules *)
(* a schedule is the list of the hook phases of an operation, in execution order; a phase that
   contains a failing invocation is completed, nothing after it runs *)
Fixpoint sched_log (ps : list (list hev)) (k : Z) (fails : list Z) : list hev :=
  match ps with
  | [] => []
  | p :: r => p ++ (if no_fail k (k + len p) fails then sched_log r (k + len p) fails else [])
  end.

Lemma sched_log_app : forall ps qs k F,
  sched_log (ps ++ qs) k F =
  sched_log ps k F ++
  (if no_fail k (k + len (sched_log ps k F)) F then sched_log qs (k + len (sched_log ps k F)) F else []).
Proof.
  induction ps as [|p r IH]; intros qs k F.
  - cbn [app sched_log]. unfold len at 1 2. cbn [length Z.of_nat]. rewrite Z.add_0_r, no_fail_empty. reflexivity.
  - cbn [app sched_log]. destruct (no_fail k (k + len p) F) eqn:N.
    + rewrite IH. rewrite <- app_assoc. f_equal. rewrite len_app.
      rewrite (no_fail_split k (k + len p) (k + (len p + len (sched_log r (k + len p) F)))).
      * rewrite N. cbn [andb]. rewrite Z.add_assoc. reflexivity.
      * pose proof (len_nonneg p). lia.
      * pose proof (len_nonneg (sched_log r (k + len p) F)). lia.
    + rewrite !app_nil_r. rewrite N. rewrite app_nil_r. reflexivity.
Qed.

Lemma sched_log_nils : forall ps k F, Forall (fun p => p = []) ps -> sched_log ps k F = [].
Proof.
  induction ps as [|p r IH]; intros k F H; [reflexivity|].
  inversion H; subst. cbn [sched_log app]. unfold len. cbn [length Z.of_nat]. rewrite Z.add_0_r, no_fail_empty.
  apply IH. assumption.
Qed.

Lemma sched_log_single : forall p k F, sched_log [p] k F = p.
Proof. intros. cbn. destruct (no_fail _ _ _); apply app_nil_r. Qed.

(* ---------------------------------------------------------------- steps that only keep the keys *)
Record hstep (F : list Z) (s s' : S) (evs : list hev) : Prop := mk_hstep {
  hs_keys : keys s' = keys s;
  hs_hooks : hooks_of (s_tr s') = hooks_of (s_tr s) ++ evs;
  hs_k : s_k s' = s_k s + len evs;
  hs_err : is_nil (s_err s') = is_nil (s_err s) && no_fail (s_k s) (s_k s') F
}.

Lemma step_hstep : forall c s s' evs, step_ok c s s' evs -> hstep (c_fails c) s s' evs.
Proof. intros c s s' evs [(_ & _ & _ & _ & _ & K) H Kk E]. split; assumption. Qed.

Lemma hstep_quiet : forall F s s', keys s' = keys s -> hooks_of (s_tr s') = hooks_of (s_tr s) ->
  s_k s' = s_k s -> is_nil (s_err s') = is_nil (s_err s) -> hstep F s s' [].
Proof.
  intros F s s' K H Kk E. split.
  - exact K.
  - rewrite app_nil_r. exact H.
  - unfold len. cbn. lia.
  - rewrite Kk, no_fail_empty, andb_true_r. exact E.
Qed.

Definition gated (s : S) (l : list hev) : list hev := if is_nil (s_err s) then l else [].

(* sequencing two scheduled steps *)
Lemma hstep_seq : forall F s s1 s2 ps qs,
  hstep F s s1 (gated s (sched_log ps (s_k s) F)) ->
  hstep F s1 s2 (gated s1 (sched_log qs (s_k s1) F)) ->
  hstep F s s2 (gated s (sched_log (ps ++ qs) (s_k s) F)).
Proof.
  intros F s s1 s2 ps qs [K1 H1 Kk1 E1] [K2 H2 Kk2 E2]. unfold gated in *.
  destruct (is_nil (s_err s)) eqn:E0.
  - rewrite andb_true_l in E1.
    assert (EQ : sched_log (ps ++ qs) (s_k s) F =
                 sched_log ps (s_k s) F ++ (if is_nil (s_err s1) then sched_log qs (s_k s1) F else [])).
    { rewrite sched_log_app, <- Kk1, <- E1. reflexivity. }
    rewrite EQ. split.
    + congruence.
    + rewrite H2, H1, app_assoc. reflexivity.
    + rewrite Kk2, Kk1, len_app. lia.
    + rewrite E2, E1, E0, andb_true_l. symmetry. apply no_fail_split.
      * rewrite Kk1. pose proof (len_nonneg (sched_log ps (s_k s) F)). lia.
      * rewrite Kk2. match goal with |- _ <= _ + len ?l => pose proof (len_nonneg l) end. lia.
  - rewrite andb_false_l in E1. rewrite E1 in *.
    split.
    + congruence.
    + rewrite H2, H1, !app_nil_r. reflexivity.
    + rewrite Kk2, Kk1. unfold len. cbn. lia.
    + rewrite E2, E0. reflexivity.
Qed.

Lemma hstep_seq_quiet_l : forall F s s1 s2 qs,
  hstep F s s1 [] -> hstep F s1 s2 (gated s1 (sched_log qs (s_k s1) F)) ->
  hstep F s s2 (gated s (sched_log qs (s_k s) F)).
Proof.
  intros F s s1 s2 qs A B.
  change qs with ([] ++ qs). eapply hstep_seq; [|exact B].
  cbn [sched_log]. unfold gated. destruct (is_nil (s_err s)); exact A.
Qed.

Lemma hstep_seq_quiet_r : forall F s s1 s2 ps,
  hstep F s s1 (gated s (sched_log ps (s_k s) F)) -> hstep F s1 s2 [] ->
  hstep F s s2 (gated s (sched_log ps (s_k s) F)).
Proof.
  intros F s s1 s2 ps A B.
  rewrite <- (app_nil_r ps). eapply hstep_seq; [exact A|].
  cbn [sched_log]. unfold gated. destruct (is_nil (s_err s1)); exact B.
Qed.

(* ---------------------------------------------------------------- conditions on the records, by key *)
Definition elem_addr_k (sh : shape) (nil : bool) : bool :=
  if sh_elem_ptr sh then negb nil
  else match sh_cont sh with CArray => sh_outer_ptr sh | _ => true end.

(* the value is reachable through pointers, not empty, without nil elements *)
Definition goodk (sh : shape) (ks : list (Z * bool)) : Prop :=
  wf_shape sh /\ forallb (fun k => elem_addr_k sh (snd k)) ks = true
  /\ match sh_cont sh with CStruct => exists k, ks = [k] | _ => True end
  /\ ks <> [] /\ forallb (fun k => negb (snd k)) ks = true.

Lemma goodk_addressable : forall sh s, goodk sh (keys s) -> addressable sh (s_recs s).
Proof.
  intros sh s (W & A & St & _ & _). unfold keys in *. split; [exact W|]. split.
  - clear St. induction (s_recs s) as [|r l IH]; [reflexivity|]. cbn in *.
    apply andb_prop in A. destruct A as [A1 A2]. rewrite IH by exact A2.
    unfold elem_addr, elem_addr_k in *. cbn [snd] in A1. rewrite A1. reflexivity.
  - destruct (sh_cont sh); try exact I. destruct St as [k Hk].
    destruct (s_recs s) as [|r [|r' l]]; cbn in Hk; try discriminate. exists r. reflexivity.
Qed.

Lemma goodk_nonempty : forall sh s, goodk sh (keys s) -> s_recs s <> [].
Proof.
  intros sh s (_ & _ & _ & N & _) E. apply N. unfold keys. rewrite E. reflexivity.
Qed.

Lemma goodk_no_nil : forall sh s, goodk sh (keys s) -> existsb m_nil (s_recs s) = false.
Proof.
  intros sh s (_ & _ & _ & _ & N). unfold keys in N.
  induction (s_recs s) as [|r l IH]; [reflexivity|]. cbn in *.
  apply andb_prop in N. destruct N as [N1 N2]. rewrite IH by exact N2.
  destruct (m_nil r); [discriminate|reflexivity].
Qed.

Lemma tags_of_keys : forall s, map m_tag (s_recs s) = map fst (keys s).
Proof. intro s. unfold keys. rewrite map_map. reflexivity. Qed.

(* ---------------------------------------------------------------- the callbacks as steps *)
(* the events of one phase, for a cx (SkipHooks silences it) *)
Definition ph (c : cx) (p : phase) (tags : list Z) : list hev :=
  if c_skip c then [] else phase_events (c_ty c) (fc_hooks p) tags.

Lemma hooks_phase_step : forall c p s,
  goodk (c_shape c) (keys s) -> uniform_phase (c_shape c) (c_ty c) (fc_hooks p) ->
  hstep (c_fails c) s (hooks_phase c p s) (gated s (sched_log [ph c p (map fst (keys s))] (s_k s) (c_fails c))).
Proof.
  intros c p s G U. rewrite sched_log_single.
  pose proof (step_hstep _ _ _ _ (hooks_phase_ok c p s (goodk_addressable _ _ G) U)) as H.
  unfold phase_log in H. unfold gated, ph. rewrite <- tags_of_keys.
  destruct (is_nil (s_err s)); destruct (c_skip c); exact H.
Qed.

Lemma begin_tx_step : forall F c s, hstep F s (begin_tx c s) [].
Proof.
  intros F c s. unfold begin_tx.
  destruct (negb (c_skipdef c) && is_nil (s_err s)); [|apply hstep_quiet; reflexivity].
  destruct (s_pool s =? 0); apply hstep_quiet; try reflexivity.
  cbn. rewrite hooks_of_app. cbn. apply app_nil_r.
Qed.

Lemma commit_step : forall F c s, hstep F s (commit_or_rollback c s) [].
Proof.
  intros F c s. unfold commit_or_rollback.
  destruct (negb (c_skipdef c) && s_started s); [|apply hstep_quiet; reflexivity].
  destruct (is_nil (s_err s)) eqn:E; apply hstep_quiet; try reflexivity;
    cbn; rewrite ?hooks_of_app; cbn; rewrite ?app_nil_r; try reflexivity; exact E.
Qed.

Lemma stmt_create_step : forall F c s, goodk (c_shape c) (keys s) -> hstep F s (stmt_create c s) [].
Proof.
  intros F c s G. unfold stmt_create.
  destruct (is_nil (s_err s)) eqn:E; cbn [negb]; [|apply hstep_quiet; reflexivity].
  pose proof (goodk_nonempty _ _ G) as NE. pose proof (goodk_no_nil _ _ G) as NN.
  destruct (s_recs s) eqn:R; [congruence|]. rewrite NN.
  apply hstep_quiet; try reflexivity.
  cbn. rewrite hooks_of_app. cbn. apply app_nil_r.
Qed.

Lemma stmt_update_step : forall F c s, goodk (c_shape c) (keys s) -> hstep F s (stmt_update c s) [].
Proof.
  intros F c s G. unfold stmt_update.
  destruct (is_nil (s_err s)) eqn:E; cbn [negb]; [|apply hstep_quiet; reflexivity].
  pose proof (goodk_nonempty _ _ G) as NE.
  destruct (s_recs s) eqn:R; [congruence|].
  apply hstep_quiet; try reflexivity.
  cbn. rewrite hooks_of_app. cbn. apply app_nil_r.
Qed.

Lemma stmt_delete_step : forall F c s, goodk (c_shape c) (keys s) -> hstep F s (stmt_delete c s) [].
Proof.
  intros F c s G. unfold stmt_delete.
  destruct (is_nil (s_err s)) eqn:E; cbn [negb]; [|apply hstep_quiet; reflexivity].
  pose proof (goodk_nonempty _ _ G) as NE.
  destruct (s_recs s) eqn:R; [congruence|].
  apply hstep_quiet; try reflexivity.
  cbn. rewrite hooks_of_app. cbn. apply app_nil_r.
Qed.

(* ---------------------------------------------------------------- a nested create *)
Definition leaf_sched (c : cx) (tags : list Z) : list (list hev) :=
  [ph c PBeforeCreate tags; ph c PAfterCreate tags].

Lemma goodk_keys_eq : forall sh s s', keys s' = keys s -> goodk sh (keys s) -> goodk sh (keys s').
Proof. intros sh s s' E G. rewrite E. exact G. Qed.

Lemma leaf_create_step : forall c s,
  goodk (c_shape c) (keys s) ->
  uniform_phase (c_shape c) (c_ty c) (fc_hooks PBeforeCreate) ->
  uniform_phase (c_shape c) (c_ty c) (fc_hooks PAfterCreate) ->
  hstep (c_fails c) s (leaf_create c s) (gated s (sched_log (leaf_sched c (map fst (keys s))) (s_k s) (c_fails c))).
Proof.
  intros c s G U1 U2. unfold leaf_create, leaf_sched.
  set (s1 := begin_tx c s).
  pose proof (begin_tx_step (c_fails c) c s) as B. fold s1 in B.
  assert (K1 : keys s1 = keys s) by (destruct B; assumption).
  assert (G1 : goodk (c_shape c) (keys s1)) by (rewrite K1; exact G).
  set (s2 := hooks_phase c PBeforeCreate s1).
  pose proof (hooks_phase_step c PBeforeCreate s1 G1 U1) as P1. fold s2 in P1.
  assert (K2 : keys s2 = keys s1) by (destruct P1; assumption).
  assert (G2 : goodk (c_shape c) (keys s2)) by (rewrite K2; exact G1).
  set (s3 := stmt_create c s2).
  pose proof (stmt_create_step (c_fails c) c s2 G2) as St. fold s3 in St.
  assert (K3 : keys s3 = keys s2) by (destruct St; assumption).
  assert (G3 : goodk (c_shape c) (keys s3)) by (rewrite K3; exact G2).
  set (s4 := hooks_phase c PAfterCreate s3).
  pose proof (hooks_phase_step c PAfterCreate s3 G3 U2) as P2. fold s4 in P2.
  pose proof (commit_step (c_fails c) c s4) as Cm.
  eapply hstep_seq_quiet_l; [exact B|].
  eapply hstep_seq_quiet_r; [|exact Cm].
  change [ph c PBeforeCreate (map fst (keys s)); ph c PAfterCreate (map fst (keys s))]
    with ([ph c PBeforeCreate (map fst (keys s))] ++ [ph c PAfterCreate (map fst (keys s))]).
  rewrite <- K1.
  eapply hstep_seq; [exact P1|].
  eapply hstep_seq_quiet_l; [exact St|].
  rewrite <- K2, <- K3. exact P2.
Qed.

(* the values of an association: pointers to fresh, non-nil records *)
Definition assoc_vals_ok (single : bool) (vals : list mrec) : Prop :=
  forallb (fun r => negb (m_nil r)) vals = true /\ (single = true -> (length vals <= 1)%nat).

Definition assoc_sched (c : cx) (t : ty) (tb : table) (single : bool) (vals : list mrec) : list (list hev) :=
  leaf_sched (assoc_cx c t tb single) (map m_tag vals).

Lemma assoc_goodk : forall c t tb single vals s0,
  vals <> [] -> assoc_vals_ok single vals -> s_recs s0 = vals ->
  goodk (c_shape (assoc_cx c t tb single)) (keys s0).
Proof.
  intros c t tb single vals s0 NE (NN & SG) R. unfold keys. rewrite R. cbn [assoc_cx c_shape].
  unfold goodk, wf_shape. cbn [sh_cont sh_outer_ptr sh_elem_ptr].
  split; [destruct single; exact I || reflexivity|].
  split.
  { unfold elem_addr_k. cbn [sh_elem_ptr]. clear SG NE R.
    induction vals as [|r l IH]; [reflexivity|]. cbn in *. apply andb_prop in NN. destruct NN as [N1 N2].
    rewrite N1. apply IH. exact N2. }
  split.
  { destruct single; [|exact I]. specialize (SG eq_refl).
    destruct vals as [|r [|r' l]]; [congruence| |cbn in SG; lia]. eexists. reflexivity. }
  split.
  { destruct vals; [congruence|discriminate]. }
  clear SG NE R. induction vals as [|r l IH]; [reflexivity|]. cbn in *. apply andb_prop in NN. destruct NN as [N1 N2].
  rewrite N1. apply IH. exact N2.
Qed.

Lemma save_assoc_step : forall c t tb single vals s,
  assoc_vals_ok single vals ->
  (single = true -> uniform_phase (mk_shape CStruct true true) t (fc_hooks PBeforeCreate)
                    /\ uniform_phase (mk_shape CStruct true true) t (fc_hooks PAfterCreate)) ->
  hstep (c_fails c) s (save_assoc c t tb single vals s)
        (gated s (sched_log (assoc_sched c t tb single vals) (s_k s) (c_fails c))).
Proof.
  intros c t tb single vals s OK U. unfold save_assoc, assoc_sched.
  destruct vals as [|v vr].
  - cbn [map]. rewrite sched_log_nils.
    + unfold gated. destruct (is_nil (s_err s)); apply hstep_quiet; reflexivity.
    + unfold leaf_sched, ph, phase_events. cbn [flat_map]. destruct (c_skip _); repeat constructor.
  - cbv iota. remember (v :: vr) as vals eqn:V.
    set (cc := assoc_cx c t tb single).
    set (s0 := mkS (s_k s) (s_err s) (s_tr s) vals [] 0 (s_pool s) (s_ntx s) false (s_tbl s) (s_snap s)).
    assert (NE : vals <> []) by (subst vals; discriminate).
    assert (G0 : goodk (c_shape cc) (keys s0)) by (apply (assoc_goodk c t tb single vals s0); auto).
    assert (U1 : uniform_phase (c_shape cc) (c_ty cc) (fc_hooks PBeforeCreate)
                 /\ uniform_phase (c_shape cc) (c_ty cc) (fc_hooks PAfterCreate)).
    { subst cc. cbn [assoc_cx c_shape c_ty]. destruct single; [apply U; reflexivity|].
      unfold uniform_phase. cbn. split; exact I. }
    destruct U1 as [U1 U2].
    pose proof (leaf_create_step cc s0 G0 U1 U2) as L.
    set (s1 := leaf_create cc s0) in *.
    assert (TG : map fst (keys s0) = map m_tag vals).
    { unfold keys. subst s0. cbn [s_recs]. rewrite map_map. reflexivity. }
    rewrite TG in L. destruct L as [LK LH LKk LE].
    change (c_fails cc) with (c_fails c) in *.
    change (s_k s0) with (s_k s) in *. change (s_tr s0) with (s_tr s) in *.
    change (s_err s0) with (s_err s) in *.
    assert (GE : gated s0 = gated s) by reflexivity. rewrite GE in *.
    split; cbn [s_k s_tr s_err s_recs keys].
    + reflexivity.
    + exact LH.
    + exact LKk.
    + assert (X : is_nil (if is_nil (s_err s1) then s_err s else s_err s ++ s_err s1) = is_nil (s_err s1)).
      { destruct (is_nil (s_err s1)) eqn:E1.
        - symmetry in LE. apply andb_prop in LE. apply LE.
        - destruct (s_err s1); [discriminate|]. destruct (s_err s); reflexivity. }
      rewrite X. exact LE.
Qed.
