(* C06_Proofs6.v — the finishers: prologue and scopes as chain operations, the FROM-joins append,
   the in-place swaps of Where.Build, the rendering and AfterQuery's trimming. *)
From Verif Require Import Base C06_Model C06_Proofs2 C06_Proofs3 C06_Proofs4 C06_Proofs5.
Open Scope nat_scope.

(* the renderer reads Having only when it builds the GROUP BY clause of a query *)
Lemma render_ext2 a b fi :
  pk a = pk b ->
  (forall f, excl f = false -> f <> FHaving -> pl a f = pl b f) ->
  (is_query fi && k_grpp (pk a) = true -> pl a FHaving = pl b FHaving) ->
  render a fi = render b fi.
Proof.
  intros K H Hh.
  assert (G : forall f, excl f = false -> f <> FHaving -> pget a f = pget b f)
    by (intros f E N; unfold pget; rewrite H; auto).
  destruct fi; cbn [render]; cbn [is_query andb] in Hh;
    unfold r_query, r_update, r_delete, r_where, r_vars_where, r_ret, r_table, has_target;
    rewrite <- ?K;
    rewrite ?(G FSel), ?(G FOmit), ?(G FFromj), ?(G FWhere), ?(G FGroup), ?(G FRet),
            ?(H FWhere), ?(H FOrder) by (reflexivity || discriminate); try reflexivity;
    (destruct (k_grpp (pk a)) eqn:Eg; [unfold pget; rewrite (Hh eq_refl); reflexivity | reflexivity]).
Qed.

Lemma wf_rtrim h f x k : wf_slice h f x -> wf_slice h f (rtrim x k).
Proof.
  destruct x as [|l n c]; cbn; auto. intros (a & E & L & Hn).
  destruct (n <=? k); exists a; repeat split; auto; lia.
Qed.

Lemma rdo_rtrim h f x k :
  wf_slice h f x ->
  rdo h (rtrim x k) = match rdo h x with None => None | Some l => Some (firstn (length l - k) l) end.
Proof.
  destruct x as [|l n c]; cbn [rtrim rdo]; auto. intros (a & E & L & Hn).
  assert (Lr : length (rd h (SArr l n c)) = n) by (cbn; rewrite (cells_of_nth_error _ _ _ _ E), firstn_length; lia).
  rewrite Lr. destruct (n <=? k) eqn:Ek.
  - apply Nat.leb_le in Ek. replace (n - k) with 0 by lia. reflexivity.
  - apply Nat.leb_gt in Ek. cbn. f_equal. rewrite firstn_firstn. f_equal. lia.
Qed.

(* reading any old slice after writes that are fresh or beyond the length of a slice of s *)
Lemma frame_of_writes h h' w s f x :
  swf h s -> hext h h' w ->
  (forall l i, In (l, i) w -> length h <= l \/ exists g n c, sl s g = SArr l n c /\ n <= i) ->
  wf_slice h f x -> compat s f x -> rdo h' x = rdo h x.
Proof.
  intros W X Hw Wx C. eapply rdo_frame; eauto.
  intros l n c i -> Hi Hin. destruct (Hw _ _ Hin) as [Hf | (g & n' & c' & E & Hn)].
  - apply wf_slice_lt in Wx. lia.
  - assert (Wg := W g). rewrite E in Wg. destruct (wf_tag _ _ _ _ _ _ _ _ Wx Wg) as (-> & _).
    unfold compat in C. rewrite E in C. destruct (C eq_refl) as (-> & _). lia.
Qed.

Section Fin.
Variable grow : field -> nat -> nat -> nat.
Variable md : field -> bool.
Hypothesis Hmd : forall f, md f = false.

Lemma ospec_after_setsc P h s k' s' h' w :
  ospec P h (set_sc s k') s' h' w -> ospec (fun p => P (mk_p (pl p) k')) h s s' h' w.
Proof. intro O. destruct O. constructor; auto. Qed.

(* ---- prologue of First/Take ---- *)
Definition p_pro (p : pstmt) (f : fin) : pstmt :=
  match f with
  | FFirst => p_order (p_limit p (Some 1%Z) 0%Z) [pk_cell] false
  | FTake => p_limit p (Some 1%Z) 0%Z
  | _ => p
  end.

Lemma p_pro_peq a b f : peq a b -> peq (p_pro a f) (p_pro b f).
Proof. intro H. destruct f; cbn; auto; [apply p_order_peq, p_limit_peq, H | apply p_limit_peq, H]. Qed.

Lemma prologue_spec h s f s1 h1 w1 :
  swf h s ->
  match f with
  | FFirst => c <- h_lit FOrder [pk_cell] ;; m_order grow md (m_limit s (Some 1%Z) 0%Z) c false
  | FTake => ret (m_limit s (Some 1%Z) 0%Z)
  | _ => ret s
  end h = (s1, h1, w1) ->
  ospec (fun p => p_pro p f) h s s1 h1 w1.
Proof.
  intros W E. destruct f; cbn [p_pro]; try (rinv E; apply ospec_id; auto; apply peq_refl).
  - binv E as E0 E1. unfold m_limit in E1 |- *.
    eapply ospec_change.
    + apply ospec_after_setsc. eapply m_order_spec; eauto. eapply h_lit_spec; eauto.
    + apply peq_refl.
  - rinv E. unfold m_limit. apply ospec_scal; auto. apply peq_pointwise; reflexivity.
Qed.

(* ---- scopes ---- *)
Definition p_scopes (xs : list cell) (p : pstmt) : pstmt := fold_left (fun q x => p_where q [x]) xs p.

Lemma run_scopes_spec xs : forall h s s' h' w,
  swf h s -> run_scopes grow md s xs h = (s', h', w) -> ospec (p_scopes xs) h s s' h' w.
Proof.
  induction xs as [|x r IH]; intros h s s' h' w W E; cbn [run_scopes] in E.
  - rinv E. apply ospec_id; auto. apply peq_refl.
  - binv E as E0 E1. binv E1 as E2 E3.
    assert (R0 := h_lit_spec _ _ _ _ _ _ SNil E0).
    pose proof (m_where_spec grow md Hmd _ _ _ _ _ _ _ _ _ W R0 E2) as O1.
    assert (O2 := IH _ _ _ _ _ (os_wf _ _ _ _ _ _ O1) E3).
    rewrite app_assoc.
    eapply (ospec_trans (fun p => p_where p [x]) (p_scopes r)); eauto.
    intros a1 b1. apply fold_p_where_peq.
Qed.

Lemma exec_scopes_spec h s s' h' w :
  swf h s -> exec_scopes grow md s h = (s', h', w) ->
  ospec (fun p => p_scopes (pcopy (pl p FScopes)) (pset p FScopes None)) h s s' h' w.
Proof.
  intros W E. unfold exec_scopes in E. binv E as E0 E1. rdinv E0. cbn [app].
  assert (O1 : ospec (fun p => pset p FScopes None) h s (set_sl s FScopes SNil) h []).
  { eapply ospec_set0 with (old := SNil) (content := None); eauto.
    - apply (sres_ret h FScopes SNil). exact I.
    - apply peq_pointwise; reflexivity. }
  assert (O2 := run_scopes_spec _ _ _ _ _ _ (os_wf _ _ _ _ _ _ O1) E1).
  eapply ospec_change.
  - apply (ospec_trans _ (p_scopes (rd h (sl s FScopes))) _ _ _ _ _ _ _ _ (fun a b => fold_p_where_peq _ a b) O1 O2).
  - cbn beta. rewrite abs_pl, pcopy_rdo. apply peq_refl.
Qed.

(* ---- the two swaps of Statement.Build (on private copies) ---- *)
Lemma rdo_nowrite h h1 f x : hext h h1 [] -> wf_slice h f x -> rdo h1 x = rdo h x.
Proof. intros X W. eapply rdo_frame; eauto. Qed.

Lemma stagec h3 sw sh (b : bool) sw' h4 w4 sh' h5 w5 :
  wf_slice h3 FWhere sw -> wf_slice h3 FHaving sh ->
  h_swap grow FWhere sw h3 = (sw', h4, w4) ->
  (if b then h_swap grow FHaving sh else ret sh) h4 = (sh', h5, w5) ->
  w4 = [] /\ w5 = [] /\ hext h3 h5 []
  /\ rdo h5 sw' = option_map wnorm (rdo h3 sw)
  /\ (b = true -> rdo h5 sh' = option_map wnorm (rdo h3 sh))
  /\ (b = false -> sh' = sh).
Proof.
  intros Wsw Wsh E4 E5.
  destruct (h_swap_spec _ _ _ _ _ _ _ Wsw E4) as (-> & X4 & Wsw' & R4).
  assert (Wsh4 : wf_slice h4 FHaving sh) by (eapply wf_slice_ext; eauto).
  destruct b.
  - destruct (h_swap_spec _ _ _ _ _ _ _ Wsh4 E5) as (-> & X5 & Wsh' & R5).
    split; auto. split; auto. split; [apply (hext_trans _ _ _ [] [] X4 X5)|]. split; [|split].
    + rewrite (rdo_nowrite _ _ _ _ X5 Wsw'). exact R4.
    + intros _. rewrite R5, (rdo_nowrite _ _ _ _ X4 Wsh). reflexivity.
    + discriminate.
  - rinv E5. split; auto. split; auto. split; auto. split; [exact R4 | split; [discriminate | auto]].
Qed.

(* ---- FROM joins, swaps, rendering, trimming ---- *)
Definition pB (q : pstmt) (f : fin) : pstmt :=
  if is_query f then pset q FFromj (papp (pl q FFromj) (pcopy (pl q FJoins))) else q.
Definition pD (r : pstmt) (f : fin) : pstmt :=
  if is_query f then
    pset r FFromj (match pl r FFromj with
                   | None => None
                   | Some l => Some (firstn (length l - length (pcopy (pl r FJoins))) l)
                   end)
  else r.

Lemma pB_peq a b f : peq a b -> peq (pB a f) (pB b f).
Proof.
  intro H. unfold pB. destruct (is_query f); auto.
  rewrite (peq_pcopy _ _ FJoins H) by auto. rewrite (peq_plain _ _ FFromj H) by (auto; discriminate).
  apply peq_pset; auto.
Qed.
Lemma pD_peq a b f : peq a b -> peq (pD a f) (pD b f).
Proof.
  intro H. unfold pD. destruct (is_query f); auto.
  rewrite (peq_pcopy _ _ FJoins H) by auto. rewrite (peq_plain _ _ FFromj H) by (auto; discriminate).
  apply peq_pset; auto.
Qed.

Lemma rtrim_shape h fj old js :
  sres h FFromj old (papp (rdo h old) js) fj (h : heap) [] -> True.
Proof. auto. Qed.

(* AfterQuery gives back the FROM joins the statement had: unchanged, nil, or a fresh array *)
Lemma rtrim_evolves h h3 w old js fj :
  wf_slice h FFromj old ->
  sres h FFromj old (papp (rdo h old) js) fj h3 w ->
  rtrim fj (length js) = old \/ rtrim fj (length js) = SNil \/ fresh h (rtrim fj (length js)).
Proof.
  intros Wo R.
  assert (Lfj : slen fj = slen old + length js).
  { rewrite <- (rd_length _ _ _ (sr_wf _ _ _ _ _ _ _ R)), <- (rd_length _ _ _ Wo), <- !pcopy_rdo.
    rewrite (sr_rd _ _ _ _ _ _ _ R), pcopy_papp, app_length. reflexivity. }
  destruct (sr_shape _ _ _ _ _ _ _ R) as [E | [F | (l & n & n' & c & Eo & Ef & Hn)]].
  - subst fj. left. destruct old as [|l n c]; auto. cbn in Lfj. assert (length js = 0) by lia.
    rewrite H. cbn. destruct n; cbn; auto.
  - right; right. destruct fj as [|l n c]; [contradiction|]. cbn. destruct (n <=? length js); exact F.
  - subst. left. cbn in Lfj. cbn. destruct (n' <=? length js) eqn:Ek.
    + apply Nat.leb_le in Ek. f_equal. lia.
    + apply Nat.leb_gt in Ek. f_equal. lia.
Qed.

Lemma tail_spec h s f s3 h3 w3 sw h4 w4 sh h5 w5 :
  swf h s ->
  (if is_query f then js <- rdc (sl s FJoins) ;; fj <- h_append_each grow FFromj (sl s FFromj) js ;;
                      ret (set_sl s FFromj fj) else ret s) h = (s3, h3, w3) ->
  h_swap grow FWhere (sl s3 FWhere) h3 = (sw, h4, w4) ->
  (if is_query f && k_grpp (sc s3) then h_swap grow FHaving (sl s3 FHaving) else ret (sl s3 FHaving)) h4 = (sh, h5, w5) ->
  ospec (fun q => pD (pB q f) f) h s
        (if is_query f then set_sl s3 FFromj (rtrim (sl s3 FFromj) (slen (sl s3 FJoins))) else s3)
        h5 (w3 ++ w4 ++ w5)
  /\ render (abs h5 (set_sl (set_sl s3 FWhere sw) FHaving sh)) f = render (pnorm (pB (abs h s) f)) f.
Proof.
  intros W E3 E4 E5. destruct (is_query f) eqn:Q.
  - (* a query *)
    binv E3 as Ea Eb. rdinv Ea. binv Eb as Ec Ed. rinv Ed. cbn [app]. rewrite app_nil_r.
    rename h0 into h3.
    set (js := rd h (sl s FJoins)) in *.
    assert (RB := h_append_each_spec grow _ _ _ _ _ _ _ (W FFromj) Ec).
    cbn [sl set_sl field_eqb sc] in E4, E5.
    assert (XB := sr_ext _ _ _ _ _ _ _ RB).
    assert (Wsw3 : wf_slice h3 FWhere (sl s FWhere)) by (eapply wf_slice_ext; eauto).
    assert (Wsh3 : wf_slice h3 FHaving (sl s FHaving)) by (eapply wf_slice_ext; eauto).
    destruct (stagec _ _ _ _ _ _ _ _ _ _ Wsw3 Wsh3 E4 E5) as (-> & -> & X35 & Rw & Rh & Rh').
    rewrite !app_nil_r.
    assert (HwB : forall l i, In (l, i) w -> length h <= l \/ exists g n c, sl s g = SArr l n c /\ n <= i).
    { intros l i Hin. destruct (sr_w _ _ _ _ _ _ _ RB _ _ Hin) as [Hf | (n & c & E & Hn)]; auto.
      right. exists FFromj, n, c. split; [auto | lia]. }
    assert (own3 : forall g, rdo h3 (sl s g) = rdo h (sl s g)) by (intro g; eapply rdo_own; eauto).
    assert (own5 : forall g, rdo h5 (sl s g) = rdo h (sl s g)).
    { intro g. rewrite (rdo_nowrite _ _ _ _ X35) by (eapply wf_slice_ext; eauto). apply own3. }
    assert (Wfj3 : wf_slice h3 FFromj a) by apply (sr_wf _ _ _ _ _ _ _ RB).
    assert (fj5 : rdo h5 a = rdo h3 a) by (eapply rdo_nowrite; eauto).
    assert (Lk : slen (sl s FJoins) = length js) by (symmetry; eapply rd_length; eauto).
    cbn [sl set_sl field_eqb]. rewrite Lk.
    split.
    + constructor.
      * eapply hext_trans with (w2 := []) in X35; [|exact XB]. rewrite app_nil_r in X35. exact X35.
      * intro g. cbn. destruct (field_eqb g FFromj) eqn:Eg.
        -- apply field_eqb_spec in Eg. subst. apply wf_rtrim. eapply wf_slice_ext; eauto.
        -- eapply wf_slice_ext; [exact X35 | eapply wf_slice_ext; eauto].
      * intro g. cbn. destruct (field_eqb g FFromj) eqn:Eg; auto.
        apply field_eqb_spec in Eg. subst.
        destruct (rtrim_evolves _ _ _ _ _ _ (W FFromj) RB) as [E | [E | F]]; auto.
      * intros g x Wx C. unfold rdn. f_equal.
        rewrite (rdo_nowrite _ _ _ _ X35) by (eapply wf_slice_ext; eauto).
        eapply frame_of_writes; eauto.
      * split; [unfold pD, pB; rewrite Q; reflexivity|]. intro g. unfold pD, pB. rewrite Q. cbn [pl pset abs sl set_sl].
        destruct (field_eqb g FFromj) eqn:Eg.
        -- apply field_eqb_spec in Eg. subst. cbn [fnorm field_eqb].
           rewrite (rdo_rtrim h5 FFromj) by (eapply wf_slice_ext; eauto).
           rewrite fj5, (sr_rd _ _ _ _ _ _ _ RB), pcopy_rdo. reflexivity.
        -- rewrite own5. reflexivity.
      * reflexivity.
    + apply render_ext2.
      * unfold pB. rewrite Q. reflexivity.
      * intros g Ex Nh. unfold pB. rewrite Q.
        destruct g; try discriminate Ex; try contradiction; cbn [pl pnorm pset abs sl set_sl field_eqb].
        -- rewrite Rw, own3. reflexivity.
        -- apply own5.
        -- apply own5.
        -- apply own5.
        -- apply own5.
        -- apply own5.
        -- rewrite fj5, (sr_rd _ _ _ _ _ _ _ RB), pcopy_rdo. reflexivity.
      * intro Hb. cbn [pk abs sc set_sl] in Hb. rewrite Q in Hb. cbn [andb] in Hb.
        unfold pB. rewrite Q. cbn [pl pnorm pset abs sl set_sl field_eqb].
        rewrite Hb in Rh. rewrite (Rh eq_refl), own3. reflexivity.
  - (* Update / Delete *)
    rinv E3. rewrite andb_false_l in E5.
    assert (Wsw3 : wf_slice h FWhere (sl s FWhere)) by apply W.
    assert (Wsh3 : wf_slice h FHaving (sl s FHaving)) by apply W.
    destruct (stagec _ _ _ false _ _ _ _ _ _ Wsw3 Wsh3 E4 E5) as (-> & -> & X35 & Rw & _ & Rh').
    cbn [app].
    assert (own5 : forall g, rdo h5 (sl s g) = rdo h (sl s g)) by (intro g; apply (rdo_nowrite _ _ _ _ X35 (W g))).
    split.
    + constructor; auto.
      * eapply swf_ext; eauto.
      * apply evolves_refl.
      * intros g x Wx C. unfold rdn. f_equal. eapply rdo_nowrite; eauto.
      * split; [unfold pD, pB; rewrite Q; reflexivity|]. intro g. unfold pD, pB. rewrite Q. cbn [abs pl]. rewrite own5. reflexivity.
    + apply render_ext2.
      * unfold pB. rewrite Q. reflexivity.
      * intros g Ex Nh. unfold pB. rewrite Q.
        destruct g; try discriminate Ex; try contradiction; cbn [pl pnorm abs sl set_sl field_eqb].
        -- exact Rw.
        -- apply own5.
        -- apply own5.
        -- apply own5.
        -- apply own5.
        -- apply own5.
        -- apply own5.
      * rewrite Q. discriminate.
Qed.
End Fin.
