(* C07_Errs2.v — "the same error as alone": the two classes of model types for which the error a
   Parse call returns does not depend on the schedule, and the witness for the class in between. *)
From Verif Require Import Base C07_Model C07_Proofs C07_Proofs4 C07_Proofs5 C07_Errs C07_ErrSpec.

Section AsAlone.
Variable cfg : config.

Lemma ret_error_is_schemas progs sched st g rr :
  run cfg (initial progs) sched = Some st -> In rr (t_rets (st_thr st g)) ->
  rt_err rr = s_err (st_sch st (rt_sid rr)).
Proof. intros R Hin. eapply ret_err_is_schemas; eauto. eapply reach_inv; eauto. Qed.

(* the error of a returned schema never changes afterwards: extend the run at will *)
Lemma ret_error_stable progs sched sched' st st' g rr :
  run cfg (initial progs) sched = Some st -> run cfg st sched' = Some st' ->
  In rr (t_rets (st_thr st g)) ->
  In rr (t_rets (st_thr st' g)) -> s_err (st_sch st' (rt_sid rr)) = s_err (st_sch st (rt_sid rr)).
Proof.
  intros R R' Hin Hin'.
  pose proof (reach_inv cfg _ _ _ R) as Iv. pose proof (run_inv cfg _ _ _ Iv R') as Iv'.
  rewrite <- (ret_err_is_schemas cfg _ _ _ Iv Hin), <- (ret_err_is_schemas cfg _ _ _ Iv' Hin'). reflexivity.
Qed.

Lemma malformed_fails_always progs sched st g rr :
  run cfg (initial progs) sched = Some st -> In rr (t_rets (st_thr st g)) ->
  malformed cfg (rt_ty rr) -> rt_err rr = true.
Proof.
  intros R Hin M. eapply malformed_fails; eauto; [eapply reach_inv|eapply reach_E]; eauto.
Qed.

Lemma untainted_never_fails progs sched st g rr :
  run cfg (initial progs) sched = Some st -> In rr (t_rets (st_thr st g)) ->
  ~ tainted cfg (rt_ty rr) -> rt_err rr = false.
Proof.
  intros R Hin Nt. destruct (rt_err rr) eqn:Er; [exfalso|reflexivity]. apply Nt.
  eapply error_means_tainted; eauto; [eapply reach_inv|eapply reach_E]; eauto.
Qed.

Lemma error_as_alone progs1 sched1 st1 g1 rr1 progs2 sched2 st2 g2 rr2 :
  run cfg (initial progs1) sched1 = Some st1 -> In rr1 (t_rets (st_thr st1 g1)) ->
  run cfg (initial progs2) sched2 = Some st2 -> In rr2 (t_rets (st_thr st2 g2)) ->
  rt_ty rr1 = rt_ty rr2 ->
  malformed cfg (rt_ty rr1) \/ ~ tainted cfg (rt_ty rr1) ->
  rt_err rr1 = rt_err rr2.
Proof.
  intros R1 H1 R2 H2 Et [M|Nt].
  - rewrite (malformed_fails_always _ _ _ _ _ R1 H1 M).
    rewrite Et in M. now rewrite (malformed_fails_always _ _ _ _ _ R2 H2 M).
  - rewrite (untainted_never_fails _ _ _ _ _ R1 H1 Nt).
    rewrite Et in Nt. now rewrite (untainted_never_fails _ _ _ _ _ R2 H2 Nt).
Qed.

(* a warm cache (every configured type parsed without error, which presupposes a configuration
   without malformed relations): no call ever returns an error, whatever the schedule *)
Definition well_formed_cfg : Prop := forall t r, In r (rels cfg t) -> r_ok r = true.

Lemma E_warm progs : well_formed_cfg -> E cfg (warm cfg progs).
Proof.
  intro Wf. split.
  - intro g. cbn. split; [constructor|exact I].
  - intro s. cbn -[Nat.ltb]. destruct (Nat.ltb s (length cfg)); split; cbn; try discriminate; try (intros; lia).
    intros j x _ Hx. apply (Wf s x). eapply nth_error_In; eauto.
Qed.

Lemma no_taint : well_formed_cfg -> forall t, ~ tainted cfg t.
Proof.
  intros Wf t T. induction T as [t (r & Hr & Hok)|t r Hr _ IH]; [|exact IH].
  rewrite (Wf t r Hr) in Hok. discriminate.
Qed.

Lemma warm_no_errors progs sched st g rr :
  well_formed_cfg -> run cfg (warm cfg progs) sched = Some st -> In rr (t_rets (st_thr st g)) ->
  rt_err rr = false.
Proof.
  intros Wf R Hin.
  assert (Iv : inv cfg st) by (eapply run_inv; [apply inv_warm|exact R]).
  assert (He : E cfg st) by (eapply E_run; [apply inv_warm|apply E_warm; exact Wf|exact R]).
  destruct (rt_err rr) eqn:Er; [exfalso|reflexivity].
  exact (no_taint Wf _ (error_means_tainted cfg _ _ _ Iv He Hin Er)).
Qed.

(* the boolean twins C07_Check evaluates on the observed returns *)
Lemma malformedb_spec t : malformedb cfg t = true <-> malformed cfg t.
Proof.
  unfold malformedb, malformed. rewrite existsb_exists. split; intros (r & A & B); exists r; split; auto.
  - now apply negb_true_iff.
  - now apply negb_true_iff.
Qed.

Inductive reaches (t : ty) : ty -> Prop :=
| R_refl : reaches t t
| R_step u r : reaches t u -> In r (rels cfg u) -> reaches t (r_to r).

Lemma tainted_back t u : reaches t u -> tainted cfg u -> tainted cfg t.
Proof.
  induction 1 as [|u r _ IH Hin]; [auto|]. intro T. apply IH. eapply T_step; eauto.
Qed.

Lemma reach_from_sound t fuel : forall todo seen,
  (forall u, In u (todo ++ seen) -> reaches t u) ->
  forall u, In u (reach_from cfg fuel todo seen) -> reaches t u.
Proof.
  induction fuel as [|k IH]; cbn; intros todo seen H u Hu.
  - apply H. apply in_app_or in Hu. apply in_or_app. tauto.
  - destruct todo as [|x r]; [apply H; exact Hu|].
    destruct (existsb (Nat.eqb x) seen).
    + apply (IH r seen); [|exact Hu]. intros v Hv. apply H. cbn. right. exact Hv.
    + apply (IH (map r_to (rels cfg x) ++ r) (x :: seen)); [|exact Hu]. intros v Hv.
      apply in_app_or in Hv. destruct Hv as [Hv|[<-|Hv]].
      * apply in_app_or in Hv. destruct Hv as [Hv|Hv].
        -- apply in_map_iff in Hv. destruct Hv as (rl & <- & Hrl).
           apply R_step with (u := x); [apply H; left; reflexivity|exact Hrl].
        -- apply H. cbn. right. apply in_or_app. now left.
      * apply H. left. reflexivity.
      * apply H. cbn. right. apply in_or_app. now right.
Qed.

Lemma taintedb_sound t : taintedb cfg t = true -> tainted cfg t.
Proof.
  unfold taintedb. rewrite existsb_exists. intros (u & Hu & M).
  apply (tainted_back t u); [|apply T_here; now apply malformedb_spec].
  eapply reach_from_sound; [|exact Hu]. intros v [<-|[]]. apply R_refl.
Qed.

(* what C07_Check demands of every observed return of a malformed type, as a fact about the model *)
Lemma returns_classified progs sched st g rr :
  run cfg (initial progs) sched = Some st -> In rr (t_rets (st_thr st g)) ->
  (malformedb cfg (rt_ty rr) = true -> rt_err rr = true) /\ (rt_err rr = true -> tainted cfg (rt_ty rr)).
Proof.
  intros R Hin. split.
  - intro M. eapply malformed_fails_always; eauto. now apply malformedb_spec.
  - intro Er. eapply error_means_tainted; eauto; [eapply reach_inv|eapply reach_E]; eauto.
Qed.
End AsAlone.

(* the class in between: type 0 (well formed) belongs to type 1, whose has-many to type 2 is
   malformed.  Alone Parse(0) fails (the nested Parse(1) fails); next to a goroutine that has
   published 1 and not yet found its error, getOrParse takes that entry as it is. *)
Definition cfg_outer : config := [[mk_rel 1 true]; [mk_rel 2 false]; []].
Definition sched_alone : list tid := repeat 0 25.
Definition sched_next_to : list tid := repeat 0 5 ++ repeat 1 10 ++ repeat 0 12.

Lemma outer_alone_fails :
  exists st rr, run cfg_outer (initial [[0]]) sched_alone = Some st /\ all_finished st = true /\
    t_rets (st_thr st 0) = [rr] /\ rt_ty rr = 0 /\ rt_err rr = true.
Proof. eexists. eexists. split; [vm_compute; reflexivity|]. repeat split; vm_compute; reflexivity. Qed.

Lemma outer_next_to_succeeds :
  exists st rr, run cfg_outer (initial [[1]; [0]]) sched_next_to = Some st /\ all_finished st = true /\
    t_rets (st_thr st 1) = [rr] /\ rt_ty rr = 0 /\ rt_err rr = false.
Proof. eexists. eexists. split; [vm_compute; reflexivity|]. repeat split; vm_compute; reflexivity. Qed.

Lemma outer_tainted_not_malformed : tainted cfg_outer 0 /\ ~ malformed cfg_outer 0.
Proof.
  split.
  - apply T_step with (r := mk_rel 1 true); [left; reflexivity|]. apply T_here.
    exists (mk_rel 2 false). split; [left; reflexivity|reflexivity].
  - intros (r & [<-|[]] & H). discriminate.
Qed.
