(* C01_Proofs2.v — "$n" dialect: numbered placeholders of a rendered text; the [goodp] invariant
   of pieces (no placeholder byte in the text, no value without placeholder, no digit right after a
   value) and its closure under concatenation. *)
From Verif Require Import Base C01_Model C01_Stmt C01_Spec C01_Proofs.
From Coq Require Import DecimalN DecimalPos DecimalFacts.

(* ---- decimal numerals ---- *)
Lemma digit_val_none : forall c, is_digit c = false -> digit_val c = None.
Proof.
  intros [[] [] [] [] [] [] [] []]; cbn; intro H; try reflexivity; discriminate.
Qed.
Lemma ceq_sym : forall a b, ceq a b = ceq b a.
Proof. intros a b. unfold ceq. apply Ascii.eqb_sym. Qed.
Lemma digit_not_dollar : forall c, is_digit c = true -> ceq c "$" = false.
Proof.
  intros [[] [] [] [] [] [] [] []]; cbn; intro H; try reflexivity; discriminate.
Qed.

Definition sd (s : la) : bool := match s with c :: _ => is_digit c | [] => false end.

Lemma read_uint_chars : forall u rest, sd rest = false -> read_uint (uint_chars u ++ rest) = u.
Proof.
  induction u; intros rest H; cbn; try (rewrite IHu by exact H; reflexivity).
  destruct rest as [|c r]; [reflexivity|]. cbn in H. cbn. rewrite digit_val_none by exact H. reflexivity.
Qed.

Lemma uint_chars_digits : forall u, forallb is_digit (uint_chars u) = true.
Proof. induction u; cbn; auto. Qed.

Lemma ph_numbered_skip_digits : forall ds rest, forallb is_digit ds = true ->
  ph_numbered (ds ++ rest) = ph_numbered rest.
Proof.
  induction ds as [|c ds IH]; intros rest H; [reflexivity|].
  cbn in H. apply andb_prop in H. destruct H as [Hc Hd].
  cbn [app ph_numbered]. rewrite (digit_not_dollar c Hc). apply IH. exact Hd.
Qed.

Lemma to_uint_nonnil : forall n, N.to_uint n <> Decimal.Nil.
Proof.
  intros [|p]; cbn; [discriminate|]. apply Unsigned.to_uint_nonnil.
Qed.

(* ---- pieces ---- *)
Definition sdp (ps : pieces) : bool := match ps with PC c :: _ => is_digit c | _ => false end.
Fixpoint okd (ps : pieces) : bool :=
  match ps with
  | [] => true
  | PV _ :: r => negb (sdp r) && okd r
  | _ :: r => okd r
  end.

Fixpoint nseq_from (n : N) (k : nat) : list N :=
  match k with O => [] | S k' => n :: nseq_from (N.succ n) k' end.
Lemma nseq_is_from : forall k, nseq k = nseq_from 1 k.
Proof.
  unfold nseq. intro k.
  assert (G : forall k n, map N.of_nat (seq n k) = nseq_from (N.of_nat n) k).
  { induction k0 as [|k0 IH]; intro n; [reflexivity|].
    cbn [seq map nseq_from]. rewrite IH. rewrite Nat2N.inj_succ. reflexivity. }
  apply (G k 1%nat).
Qed.

Lemma sd_render : forall ps n, sd (render_from true n ps) = sdp ps \/ (exists v r, ps = PH v :: r).
Proof.
  intros [|[c|v|v] r] n; cbn; auto. right; eauto.
Qed.

Lemma ph_numbered_render : forall ps n,
  no_char "$" ps = true -> no_hidden ps = true -> okd ps = true ->
  ph_numbered (render_from true n ps) = nseq_from n (length (vars_of ps)).
Proof.
  induction ps as [|p ps IH]; intros n Hc Hh Hk; [reflexivity|].
  unfold no_char, no_hidden in Hc, Hh. cbn [existsb] in Hc, Hh.
  rewrite negb_orb in Hc, Hh. apply andb_prop in Hc; destruct Hc as [Hc1 Hc2].
  apply andb_prop in Hh; destruct Hh as [Hh1 Hh2].
  destruct p as [c|v|v]; cbn [render_from vars_of].
  - cbn [is_pc] in Hc1. apply negb_true_iff in Hc1. cbn [ph_numbered]. rewrite ceq_sym, Hc1.
    apply IH; assumption.
  - cbn [okd] in Hk. apply andb_prop in Hk. destruct Hk as [Hs Hk]. apply negb_true_iff in Hs.
    cbn [app ph_numbered length nseq_from]. replace (ceq "$" "$") with true by reflexivity.
    unfold dec_n.
    assert (Hrest : sd (render_from true (N.succ n) ps) = false).
    { destruct (sd_render ps (N.succ n)) as [E|[v' [r E]]]; [rewrite E; exact Hs|].
      subst ps. cbn in Hh2. discriminate. }
    rewrite read_uint_chars by exact Hrest.
    destruct (N.to_uint n) eqn:E; try (exfalso; exact (to_uint_nonnil n E));
      rewrite <- E, DecimalN.Unsigned.of_to, ph_numbered_skip_digits by apply uint_chars_digits;
      (f_equal; apply IH; assumption).
  - discriminate.
Qed.

Lemma placeholders_numbered : forall ps,
  no_char "$" ps = true -> no_hidden ps = true -> okd ps = true ->
  placeholders true (render true ps) = nseq (length (vars_of ps)).
Proof.
  intros ps H1 H2 H3. unfold placeholders, render. rewrite nseq_is_from. apply ph_numbered_render; assumption.
Qed.

(* ---- the invariant of built pieces ---- *)
Definition goodp (ps : pieces) : bool :=
  no_char "?" ps && no_char "$" ps && no_char "@" ps && no_hidden ps && okd ps && negb (sdp ps).

(* the same without the condition on the first byte *)
Definition goodq (ps : pieces) : bool :=
  no_char "?" ps && no_char "$" ps && no_char "@" ps && no_hidden ps && okd ps.
Lemma goodp_split : forall ps, goodp ps = goodq ps && negb (sdp ps).
Proof. reflexivity. Qed.

Lemma goodp_elim : forall ps, goodp ps = true ->
  no_char "?" ps = true /\ no_char "$" ps = true /\ no_char "@" ps = true /\ no_hidden ps = true
  /\ okd ps = true /\ sdp ps = false.
Proof.
  unfold goodp. intros ps H.
  repeat (apply andb_prop in H; destruct H as [H ?]). apply negb_true_iff in H0. tauto.
Qed.
Lemma goodp_intro : forall ps,
  no_char "?" ps = true -> no_char "$" ps = true -> no_char "@" ps = true -> no_hidden ps = true ->
  okd ps = true -> sdp ps = false -> goodp ps = true.
Proof. unfold goodp. intros ps -> -> -> -> -> ->. reflexivity. Qed.

Lemma sdp_app : forall a b, sdp a = false -> sdp b = false -> sdp (a ++ b) = false.
Proof. intros [|[c|v|v] a] b Ha Hb; cbn in *; auto. Qed.

Lemma okd_app : forall a b, okd a = true -> okd b = true -> sdp b = false -> okd (a ++ b) = true.
Proof.
  induction a as [|p a IH]; intros b Ha Hb Hs; [exact Hb|].
  destruct p as [c|v|v]; cbn [app okd] in *; try (apply IH; assumption).
  apply andb_prop in Ha. destruct Ha as [H1 H2]. apply andb_true_intro. split; [|apply IH; assumption].
  apply negb_true_iff. apply negb_true_iff in H1. destruct a; [exact Hs | exact H1].
Qed.

Lemma goodp_app : forall a b, goodp a = true -> goodp b = true -> goodp (a ++ b) = true.
Proof.
  intros a b Ha Hb. apply goodp_elim in Ha. apply goodp_elim in Hb.
  destruct Ha as (a1 & a2 & a3 & a4 & a5 & a6). destruct Hb as (b1 & b2 & b3 & b4 & b5 & b6).
  apply goodp_intro; rewrite ?no_char_app, ?no_hidden_app, ?a1, ?a2, ?a3, ?a4, ?b1, ?b2, ?b3, ?b4; auto.
  - apply okd_app; assumption.
  - apply sdp_app; assumption.
Qed.

Lemma goodp_nil : goodp [] = true. Proof. reflexivity. Qed.
Lemma goodp_pv : forall s, goodp [PV s] = true. Proof. reflexivity. Qed.

Lemma existsb_pc_ptext : forall c s, existsb (is_pc c) (ptext s) = contains_c c s.
Proof. unfold ptext. induction s as [|x s IH]; [reflexivity|]. cbn [map existsb is_pc contains_c]. rewrite IH. reflexivity. Qed.
Lemma no_hidden_ptext : forall s, no_hidden (ptext s) = true.
Proof. unfold no_hidden. induction s as [|x s IH]; [reflexivity|]. exact IH. Qed.
Lemma okd_ptext : forall s, okd (ptext s) = true.
Proof. induction s as [|x s IH]; [reflexivity|]. exact IH. Qed.

(* text without '?', '$', '@' and without a digit in front *)
Definition clean_la (s : la) : bool :=
  negb (contains_c "?" s) && negb (contains_c "$" s) && negb (contains_c "@" s) && negb (sd s).

Lemma goodp_ptext : forall s, clean_la s = true -> goodp (ptext s) = true.
Proof.
  intros s H. unfold clean_la in H. repeat (apply andb_prop in H; destruct H as [H ?]).
  apply goodp_intro; unfold no_char; rewrite ?existsb_pc_ptext; auto using no_hidden_ptext, okd_ptext.
  destruct s; [reflexivity|]. cbn in *. apply negb_true_iff. assumption.
Qed.

Lemma goodp_pc : forall c ps, clean_la [c] = true -> goodp ps = true -> goodp (PC c :: ps) = true.
Proof. intros c ps Hc Hp. apply (goodp_app (ptext [c]) ps); [apply goodp_ptext; exact Hc | exact Hp]. Qed.

Lemma goodp_concat : forall l, Forall (fun p => goodp p = true) l -> goodp (List.concat l) = true.
Proof.
  induction 1 as [|p l Hp Hl IH]; [reflexivity|]. cbn. apply goodp_app; assumption.
Qed.

Lemma goodp_sepc : forall s l, goodp s = true -> Forall (fun p => goodp p = true) l -> goodp (sepc s l) = true.
Proof.
  intros s l Hs H. induction H as [|p l Hp Hl IH]; [reflexivity|].
  destruct l as [|q l']; [exact Hp|].
  change (sepc s (p :: q :: l')) with (p ++ s ++ sepc s (q :: l')).
  apply goodp_app; [exact Hp|]. apply goodp_app; [exact Hs | exact IH].
Qed.

Lemma vars_of_concat : forall l, vars_of (List.concat l) = List.concat (map vars_of l).
Proof. induction l as [|p l IH]; [reflexivity|]. cbn. rewrite vars_of_app, IH. reflexivity. Qed.

Lemma vars_of_sepc : forall s l, vars_of s = [] -> vars_of (sepc s l) = List.concat (map vars_of l).
Proof.
  intros s l Hs. induction l as [|p l IH]; [reflexivity|].
  destruct l as [|q l']; [cbn; rewrite List.app_nil_r; reflexivity|].
  change (sepc s (p :: q :: l')) with (p ++ s ++ sepc s (q :: l')).
  rewrite !vars_of_app, Hs, IH. reflexivity.
Qed.

Lemma goodq_elim : forall ps, goodq ps = true ->
  no_char "?" ps = true /\ no_char "$" ps = true /\ no_char "@" ps = true /\ no_hidden ps = true /\ okd ps = true.
Proof.
  unfold goodq. intros ps H. repeat (apply andb_prop in H; destruct H as [H ?]). tauto.
Qed.
Lemma goodq_app : forall a b, goodq a = true -> goodq b = true -> sdp b = false -> goodq (a ++ b) = true.
Proof.
  intros a b Ha Hb Hs. apply goodq_elim in Ha. apply goodq_elim in Hb.
  destruct Ha as (a1 & a2 & a3 & a4 & a5). destruct Hb as (b1 & b2 & b3 & b4 & b5).
  unfold goodq. rewrite !no_char_app, no_hidden_app, a1, a2, a3, a4, b1, b2, b3, b4.
  cbn. apply okd_app; assumption.
Qed.
Definition plain_char (c : ascii) : bool := negb (ceq "?" c) && negb (ceq "$" c) && negb (ceq "@" c).
Lemma goodq_pc : forall c ps, plain_char c = true -> goodq ps = true -> goodq (PC c :: ps) = true.
Proof.
  intros c ps Hc Hp. unfold plain_char in Hc. repeat (apply andb_prop in Hc; destruct Hc as [Hc ?]).
  apply goodq_elim in Hp. destruct Hp as (b1 & b2 & b3 & b4 & b5).
  unfold goodq, no_char, no_hidden in *. cbn [existsb is_pc is_hidden okd].
  rewrite !negb_orb, Hc, H, H0, b1, b2, b3, b4, b5. reflexivity.
Qed.
Lemma goodp_of_q : forall ps, goodq ps = true -> sdp ps = false -> goodp ps = true.
Proof. intros ps H1 H2. rewrite goodp_split, H1, H2. reflexivity. Qed.
Lemma goodq_of_p : forall ps, goodp ps = true -> goodq ps = true.
Proof. intros ps H. rewrite goodp_split in H. apply andb_prop in H. tauto. Qed.
Lemma sdp_of_p : forall ps, goodp ps = true -> sdp ps = false.
Proof. intros ps H. rewrite goodp_split in H. apply andb_prop in H. destruct H as [_ H]. apply negb_true_iff in H. exact H. Qed.
