(* C04_Model.v — executable model of gorm's transaction blocks (finisher_api.go: Transaction,
   Begin, Commit, Rollback, SavePoint, RollbackTo; gorm.go: Session/getInstance copying
   DB.Error, AddError) over an environment (SQLite's snapshot stack, database/sql's Tx,
   the recording driver's fault injection).  No proofs here. *)
From Verif Require Export Base.
Open Scope Z_scope.

(* ------------------------------------------------------------------ programs *)
(* The function handed to Transaction (or the code between Begin and Commit), written as a
   sequence ending in its scripted outcome.  Everything inside a block goes through the
   block's own handle.
     Write m chk k   res := tx.Create(marker m); if chk && res.Error != nil { return res.Error }
     Read chk k      res := tx.Model(..).Count(&n); same
     Child b chk rcv k   err := tx.Transaction(b); if chk && err != nil { return err }
                     (rcv: the call is wrapped in a recover(), a panic of b is swallowed;
                      cx: the call is tx.WithContext(ctx).Transaction(b) with a fresh cancellable ctx;
                      nn: the call is tx.Session(&Session{DisableNestedTransaction: true}).Transaction(b):
                      nested transactions are disabled for this call and everything below it)
     Cancel k        cancel() of the innermost enclosing block's own ctx
     Save n k        if err := tx.SavePoint(n).Error; err != nil { return err }
     RbTo n k        if err := tx.RollbackTo(n).Error; err != nil { return err }          *)
(* Panic p: panic(v) with the harness' value number p >= 0; p = -1: panic(nil) (recover() yields
   nil: the binary is built with go < 1.21 panic semantics); p = -2: runtime.Goexit() — the
   deferred functions run as for a panic but no recover() stops it *)
Inductive outcome := RetNil | RetErr (e : Z) | Panic (p : Z).
Definition recovers (rcv : bool) (p : Z) : bool := rcv && negb (p =? -2).
Inductive prog :=
| Done (o : outcome)
| Write (m : Z) (chk : bool) (k : prog)
| Read (chk : bool) (k : prog)
| Child (b : prog) (chk : bool) (rcv : bool) (cx : bool) (nn : bool) (k : prog)
| Save (n : Z) (k : prog)
| RbTo (n : Z) (k : prog)
| Cancel (k : prog).

(* domain of the save-point part of the property: a body rolls back only to save points it
   created itself, at its own level (never across a block boundary downwards) *)
Definition memz (x : Z) (l : list Z) := existsb (Z.eqb x) l.
Fixpoint cutz (n : Z) (l : list Z) : list Z :=
  match l with [] => [] | x :: r => if n =? x then l else cutz n r end.
Fixpoint scoped (avail : list Z) (p : prog) : bool :=
  match p with
  | Done _ => true
  | Write _ _ k | Read _ k => scoped avail k
  | Child b _ _ _ _ k => scoped [] b && scoped avail k
  | Cancel k => scoped avail k
  | Save n k => scoped (n :: avail) k
  | RbTo n k => memz n avail && scoped (cutz n avail) k
  end.

(* no block cancels a context: the domain of the theorems *)
Fixpoint plain_prog (p : prog) : bool :=
  match p with
  | Done _ => true
  | Write _ _ k | Read _ k | Save _ k | RbTo _ k => plain_prog k
  | Child b _ _ _ _ k => plain_prog b && plain_prog k
  | Cancel _ => false
  end.

(* a Cancel stands inside a block that runs under a context of its own (possibly inherited from
   an enclosing block): the generator's contract *)
Fixpoint cancel_ok (inside : bool) (p : prog) : bool :=
  match p with
  | Done _ => true
  | Write _ _ k | Read _ k | Save _ k | RbTo _ k => cancel_ok inside k
  | Child b _ _ cx _ k => cancel_ok (cx || inside) b && cancel_ok inside k
  | Cancel k => inside && cancel_ok inside k
  end.

(* errors as the harness can tell them apart: errors.Is class + "is not the sentinel itself" *)
Inductive ecode := EUser (n : Z) | EFault | ETxDone | EInvalidTx | ENoSp | EUnsupported | ECanceled | EOther.
Record err := mkErr { e_code : ecode; e_wrapped : bool }.
Inductive cls := CNil | CErr (e : err) | CPanic (p : Z).

(* observed call tree: one node per call made inside a block *)
Inductive obs :=
| OW (m : Z) (ret : cls)
| OR (ret : cls) (n : Z)
| OS (n : Z) (ret : cls)
| ORb (n : Z) (ret : cls)
| OC (entered : bool) (body : list obs) (exit ret : cls)
| ONN (o : obs).   (* a nested call made with nested transactions disabled for it (a fact of the program) *)

Inductive opkind := KBegin | KSave | KRbTo | KStmt | KCommit | KRollback.
(* c_wrap: the pool is a ConnPoolBeginner whose BeginTx returns a wrapper around *sql.Tx (nil on failure);
   c_soft: that wrapper fails Commit before it reaches
   database/sql (the transaction stays open).  c_nosp: the dialector does not implement SavePointerDialectorInterface (no save points) *)
Record cfg := mk_cfg { c_prep : bool; c_nonest : bool; c_skipdef : bool; c_report : bool; c_nosp : bool; c_wrap : bool; c_soft : bool }.

(* ------------------------------------------------------------------ environment *)
Definition tbl := list Z.
Inductive spname := NUser (n : Z) | NGen (k : nat).
Definition spname_eqb a b :=
  match a, b with
  | NUser x, NUser y => x =? y
  | NGen x, NGen y => Nat.eqb x y
  | _, _ => false
  end.
(* the SQL transaction on the connection: its view of the table and the save-point stack *)
Record txs := mkTx { work : tbl; sps : list (spname * tbl) }.

(* reference semantics of SQLite's SAVEPOINT / ROLLBACK TO: a stack of snapshots *)
Definition ref_save (n : spname) (t : txs) : txs := mkTx (work t) ((n, work t) :: sps t).
Fixpoint sp_cut (n : spname) (l : list (spname * tbl)) : option (tbl * list (spname * tbl)) :=
  match l with
  | [] => None
  | (n', snap) :: r => if spname_eqb n n' then Some (snap, l) else sp_cut n r
  end.
Definition ref_rbto (n : spname) (t : txs) : option txs :=
  match sp_cut n (sps t) with
  | Some (snap, l) => Some (mkTx snap l)
  | None => None
  end.

(* calls that reach database/sql's transaction API *)
Inductive txcall := TBegin (ok : bool) | TEnd.
Definition pool_step (a : Z * Z) (c : txcall) : Z * Z :=
  match c with
  | TBegin true => (fst a + 1, snd a + 1)
  | TBegin false => a
  | TEnd => if 0 <? snd a then (fst a - 1, snd a - 1) else a
  end.
Definition ref_pool (l : list txcall) : Z * Z := fold_left pool_step l (0, 0).

(* the environment the model runs against; the theorems only use the named laws of
   C04_Proofs (Section hypotheses), the checker instantiates it with [ref_env] *)
Record env := mkEnv {
  sq_save : spname -> txs -> txs;
  sq_rbto : spname -> txs -> option txs;
  pool : list txcall -> Z * Z
}.
Definition ref_env := mkEnv ref_save ref_rbto ref_pool.

(* flags describing where the run left the domain of the atomicity statement *)
Record flags := mkFl {
  x_rb : bool;     (* a fault hit the ROLLBACK TO a failing nested block issues *)
  x_drop : bool    (* the dialector dropped the error of a SAVEPOINT / ROLLBACK TO *)
}.

Record st := mkSt {
  s_db : tbl;                      (* durable content of the table *)
  s_tx : option txs;               (* open transaction (= the sql.Tx is not done) *)
  s_ops : list (opkind * bool);    (* driver operations issued so far, newest first; faulted? *)
  s_gen : nat;                     (* save-point names generated so far *)
  s_txlog : list txcall;           (* newest first *)
  s_fl : flags;
  s_dead : bool;                   (* the context of the block being run has been cancelled *)
  s_nonest : bool                  (* DisableNestedTransaction was set by a session on the way to the block being run *)
}.

Definition init_st (db : tbl) : st := mkSt db None [] 0 [] (mkFl false false) false false.

Definition set_tx (s : st) (t : option txs) := mkSt (s_db s) t (s_ops s) (s_gen s) (s_txlog s) (s_fl s) (s_dead s) (s_nonest s).
Definition set_db (s : st) (d : tbl) := mkSt d (s_tx s) (s_ops s) (s_gen s) (s_txlog s) (s_fl s) (s_dead s) (s_nonest s).
Definition set_fl (s : st) (f : flags) := mkSt (s_db s) (s_tx s) (s_ops s) (s_gen s) (s_txlog s) f (s_dead s) (s_nonest s).
Definition set_dead (s : st) (d : bool) := mkSt (s_db s) (s_tx s) (s_ops s) (s_gen s) (s_txlog s) (s_fl s) d (s_nonest s).
Definition set_nonest (s : st) (d : bool) := mkSt (s_db s) (s_tx s) (s_ops s) (s_gen s) (s_txlog s) (s_fl s) (s_dead s) d.
Definition log_tx (s : st) (c : txcall) := mkSt (s_db s) (s_tx s) (s_ops s) (s_gen s) (c :: s_txlog s) (s_fl s) (s_dead s) (s_nonest s).
Definition next_gen (s : st) := mkSt (s_db s) (s_tx s) (s_ops s) (S (s_gen s)) (s_txlog s) (s_fl s) (s_dead s) (s_nonest s).
Definition flag_rb (s : st) := set_fl s (mkFl true (x_drop (s_fl s))).
Definition flag_drop (s : st) := set_fl s (mkFl (x_rb (s_fl s)) true).

Definition fault_err := mkErr EFault false.
Definition canceled_err := mkErr ECanceled false.
Definition cls_oe (e : option err) : cls := match e with None => CNil | Some e' => CErr e' end.

(* gorm.go AddError: the first error is kept as is, a later one wraps itself around the text
   of the earlier (fmt.Errorf("%v; %w", db.Error, err)) *)
Definition add_error (h : option err) (e : option err) : option err :=
  match e with
  | None => h
  | Some e' => match h with None => Some e' | Some _ => Some (mkErr (e_code e') true) end
  end.

Inductive res := ROk | RErr (e : err) | RPan (p : Z).
Definition cls_of (r : res) : cls :=
  match r with ROk => CNil | RErr e => CErr e | RPan p => CPanic p end.

Section Run.
Variable E : env.
Variable C : cfg.
Variable fault : nat -> bool.   (* which driver operations (by index) fail *)

(* one driver operation: logged; fails iff its index is faulted *)
Definition issue (k : opkind) (s : st) : bool * st :=
  let f := fault (length (s_ops s)) in
  (f, mkSt (s_db s) (s_tx s) ((k, f) :: s_ops s) (s_gen s) (s_txlog s) (s_fl s) (s_dead s) (s_nonest s)).

(* a data statement on handle h: getInstance copies the handle's Error and every callback is
   guarded by db.Error == nil; the implicit BeginTransaction finds a Tx pool
   (ErrInvalidTransaction, ignored) whatever SkipDefaultTransaction says *)
Definition h_stmt (w : option Z) (h : option err) (s : st) : option err * Z * st :=
  match h with
  | Some e => (Some e, 0, s)
  | None =>
    if s_dead s then (Some canceled_err, 0, s)   (* the context is done: database/sql refuses before any driver call *)
    else
    match s_tx s with
    | None => (Some (mkErr ETxDone false), 0, s)
    | Some t =>
      let '(f, s1) := issue KStmt s in
      if f then (Some fault_err, 0, s1)
      else match w with
           | Some m => (None, 0, set_tx s1 (Some (mkTx (work t ++ [m]) (sps t))))
           | None => (None, Z.of_nat (length (work t)), s1)
           end
    end
  end.

(* tx.Exec("SAVEPOINT n") / tx.Exec("ROLLBACK TO SAVEPOINT n") as the dialector issues it *)
Definition exec_sp (save : bool) (n : spname) (h : option err) (s : st) : option err * st :=
  match h with
  | Some e => (Some e, s)
  | None =>
    if s_dead s then (Some canceled_err, s)
    else
    match s_tx s with
    | None => (Some (mkErr ETxDone false), s)
    | Some t =>
      let '(f, s1) := issue (if save then KSave else KRbTo) s in
      if f then (Some fault_err, s1)
      else if save then (None, set_tx s1 (Some (sq_save E n t)))
      else match sq_rbto E n t with
           | Some t' => (None, set_tx s1 (Some t'))
           | None => (Some (mkErr ENoSp false), s1)
           end
    end
  end.

(* finisher_api.go SavePoint / RollbackTo: db.AddError(dialector result) ON THE RECEIVER;
   the stock SQLite dialector returns nil whatever Exec reported *)
Definition h_sp (save : bool) (n : spname) (h : option err) (s : st) : option err * st :=
  if c_nosp C then   (* } else { db.AddError(ErrUnsupportedDriver) }: nothing is sent *)
    (add_error h (Some (mkErr EUnsupported false)), s)
  else
  let '(d, s1) := exec_sp save n h s in
  if c_report C then (add_error h d, s1)
  else (h, match d with Some _ => flag_drop s1 | None => s1 end).

(* sql.Tx.Commit / Rollback: the first call ends the transaction whether or not the driver
   call fails (the recording driver rolls back on an injected failure); later calls: ErrTxDone *)
Definition tx_end (commit : bool) (s : st) : option err * st :=
  if commit && c_soft C then (Some fault_err, s)   (* the pool's wrapper fails Commit itself: nothing reaches database/sql *)
  else
  let s := log_tx s TEnd in
  match s_tx s with
  | None => (Some (mkErr ETxDone false), s)
  | Some t =>
    let '(f, s1) := issue (if commit then KCommit else KRollback) s in
    if f then (Some fault_err, set_tx s1 None)
    else (None, set_tx (if commit then set_db s1 (work t) else s1) None)
  end.
(* finisher_api.go Commit / Rollback: db.AddError(committer.Commit()) on the receiver *)
Definition h_end (commit : bool) (h : option err) (s : st) : option err * st :=
  let '(d, s1) := tx_end commit s in (add_error h d, s1).

(* DB.Transaction, nested branch (ConnPool is a TxCommitter).  SavePoint / RollbackTo are
   called on db.Session(&Session{}): a copy of the handle (it starts with the handle's Error),
   so what they add stays on the copy and the enclosing handle h is returned unchanged *)
Definition nested0 (body : option err -> st -> res * list obs * option err * st)
                   (h : option err) (s : st) : res * obs * option err * st :=
  if c_nonest C || s_nonest s then
    let '(r, l, _, s1) := body h s in     (* fc(db.Session(...)): the child handle copies h *)
    (r, OC true l (cls_of r) (cls_of r), h, s1)
  else
    let name := NGen (s_gen s) in
    (* err = db.Session(&Session{}).SavePoint(name).Error *)
    let '(h1, s1) := h_sp true name h (next_gen s) in
    match h1 with
    | Some e => (RErr e, OC false [] CNil (CErr e), h, s1)    (* if err != nil { return } *)
    | None =>
      let '(r, l, _, s2) := body h s1 in
      match r with
      | ROk => (ROk, OC true l CNil CNil, h, s2)
      | _ =>  (* deferred: if panicked || err != nil { db.Session(&Session{}).RollbackTo(name) } *)
        let s2' := if fault (length (s_ops s2)) then flag_rb s2 else s2 in
        let '(_, s3) := h_sp false name h s2' in
        (r, OC true l (cls_of r) (cls_of r), h, s3)
      end
    end.

(* cx: the receiver is tx.WithContext(ctx) with a fresh ctx: the block, its SAVEPOINT and its
   ROLLBACK TO run under ctx; afterwards the enclosing context is in force again.
   nn: the receiver is tx.Session(&Session{DisableNestedTransaction: true}): its private Config says
   so, the block's handle and every handle derived from it inherit it; the enclosing handle does not *)
Definition nested (cx nn : bool) (body : option err -> st -> res * list obs * option err * st)
                  (h : option err) (s : st) : res * obs * option err * st :=
  let s1 := if cx then set_dead s false else s in
  let s2 := if nn then set_nonest s1 true else s1 in
  let '(r, o, h', s') := nested0 body h s2 in
  let s3 := if nn then set_nonest s' (s_nonest s) else s' in
  let s4 := if cx then set_dead s3 (s_dead s) else s3 in
  (r, (if nn then ONN o else o), h', s4).

Fixpoint run_body (p : prog) (h : option err) (s : st) : res * list obs * option err * st :=
  match p with
  | Done RetNil => (ROk, [], h, s)
  | Done (RetErr n) => (RErr (mkErr (EUser n) false), [], h, s)
  | Done (Panic n) => (RPan n, [], h, s)
  | Write m chk k =>
    let '(e, _, s1) := h_stmt (Some m) h s in
    let o := OW m (cls_oe e) in
    match e, chk with
    | Some e', true => (RErr e', [o], h, s1)
    | _, _ => let '(r, l, h2, s2) := run_body k h s1 in (r, o :: l, h2, s2)
    end
  | Read chk k =>
    let '(e, n, s1) := h_stmt None h s in
    let o := OR (cls_oe e) n in
    match e, chk with
    | Some e', true => (RErr e', [o], h, s1)
    | _, _ => let '(r, l, h2, s2) := run_body k h s1 in (r, o :: l, h2, s2)
    end
  | Cancel k => run_body k h (set_dead s true)
  | Child b chk rcv cx nn k =>
    let '(r, o, h1, s1) := nested cx nn (run_body b) h s in
    match r with
    | ROk => let '(r', l, h2, s2) := run_body k h1 s1 in (r', o :: l, h2, s2)
    | RErr e =>
      if chk then (RErr e, [o], h1, s1)
      else let '(r', l, h2, s2) := run_body k h1 s1 in (r', o :: l, h2, s2)
    | RPan p =>
      if recovers rcv p then let '(r', l, h2, s2) := run_body k h1 s1 in (r', o :: l, h2, s2)
      else (RPan p, [o], h1, s1)
    end
  | Save n k =>
    let '(h1, s1) := h_sp true (NUser n) h s in
    let o := OS n (cls_oe h1) in
    match h1 with
    | Some e => (RErr e, [o], h1, s1)
    | None => let '(r, l, h2, s2) := run_body k h1 s1 in (r, o :: l, h2, s2)
    end
  | RbTo n k =>
    let '(h1, s1) := h_sp false (NUser n) h s in
    let o := ORb n (cls_oe h1) in
    match h1 with
    | Some e => (RErr e, [o], h1, s1)
    | None => let '(r, l, h2, s2) := run_body k h1 s1 in (r, o :: l, h2, s2)
    end
  end.

(* further Commit/Rollback calls on the finished handle (manual programs, edge stream) *)
Fixpoint run_extra (l : list bool) (h : option err) (s : st) : list cls * st :=
  match l with
  | [] => ([], s)
  | c :: r => let '(h1, s1) := h_end c h s in
              let '(o, s2) := run_extra r h1 s1 in (cls_oe h1 :: o, s2)
  end.

(* Commit / Rollback called on the handle of a FAILED Begin (manual programs): ConnPool holds the
   typed-nil *sql.Tx the driver returned (Commit: ErrInvalidTransaction, Rollback: the IsNil guard
   makes it a no-op) or, with PrepareStmt, a *PreparedStmtTX around it, or, with a wrapping
   pool, nothing at all (both: ErrInvalidTransaction for Commit and Rollback); no driver call, nothing reaches database/sql *)
Fixpoint run_extra_failed (l : list bool) (h : option err) : list cls :=
  match l with
  | [] => []
  | c :: r =>
    let h1 := if c || c_prep C || c_wrap C then add_error h (Some (mkErr EInvalidTx false)) else h in
    cls_oe h1 :: run_extra_failed r h1
  end.

(* what happens after the block function ended: Commit / Rollback.
   DB.Transaction, outer branch (manual = false): return tx.Commit().Error, deferred
   tx.Rollback() when panicked or err != nil; or the documented manual pattern (manual = true):
   Rollback on error / panic, else Commit, then the extra calls *)
Definition finish (manual : bool) (extra : list bool) (r : res) (l : list obs) (h : option err) (s2 : st)
  : obs * list cls * st :=
  match r with
  | ROk =>
    let '(h2, s3) := h_end true h s2 in                       (* return tx.Commit().Error *)
    match h2 with
    | None => let '(x, s4) := run_extra (if manual then extra else []) h2 s3 in
              (OC true l CNil CNil, x, s4)
    | Some e =>   (* deferred tx.Rollback() / the manual program's "if err != nil { tx.Rollback() }" *)
      let '(h3, s4) := h_end false h2 s3 in
      let '(x, s5) := run_extra (if manual then extra else []) h3 s4 in
      (OC true l CNil (CErr e), x, s5)
    end
  | RErr e =>
    let '(h2, s3) := h_end false h s2 in                       (* tx.Rollback() *)
    let '(x, s4) := run_extra (if manual then extra else []) h2 s3 in
    (OC true l (CErr e) (CErr e), x, s4)
  | RPan q =>
    let '(_, s3) := h_end false h s2 in                        (* deferred tx.Rollback() *)
    (OC true l (CPanic q) (CPanic q), [], s3)
  end.

(* tx := db.Begin(); if tx.Error != nil { return tx.Error }; run the function on tx; finish *)
Definition run_top (manual : bool) (p : prog) (extra : list bool) (s0 : st) : obs * list cls * st :=
  let '(f, s1) := issue KBegin s0 in
  if f then   (* return tx.Error; a manual program may still call Commit / Rollback on the handle *)
    (OC false [] CNil (CErr fault_err), if manual then run_extra_failed extra (Some fault_err) else [],
     log_tx s1 (TBegin false))
  else
    let s1 := set_tx (log_tx s1 (TBegin true)) (Some (mkTx (s_db s1) [])) in
    let '(r, l, h, s2) := run_body p None s1 in
    finish manual extra r l h s2.

End Run.

(* Commit / Rollback called on a handle that is not in a transaction (its ConnPool is the pool):
   ErrInvalidTransaction, no driver call.  true = Commit *)
Definition run_stray (l : list bool) : list cls := map (fun _ => CErr (mkErr EInvalidTx false)) l.

Definition fault_at (k : option nat) : nat -> bool :=
  fun i => match k with Some k' => Nat.eqb i k' | None => false end.
