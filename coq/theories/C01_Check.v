(* C01_Check.v — correspondence checker for C01.  [model_agrees]: the model, evaluated on the
   chain gorm just ran, yields gorm's SQL text and bound values under three dialects.
   [spec_holds]: the property's right-hand side evaluated on what gorm produced. *)
From Verif Require Export Base C01_Model C01_Stmt C01_Spec.

Section LstEqb.   (* [eqb] outside the fix, so that nested recursive calls pass the guard *)
  Context {A : Type} (eqb : A -> A -> bool).
  Fixpoint lst_eqb (a b : list A) {struct a} : bool :=
    match a with
    | [] => match b with [] => true | _ => false end
    | x :: a' => match b with y :: b' => eqb x y && lst_eqb a' b' | [] => false end
    end.
End LstEqb.

Fixpoint val_eqb (a b : val) {struct a} : bool :=
  match a, b with
  | VS x, VS y | VDrv x, VDrv y => scalar_eqb x y
  | VList k l, VList k' l' =>
    match k, k' with LIface, LIface | LKnown, LKnown | LOther, LOther | LU8, LU8 => lst_eqb (fun x y => val_eqb x y) l l' | _, _ => false end
  | VNamed n x, VNamed n' x' => String.eqb n n' && val_eqb x x'
  | VNameSrc l, VNameSrc l' | VAnd l, VAnd l' | VOr l, VOr l' | VNot l, VNot l' | VWhere l, VWhere l'
  | KClauses l, KClauses l' | VMapCond l, VMapCond l' | VStructCond l, VStructCond l' => lst_eqb (fun x y => val_eqb x y) l l'
  | VGormValuer i x, VGormValuer i' x' => Bool.eqb i i' && val_eqb x x'
  | VCol t n al r, VCol t' n' al' r' => String.eqb t t' && String.eqb n n' && String.eqb al al' && Bool.eqb r r'
  | VTable n al r, VTable n' al' r' => String.eqb n n' && String.eqb al al' && Bool.eqb r r'
  | VQStr s, VQStr s' | VText s, VText s' | KGroup s, KGroup s' | KOrder s, KOrder s' => String.eqb s s'
  | VExpr w s l, VExpr w' s' l' => Bool.eqb w w' && String.eqb s s' && lst_eqb (fun x y => val_eqb x y) l l'
  | VNamedExpr s l, VNamedExpr s' l' | VRawSub s l, VRawSub s' l' | KSelect s l, KSelect s' l'
  | KJoins s l, KJoins s' l' | VSeq s l, VSeq s' l' => String.eqb s s' && lst_eqb (fun x y => val_eqb x y) l l'
  | VCmp o c x, VCmp o' c' x' =>
    match o, o' with
    | OEq, OEq | ONeq, ONeq | OGt, OGt | OGte, OGte | OLt, OLt | OLte, OLte | OLike, OLike | ONotLike, ONotLike => true
    | _, _ => false
    end && val_eqb c c' && val_eqb x x'
  | VIn c l, VIn c' l' => val_eqb c c' && lst_eqb (fun x y => val_eqb x y) l l'
  | VSubN t q w, VSubN t' q' w' => String.eqb (t_table t) (t_table t') && val_eqb q q' && lst_eqb (fun x y => val_eqb x y) w w'
  | VSub t l, VSub t' l' => String.eqb (t_table t) (t_table t') && lst_eqb (fun x y => val_eqb x y) l l'
  | KCond k q l, KCond k' q' l' =>
    match k, k' with KWh, KWh | KNot, KNot | KOr, KOr => true | _, _ => false end && val_eqb q q' && lst_eqb (fun x y => val_eqb x y) l l'
  | KHaving q l, KHaving q' l' => val_eqb q q' && lst_eqb (fun x y => val_eqb x y) l l'
  | KSelectCols c, KSelectCols c' => list_eqb String.eqb c c'
  | KTable n al l, KTable n' al' l' => String.eqb n n' && String.eqb al al' && lst_eqb (fun x y => val_eqb x y) l l'
  | KOrderExpr x, KOrderExpr x' => val_eqb x x'
  | KLimit n, KLimit n' | KOffset n, KOffset n' => Z.eqb n n'
  | KDistinct, KDistinct => true
  | VField n z x, VField n' z' x' => String.eqb n n' && Bool.eqb z z' && val_eqb x x'
  | VOnConflict c d s w, VOnConflict c' d' s' w' => lst_eqb (fun x y => val_eqb x y) c c' && Bool.eqb d d' && lst_eqb (fun x y => val_eqb x y) s s' && lst_eqb (fun x y => val_eqb x y) w w'
  | _, _ => false
  end.
Definition fin_eqb (a b : fin) : bool :=
  let le := lst_eqb val_eqb in
  match a, b with
  | FFind c, FFind c' | FFirst c, FFirst c' | FTake c, FTake c' | FLast c, FLast c' | FDelete c, FDelete c'
  | FUpdatesMap c, FUpdatesMap c' | FUpdatesStruct c, FUpdatesStruct c' | FCreateStruct c, FCreateStruct c'
  | FCreateSlice c, FCreateSlice c' | FCreateMap c, FCreateMap c' | FCreateMaps c, FCreateMaps c'
  | FSaveStruct c, FSaveStruct c' | FSaveSlice c, FSaveSlice c' => le c c'
  | FCount, FCount => true
  | FPluck c, FPluck c' => String.eqb c c'
  | FUpdate c v, FUpdate c' v' => String.eqb c c' && val_eqb v v'
  | FRaw s l, FRaw s' l' | FExec s l, FExec s' l' => String.eqb s s' && le l l'
  | _, _ => false
  end.

Record obs := mk_obs { o_sql : string; o_vars : list scalar }.

Record case := mk_case {
  c_ti : tinfo; c_chain : list val; c_fin : fin;     (* the calls as executed *)
  c_chain2 : list val; c_fin2 : fin;                 (* the twin: same calls, other argument values *)
  c_q : obs; c_d : obs;                              (* DryRun Statement.SQL / Vars: '?' and '$n' dialects *)
  c_q2 : string; c_d2 : string;                      (* the twin's SQL texts *)
  c_ran : bool; c_r : obs; c_rerr : bool             (* executed on SQLite: text/args seen by the driver; error *)
}.

Definition model_out (numbered inl : bool) (ti : tinfo) (chain : list val) (f : fin) : la * list scalar :=
  let tv := statement inl ti chain f in
  let ps := bval numbered (fst tv) (snd tv) in
  (render numbered ps, vars_of ps).
Definition obs_eqb (o : obs) (m : la * list scalar) : bool :=
  la_eqb (s2l (o_sql o)) (fst m) && list_eqb scalar_eqb (o_vars o) (snd m).

Definition model_agrees (c : case) : bool :=
  obs_eqb (c_q c) (model_out false false (c_ti c) (c_chain c) (c_fin c))
  && obs_eqb (c_d c) (model_out true false (c_ti c) (c_chain c) (c_fin c))
  && la_eqb (s2l (c_q2 c)) (fst (model_out false false (c_ti c) (c_chain2 c) (c_fin2 c)))
  && la_eqb (s2l (c_d2 c)) (fst (model_out true false (c_ti c) (c_chain2 c) (c_fin2 c)))
  && (negb (c_ran c) || obs_eqb (c_r c) (model_out false true (c_ti c) (c_chain c) (c_fin c))).

(* ---- the property on the observed output ---- *)
Definition in_domain (c : case) : bool :=
  let tv := statement false (c_ti c) (c_chain c) (c_fin c) in
  tinfo_ok (fst tv) && wfb (snd tv).
Definition same_shape_twin (c : case) : bool :=
  lst_eqb val_eqb (map shape (c_chain c)) (map shape (c_chain2 c))
  && fin_eqb (shape_fin (c_fin c)) (shape_fin (c_fin2 c)).
(* the two clause trees gorm is modelled to build have the same shape (the hypothesis of theorem
   c01_statement_text_value_independent) *)
Definition built_same_shape (c : case) : bool :=
  let tv := statement false (c_ti c) (c_chain c) (c_fin c) in
  let tv2 := statement false (c_ti c) (c_chain2 c) (c_fin2 c) in
  String.eqb (t_table (fst tv)) (t_table (fst tv2)) && val_eqb (shape (snd tv)) (shape (snd tv2)).
Definition sentinels (c : case) : list la :=
  filter (fun s => (4 <=? length s)%nat)
         (map s2l (flat_map value_strings (c_chain c) ++ fin_strings (c_fin c)
                   ++ flat_map value_strings (c_chain2 c) ++ fin_strings (c_fin2 c))).
Definition no_value_in (c : case) (sql : string) : bool :=
  forallb (fun s => negb (contains_sub s (s2l sql))) (sentinels c).
Definition expected_values (inl : bool) (c : case) : list scalar :=
  bound_values (snd (statement inl (c_ti c) (map unbytes (c_chain c)) (unbytes_fin (c_fin c)))).
Definition nlist_eqb := list_eqb N.eqb.

(* "never becomes part of the SQL text" and "the text does not depend on the values" are demanded of
   EVERY case, also of malformed calls (more '?' than arguments, a '?' inside a literal, surplus
   arguments ...): theorem c01_text_value_independent has no domain hypothesis *)
Definition text_clean (c : case) : bool :=
  no_value_in c (o_sql (c_q c)) && no_value_in c (o_sql (c_d c))
  && no_value_in c (c_q2 c) && no_value_in c (c_d2 c)
  && (negb (c_ran c) || no_value_in c (o_sql (c_r c)))
  && (negb (same_shape_twin c)
      || (String.eqb (o_sql (c_q c)) (c_q2 c) && String.eqb (o_sql (c_d c)) (c_d2 c))).

Definition spec_holds (c : case) : bool :=
  text_clean c &&
  (negb (in_domain c) ||
  ( (* exactly one placeholder per bound value, numbered left to right *)
    nlist_eqb (placeholders false (s2l (o_sql (c_q c)))) (nseq (length (o_vars (c_q c))))
    && nlist_eqb (placeholders true (s2l (o_sql (c_d c)))) (nseq (length (o_vars (c_d c))))
    (* the bound values are the argument values, in order *)
    && list_eqb scalar_eqb (o_vars (c_q c)) (expected_values false c)
    && list_eqb scalar_eqb (o_vars (c_d c)) (expected_values false c)
    (* empty slices (and nil) are written as NULL: at least as many NULL words as the statement calls for *)
    && (null_words (snd (statement false (c_ti c) (c_chain c) (c_fin c))) <=? nulls_in (o_sql (c_q c)))%nat
    && (null_words (snd (statement false (c_ti c) (c_chain c) (c_fin c))) <=? nulls_in (o_sql (c_d c)))%nat
    (* what the driver received *)
    && (negb (c_ran c)
        || (negb (c_rerr c)
            && nlist_eqb (placeholders false (s2l (o_sql (c_r c)))) (nseq (length (o_vars (c_r c))))
            && list_eqb scalar_eqb (o_vars (c_r c)) (expected_values true c))) )).

(* tie of the construction half with [shape]: twins of equal source shape are built into clause
   trees of equal shape *)
Definition shape_tie (c : case) : bool := negb (same_shape_twin c) || built_same_shape c.

Definition check_case (c : case) : N := code_of (model_agrees c && shape_tie c) (spec_holds c).
