(* C13_Vals6.v — values set by before-hooks, part 6: the rows of one table are untouched by steps on other
   tables (both ways: nothing lost, nothing new), and the association records of a Create end to end. *)
From Verif Require Import Base C13_Model C13_Check C13_Proofs C13_Proofs2 C13_Proofs3 C13_Proofs4 C13_Proofs6
  C13_Vals C13_Vals2 C13_Vals3 C13_Vals5.
Open Scope Z_scope.

Definition projT (T : table) (tb : list row) : list row := filter (fun r => table_eqb (fst (fst r)) T) tb.

Definition sameT (T : table) (s s' : S) : Prop :=
  is_nil (s_err s') = true -> is_nil (s_err s) = true /\ projT T (s_tbl s') = projT T (s_tbl s).

Lemma sameT_trans : forall T a b c, sameT T a b -> sameT T b c -> sameT T a c.
Proof.
  intros T a b c K1 K2 H. destruct (K2 H) as [E2 I2]. destruct (K1 E2) as [E1 I1]. split; [exact E1 | congruence].
Qed.
Lemma quiet_same : forall T s s', quietT s s' -> sameT T s s'.
Proof. intros T s s' [TB E] H. split; [auto | rewrite TB; reflexivity]. Qed.

Lemma table_eqb_neq : forall a b, a <> b -> table_eqb a b = false.
Proof. intros a b NE. destruct (table_eqb a b) eqn:E; [|reflexivity]. apply table_eqb_eq in E. congruence. Qed.

Lemma upsert_proj : forall T t g v tb, t <> T -> projT T (upsert t g v tb) = projT T tb.
Proof.
  intros T t g v tb NE. unfold projT, upsert. rewrite filter_app. cbn [filter fst].
  rewrite (table_eqb_neq t T NE), app_nil_r. unfold del_row.
  induction tb as [|x l IH]; [reflexivity|]. cbn [filter].
  destruct (row_is t g x) eqn:R; cbn [negb filter].
  - unfold row_is in R. apply andb_prop in R. destruct R as [R1 _]. apply table_eqb_eq in R1.
    rewrite R1, (table_eqb_neq t T NE). exact IH.
  - destruct (table_eqb (fst (fst x)) T); [rewrite IH|]; auto.
Qed.

Lemma fold_create_proj : forall T c recs tb, c_table c <> T -> projT T (fold_left (create_step c) recs tb) = projT T tb.
Proof.
  intros T c recs. induction recs as [|x l IH]; intros tb NE; [reflexivity|].
  cbn [fold_left]. rewrite IH by exact NE. unfold create_step.
  destruct (c_keep c && has_row (c_table c) (m_tag x) tb); [reflexivity | apply upsert_proj; exact NE].
Qed.

Lemma stmt_create_same : forall T c s, c_table c <> T -> sameT T s (stmt_create c s).
Proof.
  intros T c s NE. unfold stmt_create.
  destruct (is_nil (s_err s)) eqn:E; cbn [negb]; [|intro H; congruence].
  destruct (s_recs s) as [|r l]; [apply quiet_same, add_err_quietT|].
  destruct (existsb m_nil (r :: l)); [apply quiet_same, add_err_quietT|].
  intros _. split; [exact E|]. cbn [s_tbl set_tbl emit set_tr].
  apply (fold_create_proj T c (r :: l) (s_tbl s) NE).
Qed.

Lemma leaf_create_same : forall T c s, c_table c <> T -> sameT T s (leaf_create c s).
Proof.
  intros T c s NE H. unfold leaf_create in *.
  set (s1 := begin_tx c s) in *. set (s2 := hooks_phase c PBeforeCreate s1) in *.
  set (s3 := stmt_create c s2) in *. set (s4 := hooks_phase c PAfterCreate s3) in *.
  assert (K : sameT T s (commit_or_rollback c s4)).
  { eapply sameT_trans; [apply quiet_same, begin_tx_quietT|]. fold s1.
    eapply sameT_trans; [apply quiet_same, hooks_phase_quietT|]. fold s2.
    eapply sameT_trans; [apply stmt_create_same; exact NE|]. fold s3.
    eapply sameT_trans; [apply quiet_same, hooks_phase_quietT|]. fold s4.
    apply quiet_same, commit_quietT. exact H. }
  exact (K H).
Qed.

Lemma save_assoc_same : forall T c t tb sg vals s, tb <> T -> sameT T s (save_assoc c t tb sg vals s).
Proof.
  intros T c t tb sg vals s NE. unfold save_assoc. destruct vals as [|v0 vr]; [apply quiet_same, quietT_refl|].
  set (cc := assoc_cx c t tb sg).
  set (s0 := mkS (s_k s) (s_err s) (s_tr s) (v0 :: vr) [] 0 (s_pool s) (s_ntx s) false (s_tbl s) (s_snap s)).
  set (s1 := leaf_create cc s0). cbn [s_err s_tbl]. intro H.
  destruct (is_nil (s_err s1)) eqn:E1.
  - destruct (leaf_create_same T cc s0 NE E1) as [_ I]. split; [exact H | exact I].
  - apply app_nil_is_nil in H. destruct H as [_ H]. congruence.
Qed.

Lemma has_row_proj : forall T g tb, has_row T g tb = has_row T g (projT T tb).
Proof.
  intros T g tb. unfold has_row, projT. induction tb as [|x l IH]; [reflexivity|]. cbn [existsb filter].
  destruct (table_eqb (fst (fst x)) T) eqn:E.
  - cbn [existsb]. rewrite IH. reflexivity.
  - unfold row_is at 1. rewrite E. cbn [andb orb]. exact IH.
Qed.

Lemma sameT_has_row : forall T s s', sameT T s s' -> is_nil (s_err s') = true ->
  forall g, has_row T g (s_tbl s') = has_row T g (s_tbl s).
Proof. intros T s s' K H g. destruct (K H) as [_ P]. rewrite (has_row_proj T g (s_tbl s')), P, <- has_row_proj. reflexivity. Qed.

Lemma hstep_pos : forall F s s' e, hstep F s s' e -> s_k s = len (hooks_of (s_tr s)) -> s_k s' = len (hooks_of (s_tr s')).
Proof. intros F s s' e [_ H K _] P. rewrite K, H, len_app, P. reflexivity. Qed.

(* the tags of everything the log holds *)
Definition log_in (s : S) (U : list Z) : Prop := forall e, In e (hooks_of (s_tr s)) -> In (snd e) U.

Lemma hstep_log_in : forall F s s' evs U V, hstep F s s' evs -> log_in s U ->
  (forall e, In e evs -> In (snd e) V) -> log_in s' (U ++ V).
Proof.
  intros F s s' evs U V [_ H _ _] L EV e He. rewrite H in He. apply in_app_or in He. apply in_or_app.
  destruct He as [He|He]; [left; apply L; exact He | right; apply EV; exact He].
Qed.

