(* C09_KeysProofs.v — the key-condition code of delete and update decides "has a primary key". *)
From Verif Require Import Base C09_Keys.

Lemma fold_nz_acc : forall r acc,
  fold_left (fun nz z => nz || negb z) r acc = acc || existsb negb r.
Proof.
  induction r as [|z r IH]; intro acc; cbn [fold_left existsb].
  - rewrite Bool.orb_false_r. reflexivity.
  - rewrite IH. rewrite Bool.orb_assoc. reflexivity.
Qed.
Lemma not_zero_exists : forall r, not_zero r = existsb negb r.
Proof. intro r. unfold not_zero. rewrite fold_nz_acc. reflexivity. Qed.

Lemma existsb_ext {A} (f g : A -> bool) l : (forall a, f a = g a) -> existsb f l = existsb g l.
Proof. intro H. induction l as [|a l IH]; [reflexivity|]. cbn. rewrite H, IH. reflexivity. Qed.

Lemma filter_nonempty_existsb {A} (f : A -> bool) l :
  match filter f l with [] => false | _ => true end = existsb f l.
Proof.
  induction l as [|a l IH]; [reflexivity|]. cbn [filter existsb].
  destruct (f a); [reflexivity | exact IH].
Qed.

Lemma rows_nonempty : forall v,
  match identity_rows v with [] => false | _ => true end
  = match v with VStruct r => existsb negb r | VSlice rs => existsb (existsb negb) rs
    | VSelf cols => existsb negb (self_record cols) end.
Proof.
  intros [r|rs|cols]; cbn [identity_rows].
  - rewrite not_zero_exists. destruct (existsb negb r); reflexivity.
  - rewrite filter_nonempty_existsb. apply existsb_ext. intros; apply not_zero_exists.
  - rewrite not_zero_exists. destruct (existsb negb (self_record cols)); reflexivity.
Qed.

(* the column loop of an update value that is the model: conditions come from the non-zero key
   columns only, whatever Select / Omit say *)
Lemma self_conds_acc : forall cols n,
  Nat.eqb (fold_left (fun n c => n + self_col_conds c)%nat cols n) 0
  = Nat.eqb n 0 && negb (existsb negb (self_record cols)).
Proof.
  induction cols as [|c cols IH]; intro n; cbn [fold_left].
  - cbn. rewrite Bool.andb_true_r. reflexivity.
  - rewrite IH. unfold self_record. cbn [filter]. unfold self_col_conds.
    destruct c as [pk z sel]; cbn [col_pk col_zero col_sel].
    destruct pk; cbn [negb map existsb].
    + destruct z; cbn [negb orb].
      * rewrite Nat.add_0_r. reflexivity.
      * rewrite Bool.andb_false_r. destruct n; reflexivity.
    + destruct sel; rewrite Nat.add_0_r; reflexivity.
Qed.
Lemma self_key_conds_spec : forall cols,
  Nat.eqb (self_key_conds cols) 0 = negb (existsb negb (self_record cols)).
Proof. intro cols. unfold self_key_conds. rewrite self_conds_acc. reflexivity. Qed.

(* Select / Omit never change the key condition of such an update: two column lists that differ
   in their selection state only yield the same number of conditions *)
Lemma self_key_ignores_select : forall cols cols',
  map (fun c => (col_pk c, col_zero c)) cols = map (fun c => (col_pk c, col_zero c)) cols' ->
  self_key_conds cols = self_key_conds cols'.
Proof.
  unfold self_key_conds. generalize 0%nat.
  intros n cols; revert n. induction cols as [|c cols IH]; intros n [|c' cols'] H; try discriminate; [reflexivity|].
  cbn [map] in H. inversion H as [[Hpk Hz Hr]]. cbn [fold_left].
  assert (Hc : self_col_conds c = self_col_conds c').
  { unfold self_col_conds. rewrite Hpk, Hz. destruct (col_pk c'); cbn [negb]; [reflexivity|].
    destruct (col_sel c), (col_sel c'); reflexivity. }
  rewrite Hc. apply IH. exact Hr.
Qed.

Lemma length_filter_zero {A} (f : A -> bool) l : Nat.eqb (length (filter f l)) 0 = negb (existsb f l).
Proof.
  induction l as [|a l IH]; [reflexivity|]. cbn [filter existsb].
  destruct (f a); [reflexivity | exact IH].
Qed.

Lemma delete_key_iff : forall vals, key_cond true vals = has_key vals.
Proof.
  intro vals. unfold key_cond, delete_key_conds, has_key.
  rewrite length_filter_zero, Bool.negb_involutive.
  apply existsb_ext. intros v. apply rows_nonempty.
Qed.

(* the inner loop of the slice scan: the flag after one record *)
Lemma inner_scan : forall r z,
  fold_left (fun (z f : bool) => if z then f else false) r z = z && negb (existsb negb r).
Proof.
  induction r as [|f r IH]; intro z; cbn [fold_left existsb].
  - rewrite Bool.andb_true_r. reflexivity.
  - rewrite IH. destruct z, f; cbn; try reflexivity.
Qed.
Lemma scan_zero_acc : forall rs isz,
  fold_left (fun (isz : bool) (r : record) => if isz then fold_left (fun (z f : bool) => if z then f else false) r true else false) rs isz
  = isz && negb (existsb (existsb negb) rs).
Proof.
  induction rs as [|r rs IH]; intro isz; cbn [fold_left existsb].
  - rewrite Bool.andb_true_r. reflexivity.
  - rewrite IH. destruct isz; [|reflexivity]. rewrite inner_scan. cbn [andb].
    rewrite Bool.negb_orb. reflexivity.
Qed.
Lemma update_scan_zero_spec : forall rs, update_scan_zero rs = negb (existsb (existsb negb) rs).
Proof. intro rs. unfold update_scan_zero. rewrite scan_zero_acc. reflexivity. Qed.

Lemma update_conds_acc : forall vals n,
  Nat.eqb (fold_left (fun n v => n + match v with
                              | VStruct r => length (filter negb r)
                              | VSlice rs => if update_scan_zero rs then 0 else 1
                              | VSelf cols => self_key_conds cols
                              end)%nat vals n) 0
  = Nat.eqb n 0 && negb (has_key vals).
Proof.
  induction vals as [|v vals IH]; intro n; cbn [fold_left].
  - cbn. rewrite Bool.andb_true_r. reflexivity.
  - rewrite IH. unfold has_key. cbn [existsb]. rewrite Bool.negb_orb, Bool.andb_assoc. f_equal.
    destruct v as [r|rs|cols].
    + rewrite <- length_filter_zero. destruct n, (length (filter negb r)); reflexivity.
    + rewrite update_scan_zero_spec. destruct n, (existsb (existsb negb) rs); reflexivity.
    + rewrite <- self_key_conds_spec. destruct n, (self_key_conds cols); reflexivity.
Qed.

Lemma update_key_iff : forall vals, key_cond false vals = has_key vals.
Proof.
  intro vals. unfold key_cond, update_key_conds. rewrite update_conds_acc. cbn.
  apply Bool.negb_involutive.
Qed.

(* both finisher families agree with the reading of the property text *)
Lemma key_cond_iff : forall del vals, key_cond del vals = has_key vals.
Proof. intros [|] vals; [apply delete_key_iff | apply update_key_iff]. Qed.

Lemma has_key_spec : forall vals,
  has_key vals = true <->
  exists v r, In v vals /\ (v = VStruct r \/ (exists rs, v = VSlice rs /\ In r rs)
                            \/ (exists cols, v = VSelf cols /\ r = self_record cols)) /\ In false r.
Proof.
  intro vals. unfold has_key. rewrite existsb_exists. split.
  - intros [v [Hin Hv]]. destruct v as [r|rs|cols].
    + apply existsb_exists in Hv. destruct Hv as [z [Hz Hn]]. destruct z; [discriminate|].
      exists (VStruct r), r. auto.
    + apply existsb_exists in Hv. destruct Hv as [r [Hr Hn]].
      apply existsb_exists in Hn. destruct Hn as [z [Hz Hn]]. destruct z; [discriminate|].
      exists (VSlice rs), r. split; [exact Hin|]. split; [right; left; exists rs; auto | exact Hz].
    + apply existsb_exists in Hv. destruct Hv as [z [Hz Hn]]. destruct z; [discriminate|].
      exists (VSelf cols), (self_record cols). split; [exact Hin|].
      split; [right; right; exists cols; auto | exact Hz].
  - intros [v [r [Hin [[-> | [[rs [-> Hr]] | [cols [-> ->]]]] Hf]]]].
    + exists (VStruct r). split; [exact Hin|]. apply existsb_exists. exists false. auto.
    + exists (VSlice rs). split; [exact Hin|]. apply existsb_exists. exists r. split; [exact Hr|].
      apply existsb_exists. exists false. auto.
    + exists (VSelf cols). split; [exact Hin|]. apply existsb_exists. exists false. auto.
Qed.
