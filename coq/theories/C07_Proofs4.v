(* C07_Proofs4.v — return steps; the invariant holds in every reachable state. *)
From Verif Require Import Base C07_Model C07_Proofs C07_Proofs2 C07_Proofs3.

Section Steps3.
Variable cfg : config.
Notation frame_inv := (frame_inv cfg).
Notation inv := (inv cfg).

Ltac upd_cases x k := unfold upd; destruct (Nat.eqb_spec x k).
Ltac head_of Hf Hb :=
  match goal with |- C07_Proofs.frame_inv _ ?S ?g ?below _ =>
    let A := fresh "A" in let B := fresh "B" in let C := fresh "C" in
    destruct (frame_head cfg _ S g below _ _ Hf Hb eq_refl) as (A & B & C);
    [cbn; lia| |unfold C07_Proofs.frame_inv; cbn [f_born f_ty f_pc];
                split; [exact A|]; split; [exact B|]; split; [exact C|]]
  end.

Lemma step_ret_top st g f r :
  inv st -> g < st_nthr st -> t_stack (st_thr st g) = [f] -> f_pc f = PRet r ->
  inv (with_thr st g (mk_t [] (t_todo (st_thr st g))
        (t_rets (st_thr st g) ++
         [mk_ret (f_ty f) r (s_err (st_sch st r)) (s_closed (st_sch st r)) (s_ty (st_sch st r))
                 (length (s_rel (st_sch st r))) (all_closed st (s_rel (st_sch st r)))]))).
Proof.
  intros I Hg Hs Epc. destruct (top_frame cfg _ _ _ _ I Hs) as (Hf & Hb & _).
  assert (Gr : good_ret cfg st (f_ty f) r).
  { destruct Hf as (_ & _ & _ & F). now rewrite Epc in F. }
  destruct Gr as (G1 & G2 & G3 & G4 & G5).
  apply (inv_update cfg g st _ [f] [] [] I Hg); [reflexivity|..].
  - constructor; cbn; auto.
  - exact Hs.
  - cbn. now rewrite upd_same.
  - intros g' Ng. cbn. now rewrite upd_other.
  - cbn. trivial.
  - cbn. trivial.
  - cbn. rewrite upd_same. cbn. apply Forall_app. split.
    + destruct (i_T _ _ I g) as (_ & _ & R). eapply Forall_impl; [|exact R].
      intros rr. apply ret_ok_stable with (g0 := g) (K := 0). constructor; cbn; auto.
    + constructor; [|constructor]. unfold ret_ok. cbn. repeat split; auto.
      intro Er. unfold complete in G5. rewrite G2 in G5. auto.
  - exact (i_N _ _ I).
  - intros t' x H1 H2. cbn in H1. contradiction.
  - intros x H1 H2 [H3|H3] _; cbn in *; [lia|congruence].
  - exact (i_G _ _ I).
  - intros x H1 H2 [H3|[H3 H4]]; cbn in *; [lia|].
    destruct (i_L _ _ I x H1 H2) as [_ W]. rewrite H3, Hs in W.
    destruct (owns_top _ _ _ _ W H4) as [_ Eo]. rewrite Epc in Eo. discriminate.
Qed.

Lemma owns_two f p rest d x :
  owns (f :: p :: rest) d x -> length rest <= d ->
  (d = S (length rest) /\ own_of (f_pc f) = Some x) \/ (d = length rest /\ own_of (f_pc p) = Some x).
Proof.
  intros W Hd. pose proof (owns_lt _ _ _ W) as L. cbn in L.
  assert (d = S (length rest) \/ d = length rest) as [->| ->] by lia.
  - left. split; [reflexivity|]. exact (owns_inv [] f (p :: rest) x W).
  - right. split; [reflexivity|]. exact (owns_inv [f] p rest x W).
Qed.

Lemma step_ret_ok st g f p rest r s i ok :
  inv st -> g < st_nthr st -> t_stack (st_thr st g) = f :: p :: rest -> f_pc f = PRet r ->
  f_pc p = PNest s i ok ->
  inv (with_thr st g (mk_t (mk_f (f_ty p) (PGuess s i r ok) (f_born p) :: rest)
                           (t_todo (st_thr st g)) (t_rets (st_thr st g)))).
Proof.
  intros I Hg Hs Epc Epp. destruct (top_frame cfg _ _ _ _ I Hs) as (Hf & Hb & _).
  cbn in Hb. destruct Hb as [Hp Hr].
  assert (Gr : good_ret cfg st (f_ty f) r).
  { destruct Hf as (_ & _ & _ & F). now rewrite Epc in F. }
  set (p' := mk_f (f_ty p) (PGuess s i r ok) (f_born p)).
  apply (inv_update cfg g st _ [f; p] [p'] rest I Hg); [reflexivity|..].
  - constructor; cbn; auto.
  - exact Hs.
  - cbn. now rewrite upd_same.
  - intros g' Ng. cbn. now rewrite upd_other.
  - cbn. split; [|trivial]. head_of Hp Hr. { intros; reflexivity. }
    destruct Hp as (_ & _ & _ & F). rewrite Epp in F. cbn. destruct Gr. tauto.
  - cbn. tauto.
  - cbn. rewrite upd_same. cbn. destruct (i_T _ _ I g) as (_ & _ & R).
    eapply Forall_impl; [|exact R]. intros rr. apply ret_ok_stable with (g0 := g) (K := 0).
    constructor; cbn; auto.
  - exact (i_N _ _ I).
  - intros t' x H1 H2. cbn in H1. contradiction.
  - intros x H1 H2 [H3|H3] _; cbn in *; [lia|congruence].
  - exact (i_G _ _ I).
  - intros x H1 H2 [H3|[H3 H4]]; cbn in *; [lia|].
    destruct (i_L _ _ I x H1 H2) as [_ W]. rewrite H3, Hs in W.
    destruct (owns_two _ _ _ _ _ W H4) as [[_ Eo]|[Ed Eo]]; [rewrite Epc in Eo; discriminate|].
    rewrite Epp in Eo. inversion Eo; subst x. split; [exact H3|]. rewrite Ed.
    apply (owns_at [] p' rest s). reflexivity.
Qed.

Lemma step_ret_err st g f p rest r s i ok :
  inv st -> g < st_nthr st -> t_stack (st_thr st g) = f :: p :: rest -> f_pc f = PRet r ->
  f_pc p = PNest s i ok ->
  inv (with_thr (with_sch st s (set_err (st_sch st s))) g
         (mk_t (mk_f (f_ty p) (PDelete s) (f_born p) :: rest)
               (t_todo (st_thr st g)) (t_rets (st_thr st g)))).
Proof.
  intros I Hg Hs Epc Epp. destruct (top_frame cfg _ _ _ _ I Hs) as (Hf & Hb & _).
  cbn in Hb. destruct Hb as [Hp Hr].
  assert (Ho : own_of (f_pc p) = Some s) by now rewrite Epp.
  destruct (own_mine cfg _ _ _ _ _ Hp Ho) as (M1 & M2 & M3 & M4 & M5).
  assert (Lp : in_loop st g (length rest) (f_ty p) s i).
  { destruct Hp as (_ & _ & _ & F). rewrite Epp in F. tauto. }
  destruct Lp as (_ & Lc & Lpub & _ & _).
  set (p' := mk_f (f_ty p) (PDelete s) (f_born p)).
  apply (inv_update cfg g st _ [f; p] [p'] rest I Hg); [reflexivity|..].
  - constructor; cbn; [reflexivity|lia| | |auto].
    + intros x Hx. upd_cases x s; [subst x; right|left; reflexivity]. cbn. repeat split; auto; lia.
    + intro x. left. upd_cases x s; [subst; reflexivity|reflexivity].
  - exact Hs.
  - cbn. now rewrite upd_same.
  - intros g' Ng. cbn. now rewrite upd_other.
  - cbn. split; [|trivial]. head_of Hp Hr.
    { intros x Hx Hd. cbn. apply upd_other. intro; subst. lia. }
    unfold mine. cbn. rewrite !upd_same. cbn. repeat split; auto.
  - cbn. tauto.
  - cbn. rewrite upd_same. cbn. destruct (i_T _ _ I g) as (_ & _ & R).
    eapply Forall_impl; [|exact R].
    intros rr (R1 & R2 & R3 & R4 & R5 & R6). unfold ret_ok. cbn.
    rewrite upd_other by (intro; subst; congruence). repeat split; tauto.
  - intros x Hx. cbn in *. rewrite upd_other by lia. now apply (i_N _ _ I).
  - intros t' x H1 H2. cbn in H1. contradiction.
  - intros x H1 H2 H3 H4. cbn in *. revert H2. upd_cases x s; [subst; cbn; congruence|].
    intro H2. destruct H3; [lia|congruence].
  - intros x H1. cbn in *. upd_cases x s; [subst; cbn; discriminate|]. apply (i_G _ _ I); auto.
  - intros x H1 H2 [H3|[H3 H4]]; cbn in *; [lia|]. revert H2. upd_cases x s.
    + subst x. cbn. intro H2. split; [exact M3|]. rewrite M4.
      apply (owns_at [] p' rest s). reflexivity.
    + intro H2. destruct (i_L _ _ I x H1 H2) as [_ W]. rewrite H3, Hs in W.
      destruct (owns_two _ _ _ _ _ W H4) as [[_ Eo]|[Ed Eo]]; [rewrite Epc in Eo; discriminate|].
      rewrite Epp in Eo. congruence.
Qed.

Ltac silent Hf Hb Hs Hg I :=
  apply (silent_step cfg _ _ _ _ _ I Hg Hs);
  [match goal with E : f_pc _ = _ |- _ => rewrite E end; reflexivity|cbn; tauto|head_of Hf Hb; [intros; reflexivity|cbn [st_sch st_cache st_nsch with_thr]]].

Theorem step_inv st g st' : inv st -> step cfg st g = Some st' -> inv st'.
Proof.
  intros I. unfold step. destruct (Nat.ltb_spec g (st_nthr st)) as [Hg|]; [|discriminate]. cbn [negb].
  destruct (t_stack (st_thr st g)) as [|f below] eqn:Hs.
  { destruct (t_todo (st_thr st g)) as [|t todo]; [discriminate|].
    intro H; inversion H; subst st'; clear H. apply inv_with_ev. now apply step_start. }
  destruct (top_frame cfg _ _ _ _ I Hs) as (Hf & Hb & Hnn).
  pose proof Hf as (_ & _ & _ & F).
  destruct (f_pc f) eqn:Epc.
  - (* PLoad1 *)
    destruct (st_cache st (f_ty f)) as [w|] eqn:Ec; intro H; inversion H; subst st'; clear H.
    + silent Hf Hb Hs Hg I. cbn. destruct (i_C _ _ I _ _ Ec) as (X & Y & Z).
      repeat split; auto. intro Hne. now apply F.
    + silent Hf Hb Hs Hg I. exact F.
  - (* PBuild *)
    intro H; inversion H; subst st'; clear H. apply inv_with_ev. exact (step_build cfg st g f below I Hg Hs Epc).
  - (* PLoad2 *)
    destruct (st_cache st (f_ty f)) as [w|] eqn:Ec; intro H; inversion H; subst st'; clear H.
    + silent Hf Hb Hs Hg I. cbn. destruct (i_C _ _ I _ _ Ec) as (X & Y & Z). destruct F as [Un Fr].
      repeat split; auto; try apply Un. intro Hne. now apply Fr.
    + silent Hf Hb Hs Hg I. exact F.
  - (* PStore *)
    destruct (st_cache st (f_ty f)) as [w|] eqn:Ec; intro H; inversion H; subst st'; clear H; apply inv_with_ev.
    + silent Hf Hb Hs Hg I. cbn. destruct (i_C _ _ I _ _ Ec) as (X & Y & Z). destruct F as [Un Fr].
      repeat split; auto; try apply Un. intro Hne. now apply Fr.
    + exact (step_store cfg st g f below s I Hg Hs Epc Ec).
  - (* PRel *)
    destruct F as [Lp Hi].
    destruct (nth_error (rels cfg (f_ty f)) i) as [r|] eqn:En.
    + assert (Hil : i < length (rels cfg (f_ty f))) by (apply nth_error_Some; congruence).
      destruct (st_cache st (r_to r)) as [fs|] eqn:Ec; intro H; inversion H; subst st'; clear H.
      * silent Hf Hb Hs Hg I. cbn. destruct (i_C _ _ I _ _ Ec) as (X & _). tauto.
      * exact (step_push cfg st g f below s i (r_to r) (r_ok r) I Hg Hs Epc Hil Ec).
    + intro H; inversion H; subst st'; clear H.
      apply nth_error_None in En.
      silent Hf Hb Hs Hg I. destruct Lp as (M & Cc & P & Er & L). split; [exact M|]. left.
      split; [reflexivity|]. split; [exact P|]. intros _. split; [exact Cc|lia].
  - (* PNest *) exfalso. apply Hnn. unfold is_nest. now rewrite Epc.
  - (* PGuess *)
    destruct F as ((M & C & P & Er & L) & Hi & Hfs). destruct M as (M1 & M2 & M3 & M4 & M5).
    destruct ok; intro H; inversion H; subst st'; clear H; apply inv_with_ev.
    + apply step_own_update with (below := below) (f := f);
      [exact I|exact Hg|exact Hs|rewrite Epc; reflexivity|reflexivity|reflexivity|reflexivity|reflexivity|..].
      * left. split; [reflexivity|exact M5].
      * cbn. tauto.
      * head_of Hf Hb. { intros x Hx Hd. cbn. apply upd_other. intro; subst; lia. }
        cbn. split; [|lia]. unfold in_loop, mine. cbn. rewrite !upd_same. cbn.
        repeat split; auto. rewrite app_length. cbn. lia.
      * cbn. congruence.
      * cbn. intros _ _. now rewrite M2.
    + apply step_own_update with (below := below) (f := f);
      [exact I|exact Hg|exact Hs|rewrite Epc; reflexivity|reflexivity|reflexivity|reflexivity|reflexivity|..].
      * left. split; [reflexivity|exact M5].
      * cbn. tauto.
      * head_of Hf Hb. { intros x Hx Hd. cbn. apply upd_other. intro; subst; lia. }
        unfold mine. cbn. rewrite !upd_same. cbn. repeat split; auto.
      * cbn. congruence.
      * cbn. discriminate.
  - (* PDelete *)
    intro H; inversion H; subst st'; clear H. apply inv_with_ev. exact (step_delete cfg st g f below s I Hg Hs Epc).
  - (* PClose *)
    destruct F as ((M1 & M2 & M3 & M4 & M5) & Hcase).
    intro H; inversion H; subst st'; clear H. apply inv_with_ev.
    apply step_own_update with (below := below) (f := f);
      [exact I|exact Hg|exact Hs|rewrite Epc; reflexivity|reflexivity|reflexivity|reflexivity|reflexivity|..].
    + right. split; reflexivity.
    + cbn. tauto.
    + head_of Hf Hb. { intros x Hx Hd. cbn. apply upd_other. intro; subst; lia. }
      destruct Hcase as [(-> & P & H)|(P0 & (G1 & G2 & G3 & G4 & G5))].
      * unfold good_ret, complete. cbn. rewrite !upd_same. cbn. repeat split; auto.
        intro Er. rewrite M2. now apply H.
      * assert (r <> s) by (intro; subst; lia).
        unfold good_ret, complete in *. cbn. rewrite !upd_other by assumption. repeat split; auto.
    + cbn. intros _ P Er. destruct Hcase as [(-> & _ & H)|(P0 & _)]; [|lia]. rewrite M2. now apply H.
    + cbn. intros P Er. destruct Hcase as [(-> & _ & H)|(P0 & _)]; [|lia]. rewrite M2. now apply H.
  - (* PWait *)
    destruct (s_closed (st_sch st w)) eqn:Ecl; [|discriminate].
    destruct F as (W1 & W2 & W3 & W4 & W5).
    assert (Gw : good_ret cfg st (f_ty f) w).
    { repeat split; auto. now apply (i_D _ _ I). }
    destruct own as [s|]; intro H; inversion H; subst st'; clear H.
    + silent Hf Hb Hs Hg I. destruct W5 as (M & P0 & _). split; [exact M|]. right. tauto.
    + silent Hf Hb Hs Hg I. exact Gw.
  - (* PRet *)
    intro H; inversion H; subst st'; clear H. unfold deliver. rewrite Hs.
    destruct below as [|p rest].
    + apply inv_with_ev. now apply step_ret_top.
    + destruct Hf as (_ & Bn & _). inversion Bn as [|? ? Np _]; subst. unfold is_nest in Np.
      destruct (f_pc p) eqn:Epp; try contradiction.
      destruct (s_err (st_sch st r)).
      * now apply step_ret_err with (f := f) (r := r) (i := i) (ok := ok).
      * now apply step_ret_ok with (f := f).
Qed.

Lemma run_inv sched : forall st st', inv st -> run cfg st sched = Some st' -> inv st'.
Proof.
  induction sched as [|g r IH]; cbn; intros st st' I H.
  - now inversion H; subst.
  - destruct (step cfg st g) as [st1|] eqn:E; [|discriminate]. eapply IH; [|exact H].
    eapply step_inv; eauto.
Qed.
End Steps3.
