(* C01_Model.v — statement builder, rendering half (the Build methods).
   Modelled code (as it is in /repo now):
     statement.go      Statement.AddVar (every case), QuoteTo/WriteQuoted, the renumbering of an
                       already built sub-query (case *DB, SQL.Len() > 0)
     clause/expression.go  Expr.Build, NamedExpr.Build (byte scanners), Eq/Neq/Gt/Gte/Lt/Lte/Like/IN
                       and their NegationBuild, eqNil
     clause/where.go   hasAndOr, needsParentheses, buildExprs, Where.Build, And/Or/NotConditions.Build
     utils/tests/dummy_dialecter.go  QuoteTo (identical in the SQLite dialector), BindVarTo
   A statement is rendered to [pieces]: text bytes and bound values; [render] writes the
   placeholder of a dialect ("?" or "$n") for each bound value.  No proofs here. *)
From Verif Require Import Base.

(* ------------------------------------------------------------------ *)
(* text                                                                 *)
Definition la := list ascii.
Definition s2l (s : string) : la := list_ascii_of_string s.
Definition l2s (l : la) : string := string_of_list_ascii l.
Definition ceq (a b : ascii) : bool := Ascii.eqb a b.
Definition la_eqb (a b : la) : bool := list_eqb Ascii.eqb a b.
Definition ccode (c : ascii) : N := N_of_ascii c.
Definition is_digit (c : ascii) : bool := (48 <=? ccode c)%N && (ccode c <=? 57)%N.
Definition is_upper (c : ascii) : bool := (65 <=? ccode c)%N && (ccode c <=? 90)%N.
Definition is_lower (c : ascii) : bool := (97 <=? ccode c)%N && (ccode c <=? 122)%N.
Definition is_word (c : ascii) : bool := ceq c "_" || is_digit c || is_upper c || is_lower c.
Definition upper_c (c : ascii) : ascii := if is_lower c then ascii_of_N (ccode c - 32) else c.

Fixpoint prefix (p s : la) : bool :=
  match p, s with
  | [], _ => true
  | a :: p', b :: s' => ceq a b && prefix p' s'
  | _ :: _, [] => false
  end.
Fixpoint contains_c (c : ascii) (s : la) : bool :=
  match s with [] => false | x :: r => ceq c x || contains_c c r end.
Fixpoint count_c (c : ascii) (s : la) : nat :=
  match s with [] => O | x :: r => (if ceq c x then 1 else 0) + count_c c r end.

(* decimal numerals, through the standard library's Decimal.uint *)
Fixpoint uint_chars (u : Decimal.uint) : la :=
  match u with
  | Decimal.Nil => []
  | Decimal.D0 r => "0"%char :: uint_chars r | Decimal.D1 r => "1"%char :: uint_chars r
  | Decimal.D2 r => "2"%char :: uint_chars r | Decimal.D3 r => "3"%char :: uint_chars r
  | Decimal.D4 r => "4"%char :: uint_chars r | Decimal.D5 r => "5"%char :: uint_chars r
  | Decimal.D6 r => "6"%char :: uint_chars r | Decimal.D7 r => "7"%char :: uint_chars r
  | Decimal.D8 r => "8"%char :: uint_chars r | Decimal.D9 r => "9"%char :: uint_chars r
  end.
Definition dec_n (n : N) : la := uint_chars (N.to_uint n).
Definition dec_z (z : Z) : la :=
  if (z <? 0)%Z then "-"%char :: dec_n (Z.abs_N z) else dec_n (Z.to_N z).

(* clause/where.go hasAndOr: AND / OR as a whole word, any letter case *)
Definition is_and_or (w : la) : bool :=
  let u := map upper_c w in
  la_eqb u ["A"; "N"; "D"]%char || la_eqb u ["O"; "R"]%char.
Fixpoint has_and_or_from (s : la) (cur : la) : bool :=   (* [cur] = the word being read, reversed *)
  match s with
  | [] => is_and_or (rev cur)
  | c :: r => if is_word c then has_and_or_from r (c :: cur)
              else is_and_or (rev cur) || has_and_or_from r []
  end.
Definition has_and_or (s : la) : bool := has_and_or_from s [].

(* strings.Replace(s, pat, rep, 1) *)
Fixpoint replace_first (s pat rep : la) : la :=
  match s with
  | [] => []
  | c :: r => if prefix pat s then rep ++ skipn (length pat) s else c :: replace_first r pat rep
  end.

(* ------------------------------------------------------------------ *)
(* values                                                               *)
Inductive scalar := SInt (z : Z) | SStr (s : string) | SBytes (s : string) | SBool (b : bool) | SNull.

Definition scalar_eqb (a b : scalar) : bool :=
  match a, b with
  | SInt x, SInt y => Z.eqb x y
  | SStr x, SStr y => String.eqb x y
  | SBytes x, SBytes y => String.eqb x y
  | SBool x, SBool y => Bool.eqb x y
  | SNull, SNull => true
  | _, _ => false
  end.

(* the dynamic type of a Go slice decides two type switches (Eq.Build, IN.Build) *)
Inductive lkind :=
| LIface    (* []interface{} *)
| LKnown    (* []string []int []int32 []int64 []uint []uint32 []uint64 *)
| LOther    (* any other slice or array type except []byte *)
| LU8.      (* a slice or array whose element type is a NAMED type of kind uint8 (type Level uint8;
               []Level, [2]Level): a list for AddVar (element type is not uint8 itself), but
               "Elem().Kind() == Uint8" for Expr.Build / NamedExpr.Build / BuildCondition's map arm *)

Inductive cmpop := OEq | ONeq | OGt | OGte | OLt | OLte | OLike | ONotLike.
Inductive ckind := KWh | KNot | KOr.

Record tinfo := mk_tinfo {
  t_table : string;                      (* Statement.Table *)
  t_pk : option string;                  (* Schema.PrioritizedPrimaryField.DBName; None = no schema *)
  t_fields : list (string * string)      (* schema fields: (Go name, column name), in DBNames order *)
}.

Inductive val :=
(* Go values handed to gorm as arguments *)
| VS (s : scalar)                        (* int/string/bool/[]byte/nil, pointers (nil = SNull) *)
| VDrv (s : scalar)                      (* a driver.Valuer (sql.NullString, ...); s = what Value() returns *)
| VList (k : lkind) (l : list val)       (* slice or array *)
| VNamed (n : string) (v : val)          (* sql.NamedArg *)
| VNameSrc (l : list val)                (* map[string]interface{} / struct given to a named template: VNamed entries *)
| VGormValuer (isnil : bool) (x : val)   (* gorm.Valuer; x = the clause.Expr its GormValue returns *)
| VCol (tbl name alias : string) (raw : bool)   (* clause.Column *)
| VTable (name alias : string) (raw : bool)     (* clause.Table *)
| VQStr (s : string)                     (* a Go string in column position (quoted by the dialector) *)
(* clause.Expression values *)
| VText (s : string)                     (* text written verbatim (WriteString) *)
| VExpr (wop : bool) (sql : string) (vars : list val)    (* clause.Expr / gorm.Expr *)
| VNamedExpr (sql : string) (vars : list val)            (* clause.NamedExpr *)
| VCmp (op : cmpop) (c v : val)          (* clause.Eq Neq Gt Gte Lt Lte Like *)
| VIn (c : val) (vs : list val)          (* clause.IN *)
| VAnd (l : list val) | VOr (l : list val) | VNot (l : list val)
| VWhere (l : list val)                  (* clause.Where{Exprs} *)
| VSeq (sp : string) (l : list val)      (* members built one after the other, separated by sp *)
| VSubN (ti : tinfo) (q : val) (wh : list val)
     (* an unbuilt *gorm.DB after [norm]: q = its SELECT statement (built under its own table),
        wh = the Exprs of its WHERE clause (used when the handle is a grouped condition) *)
| VRawSub (sql : string) (vars : list val)   (* db.Raw(sql, vars...): a handle whose SQL is already built *)
(* API calls and condition forms; eliminated by C01_Stmt.norm *)
| VSub (ti : tinfo) (chain : list val)   (* an unbuilt *gorm.DB: Model/Table + chain calls *)
| KCond (k : ckind) (q : val) (args : list val)   (* Where / Not / Or *)
| KHaving (q : val) (args : list val)
| KSelect (q : string) (args : list val)
| KSelectCols (cols : list string)
| KTable (name alias : string) (args : list val)
| KJoins (q : string) (args : list val)
| KGroup (name : string)
| KOrder (s : string)
| KOrderExpr (x : val)
| KLimit (n : Z) | KOffset (n : Z)
| KDistinct
| KClauses (l : list val)
| VMapCond (l : list val)                (* map[string]interface{} condition, keys sorted: VNamed entries *)
| VStructCond (l : list val)             (* struct condition: VField per readable field, schema order *)
| VField (name : string) (zero : bool) (v : val)
| VOnConflict (cols : list val) (donothing : bool) (sets : list val) (wh : list val).

Definition current_table : string := "~~~ct~~~".
Definition primary_key : string := "~~~py~~~".

(* ------------------------------------------------------------------ *)
(* pieces                                                               *)
Inductive piece :=
| PC (c : ascii)       (* one byte of SQL text *)
| PV (v : scalar)      (* a bound value; the dialect's placeholder is written here *)
| PH (v : scalar).     (* a value appended to Vars WITHOUT a placeholder (AddVar case sql.NamedArg) *)
Definition pieces := list piece.
Definition ptext (s : la) : pieces := map PC s.
Definition pstr (s : string) : pieces := ptext (s2l s).

Fixpoint render_from (numbered : bool) (n : N) (ps : pieces) : la :=
  match ps with
  | [] => []
  | PC c :: r => c :: render_from numbered n r
  | PV _ :: r => (if numbered then "$"%char :: dec_n n else ["?"%char]) ++ render_from numbered (N.succ n) r
  | PH _ :: r => render_from numbered (N.succ n) r
  end.
Definition render (numbered : bool) (ps : pieces) : la := render_from numbered 1 ps.

Fixpoint vars_of (ps : pieces) : list scalar :=
  match ps with
  | [] => []
  | PC _ :: r => vars_of r
  | PV v :: r => v :: vars_of r
  | PH v :: r => v :: vars_of r
  end.

Fixpoint sepc (s : pieces) (l : list pieces) : pieces :=
  match l with
  | [] => []
  | [x] => x
  | x :: r => x ++ s ++ sepc s r
  end.

(* ------------------------------------------------------------------ *)
(* DummyDialector.QuoteTo (the SQLite dialector has the same body)       *)
Fixpoint quote_loop (s : la) (uq sq : bool) (cb sd : Z) : la :=
  match s with
  | [] => (if (0 <? cb)%Z && negb sq then ["`"; "`"]%char else []) ++ ["`"%char]
  | v :: r =>
    if ceq v "`" then
      if (cb + 1 =? 2)%Z then "`"%char :: "`"%char :: quote_loop r uq sq 0 (sd + 1)
      else quote_loop r uq sq (cb + 1) (sd + 1)
    else if ceq v "." then
      if (0 <? cb)%Z || negb sq then "`"%char :: v :: quote_loop r false sq 0 0
      else v :: quote_loop r uq sq cb sd
    else
      let open := (sd - cb <=? 0)%Z && negb uq in
      let sq' := if open then (0 <? cb)%Z else sq in
      let cb' := if open && sq' then (cb - 1)%Z else cb in
      (if open then ["`"%char] else [])
      ++ List.concat (repeat ["`"; "`"]%char (Z.to_nat cb'))
      ++ v :: quote_loop r (uq || open) sq' 0 (sd + 1)
  end.
Definition quote_id (s : string) : la := quote_loop (s2l s) false false 0 0.
Definition wr (raw : bool) (s : string) : la := if raw then s2l s else quote_id s.

(* Statement.QuoteTo for clause.Column / clause.Table / string *)
Definition quote_col (e : tinfo) (tbl name alias : string) (raw : bool) : la :=
  (if String.eqb tbl "" then []
   else wr raw (if String.eqb tbl current_table then t_table e else tbl) ++ ["."%char])
  ++ (if String.eqb name primary_key
      then match t_pk e with Some pk => wr raw pk | None => [] end   (* None: ErrModelValueRequired *)
      else wr raw name)
  ++ (if String.eqb alias "" then [] else s2l " AS " ++ wr raw alias).
Definition quote_table (e : tinfo) (name alias : string) (raw : bool) : la :=
  wr raw (if String.eqb name current_table then t_table e else name)
  ++ (if String.eqb alias "" then [] else " "%char :: wr raw alias).

(* ------------------------------------------------------------------ *)
(* the two template scanners, over already rendered arguments            *)
Record argr := mk_argr {
  a_var : pieces;                     (* builder.AddVar(builder, v) *)
  a_par : pieces;                     (* what Expr.Build writes for v right after '(' *)
  a_hid : scalar;                     (* v as appended by AddVar(sql.NamedArg{Value: v}) *)
  a_names : list (string * pieces)    (* names this argument defines in a named template *)
}.

(* Expr.Build *)
Fixpoint expr_scan (wop : bool) (bs : la) (args : list argr) (ap : bool) : pieces :=
  match bs with
  | [] => map (fun a => PH (a_hid a)) args          (* surplus arguments: appended, no placeholder *)
  | c :: r =>
    if ceq c "?" then
      match args with
      | a :: args' => (if ap || wop then a_par a else a_var a) ++ expr_scan wop r args' ap
      | [] => PC c :: expr_scan wop r [] false
      end
    else PC c :: expr_scan wop r args (ceq c "(")
  end.

(* NamedExpr.Build *)
Definition is_name_end (c : ascii) : bool :=
  ceq c " " || ceq c "," || ceq c ")" || ceq c """" || ceq c "'" || ceq c "`"
  || ceq c "013" || ceq c "010" || ceq c "009" || ceq c ";".
Fixpoint lookup_last (nm : list (string * pieces)) (n : string) (acc : option pieces) : option pieces :=
  match nm with
  | [] => acc
  | (k, p) :: r => lookup_last r n (if String.eqb k n then Some p else acc)
  end.
Definition flush_name (nm : list (string * pieces)) (name : la) : pieces :=
  match lookup_last nm (l2s name) None with
  | Some p => p
  | None => PC "@" :: ptext name
  end.
Fixpoint named_scan (nm : list (string * pieces)) (bs : la) (args : list argr)
         (inname : bool) (name : la) (ap : bool) : pieces :=
  match bs with
  | [] => if inname then flush_name nm name else []
  | c :: r =>
    if ceq c "@" && negb inname then named_scan nm r args true [] ap
    else if is_name_end c then
      (if inname then flush_name nm name else []) ++ PC c :: named_scan nm r args false [] false
    else
      match (if ceq c "?" then args else []) with
      | a :: args' => (if ap then a_par a else a_var a) ++ named_scan nm r args' inname name ap
      | [] =>
        if inname then named_scan nm r args true (name ++ [c]) ap
        else PC c :: named_scan nm r args false name (ceq c "(")
      end
  end.

Definition all_names (args : list argr) : list (string * pieces) := flat_map a_names args.
(* db.Raw / db.Exec / Statement.AddVar: "@" anywhere in the text selects the named scanner *)
Definition raw_scan (sql : la) (args : list argr) : pieces :=
  if contains_c "@" sql then named_scan (all_names args) sql args false [] false
  else expr_scan false sql args false.

(* what Expr.Build / NamedExpr.Build write for a scalar argument right after '(' (also: a value of
   Statement.Vars given back to Expr.Build on the sub-query renumbering path) *)
Definition scalar_par (s : scalar) : pieces :=
  match s with
  | SBytes b => match s2l b with
                | [] => [PV SNull]          (* rv.Len() == 0: AddVar(nil) *)
                | _ => [PV s]               (* a []byte is one value, not a list *)
                end
  | _ => [PV s]
  end.
Definition scalar_argr (s : scalar) : argr := mk_argr [PV s] (scalar_par s) s [].

(* AddVar case *DB with SQL.Len() > 0: every "$k" (or "?") of the built text is turned back into
   "?" with strings.Replace(.., 1), then the text is built again as a template *)
Definition bind_text (numbered : bool) (i : N) : la := if numbered then "$"%char :: dec_n i else ["?"%char].
Fixpoint unbind (numbered : bool) (txt : la) (i : N) (k : nat) : la :=
  match k with
  | O => txt
  | S k' => unbind numbered (replace_first txt (bind_text numbered i) ["?"%char]) (N.succ i) k'
  end.
Definition rebuild_sub (numbered : bool) (p1 : pieces) : pieces :=
  let vs := vars_of p1 in
  let txt := unbind numbered (render numbered p1) 1 (length vs) in
  raw_scan txt (map scalar_argr vs).

(* ------------------------------------------------------------------ *)
(* expressions                                                          *)
Definition hid_of (v : val) : scalar := match v with VS s | VDrv s => s | _ => SNull end.

(* eqNil *)
Definition eq_nil (v : val) : bool :=
  match v with VS SNull | VDrv SNull | VGormValuer true _ => true | _ => false end.

Definition neg_op (o : cmpop) : cmpop :=
  match o with
  | OEq => ONeq | ONeq => OEq | OGt => OLte | OGte => OLt | OLt => OGte | OLte => OGt
  | OLike => ONotLike | ONotLike => OLike
  end.
Definition op_text (o : cmpop) : string :=
  match o with
  | OEq => " = " | ONeq => " <> " | OGt => " > " | OGte => " >= " | OLt => " < " | OLte => " <= "
  | OLike => " LIKE " | ONotLike => " NOT LIKE "
  end.

(* Eq.Build ... Like.Build on a quoted column [qc]; [elems] = Some renderings of the elements
   when the value's dynamic type is one of the slice types of the type switch *)
Definition cmp_build (o : cmpop) (qc : pieces) (elems : option (list pieces)) (isnil : bool) (var : pieces) : pieces :=
  match o with
  | OEq =>
    match elems with
    | Some [] => qc ++ pstr " IN (NULL)"
    | Some l => qc ++ pstr " IN (" ++ sepc [PC ","] l ++ [PC ")"]
    | None => if isnil then qc ++ pstr " IS NULL" else qc ++ pstr " = " ++ var
    end
  | ONeq =>
    match elems with
    | Some [] => qc ++ pstr " IS NOT NULL"          (* b6731b9: as IN.NegationBuild for no values *)
    | Some l => qc ++ pstr " NOT IN (" ++ sepc [PC ","] l ++ [PC ")"]
    | None => if isnil then qc ++ pstr " IS NOT NULL" else qc ++ pstr " <> " ++ var
    end
  | _ => qc ++ pstr (op_text o) ++ var
  end.

(* IN.Build / IN.NegationBuild; [single_iface] = the only value is a []interface{} *)
Definition in_build (neg : bool) (qc : pieces) (vals : list pieces) (single_iface : bool) : pieces :=
  match vals with
  | [] => qc ++ pstr (if neg then " IS NOT NULL" else " IN (NULL)")
  | [x] => if single_iface then qc ++ pstr (if neg then " NOT IN (" else " IN (") ++ x ++ [PC ")"]
           else qc ++ pstr (if neg then " <> " else " = ") ++ x
  | _ => qc ++ pstr (if neg then " NOT IN (" else " IN (") ++ sepc [PC ","] vals ++ [PC ")"]
  end.

Fixpoint needs_paren (v : val) : bool :=
  match v with
  | VExpr _ sql _ => has_and_or (s2l sql)
  | VNamedExpr sql _ => has_and_or (s2l sql)
  | VOr [y] => needs_paren y
  | VAnd [y] => needs_paren y
  | _ => false
  end.
Definition is_single_or (v : val) : bool := match v with VOr [_] => true | _ => false end.
Definition is_or (v : val) : bool := match v with VOr _ => true | _ => false end.
Definition has_negation (v : val) : bool := match v with VCmp _ _ _ | VIn _ _ => true | _ => false end.
Definition gt1 {A} (l : list A) : bool := match l with _ :: _ :: _ => true | _ => false end.
Definition wrap_par (b : bool) (p : pieces) : pieces := if b then PC "(" :: p ++ [PC ")"] else p.

(* Where.Build: a lone AndConditions is unwrapped; the first expression that is not a single Or
   is swapped to the front *)
Fixpoint find_non_single_or (l : list val) (i : nat) : option (nat * val) :=
  match l with
  | [] => None
  | x :: r => if is_single_or x then find_non_single_or r (S i) else Some (i, x)
  end.
Fixpoint set_nth {A} (n : nat) (x : A) (l : list A) : list A :=
  match l, n with
  | [], _ => []
  | _ :: r, O => x :: r
  | y :: r, S n' => y :: set_nth n' x r
  end.
Definition swap_first (l : list val) : list val :=
  match l with
  | [] => []
  | x0 :: _ =>
    match find_non_single_or l 0 with
    | Some (S i, xi) => set_nth (S i) x0 (set_nth 0 xi l)
    | _ => l
    end
  end.
Definition where_exprs (l : list val) : list val :=
  swap_first (match l with [VAnd l'] => l' | _ => l end).

Section Build.
Variable numbered : bool.

(* buildExprs on already built members: (is_single_or, needs_paren, pieces) *)
Fixpoint join_exprs (multi : bool) (join : string) (first : bool) (l : list (bool * bool * pieces)) : pieces :=
  match l with
  | [] => []
  | (sor, np, p) :: r =>
    (if first then [] else pstr (if sor then " OR " else join))
    ++ wrap_par (multi && np) p
    ++ join_exprs multi join false r
  end.

Fixpoint bval (e : tinfo) (v : val) {struct v} : pieces :=
  let argr_of := fun x : val =>
    mk_argr (bval e x)
      (match x with
       | VList _ [] => [PV SNull]
       | VList LU8 _ => bval e x         (* Elem().Kind() == Uint8: handed whole to AddVar, which expands it *)
       | VList _ l => sepc [PC ","] (map (bval e) l)
       | VS s => scalar_par s
       | _ => bval e x
       end)
      (hid_of x)
      (match x with
       | VNamed n y => [(n, bval e y)]
       | VNameSrc l => flat_map (fun y => match y with VNamed n z => [(n, bval e z)] | _ => [] end) l
       | _ => []
       end) in
  let member := fun x : val => (is_single_or x, needs_paren x, bval e x) in
  let bexprs := fun (join : string) (l : list val) => join_exprs (gt1 l) join true (map member l) in
  let quoted := fun c : val =>
    match c with
    | VQStr s => ptext (quote_id s)
    | _ => bval e c
    end in
  let elems_of := fun x : val =>
    match x with
    | VList LIface l | VList LKnown l => Some (map (bval e) l)
    | _ => None
    end in
  let negated := fun x : val =>       (* one member of NotConditions, "negated on its own" *)
    match x with
    | VCmp o c y => cmp_build (neg_op o) (quoted c) (elems_of y) (eq_nil y) (bval e y)
    | VIn c vs => in_build true (quoted c) (map (bval e) vs)
                    (match vs with [VList LIface _] => true | _ => false end)
    | _ => pstr "NOT " ++ wrap_par (needs_paren x) (bval e x)
    end in
  match v with
  | VS s => [PV s]
  | VDrv s => [PV s]
  | VList _ l => match l with [] => pstr "(NULL)" | _ => PC "(" :: sepc [PC ","] (map (bval e) l) ++ [PC ")"] end
  | VNamed _ x => [PH (hid_of x)]
  | VNameSrc _ => [PV SNull]                       (* a map/struct bound as a value: not generated *)
  | VGormValuer isnil x => if isnil then [PV SNull] else bval e x
  | VCol tbl name alias raw => ptext (quote_col e tbl name alias raw)
  | VTable name alias raw => ptext (quote_table e name alias raw)
  | VQStr s => [PV (SStr s)]                       (* a string given to AddVar is a value *)
  | VText s => pstr s
  | VExpr wop sql vars => expr_scan wop (s2l sql) (map argr_of vars) false
  | VNamedExpr sql vars =>
      let args := map argr_of vars in named_scan (all_names args) (s2l sql) args false [] false
  | VCmp o c x => cmp_build o (quoted c) (elems_of x) (eq_nil x) (bval e x)
  | VIn c vs => in_build false (quoted c) (map (bval e) vs)
                  (match vs with [VList LIface _] => true | _ => false end)
  | VAnd l => wrap_par (gt1 l) (bexprs " AND "%string l)
  | VOr l => wrap_par (gt1 l) (bexprs " OR "%string l)
  | VNot l =>
      if existsb has_negation l && negb (existsb is_single_or (tl l))
      then wrap_par (gt1 l) (sepc (pstr " AND ") (map negated l))
      else pstr "NOT " ++
           match l with
           | [x] => wrap_par (needs_paren x) (bval e x)
           | [] => []
           | _ => PC "(" :: bexprs " AND "%string l ++ [PC ")"]
           end
  | VWhere l =>
      (* the prologue of Where.Build ([where_exprs]: unwrap a lone And, swap) permutes the members;
         it is applied where the clause is assembled (C01_Stmt.mk_where), so that [l] is the list
         buildExprs receives *)
      bexprs " AND "%string l
  | VSeq sp l => sepc (pstr sp) (map (bval e) l)
  | VSubN ti q _ => bval ti q
  | VRawSub sql vars => rebuild_sub numbered (raw_scan (s2l sql) (map argr_of vars))
  | _ => []
  end.

End Build.
