(* C11_ScanProofs.v — the records handed out are the stored rows (lemmas for Props_C11). *)
From Verif Require Import Base C11_Model C11_Scan.
Open Scope Z_scope.

(* ---- set_col ---- *)
Lemma set_col_length : forall cols vals c v, length (set_col cols vals c v) = length vals.
Proof.
  induction cols as [|k cols IH]; intros [|x vals] c v; cbn; auto.
  destruct (String.eqb k c); cbn; auto.
Qed.

Lemma set_col_notin : forall cols vals c v, ~ In c cols -> set_col cols vals c v = vals.
Proof.
  induction cols as [|k cols IH]; intros [|x vals] c v Hn; cbn; auto.
  destruct (String.eqb_spec k c) as [->|Hne].
  - exfalso. apply Hn. now left.
  - f_equal. apply IH. intro Hin. apply Hn. now right.
Qed.

(* assigning the columns in order to any record of the right length yields the row's values *)
Lemma fold_set_all : forall cols vals acc,
  NoDup cols -> length vals = length cols -> length acc = length cols ->
  fold_left (fun a cv => set_col cols a (fst cv) (snd cv)) (combine cols vals) acc = vals.
Proof.
  (* generalised: a prefix already holds the final values *)
  assert (G : forall rest pre pv vals acc,
    NoDup (pre ++ rest) -> length pv = length pre -> length vals = length rest ->
    length acc = length rest ->
    fold_left (fun a cv => set_col (pre ++ rest) a (fst cv) (snd cv)) (combine rest vals) (pv ++ acc)
    = pv ++ vals).
  { induction rest as [|k rest IH]; intros pre pv vals acc Hnd Hpv Hv Ha.
    - destruct vals; [|discriminate]. destruct acc; [|discriminate]. reflexivity.
    - destruct vals as [|x vals]; [discriminate|]. destruct acc as [|y acc]; [discriminate|].
      cbn [combine fold_left fst snd].
      assert (Hset : set_col (pre ++ k :: rest) (pv ++ y :: acc) k x = pv ++ x :: acc).
      { clear IH Hv Ha. revert pv Hpv Hnd. induction pre as [|p pre IHp]; intros pv Hpv Hnd.
        - destruct pv; [|discriminate]. cbn. now rewrite String.eqb_refl.
        - destruct pv as [|q pv]; [discriminate|]. cbn.
          destruct (String.eqb_spec p k) as [->|Hne].
          + exfalso. inversion Hnd as [|? ? Hni _]; subst. apply Hni. apply in_or_app. right. now left.
          + f_equal. apply IHp; [now inversion Hpv|now inversion Hnd]. }
      rewrite Hset.
      replace (pre ++ k :: rest) with ((pre ++ [k]) ++ rest) in * by (rewrite <- app_assoc; reflexivity).
      replace (pv ++ x :: acc) with ((pv ++ [x]) ++ acc) by (rewrite <- app_assoc; reflexivity).
      rewrite (IH (pre ++ [k]) (pv ++ [x]) vals acc);
        [rewrite <- app_assoc; reflexivity | assumption | rewrite !app_length; cbn; lia
        | cbn in Hv; lia | cbn in Ha; lia]. }
  intros cols vals acc Hnd Hv Ha.
  exact (G cols [] [] vals acc Hnd eq_refl Hv Ha).
Qed.

Lemma unset_length : forall mcols, length (unset mcols) = length mcols.
Proof. intro. unfold unset. apply repeat_length. Qed.

(* columns that are no field of the model change nothing *)
Lemma fold_set_foreign : forall cols (extra : rrow) acc,
  (forall cv, In cv extra -> ~ In (fst cv) cols) ->
  fold_left (fun a cv => set_col cols a (fst cv) (snd cv)) extra acc = acc.
Proof.
  induction extra as [|cv extra IH]; intros acc H; cbn; auto.
  rewrite set_col_notin by (apply H; now left). apply IH. intros; apply H; now right.
Qed.

(* the named SELECT list: the record is the model's row whatever else the FROM clause joins *)
Lemma scan_named : forall mcols mvals extra,
  NoDup mcols -> length mvals = length mcols ->
  scan_plain mcols (select_row true mcols mvals extra) = mvals.
Proof.
  intros. unfold scan_plain, select_row. apply fold_set_all; auto using unset_length.
Qed.

(* `SELECT *`: right only when no other table of the FROM clause has a column named like a field *)
Lemma scan_star_disjoint : forall mcols mvals extra,
  NoDup mcols -> length mvals = length mcols ->
  (forall cv, In cv extra -> ~ In (fst cv) mcols) ->
  scan_plain mcols (select_row false mcols mvals extra) = mvals.
Proof.
  intros mcols mvals extra Hnd Hl Hd. unfold scan_plain, select_row.
  rewrite fold_left_app, fold_set_all by auto using unset_length.
  now apply fold_set_foreign.
Qed.

(* ... and wrong otherwise: the join row's value lands in the record *)
Lemma scan_star_collides :
  scan_plain ["id"; "title"]%string
    (select_row false ["id"; "title"]%string [VInt 2; VText "b2"] [("id"%string, VInt 4); ("reader_id"%string, VInt 1)])
  = [VInt 4; VText "b2"].
Proof. reflexivity. Qed.

(* ---- many2many Association().Find ---- *)
Lemma flat_map_ext_in {A B} (f g : A -> list B) l :
  (forall x, In x l -> f x = g x) -> flat_map f l = flat_map g l.
Proof.
  induction l as [|x l IH]; intros H; cbn; auto.
  rewrite H by now left. f_equal. apply IH. intros; apply H; now right.
Qed.

Lemma find_m2m_recs_rows : forall tsk h ps js jcols jrows cs mcols rows,
  NoDup mcols -> rows_wf mcols rows ->
  find_m2m_recs tsk true h ps js jcols jrows cs mcols rows = find_m2m_rows tsk h ps js jrows cs rows.
Proof.
  intros tsk h ps js jcols jrows cs mcols rows Hnd Hwf. unfold find_m2m_recs, find_m2m_rows.
  apply flat_map_ext_in. intros c _. destruct (child_ok h c); auto.
  apply flat_map_ext_in. intros jj _.
  destruct (in_list _ _ && key_eqv _ _); auto.
  destruct (lookup_row (c_uid c) rows) as [mv|] eqn:E; auto.
  rewrite scan_named; auto. eapply Hwf; eauto.
Qed.

(* with `*` the same holds when the join table shares no column name with the related model *)
Lemma find_m2m_recs_star : forall tsk h ps js jcols jrows cs mcols rows,
  NoDup mcols -> rows_wf mcols rows -> (forall c, In c jcols -> ~ In c mcols) ->
  find_m2m_recs tsk false h ps js jcols jrows cs mcols rows = find_m2m_rows tsk h ps js jrows cs rows.
Proof.
  intros tsk h ps js jcols jrows cs mcols rows Hnd Hwf Hdis. unfold find_m2m_recs, find_m2m_rows.
  apply flat_map_ext_in. intros c _. destruct (child_ok h c); auto.
  apply flat_map_ext_in. intros jj _.
  destruct (in_list _ _ && key_eqv _ _); auto.
  destruct (lookup_row (c_uid c) rows) as [mv|] eqn:E; auto.
  rewrite scan_star_disjoint; auto.
  - eapply Hwf; eauto.
  - intros [cn cvv] Hin. apply Hdis. apply in_combine_l in Hin. exact Hin.
Qed.

(* the one-table queries *)
Lemma plain_recs_rows : forall mcols rows uids,
  NoDup mcols -> rows_wf mcols rows -> plain_recs mcols rows uids = rows_of rows uids.
Proof.
  intros mcols rows uids Hnd Hwf. unfold plain_recs, rows_of.
  apply flat_map_ext_in. intros u _. destruct (lookup_row u rows) as [mv|] eqn:E; auto.
  rewrite scan_star_disjoint; auto. eapply Hwf; eauto.
Qed.

(* ---- association Joins ---- *)
Lemma strip_prefix_app : forall p s, strip_prefix p (p ++ s) = Some s.
Proof.
  induction p as [|a p IH]; intro s; cbn; auto. now rewrite Ascii.eqb_refl.
Qed.

Lemma strip_alias_col : forall a c, strip_alias a (alias_col a c) = Some c.
Proof.
  intros. unfold strip_alias, alias_col.
  replace (a ++ "__" ++ c)%string with ((a ++ "__") ++ c)%string.
  - apply strip_prefix_app.
  - induction a as [|x a IH]; cbn; auto. now rewrite IH.
Qed.

Lemma is_col_in : forall c mcols, is_col c mcols = true <-> In c mcols.
Proof.
  intros. unfold is_col. rewrite existsb_exists. split.
  - intros [x [Hin Hx]]. apply String.eqb_eq in Hx. now subst.
  - intro Hin. exists c. split; auto. apply String.eqb_refl.
Qed.

(* no row satisfies ON: every aliased column is NULL, the relation stays nil *)
Lemma scan_joined_loop_nulls : forall a mcols cols,
  scan_joined_loop a mcols (combine (map (alias_col a) cols) (repeat VNull (length cols))) None = None.
Proof.
  induction cols as [|c cols IH]; cbn [map length repeat combine scan_joined_loop]; auto.
  rewrite strip_alias_col. destruct (is_col c mcols); cbn [is_null]; exact IH.
Qed.

(* once allocated, the remaining columns are all assigned *)
Lemma scan_joined_loop_some : forall a mcols rest vals acc,
  (forall c, In c rest -> In c mcols) ->
  length vals = length rest ->
  scan_joined_loop a mcols (combine (map (alias_col a) rest) vals) (Some acc)
  = Some (fold_left (fun x cv => set_col mcols x (fst cv) (snd cv)) (combine rest vals) acc).
Proof.
  induction rest as [|c rest IH]; intros vals acc Hin Hl.
  - reflexivity.
  - destruct vals as [|v vals]; [discriminate|].
    cbn [map combine scan_joined_loop fold_left fst snd].
    rewrite strip_alias_col.
    replace (is_col c mcols) with true by (symmetry; apply is_col_in, Hin; now left).
    apply IH; [intros; apply Hin; now right|now inversion Hl].
Qed.

(* assigning NULL to a record that holds VNull there changes nothing *)
Lemma set_col_null_unset : forall cols vals c,
  (forall i k, nth_error cols i = Some k -> k = c -> nth_error vals i = Some VNull) ->
  set_col cols vals c VNull = vals.
Proof.
  induction cols as [|k cols IH]; intros [|x vals] c H; cbn; auto.
  destruct (String.eqb_spec k c) as [->|Hne].
  - specialize (H 0%nat c eq_refl eq_refl). cbn in H. now inversion H.
  - f_equal. apply IH. intros i k' Hn Hk. exact (H (S i) k' Hn Hk).
Qed.

Lemma nth_error_repeat_null : forall n i (x : sqlval), nth_error (repeat VNull n) i = Some x -> x = VNull.
Proof.
  induction n as [|n IH]; intros [|i] x; cbn; try discriminate.
  - intro H; now inversion H.
  - apply IH.
Qed.

(* the skipped leading NULL columns would have assigned NULL to an unset record: same record *)
Lemma scan_joined_loop_skip : forall a mcols rest vals,
  (forall c, In c rest -> In c mcols) ->
  length vals = length rest ->
  scan_joined_loop a mcols (combine (map (alias_col a) rest) vals) None
  = if forallb is_null vals then None
    else Some (fold_left (fun x cv => set_col mcols x (fst cv) (snd cv)) (combine rest vals) (unset mcols)).
Proof.
  induction rest as [|c rest IH]; intros vals Hin Hl.
  - destruct vals; [reflexivity|discriminate].
  - destruct vals as [|v vals]; [discriminate|].
    cbn [map combine scan_joined_loop fold_left fst snd forallb].
    rewrite strip_alias_col.
    replace (is_col c mcols) with true by (symmetry; apply is_col_in, Hin; now left).
    destruct v; cbn [is_null andb].
    + rewrite IH by (try (intros; apply Hin; now right); now inversion Hl).
      destruct (forallb is_null vals); auto.
      f_equal. f_equal. symmetry. apply set_col_null_unset.
      intros i k Hn _. unfold unset.
      assert (Hlt : (i < length mcols)%nat) by (apply nth_error_Some; congruence).
      destruct (nth_error (repeat VNull (length mcols)) i) eqn:E.
      * apply nth_error_repeat_null in E. now subst.
      * apply nth_error_None in E. rewrite repeat_length in E. lia.
    + apply scan_joined_loop_some; [intros; apply Hin; now right|now inversion Hl].
    + apply scan_joined_loop_some; [intros; apply Hin; now right|now inversion Hl].
Qed.

(* the parent's own columns (and other relations' columns) do not touch the relation's struct *)
Lemma scan_joined_loop_foreign : forall a mcols (pre : rrow) r st,
  (forall cv, In cv pre -> match strip_alias a (fst cv) with
                           | Some c => is_col c mcols = false
                           | None => True
                           end) ->
  scan_joined_loop a mcols (pre ++ r) st = scan_joined_loop a mcols r st.
Proof.
  induction pre as [|[n v] pre IH]; intros r st H; cbn [app scan_joined_loop]; auto.
  pose proof (H (n, v) (or_introl eq_refl)) as Hn. cbn in Hn.
  destruct (strip_alias a n) as [c|].
  - rewrite Hn. apply IH. intros; apply H; now right.
  - apply IH. intros; apply H; now right.
Qed.

(* the joined row exists and holds a non-NULL value (its key): the relation's struct IS the row *)
Lemma scan_joined_row : forall a mcols pre vs,
  NoDup mcols -> length vs = length mcols -> forallb is_null vs = false ->
  (forall cv, In cv pre -> match strip_alias a (fst cv) with
                           | Some c => is_col c mcols = false
                           | None => True
                           end) ->
  scan_joined a mcols (pre ++ joined_part a mcols (Some vs)) = Some vs.
Proof.
  intros a mcols pre vs Hnd Hl Hnn Hpre. unfold scan_joined, joined_part.
  rewrite scan_joined_loop_foreign by exact Hpre.
  rewrite scan_joined_loop_skip; auto. rewrite Hnn.
  f_equal. apply fold_set_all; auto using unset_length.
Qed.

(* no row satisfies the ON clause: the relation stays nil *)
Lemma scan_joined_none : forall a mcols pre,
  (forall cv, In cv pre -> match strip_alias a (fst cv) with
                           | Some c => is_col c mcols = false
                           | None => True
                           end) ->
  scan_joined a mcols (pre ++ joined_part a mcols None) = None.
Proof.
  intros a mcols pre Hpre. unfold scan_joined, joined_part.
  rewrite scan_joined_loop_foreign by exact Hpre.
  unfold unset. apply scan_joined_loop_nulls.
Qed.

(* well-formed stored rows with a non-NULL column each (the uid / key column) *)
Definition rows_keyed (rows : stored) : Prop :=
  forall u mv, lookup_row u rows = Some mv -> forallb is_null mv = false.

Lemma joins_recs_rows : forall a mcols rows uids,
  NoDup mcols -> rows_wf mcols rows -> rows_keyed rows ->
  joins_recs a mcols rows uids = rows_of rows uids.
Proof.
  intros a mcols rows uids Hnd Hwf Hk. unfold joins_recs, rows_of.
  apply flat_map_ext_in. intros u _. destruct (lookup_row u rows) as [mv|] eqn:E; auto.
  pose proof (scan_joined_row a mcols [] mv Hnd (Hwf _ _ E) (Hk _ _ E)) as H.
  cbn [app] in H. rewrite H; auto. intros cv [].
Qed.

(* either site suffices: QueryFields of the session or joins inside the FROM clause *)
Lemma find_m2m_recs_named : forall qf fj h ps js jcols jrows cs mcols rows,
  qf || fj = true -> NoDup mcols -> rows_wf mcols rows ->
  find_m2m_recs to_string_key (names_model qf false fj) h ps js jcols jrows cs mcols rows
  = find_m2m_rows to_string_key h ps js jrows cs rows.
Proof.
  intros qf fj h ps js jcols jrows cs mcols rows Hq Hnd Hwf.
  replace (names_model qf false fj) with true.
  - now apply find_m2m_recs_rows.
  - unfold names_model. rewrite orb_false_r. now rewrite Hq.
Qed.
