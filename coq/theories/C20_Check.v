(* C20_Check.v — correspondence checker for C20. *)
From Verif Require Export Base C20_Model.
Open Scope Z_scope.

Inductive api :=
  | ACreateTable (t : string) | ADropTable (t : string)
  | AAddColumn (t c : string) | AAlterColumn (t c : string) | ADropColumn (t c : string)
  | ACreateConstraint (t n : string) | ADropConstraint (t n : string)
  | ACreateIndex (t n : string) | ADropIndex (t n : string).

(* what one AutoMigrate call saw and did: the model, the table as the dialect reported it just
   before (None = no table), the migrator calls recorded, the number of CREATE/ALTER/DROP
   statements that reached the driver *)
Record mobs := mk_mobs { mo_model : model; mo_table : option (table reported); mo_api : list api; mo_ddl : Z }.

Inductive case :=
  | CDecide (f : field) (r : reported) (o_alter : bool) (o_unique : uaction) (o_err : bool)
  | CRound (first again extend : mobs) (before after : list (list string)) (new_ok : bool) (again2 errs : Z)
  | CReorder (names : list string) (deps : list (string * list string)) (order : list string).

Definition uaction_eqb (a b : uaction) : bool :=
  match a, b with UNone, UNone | UDrop, UDrop | UCreate, UCreate => true | _, _ => false end.

Definition api_of (d : ddl) : api :=
  match d with
  | CreateTable t => ACreateTable t | AddColumn t c => AAddColumn t c | AlterColumn t c => AAlterColumn t c
  | DropConstraint t n => ADropConstraint t n | CreateConstraint t n => ACreateConstraint t n
  | CreateIndex t n => ACreateIndex t n
  end.
Definition api_eqb (a b : api) : bool :=
  match a, b with
  | ACreateTable x, ACreateTable y | ADropTable x, ADropTable y => String.eqb x y
  | AAddColumn x1 x2, AAddColumn y1 y2 | AAlterColumn x1 x2, AAlterColumn y1 y2
  | ADropColumn x1 x2, ADropColumn y1 y2 | ACreateConstraint x1 x2, ACreateConstraint y1 y2
  | ADropConstraint x1 x2, ADropConstraint y1 y2 | ACreateIndex x1 x2, ACreateIndex y1 y2
  | ADropIndex x1 x2, ADropIndex y1 y2 => String.eqb x1 y1 && String.eqb x2 y2
  | _, _ => false
  end.

(* the checker instantiates the environment with what the dialect actually reported *)
Definition dummy_rep : reported := mk_rep "" [] 0 false 0 false false false "" false "" false false false.
Definition rep_set_unique (r : reported) (b : bool) : reported :=
  mk_rep (r_type r) (r_aliases r) (r_len r) (r_len_ok r) (r_prec r) (r_prec_ok r) (r_nullable r) (r_nullable_ok r)
         (r_default r) (r_default_ok r) (r_comment r) (r_comment_ok r) b (r_unique_ok r).
Definition predicted (o : mobs) : list api :=
  map api_of (fst (auto_migrate_table reported (fun _ => dummy_rep) rep_set_unique (fun r => r) (mo_model o) (mo_table o))).

Definition model_agrees (c : case) : bool :=
  match c with
  | CDecide f r a u e =>
      negb e && Bool.eqb (d_alter (migrate_column f r)) a && uaction_eqb (d_unique (migrate_column f r)) u
  | CRound first again extend _ _ _ _ _ =>
      list_eqb api_eqb (predicted first) (mo_api first)
      && list_eqb api_eqb (predicted again) (mo_api again)
      && list_eqb api_eqb (predicted extend) (mo_api extend)
  | CReorder names deps order =>
      match reorder (deps_of deps) (S (length deps)) names with
      | Some l => list_eqb String.eqb l order
      | None => false
      end
  end.

Definition additive (a : api) : bool :=
  match a with AAddColumn _ _ | ACreateIndex _ _ | ACreateConstraint _ _ => true | _ => false end.

Fixpoint index_of (n : string) (l : list string) (i : nat) : option nat :=
  match l with [] => None | x :: r => if String.eqb x n then Some i else index_of n r (S i) end.
Fixpoint nodup_b (l : list string) : bool :=
  match l with [] => true | x :: r => negb (existsb (String.eqb x) r) && nodup_b r end.

Definition spec_holds (c : case) : bool :=
  match c with
  | CDecide f r a u e =>
      (* a column that already matches its field is left alone *)
      negb (matches f r) || (negb a && uaction_eqb u UNone)
  | CRound first again extend before after new_ok again2 errs =>
      (errs =? 0)
      (* migrating the same model again issues no schema-changing statement *)
      && (mo_ddl again =? 0) && match mo_api again with [] => true | _ => false end && (again2 =? 0)
      (* migrating the extended model only adds what is missing *)
      && forallb additive (mo_api extend)
      (* existing rows and column values are preserved *)
      && list_eqb (list_eqb String.eqb) before after
      (* the migrated table accepts and returns records of the new model *)
      && new_ok
  | CReorder names deps order =>
      nodup_b order
      && forallb (fun n => existsb (String.eqb n) order) names
      && forallb (fun n => match index_of n order 0 with
                           | None => false
                           | Some i => forallb (fun d => match index_of d order 0 with
                                                         | Some j => Nat.ltb j i | None => false end)
                                               (deps_of deps n)
                           end) order
  end.

Definition check_case (c : case) : N := code_of (model_agrees c) (spec_holds c).
