(* Props_C18.v — property C18 (every statement of an operation carries the caller's context):
   ONLY theorem statements, each closed by [exact] of a lemma of C18_Proofs.v. *)
From Verif Require Import Base C18_Model C18_Ops C18_Check C18_Proofs C18_Proofs2.
Open Scope Z_scope.

(* For EVERY operation tree (any nesting of internal sessions, explicit rebindings, transactions,
   prepared-statement wrappers), started from any handle: if the context-copying code of
   getInstance / clone / Session is in place and every Session literal and call site of the tree
   has the form FactsOK_C18 establishes for all literals and sites of the source, the driver calls
   are exactly the expected ones, each with the caller's context or the innermost explicit rebinding. *)
Theorem c18_run_expected : forall cp n h, copies_ok cp = true -> node_ok n = true ->
  run cp n h = expected n (h_ctx h).
Proof. exact run_expected. Qed.
Print Assumptions c18_run_expected.

Theorem c18_ctx_preserved : forall cp n h, copies_ok cp = true -> node_ok n = true -> has_rebind n = false ->
  Forall (fun kc => snd kc = h_ctx h) (run cp n h).
Proof. exact ctx_preserved. Qed.
Print Assumptions c18_ctx_preserved.

(* a cancelled context lets no statement run, under database/sql's behaviour (Section hypothesis
   sql_refuses_done: a call with a done context is refused before it reaches the driver) *)
Theorem c18_cancelled_runs_nothing :
  forall (done : ctx -> bool) (reaches_driver : call -> bool),
  (forall k c, done c = true -> reaches_driver (k, c) = false) ->
  forall cp n h, copies_ok cp = true -> node_ok n = true -> has_rebind n = false -> done (h_ctx h) = true ->
  filter reaches_driver (run cp n h) = [].
Proof. exact cancelled_runs_nothing. Qed.
Print Assumptions c18_cancelled_runs_nothing.

(* the checker's per-event tree: when the event's literals and sites have the good forms, the model
   predicts the caller's tag — so a disagreement of check_case is a real difference *)
Theorem c18_event_tree : forall cp tag e,
  copies_ok cp = true -> forallb session_keeps_ctx (e_path e) = true -> site_passes_stmt_ctx (e_site e) = true ->
  match e_inner e with None => true | Some f => site_passes_param f end = true ->
  run cp (ev_tree tag e) root_handle = [(e_kind e, tag)].
Proof.
  intros cp tag e C P S I.
  assert (OK : node_ok (ev_tree tag e) = true).
  { unfold ev_tree. cbn [node_ok forallb]. rewrite andb_true_r.
    induction (e_path e) as [|l r IH]; cbn [fold_right node_ok forallb].
    - destruct (e_inner e); cbn; rewrite S; [cbn; rewrite I|]; reflexivity.
    - cbn in P. apply andb_prop in P. destruct P as [P1 P2]. rewrite P1, IH by exact P2. reflexivity. }
  rewrite run_expected by assumption. unfold ev_tree. cbn [expected flat_map]. rewrite app_nil_r.
  clear OK. induction (e_path e) as [|l r IH]; cbn [fold_right expected flat_map].
  - destruct (e_inner e); reflexivity.
  - cbn in P. apply andb_prop in P. rewrite app_nil_r. apply IH. apply P.
Qed.
Print Assumptions c18_event_tree.

(* ---------------------------------------------------------------- operation trees (C18_Ops.v, round 7)
   The structure of gorm's composite operations is inside the model: op_tree builds, from the roles
   record of the current source, the PrepareStmt mode and an operation's structure (Create / Save /
   Updates / Delete with nested association saves and cascades, Find with a preload tree, association
   mode, Transaction blocks with save points, FindInBatches / CreateInBatches), the tree gorm executes.
   For EVERY roles record whose literals keep the context and whose call sites pass it on
   (roles_ok, established for the regenerated record by FactsOK_C18.roles_keep_ctx), EVERY PrepareStmt
   mode and EVERY operation structure (induction over the nested structure, no bounds): *)

(* every literal and call site of the tree has the good form, and the tree contains no rebinding *)
Theorem c18_ops_ok : forall R prep d, roles_ok R = true -> forallb node_ok (op_tree R prep d) = true.
Proof. exact ops_ok. Qed.
Print Assumptions c18_ops_ok.

Theorem c18_ops_no_rebind : forall R prep d, existsb has_rebind (op_tree R prep d) = false.
Proof. exact ops_no_rebind. Qed.
Print Assumptions c18_ops_no_rebind.

(* hence every driver call of the operation carries the context of the handle it was started on *)
Theorem c18_ops_ctx_preserved : forall cp R prep d h, copies_ok cp = true -> roles_ok R = true ->
  Forall (fun kc => snd kc = h_ctx h) (run_list cp (op_tree R prep d) h).
Proof. exact ops_ctx_preserved. Qed.
Print Assumptions c18_ops_ctx_preserved.

(* the tree check_case runs (op_whole): the caller binds a handle to [tag], optionally derives a
   further session that does not repeat the context, and issues the finisher calls [ds]: every driver
   call of every one of them carries [tag], whatever handle the caller started from *)
Theorem c18_ops_caller_ctx : forall cp R prep tag derive ds h,
  copies_ok cp = true -> roles_ok R = true -> derive_ok derive = true ->
  Forall (fun kc => snd kc = tag) (run cp (caller_tree R prep tag derive ds) h).
Proof. exact ops_caller_ctx. Qed.
Print Assumptions c18_ops_caller_ctx.

(* and a done context lets no call of the operation reach the driver (database/sql's behaviour as
   hypothesis, as in c18_cancelled_runs_nothing) *)
Theorem c18_ops_cancelled_runs_nothing :
  forall (done : ctx -> bool) (reaches_driver : call -> bool),
  (forall k c, done c = true -> reaches_driver (k, c) = false) ->
  forall cp R prep tag derive ds h,
  copies_ok cp = true -> roles_ok R = true -> derive_ok derive = true -> done tag = true ->
  filter reaches_driver (run cp (caller_tree R prep tag derive ds) h) = [].
Proof. exact ops_cancelled_runs_nothing. Qed.
Print Assumptions c18_ops_cancelled_runs_nothing.

(* non-vacuity: a Create with nested association saves in the default transaction followed by a Find
   with a nested preload tree, through a caller-derived session: 13 driver calls, all with the tag
   (25 with PrepareStmt); and a roles record with one bad literal is rejected and loses the context *)
Example c18_ops_demo :
  roles_ok roles_now = true
  /\ run cp_all (caller_tree roles_now false 7 (Some (mk_slit FAbsent true false true)) demo_ops) (mk_h 0 1)
     = [(KBegin, 7); (KQuery, 7); (KQuery, 7); (KQuery, 7); (KQuery, 7); (KQuery, 7); (KQuery, 7); (KExec, 7);
        (KQuery, 7); (KQuery, 7); (KQuery, 7); (KQuery, 7); (KQuery, 7)].
Proof. repeat split. Qed.
