(* Props_C18.v — property C18 (every statement of an operation carries the caller's context):
   ONLY theorem statements, each closed by [exact] of a lemma of C18_Proofs.v. *)
From Verif Require Import Base C18_Model C18_Check C18_Proofs.
Open Scope Z_scope.

(* For EVERY operation tree (any nesting of internal sessions, explicit rebindings, transactions,
   prepared-statement wrappers), started from any handle: if the context-copying code of
   getInstance / clone / Session is in place and every Session literal and call site of the tree
   has the form FactsOK_C18 establishes for all literals and sites of the source, the driver calls
   are exactly the expected ones, each with the caller's context or the innermost explicit rebinding. *)
Theorem c18_run_expected : forall cp n h, copies_ok cp = true -> node_ok n = true ->
  run cp n h = expected n (h_ctx h).
Proof. exact run_expected. Qed.
Print Assumptions c18_run_expected.

Theorem c18_ctx_preserved : forall cp n h, copies_ok cp = true -> node_ok n = true -> has_rebind n = false ->
  Forall (fun kc => snd kc = h_ctx h) (run cp n h).
Proof. exact ctx_preserved. Qed.
Print Assumptions c18_ctx_preserved.

(* a cancelled context lets no statement run, under database/sql's behaviour (Section hypothesis
   sql_refuses_done: a call with a done context is refused before it reaches the driver) *)
Theorem c18_cancelled_runs_nothing :
  forall (done : ctx -> bool) (reaches_driver : call -> bool),
  (forall k c, done c = true -> reaches_driver (k, c) = false) ->
  forall cp n h, copies_ok cp = true -> node_ok n = true -> has_rebind n = false -> done (h_ctx h) = true ->
  filter reaches_driver (run cp n h) = [].
Proof. exact cancelled_runs_nothing. Qed.
Print Assumptions c18_cancelled_runs_nothing.

(* the checker's per-event tree: when the event's literals and sites have the good forms, the model
   predicts the caller's tag — so a disagreement of check_case is a real difference *)
Theorem c18_event_tree : forall cp tag e,
  copies_ok cp = true -> forallb session_keeps_ctx (e_path e) = true -> site_passes_stmt_ctx (e_site e) = true ->
  match e_inner e with None => true | Some f => site_passes_param f end = true ->
  run cp (ev_tree tag e) root_handle = [(e_kind e, tag)].
Proof.
  intros cp tag e C P S I.
  assert (OK : node_ok (ev_tree tag e) = true).
  { unfold ev_tree. cbn [node_ok forallb]. rewrite andb_true_r.
    induction (e_path e) as [|l r IH]; cbn [fold_right node_ok forallb].
    - destruct (e_inner e); cbn; rewrite S; [cbn; rewrite I|]; reflexivity.
    - cbn in P. apply andb_prop in P. destruct P as [P1 P2]. rewrite P1, IH by exact P2. reflexivity. }
  rewrite run_expected by assumption. unfold ev_tree. cbn [expected flat_map]. rewrite app_nil_r.
  clear OK. induction (e_path e) as [|l r IH]; cbn [fold_right expected flat_map].
  - destruct (e_inner e); reflexivity.
  - cbn in P. apply andb_prop in P. rewrite app_nil_r. apply IH. apply P.
Qed.
Print Assumptions c18_event_tree.
