(* Where_Proofs.v — lemmas about Where_Model shared by C02 / C08 / C09. *)
From Verif Require Import Base Sem Where_Model.

(* ---------- clause.And never yields a bare single-member Or ---------- *)
Lemma mk_and_not_single_or l x : mk_and l = Some x -> is_single_or x = false.
Proof.
  destruct l as [|a [|b r]]; cbn; intros H; try discriminate.
  - destruct (is_or a) eqn:E; inversion H; subst; [reflexivity|].
    destruct x; try reflexivity. discriminate E.
  - inversion H; reflexivity.
Qed.

(* ---------- soft delete: the filter is a top-level AND operand ---------- *)
Lemma soft_delete_no_toplevel_or live nlive exprs :
  existsb is_single_or (soft_delete_exprs live nlive exprs) = false.
Proof.
  unfold soft_delete_exprs. rewrite existsb_app. cbn. rewrite orb_false_r.
  destruct (existsb is_single_or exprs) eqn:E; [|exact E].
  destruct (mk_and exprs) as [x|] eqn:M; cbn; [|reflexivity].
  rewrite (mk_and_not_single_or _ _ M). reflexivity.
Qed.

Lemma soft_delete_last live nlive exprs :
  exists pre, soft_delete_exprs live nlive exprs = pre ++ [XAtom live nlive].
Proof. unfold soft_delete_exprs. eexists; reflexivity. Qed.

Lemma find_non_single_or_none l i :
  existsb is_single_or l = false ->
  find_non_single_or l i = match l with [] => None | x :: _ => Some (i, x) end.
Proof.
  destruct l as [|x r]; cbn; [reflexivity|]. intros H. apply orb_false_elim in H.
  destruct H as [H _]. rewrite H. reflexivity.
Qed.

(* Where.Build does not reorder the expressions of a soft-delete statement *)
Lemma soft_delete_no_swap live nlive exprs :
  swap_first (soft_delete_exprs live nlive exprs) = soft_delete_exprs live nlive exprs.
Proof.
  pose proof (soft_delete_no_toplevel_or live nlive exprs) as H.
  unfold swap_first. destruct (soft_delete_exprs live nlive exprs) as [|x r] eqn:E; [reflexivity|].
  rewrite (find_non_single_or_none _ 0 H). reflexivity.
Qed.

(* ---------- C09: the guard ---------- *)
Lemma gt1_app_single {A} (l : list A) (x : A) : gt1 (l ++ [x]) = negb (match l with [] => true | _ => false end).
Proof. destruct l as [|a [|b r]]; reflexivity. Qed.

Lemma soft_delete_guard live nlive exprs :
  missing_where false true (soft_delete_exprs live nlive exprs)
  = match exprs with [] => true | _ => false end.
Proof.
  unfold missing_where, soft_delete_exprs. rewrite gt1_app_single, negb_involutive.
  destruct exprs as [|x r]; [reflexivity|].
  destruct (existsb is_single_or (x :: r)); [|reflexivity].
  destruct r; cbn; [destruct (is_or x)|]; reflexivity.
Qed.

Lemma plain_guard exprs :
  missing_where false false exprs = match exprs with [] => true | _ => false end.
Proof. reflexivity. Qed.

Lemma allow_guard soft exprs : missing_where true soft exprs = false.
Proof. reflexivity. Qed.
