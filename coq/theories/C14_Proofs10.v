(* C14_Proofs10.v — the proposed patch for the stale delete: guarded deletes. *)
From Verif Require Import Base C14_Model C14_Count C14_Proofs2 C14_Proofs3 C14_Proofs4 C14_Proofs5 C14_Proofs6 C14_Proofs7 C14_Proofs8.

(* ---- the proposed patch ------------------------------------------------------------------ *)
(* [s_guard] = true: delete(Stmts, query) only removes the entry the deleting call created
   (failed Prepare) resp. the entry carrying the statement the call used (ErrBadConn).  The flag
   is a constant of a run, and with it no entry is ever stolen. *)
Lemma step_guard_const s t th c s' l : step_th s t th c = Some (s', l) -> s_guard s' = s_guard s.
Proof. intro H. step_cases H. all: autorewrite with st; congruence. Qed.

Lemma step_guard_no_theft s t th c s' l :
  step_th s t th c = Some (s', l) -> s_guard s = true -> s_stolen s = false -> s_stolen s' = false.
Proof.
  intros H Hg Hs. step_cases H.
  all: autorewrite with st; try exact Hs.
  all: congruence.
Qed.

Lemma guarded_run g progs sched s :
  run (init_g g progs) sched = Some s -> s_guard s = g /\ (g = true -> s_stolen s = false).
Proof.
  assert (G : forall sched s0 s1, run s0 sched = Some s1 ->
              s_guard s1 = s_guard s0 /\ (s_guard s0 = true -> s_stolen s0 = false -> s_stolen s1 = false)).
  { clear. intro sc. induction sc as [|[t c] r IH]; intros s0 s1 Hr; cbn in Hr.
    - inversion Hr; subst. split; auto.
    - destruct (step s0 t c) as [s2|] eqn:E; [|discriminate].
      apply step_inv in E. destruct E as [th [l [Ht Hs]]].
      destruct (IH _ _ Hr) as [A B]. pose proof (step_guard_const _ _ _ _ _ _ Hs) as C.
      split; [congruence|]. intros Hg H0. apply B; [congruence|].
      eapply step_guard_no_theft; eauto. }
  intro Hr. destruct (G _ _ _ Hr) as [A B]. cbn in A, B. split; [exact A|].
  intro Hg. apply B; auto.
Qed.

(* with the patch "every statement the cache prepared is eventually closed" holds outright *)
Lemma leak_free_patched progs sched s :
  run (init_g true progs) sched = Some s -> all_done s = true -> s_map s = None -> leaked s = [].
Proof.
  intros Hr Hd Hm. destruct (guarded_run _ _ _ _ Hr) as [_ Hs].
  eapply leak_free_partial; eauto. exists true, sched. exact Hr.
Qed.

Lemma closed_eventually_patched progs sched s st q :
  run (init_g true progs) sched = Some s -> In (st, q, false) (s_prep s) -> safe s st.
Proof.
  intros Hr Hi. destruct (guarded_run _ _ _ _ Hr) as [_ Hs].
  eapply closed_eventually_partial; eauto. exists true, sched. exact Hr.
Qed.

(* the three leak witnesses, replayed on the patched variant (plus the two steps of the closer
   that the final Close now spawns for the surviving entry): nothing is left open *)
From Verif Require Import C14_Proofs.
Definition ends_clean (g : bool) (progs : list (list op)) (sched : list (nat * choice)) : bool :=
  match run (init_g g progs) sched with
  | Some s => all_done s && negb (s_stolen s) && map_is_nil s && nl_eqb (leaked s) []
  | None => false
  end.
Lemma witnesses_patched :
  ends_clean true w1_progs (w1_sched ++ tau 6 2) = true /\
  ends_clean true w1_progs (w2_sched ++ tau 5 2) = true /\
  ends_clean true w4_progs (w4_sched ++ tau 3 2) = true.
Proof. repeat split; vm_compute; reflexivity. Qed.
