(* C17_Back3.v — the backward domain, part 3: every in-domain call of a backward history keeps the invariant
   [binv]; the set F of names used as targets grows with the calls. *)
From Verif Require Import Base C17_Model C17_Check C17_Proofs C17_Proofs2 C17_Plugin C17_Plugin2 C17_Plugin3
  C17_Plugin4 C17_BackDef C17_Back C17_Back2.
From Coq Require Import Permutation.
Open Scope string_scope.
Open Scope list_scope.

Lemma tgts_in : forall s t, (t = st_before s \/ t = st_after s) -> is_none t = false -> In t (tgts s).
Proof.
  intros s t H Hn. unfold tgts. apply filter_In. split; [|now rewrite Hn].
  destruct H as [->| ->]; [left|right; left]; reflexivity.
Qed.

(* F = targets named by the calls before s.  No "*"; a (matched) Register does not take a name that has
   been a target, its own targets included *)
Definition ok_step (F : list string) (s : step) : Prop :=
  is_star (st_before s) = false /\ is_star (st_after s) = false
  /\ (st_kind s = KRegister -> st_matched s = true -> ~ In (st_name s) (tgts s ++ F)).

Lemma btgt_snoc : forall F F' front B U c t,
  incl F F' -> ~ In (cb_name c) F' ->
  btgt F front (map cb_name (B ++ U)) t -> btgt F' front (map cb_name (B ++ (U ++ [c]))) t.
Proof.
  intros F F' front B U c t Hi Hn [T|(Hs & Hf & T)]; [left; exact T|]. right.
  split; [exact Hs|]. split; [apply Hi, Hf|].
  destruct T as [T|T]; [left; exact T|]. right.
  rewrite app_assoc, map_app, in_app_iff. cbn. intros [H|[H|[]]]; [exact (T H)|].
  apply Hn. rewrite H. apply Hi, Hf.
Qed.

(* ---- Register *)
Lemma step_register : forall F p r B U s i,
  binv F p r B U -> r_dom (ref_apply r i s) = true -> st_kind s = KRegister -> ok_step F s ->
  exists B' U', compile_filter (p_cs p ++ [cb_of_step (p_cs p) s i]) = B' ++ U'
                /\ forall fns, binv (tgts s ++ F) (mk_proc (B' ++ U') fns) (ref_apply r i s) B' U'.
Proof.
  intros F p r B U s i I Hdom Hk (Sb & Sa & Hreg).
  destruct (dom_parts _ _ _ Hdom) as [Hd0 Hbok].
  pose proof (step_kept p r s i (bi_rel _ _ _ _ _ I) Hdom) as K. cbn zeta in K.
  destruct K as (Kn & Kf & Kd & Ku).
  assert (Rel' : forall kept fns, kept = compile_filter (p_cs p ++ [cb_of_step (p_cs p) s i]) ->
                 rel (mk_proc kept fns) (ref_apply r i s)).
  { intros kept fns ->. constructor; cbn; auto. }
  assert (HiF : incl F (tgts s ++ F)) by (apply incl_appr, incl_refl).
  destruct I as [R Hcs Hp HBn HU0 Ht Hbi Hnb Hhid].
  revert Hdom Kn Kf Kd Ku Rel'. unfold ref_apply, cb_of_step. rewrite Hk.
  rewrite compile_filter_plain by (auto using (rel_flags _ _ R); reflexivity). cbn [cb_matched].
  destruct (st_matched s) eqn:Em; cbn [negb].
  2:{ (* guarded out: nothing changes *)
      intros Hdom Kn Kf Kd Ku Rel'. rewrite app_nil_r in *. exists B, U. split; [exact Hcs|]. intro fns.
      apply binv_mono with (F := F); [exact HiF|].
      constructor; cbn [r_live r_used r_user p_cs].
      - apply Rel'. now rewrite Hcs.
      - reflexivity.
      - exact Hp.
      - exact HBn.
      - intro H. apply HU0. apply orb_false_iff in H. tauto.
      - exact Ht.
      - exact Hbi.
      - exact Hnb.
      - intros e He. destruct (Hhid e He) as (c & Hl & Hh). exists c. now rewrite <- Hcs. }
  intros Hdom Kn Kf Kd Ku Rel'. cbn in Hdom. rewrite !andb_true_iff, negb_true_iff, !orb_false_iff in Hdom.
  destruct Hdom as (_ & (_ & _) & Hmem).
  specialize (Hreg Hk eq_refl).
  set (n := st_name s) in *. set (c := mk_cb n (st_before s) (st_after s) false false true i) in *.
  assert (Hfresh : ~ In n (map cb_name (p_cs p))).
  { intro H. apply (rel_names _ _ R) in H. apply is_live_true in H. congruence. }
  assert (Hhid' : forall cs', cs' = p_cs p ->
            forall e, In e (r_live r ++ [mk_entry n (st_before s) (st_after s) i i (st_builtin s)]) ->
            exists x, last_named (cs' ++ [c]) (e_name e) = Some x /\ cb_hid x = e_hid e).
  { intros cs' -> e He. rewrite last_named_snoc. apply in_app_iff in He. destruct He as [He|[<-|[]]].
    - cbn [cb_name c]. destruct (String.eqb n (e_name e)) eqn:Eq.
      + apply String.eqb_eq in Eq. exfalso. apply Hfresh. apply (rel_names _ _ R). rewrite Eq. apply in_map, He.
      + apply Hhid, He.
    - cbn. rewrite String.eqb_refl. eauto. }
  destruct (st_builtin s) eqn:Hb.
  - (* a built-in registration: no user call yet, U = [], no request *)
    unfold builtin_ok in Hbok. rewrite Hb in Hbok. cbn in Hbok. rewrite !andb_true_iff, negb_true_iff in Hbok.
    destruct Hbok as (((Hnu & _) & Hbf) & Haf).
    unfold is_none in Hbf, Haf. apply String.eqb_eq in Hbf, Haf.
    specialize (HU0 Hnu). subst U. rewrite app_nil_r in Hcs.
    exists (B ++ [c]), []. split; [rewrite Hcs, app_nil_r; reflexivity|]. intro fns.
    constructor; cbn [r_live r_used r_user p_cs].
    + apply Rel'. now rewrite Hcs, !app_nil_r.
    + reflexivity.
    + intros b Hin. apply in_app_iff in Hin. destruct Hin as [Hin|[<-|[]]]; [apply Hp, Hin|]. split; cbn; assumption.
    + rewrite map_app, builtin_names_app, HBn. cbn. unfold builtin_names at 2. cbn. reflexivity.
    + reflexivity.
    + intros pre x post E. destruct pre; discriminate.
    + intros e He Heb. apply in_app_iff in He. destruct He as [He|[<-|[]]]; [apply Hbi; assumption|]. cbn. auto.
    + intros e He Heb. apply in_app_iff in He. destruct He as [He|[<-|[]]].
      * destruct (Hnb e He Heb) as (pre & c0 & post & E & _). destruct pre; discriminate.
      * cbn in Heb. congruence.
    + rewrite app_nil_r. apply Hhid'. symmetry. exact Hcs.
  - (* a user registration *)
    exists B, (U ++ [c]). split; [rewrite Hcs, app_assoc; reflexivity|]. intro fns.
    assert (Hcn : ~ In (cb_name c) (tgts s ++ F)) by exact Hreg.
    constructor; cbn [r_live r_used r_user p_cs].
    + apply Rel'. now rewrite Hcs, app_assoc.
    + reflexivity.
    + exact Hp.
    + rewrite builtin_names_app, HBn. unfold builtin_names at 2. cbn. now rewrite app_nil_r.
    + cbn. rewrite orb_true_r. discriminate.
    + intros pre x post E. apply snoc_split in E. destruct E as [(post' & -> & EU)|(-> & -> & ->)].
      * destruct (Ht pre x post' EU) as [Tb Ta]. split; eapply btgt_snoc; eauto.
      * assert (New : forall t, (t = st_before s \/ t = st_after s) -> is_star t = false ->
                  btgt (tgts s ++ F) (map cb_name (B ++ U)) (map cb_name (B ++ U ++ [c])) t).
        { intros t Ht' Hst. destruct (is_none t) eqn:En; [left; exact En|]. right.
          assert (HtF : In t (tgts s ++ F)) by (apply in_app_iff; left; apply tgts_in; assumption).
          split; [exact Hst|]. split; [exact HtF|].
          destruct (in_dec string_dec t (map cb_name (B ++ U))) as [Hin|Hout]; [left; exact Hin|right].
          rewrite app_assoc, map_app, in_app_iff. cbn. intros [H|[H|[]]]; [exact (Hout H)|].
          apply Hcn. cbn. rewrite H. exact HtF. }
        cbn [cb_before cb_after c]. split; apply New; auto.
    + intros e He Heb. apply in_app_iff in He. destruct He as [He|[<-|[]]]; [apply Hbi; assumption|].
      cbn in Heb. congruence.
    + intros e He Heb. apply in_app_iff in He. destruct He as [He|[<-|[]]].
      * destruct (Hnb e He Heb) as (pre & c0 & post & E & Hrest).
        exists pre, c0, (post ++ [c]). split; [rewrite E, <- app_assoc; reflexivity|exact Hrest].
      * cbn.
        exists U, c, []. split; [reflexivity|]. split; [reflexivity|]. split; [|split; reflexivity].
        intro H. apply Hfresh. rewrite Hcs, map_app. apply in_app_iff. right. exact H.
    + rewrite app_assoc. apply Hhid'. symmetry. exact Hcs.
Qed.

(* ---- Replace *)
Lemma step_replace : forall F p r B U s i,
  binv F p r B U -> r_dom (ref_apply r i s) = true -> st_kind s = KReplace ->
  exists B' U', compile_filter (p_cs p ++ [cb_of_step (p_cs p) s i]) = B' ++ U'
                /\ forall fns, binv F (mk_proc (B' ++ U') fns) (ref_apply r i s) B' U'.
Proof.
  intros F p r B U s i I Hdom Hk.
  destruct (dom_parts _ _ _ Hdom) as [Hd0 Hbok].
  assert (Hns : forall c, In c (p_cs p) -> nostar c).
  { rewrite (bi_cs _ _ _ _ _ I). apply back_ok_nostar. exact (binv_back_ok _ _ _ _ _ I). }
  pose proof (step_kept p r s i (bi_rel _ _ _ _ _ I) Hdom) as K. cbn zeta in K.
  destruct K as (Kn & Kf & Kd & Ku).
  assert (Rel' : forall kept fns, kept = compile_filter (p_cs p ++ [cb_of_step (p_cs p) s i]) ->
                 rel (mk_proc kept fns) (ref_apply r i s)).
  { intros kept fns ->. constructor; cbn; auto. }
  destruct I as [R Hcs Hp HBn HU0 Ht Hbi Hnb Hhid].
  assert (Hnb0 : st_builtin s = false).
  { unfold builtin_ok in Hbok. rewrite Hk in Hbok. destruct (st_builtin s); [|reflexivity].
    cbn in Hbok. rewrite andb_false_r in Hbok. discriminate. }
  revert Hdom Kn Kf Kd Ku Rel'. unfold ref_apply, cb_of_step. rewrite Hk.
  rewrite (replace_fields_nostar _ s Hns). cbn [fst snd].
  destruct (is_live (r_live r) (st_name s) && unconstrained s) eqn:El; [|discriminate].
  apply andb_true_iff in El. destruct El as [El Eu].
  unfold unconstrained in Eu. rewrite !andb_true_iff in Eu. destruct Eu as ((Eb & Ea) & Em).
  unfold is_none in Eb, Ea. apply String.eqb_eq in Eb, Ea.
  rewrite compile_filter_plain by (auto using (rel_flags _ _ R); reflexivity). cbn [cb_matched]. rewrite Em, Eb, Ea.
  intros Hdom Kn Kf Kd Ku Rel'.
  set (n := st_name s) in *. set (c := mk_cb n "" "" false true true i) in *.
  assert (Hlive : In n (map cb_name (B ++ U))).
  { rewrite <- Hcs. apply (rel_names _ _ R). apply is_live_true, El. }
  exists B, (U ++ [c]). split; [rewrite Hcs, app_assoc; reflexivity|]. intro fns.
  constructor; cbn [r_live r_used r_user p_cs].
  - apply Rel'. now rewrite Hcs, app_assoc.
  - reflexivity.
  - exact Hp.
  - now rewrite builtin_names_update.
  - rewrite Hnb0. cbn. rewrite orb_true_r. discriminate.
  - intros pre x post E. apply snoc_split in E. destruct E as [(post' & -> & EU)|(-> & -> & ->)].
    + destruct (Ht pre x post' EU) as [Tb Ta].
      assert (Keep : forall t, btgt F (map cb_name (B ++ pre)) (map cb_name (B ++ U)) t ->
                     btgt F (map cb_name (B ++ pre)) (map cb_name (B ++ U ++ [c])) t).
      { intros t [T|(Hs & Hf & T)]; [left; exact T|]. right. split; [exact Hs|]. split; [exact Hf|].
        destruct T as [T|T]; [left; exact T|]. right.
        rewrite app_assoc, map_app, in_app_iff. cbn. intros [H|[H|[]]]; [exact (T H)|].
        apply T. rewrite <- H. exact Hlive. }
      split; apply Keep; assumption.
    + cbn. split; apply btgt_none.
  - intros e He Heb. apply in_map_iff in He. destruct He as (e0 & <- & He0).
    destruct (named n e0); cbn in *; apply (Hbi e0 He0 Heb).
  - intros e He Heb. apply in_map_iff in He. destruct He as (e0 & <- & He0).
    assert (Heb0 : e_builtin e0 = false) by (destruct (named n e0); exact Heb).
    destruct (Hnb e0 He0 Heb0) as (pre & c0 & post & E & Hrest).
    match goal with |- context [if named n e0 then ?x else e0] => set (e' := if named n e0 then x else e0) in * end.
    assert (Sn : e_name e' = e_name e0) by (unfold e'; destruct (named n e0); reflexivity).
    assert (Sb : e_before e' = e_before e0) by (unfold e'; destruct (named n e0); reflexivity).
    assert (Sa : e_after e' = e_after e0) by (unfold e'; destruct (named n e0); reflexivity).
    rewrite Sn, Sb, Sa.
    exists pre, c0, (post ++ [c]). split; [rewrite E, <- app_assoc; reflexivity|exact Hrest].
  - intros e He. apply in_map_iff in He. destruct He as (e0 & <- & He0).
    rewrite app_assoc, <- Hcs, last_named_snoc. cbn [cb_name c].
    unfold named. destruct (String.eqb (e_name e0) n) eqn:Eq; cbn [e_name e_hid].
    + rewrite String.eqb_sym, Eq. exists c. split; reflexivity.
    + rewrite String.eqb_sym, Eq. apply Hhid, He0.
Qed.

(* ---- Remove *)
Lemma step_remove : forall F p r B U s i,
  binv F p r B U -> r_dom (ref_apply r i s) = true -> st_kind s = KRemove ->
  exists B' U', compile_filter (p_cs p ++ [cb_of_step (p_cs p) s i]) = B' ++ U'
                /\ forall fns, binv F (mk_proc (B' ++ U') fns) (ref_apply r i s) B' U'.
Proof.
  intros F p r B U s i I Hdom Hk.
  destruct (dom_parts _ _ _ Hdom) as [Hd0 Hbok].
  pose proof (step_kept p r s i (bi_rel _ _ _ _ _ I) Hdom) as K. cbn zeta in K.
  destruct K as (Kn & Kf & Kd & Ku).
  assert (Rel' : forall kept fns, kept = compile_filter (p_cs p ++ [cb_of_step (p_cs p) s i]) ->
                 rel (mk_proc kept fns) (ref_apply r i s)).
  { intros kept fns ->. constructor; cbn; auto. }
  destruct I as [R Hcs Hp HBn HU0 Ht Hbi Hnb Hhid].
  assert (Hnb0 : st_builtin s = false).
  { unfold builtin_ok in Hbok. rewrite Hk in Hbok. destruct (st_builtin s); [|reflexivity].
    cbn in Hbok. rewrite andb_false_r in Hbok. discriminate. }
  revert Hdom Kn Kf Kd Ku Rel'. unfold ref_apply, cb_of_step. rewrite Hk.
  destruct (is_live (r_live r) (st_name s) && unconstrained s) eqn:El; [|discriminate].
  apply andb_true_iff in El. destruct El as [El Eu].
  unfold unconstrained in Eu. rewrite !andb_true_iff in Eu. destruct Eu as (_ & Em).
  rewrite compile_filter_remove by (auto using (rel_flags _ _ R); reflexivity). cbn [cb_name].
  intros Hdom Kn Kf Kd Ku Rel'.
  set (n := st_name s) in *. set (f := fun x : cb => negb (String.eqb n (cb_name x))) in *.
  exists (filter f B), (filter f U). split; [rewrite Hcs, filter_app; reflexivity|]. intro fns.
  assert (Hne : forall e, In e (filter (fun e => negb (named n e)) (r_live r)) -> In e (r_live r) /\ e_name e <> n).
  { intros e He. apply filter_In in He. destruct He as [He Hn]. split; [exact He|].
    unfold named in Hn. apply negb_true_iff, String.eqb_neq in Hn. exact Hn. }
  assert (Hfn : forall l t, In t (map cb_name (filter f l)) <-> (In t (map cb_name l) /\ t <> n)).
  { intros l t. unfold f. rewrite map_filter_name, filter_In, negb_true_iff, String.eqb_neq.
    split; intros [H1 H2]; split; auto. }
  constructor; cbn [r_live r_used r_user p_cs].
  - apply Rel'. now rewrite Hcs, filter_app.
  - reflexivity.
  - intros b Hb. apply filter_In in Hb. apply Hp, Hb.
  - unfold f. now rewrite map_filter_name, HBn, builtin_names_filter.
  - rewrite Hnb0. cbn. rewrite orb_true_r. discriminate.
  - intros pre' x post' E. apply filter_split in E. destruct E as (pre & post & EU & <- & <-).
    destruct (Ht pre x post EU) as [Tb Ta].
    assert (Keep : forall t, btgt F (map cb_name (B ++ pre)) (map cb_name (B ++ U)) t ->
                   btgt F (map cb_name (filter f B ++ filter f pre)) (map cb_name (filter f B ++ filter f U)) t).
    { intros t [T|(Hs & Hf & T)]; [left; exact T|]. right. split; [exact Hs|]. split; [exact Hf|].
      rewrite <- !filter_app.
      destruct (string_dec t n) as [->|Hne'].
      - right. intro H. apply Hfn in H. tauto.
      - destruct T as [T|T]; [left; apply Hfn; auto|right].
        intro H. apply Hfn in H. tauto. }
    split; apply Keep; assumption.
  - intros e He Heb. apply Hbi; [apply (Hne e He)|exact Heb].
  - intros e He Heb. destruct (Hne e He) as [He0 Hn0].
    destruct (Hnb e He0 Heb) as (pre & c0 & post & E & Ecn & Hpre & Hrest).
    exists (filter f pre), c0, (filter f post). split.
    + rewrite E, filter_app. cbn. unfold f at 2. rewrite Ecn.
      assert (Hx : String.eqb n (e_name e) = false) by (apply String.eqb_neq; congruence). now rewrite Hx.
    + split; [exact Ecn|]. split; [|exact Hrest].
      intro H. apply Hpre. apply in_map_iff in H. destruct H as (x & Hx & Hxin). apply filter_In in Hxin.
      rewrite <- Hx. apply in_map, Hxin.
  - intros e He. destruct (Hne e He) as [He0 Hn0].
    rewrite <- filter_app, <- Hcs, last_named_filter; [apply Hhid, He0|].
    intros x _ Hx. unfold f. apply negb_true_iff, String.eqb_neq. congruence.
Qed.
