(* Props_C09.v — property C09: theorem statements only. *)
From Verif Require Import Base Sem Where_Model Where_Proofs C09_Proofs.

(* For EVERY chain of Where/Not/Or calls (any length, any nesting of grouped sub-builders, any
   unit form), on plain and soft-delete models, with or without a primary key in the model
   value: with AllowGlobalUpdate off the guard of Update/Delete reports ErrMissingWhereClause
   exactly when the chain supplies no effective condition and the model value has no primary
   key — the automatically added soft-delete filter never counts as a condition, and a chain
   that does supply a condition is never rejected. *)
Theorem c09_guard_iff : forall tbl cs exprs eff (soft_on pk : bool) live nlive pka npka,
  chain_ok tbl cs = true ->
  build_chain tbl cs = Some exprs -> effective tbl cs = Some eff ->
  let exprs1 := if pk then exprs ++ [XAtom pka npka] else exprs in
  let exprs2 := if soft_on then soft_delete_exprs live nlive exprs1 else exprs1 in
  missing_where false soft_on exprs2 = negb (eff || pk).
Proof. exact guard_iff. Qed.
Print Assumptions c09_guard_iff.

(* with AllowGlobalUpdate (configuration or session) nothing is rejected on this ground *)
Theorem c09_allow_never_rejects : forall soft exprs, missing_where true soft exprs = false.
Proof. exact allow_guard. Qed.
Print Assumptions c09_allow_never_rejects.

(* a unit builds no WHERE expression exactly when it has no meaning to contribute: empty string,
   empty map, all-zero struct, empty slice, and groups made only of such units *)
Theorem c09_unit_empty_iff : forall tbl u l m,
  unit_ok tbl u = true -> build_cond tbl u = Some l -> umean tbl u = Some m ->
  (l = [] <-> m = None).
Proof. exact unit_empty_iff. Qed.
Print Assumptions c09_unit_empty_iff.

(* non-vacuity: a chain with a non-empty group and an empty map meets the hypotheses *)
Example c09_instance :
  let tbl := [(1, ["age = 1"%string])] in
  let cs := [(KWhere, UMap []); (KNot, UGroup [(KWhere, URaw "" ""); (KOr, URaw "age = 1" "age = 1")])] in
  chain_ok tbl cs = true /\ (exists e, build_chain tbl cs = Some e /\ e <> []) /\ effective tbl cs = Some true.
Proof. cbv zeta. split; [reflexivity|]. split; [eexists; split; [vm_compute; reflexivity|discriminate]|vm_compute; reflexivity]. Qed.
