(* Props_C09.v — property C09: theorem statements only. *)
From Verif Require Import Base Sem Where_Model Where_Proofs C09_Proofs C09_Keys C09_KeysProofs C02_Args C02_ArgsProofs.

(* For EVERY chain of Where/Not/Or calls (any length, any nesting of grouped sub-builders, any
   unit form), on plain and soft-delete models, with or without a primary key in the model
   value: with AllowGlobalUpdate off the guard of Update/Delete reports ErrMissingWhereClause
   exactly when the chain supplies no effective condition and the model value has no primary
   key — the automatically added soft-delete filter never counts as a condition, and a chain
   that does supply a condition is never rejected. *)
Theorem c09_guard_iff : forall tbl cs exprs eff (soft_on pk : bool) live nlive pka npka,
  chain_ok tbl cs = true ->
  build_chain tbl cs = Some exprs -> effective tbl cs = Some eff ->
  let exprs1 := if pk then exprs ++ [XAtom pka npka] else exprs in
  let exprs2 := if soft_on then soft_delete_exprs live nlive exprs1 else exprs1 in
  missing_where false soft_on exprs2 = negb (eff || pk).
Proof. exact guard_iff. Qed.
Print Assumptions c09_guard_iff.

(* with AllowGlobalUpdate (configuration or session) nothing is rejected on this ground *)
Theorem c09_allow_never_rejects : forall soft exprs, missing_where true soft exprs = false.
Proof. exact allow_guard. Qed.
Print Assumptions c09_allow_never_rejects.

(* a unit builds no WHERE expression exactly when it has no meaning to contribute: empty string,
   empty map, all-zero struct, empty slice, and groups made only of such units *)
Theorem c09_unit_empty_iff : forall tbl u l m,
  unit_ok tbl u = true -> build_cond tbl u = Some l -> umean tbl u = Some m ->
  (l = [] <-> m = None).
Proof. exact unit_empty_iff. Qed.
Print Assumptions c09_unit_empty_iff.

(* non-vacuity: a chain with a non-empty group and an empty map meets the hypotheses *)
Example c09_instance :
  let tbl := [(1, ["age = 1"%string])] in
  let cs := [(KWhere, UMap []); (KNot, UGroup [(KWhere, URaw "" ""); (KOr, URaw "age = 1" "age = 1")])] in
  chain_ok tbl cs = true /\ (exists e, build_chain tbl cs = Some e /\ e <> []) /\ effective tbl cs = Some true.
Proof. cbv zeta. split; [reflexivity|]. split; [eexists; split; [vm_compute; reflexivity|discriminate]|vm_compute; reflexivity]. Qed.

(* "a model value without primary key": the key-condition code of Delete (IN over the identity rows
   of the deleted value and of the Model value) and of the update methods (one Eq per non-zero key
   field of a record, IN over a slice when some element has one) contributes a condition exactly
   when some record handed over has a key field that is not zero - for every number of key fields,
   records and values *)
Theorem c09_key_cond_iff : forall del vals, key_cond del vals = has_key vals.
Proof. exact key_cond_iff. Qed.
Print Assumptions c09_key_cond_iff.

Theorem c09_has_key_spec : forall vals,
  has_key vals = true <->
  exists v r, In v vals /\ (v = VStruct r \/ (exists rs, v = VSlice rs /\ In r rs)
                            \/ (exists cols, v = VSelf cols /\ r = self_record cols)) /\ In false r.
Proof. exact has_key_spec. Qed.
Print Assumptions c09_has_key_spec.

(* the update value is the model itself (db.Updates(&v) without Model): the loop over the schema's
   columns sends a key column to the condition branch before Select / Omit are looked at - two
   column lists that differ only in what Select / Omit say about each column add the same key
   conditions, so naming the key in Select or Omit can neither drop nor add the condition *)
Theorem c09_self_key_ignores_select : forall cols cols',
  map (fun c => (col_pk c, col_zero c)) cols = map (fun c => (col_pk c, col_zero c)) cols' ->
  key_cond false [VSelf cols] = key_cond false [VSelf cols'].
Proof.
  intros cols cols' H. unfold key_cond, update_key_conds. cbn [fold_left].
  rewrite (self_key_ignores_select cols cols' H). reflexivity.
Qed.
Print Assumptions c09_self_key_ignores_select.

(* the guard with the key conditions computed by gorm's own code *)
Theorem c09_guard_iff_keys : forall tbl cs exprs eff (soft_on del : bool) vals live nlive pka npka,
  chain_ok tbl cs = true ->
  build_chain tbl cs = Some exprs -> effective tbl cs = Some eff ->
  let exprs1 := if key_cond del vals then exprs ++ [XAtom pka npka] else exprs in
  let exprs2 := if soft_on then soft_delete_exprs live nlive exprs1 else exprs1 in
  missing_where false soft_on exprs2 = negb (eff || has_key vals).
Proof.
  intros tbl cs exprs eff soft_on del vals live nlive pka npka Hok Hb He.
  rewrite <- (key_cond_iff del vals). exact (guard_iff tbl cs exprs eff soft_on (key_cond del vals) live nlive pka npka Hok Hb He).
Qed.
Print Assumptions c09_guard_iff_keys.

(* non-vacuity: a composite key (id, age) with id = 3, age = 0 is a key; all-zero records are none *)
Example c09_keys_instance :
  key_cond true [VStruct [false; true]] = true /\ key_cond false [VStruct [false; true]] = true
  /\ key_cond true [VStruct [true; true]; VSlice [[true]; [true]]] = false
  /\ key_cond false [VSlice [[true]; [false]]] = true
  /\ key_cond false [VSelf [mk_col true false (Some false); mk_col false true None]] = true
  /\ key_cond false [VSelf [mk_col true true (Some true); mk_col false false (Some true)]] = false.
Proof. repeat split. Qed.

(* the condition-free forms on the level of Go values (C02_Args: Statement.BuildCondition's loop over
   the values, evaluated by check_case on the Go values of every map / struct / key unit): one value
   builds no condition exactly when it is nil, an empty map, an all-zero struct without selected
   columns, a slice of such structs, or an empty slice of keys - a non-empty map is a condition
   whatever its values (blank strings, zeros) *)
Theorem c09_value_empty_iff : forall a, bc_args [a] = [] <-> arg_empty a = true.
Proof. exact single_empty_iff. Qed.
Print Assumptions c09_value_empty_iff.

Example c09_value_instance :
  bc_args [AMapSS [true]] = [1%nat] /\ arg_empty (AMapSS [true]) = false /\ arg_empty (AMapSS []) = true
  /\ arg_empty (AStruct [mk_gf true false true]) = true /\ arg_empty (AStruct [mk_gf true true true]) = false.
Proof. repeat split. Qed.
