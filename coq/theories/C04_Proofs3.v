(* C04_Proofs3.v — nested blocks and whole bodies: the invariant of C04_Proofs2 holds for every
   program, by induction on the block tree. *)
From Verif Require Import Base C04_Model C04_Check C04_Proofs C04_Proofs2.
Open Scope Z_scope.

Lemma stmt_errs_OC : forall e l x r, stmt_errs_l [OC e l x r] = stmt_errs_l l.
Proof. intros; unfold stmt_errs_l; cbn [flat_map stmt_errs]; apply app_nil_r. Qed.
Lemma save_errs_OC : forall e l x r, save_errs_l [OC e l x r] = save_errs_l l.
Proof. intros; unfold save_errs_l; cbn [flat_map save_errs]; apply app_nil_r. Qed.
Lemma spec_OC : forall nest e l x r ts,
  spec_list nest [OC e l x r] ts =
  match x with CNil => spec_list nest l ts | _ => if nest then ts else spec_list nest l ts end.
Proof. reflexivity. Qed.
Lemma prop_OC : forall e l x r,
  forallb prop_ok [OC e l x r] =
  (if is_nil x then (if e then is_nil r else negb (is_nil r)) else cls_eqb r x) && forallb prop_ok l.
Proof. intros; cbn [forallb prop_ok]; rewrite andb_true_r; reflexivity. Qed.
Lemma prop_OC_same : forall l r, forallb prop_ok l = true -> forallb prop_ok [OC true l (cls_of r) (cls_of r)] = true.
Proof.
  intros l r H. rewrite prop_OC, H, andb_true_r.
  destruct r; cbn [cls_of is_nil]; [reflexivity | apply cls_eqb_refl | apply cls_eqb_refl].
Qed.
Lemma is_nil_cls_of : forall r, is_ok r = false -> is_nil (cls_of r) = false.
Proof. intros [| |]; cbn; congruence. Qed.

Section Nested.
Variable E : env.
Hypothesis savepoint_pushes : forall n t, sq_save E n t = ref_save n t.
Hypothesis rollback_to_exact : forall n t, sq_rbto E n t = ref_rbto n t.
Variable C : cfg.
Hypothesis savepoints : c_nosp C = false.
Variable fault : nat -> bool.
Let nest := negb (c_nonest C).
Notation Inv := (Inv C).

Definition body_spec (body : option err -> st -> res * list obs * option err * st) : Prop :=
  forall hc sc r l h' s' tc basec,
    body hc sc = (r, l, h', s') -> s_dead sc = false ->
    s_tx sc = Some (mkTx tc basec) -> gen_ok (s_gen sc) basec ->
    x_rb (s_fl s') = false -> x_drop (s_fl s') = false ->
    exists t' lc, Inv basec (is_ok r) hc sc tc [] l h' s' t' lc.

Lemma le_false : forall a b, (a = true -> b = true) -> b = false -> a = false.
Proof. intros [|] b H Hb; [rewrite (H eq_refl) in Hb; discriminate | reflexivity]. Qed.

Lemma new_from_nil_app : forall g lc (local : stack) extra,
  new_names g [] lc ->
  (forall x, In x extra -> In x local \/ exists k t, x = (NGen k, t) /\ (g <= k)%nat) ->
  new_names g local (lc ++ extra).
Proof.
  intros g lc local extra H Hx nm t Hin. apply in_app_or in Hin. destruct Hin as [Hin|Hin].
  - destruct (H nm t Hin) as [[]|K]; right; exact K.
  - destruct (Hx _ Hin) as [K|[k [t0 [K L]]]]; [left; exact K|].
    inversion K; subst. right; left; exists k; split; [reflexivity | exact L].
Qed.

Lemma new_names_weaken : forall g g' a b, (g <= g')%nat -> new_names g' a b -> new_names g a b.
Proof.
  intros g g' a b L H nm t Hin. destruct (H nm t Hin) as [K|[[k [Ek Lk]]|K]].
  - left; exact K.
  - right; left; exists k; split; [exact Ek | lia].
  - right; right; exact K.
Qed.

Lemma nested_step : forall body, body_spec body -> body_mono body ->
  forall h s r o h1 s1 t local base,
  nested0 E C fault body h s = (r, o, h1, s1) -> s_dead s = false ->
  s_tx s = Some (mkTx t (local ++ base)) -> gen_ok (s_gen s) (local ++ base) ->
  x_rb (s_fl s1) = false -> x_drop (s_fl s1) = false ->
  h1 = h /\
  ((exists t1 local1 l, o = OC true l (cls_of r) (cls_of r) /\ Inv base true h s t local [o] h s1 t1 local1
       /\ (forall avail, Sub avail (unames local) -> Sub avail (unames local1)))
   \/ (exists e, r = RErr e /\ o = OC false [] CNil (CErr e) /\ Inv base true h s t local [o] h s1 t local)).
Proof.
  intros body HB HM h s r o h1 s1 t local base H Hdead Htx Hg Hrb Hdr. unfold nested0 in H.
  destruct (c_nonest C || s_nonest s) eqn:En.
  - (* nested transactions disabled: the function runs on the enclosing transaction *)
    destruct (body h s) as [[[r0 l0] h0] s0] eqn:Eb. inversion H; subst r o h1 s1. clear H.
    split; [reflexivity|].
    destruct (HB _ _ _ _ _ _ t (local ++ base) Eb Hdead Htx Hg Hrb Hdr) as [t' [lc HI]].
    destruct HI as (A1 & A2 & A3 & A4 & A5 & A6 & A7 & A8 & A9 & nops & B1 & B2 & B3).
    cbn [app] in A2. unfold nest_of in A2. rewrite En in A2; cbn [negb] in A2.
    left. exists t', (lc ++ local), l0. split; [reflexivity|].
    split; [|intros avail HS; rewrite unames_app; apply Sub_app_l; exact HS].
    unfold C04_Proofs2.Inv, nest_of. rewrite ?En; cbn [negb].
    split. { rewrite <- app_assoc; exact A1. }
    split. { rewrite spec_OC, <- app_assoc. rewrite A2. destruct (cls_of r0); reflexivity. }
    split. { rewrite <- app_assoc; exact A3. }
    split; [exact A4|].
    split. { apply new_from_nil_app; [exact A5 | intros x Hx; left; exact Hx]. }
    split; [exact A6|]. split; [exact A7|].
    split. { apply prop_OC_same; exact A8. }
    split; [exact A9|].
    exists nops. split; [exact B1|]. split; [exact B2|].
    intros Hh. destruct (B3 Hh) as (D1 & D2 & D3 & D4 & D5).
    rewrite stmt_errs_OC, save_errs_OC. repeat split; auto.
  - (* SAVEPOINT + deferred ROLLBACK TO, both on a copy of the handle *)
    set (g := s_gen s) in *.
    destruct (h_sp E C fault true (NGen g) h (next_gen s)) as [h1' s1'] eqn:Es.
    assert (Htx' : s_tx (next_gen s) = Some (mkTx t (local ++ base))) by exact Htx.
    assert (Hg1 : gen_ok (S g) (local ++ base)).
    { eapply gen_ok_incl; [exact Hg | unfold g; lia | auto]. }
    destruct h1' as [e1|].
    + (* the SAVEPOINT failed: Transaction returns its error without calling the function;
         the enclosing handle is untouched *)
      inversion H; subst r o h1 s1. clear H. split; [reflexivity|].
      right. exists e1. split; [reflexivity|]. split; [reflexivity|].
      destruct (h_sp_cases E savepoint_pushes rollback_to_exact C savepoints fault _ _ _ _ _ _ _ Es Hdead Htx' Hdr)
        as [[e0 [Eh [Er [E1 Es1]]]] | [Eh [K | [K | [K | K]]]]]; cbv zeta in *.
      * subst h s1'. unfold C04_Proofs2.Inv. cbn [next_gen s_tx s_gen s_db s_txlog s_ops s_fl].
        repeat (split; [first [assumption | reflexivity | lia | apply new_names_refl | apply flags_le_refl | (unfold s_logd; cbn; congruence)]|]).
        exists []. split; [reflexivity|]. split; [reflexivity|]. intros Hh; discriminate.
      * destruct K as [Ef [Er [E1 Es1]]]. subst h s1'. cbn [next_gen s_ops] in Ef.
        unfold C04_Proofs2.Inv. cbn [next_gen s_tx s_gen s_db s_txlog s_ops s_fl].
        repeat (split; [first [assumption | reflexivity | lia | apply new_names_refl | apply flags_le_refl | (unfold s_logd; cbn; congruence)]|]).
        exists [(KSave, fault (length (s_ops s)))]. rewrite Ef. split; [reflexivity|]. split; [reflexivity|]. fin.
      * destruct K as [_ [_ [K _]]]; discriminate.
      * destruct K as [_ [K _]]; discriminate.
      * destruct K as [_ [K _]]; discriminate.
    + (* the function runs above the save point *)
      destruct (body h s1') as [[[r0 l0] h0] s2] eqn:Eb.
      assert (F12 : flags_le (s_fl s1') (s_fl s2)) by (eapply HM; exact Eb).
      assert (Hfin : h1 = h /\ flags_le (s_fl s2) (s_fl s1) /\
                     (is_ok r0 = true -> r = ROk /\ o = OC true l0 CNil CNil /\ s1 = s2) /\
                     (is_ok r0 = false -> fault (length (s_ops s2)) = false /\
                        exists h2, h_sp E C fault false (NGen g) h s2 = (h2, s1) /\ r = r0
                                   /\ o = OC true l0 (cls_of r0) (cls_of r0))).
      { destruct r0.
        - inversion H; subst. split; [reflexivity|]. split; [apply flags_le_refl|].
          split; [intros _; repeat split; reflexivity | discriminate].
        - destruct (fault (length (s_ops s2))) eqn:Ef.
          + destruct (h_sp E C fault false (NGen g) h (flag_rb s2)) as [h2 s3] eqn:Er.
            inversion H; subst. apply h_sp_flags in Er. destruct Er as [Er _].
            cbn in Er. rewrite (Er eq_refl) in Hrb. discriminate.
          + destruct (h_sp E C fault false (NGen g) h s2) as [h2 s3] eqn:Er.
            inversion H; subst. split; [reflexivity|]. split; [eapply h_sp_flags; exact Er|].
            split; [discriminate|].
            intros _. split; [reflexivity|]. eexists. split; [first [exact Er | reflexivity]|]. repeat split; reflexivity.
        - destruct (fault (length (s_ops s2))) eqn:Ef.
          + destruct (h_sp E C fault false (NGen g) h (flag_rb s2)) as [h2 s3] eqn:Er.
            inversion H; subst. apply h_sp_flags in Er. destruct Er as [Er _].
            cbn in Er. rewrite (Er eq_refl) in Hrb. discriminate.
          + destruct (h_sp E C fault false (NGen g) h s2) as [h2 s3] eqn:Er.
            inversion H; subst. split; [reflexivity|]. split; [eapply h_sp_flags; exact Er|].
            split; [discriminate|].
            intros _. split; [reflexivity|]. eexists. split; [first [exact Er | reflexivity]|]. repeat split; reflexivity. }
      clear H. destruct Hfin as [Hh1 [F2f [Hok Hfail]]]. split; [exact Hh1|]. clear Hh1.
      assert (Hrb2 : x_rb (s_fl s2) = false) by (destruct F2f as [F _]; eapply le_false; eassumption).
      assert (Hdr2 : x_drop (s_fl s2) = false) by (destruct F2f as [_ F]; eapply le_false; eassumption).
      assert (Hdr1 : x_drop (s_fl s1') = false) by (destruct F12 as [_ F]; eapply le_false; eassumption).
      destruct (h_sp_cases E savepoint_pushes rollback_to_exact C savepoints fault _ _ _ _ _ _ _ Es Hdead Htx' Hdr1)
        as [[e0 [Eh [Er [E1 Es1]]]] | [Eh [K | [K | [K | K]]]]]; cbv zeta in *;
        try (destruct K as [_ [K _]]; discriminate); try discriminate.
      { destruct K as [_ [_ [K _]]]; discriminate. }
      destruct K as [Ef [_ [_ Es1]]]. subst h. cbn [next_gen s_ops] in Ef.
      cbn [next_gen s_tx s_gen s_db s_txlog s_ops s_fl ref_save work sps] in Es1.
      set (basec := (NGen g, t) :: local ++ base).
      assert (Htxc : s_tx s1' = Some (mkTx t basec)) by (subst s1'; reflexivity).
      assert (Hgc : gen_ok (s_gen s1') basec).
      { subst s1'; cbn [set_tx s_gen]. intros k t0 [Hin|Hin]; [inversion Hin; lia | eapply Hg1; exact Hin]. }
      assert (Hdead1 : s_dead s1' = false) by (subst s1'; exact Hdead).
      assert (Hnn1 : s_nonest s1' = s_nonest s) by (subst s1'; reflexivity).
      destruct (HB _ _ _ _ _ _ t basec Eb Hdead1 Htxc Hgc Hrb2 Hdr2) as [t' [lc HI]].
      destruct HI as (A1 & A2 & A3 & A4 & A5 & A6 & A7 & A8 & A9 & nops & B1 & B2 & B3).
      cbn [app] in A2. unfold nest_of in A2. rewrite Hnn1, En in A2; cbn [negb] in A2.
      assert (Hfu : fu basec = fu (local ++ base)) by reflexivity.
      assert (Hgen1 : s_gen s1' = S g) by (subst s1'; reflexivity).
      assert (Hops1 : s_ops s1' = (KSave, false) :: s_ops s) by (subst s1'; cbn; rewrite Ef; reflexivity).
      assert (Hdead2 : s_dead s2 = false) by (rewrite (f_equal (fun x => snd (fst x)) A7 : s_dead s2 = s_dead s1'); exact Hdead1).
      assert (Hdb1 : s_db s1' = s_db s /\ s_logd s1' = s_logd s /\ s_fl s1' = s_fl s) by (subst s1'; repeat split).
      destruct Hdb1 as [Hdb1 [Hlog1 Hfl1]].
      destruct (is_ok r0) eqn:Eok.
      * (* returned nil: nothing more happens; the save point stays on the stack *)
        destruct (Hok eq_refl) as [Er [Eo Es2]]. subst r o s1.
        assert (Er0 : r0 = ROk) by (destruct r0; try discriminate; reflexivity). subst r0.
        left. exists t', (lc ++ (NGen g, t) :: local), l0. split; [reflexivity|].
        split; [|intros avail HS; rewrite unames_app; apply Sub_app_l; exact HS].
        unfold C04_Proofs2.Inv, nest_of. rewrite ?En; cbn [negb].
        split. { rewrite <- app_assoc; exact A1. }
        split. { rewrite spec_OC, <- app_assoc. rewrite <- Hfu. exact A2. }
        split. { rewrite <- app_assoc; exact A3. }
        split; [fold g; lia|].
        split. { apply new_from_nil_app.
                 - eapply new_names_weaken; [|exact A5]. fold g; lia.
                 - intros x [Hx|Hx]; [right; exists g, t; split; [symmetry; exact Hx | fold g; lia] | left; exact Hx]. }
        split; [congruence|]. split; [congruence|].
        split. { rewrite prop_OC, A8; reflexivity. }
        split. { rewrite <- Hfl1; exact A9. }
        exists (nops ++ [(KSave, false)]). split. { rewrite B1, Hops1, <- app_assoc; reflexivity. }
        split. { rewrite forallb_app, B2; reflexivity. }
        intros _. destruct (B3 eq_refl) as (D1 & D2 & D3 & D4 & D5).
        rewrite stmt_errs_OC, save_errs_OC, !countf_app. cbn [countf filter fst snd opkind_eqb andb length].
        repeat split; try assumption; lia.
      * (* failed: ROLLBACK TO the save point, which is still there *)
        destruct (Hfail eq_refl) as [Ef2 [h2 [Er [Err Eo]]]]. subst r o.
        assert (Hfresh : forall x, In x lc -> spname_eqb (NGen g) (fst x) = false).
        { intros [nm t0] Hx. destruct (A5 nm t0 Hx) as [[]|[[k [Ek Lk]]|[n Eu]]]; subst; cbn.
          - apply Nat.eqb_neq. lia.
          - reflexivity. }
        destruct (h_sp_cases E savepoint_pushes rollback_to_exact C savepoints fault _ _ _ _ _ _ _ Er Hdead2 A1 Hdr)
          as [[e0 [Eh [_ _]]] | [_ [K | [K | [K | K]]]]]; cbv zeta in *.
        -- discriminate.
        -- destruct K as [K _]. rewrite K in Ef2; discriminate.
        -- destruct K as [_ [K _]]; discriminate.
        -- destruct K as [_ [_ [tx' [Erb [Eh2 Es3]]]]].
           unfold basec in Erb. rewrite rbto_exact in Erb by exact Hfresh. inversion Erb; subst tx'. clear Erb.
           subst h2 s1.
           left. exists t, ((NGen g, t) :: local), l0. split; [reflexivity|].
           split; [|intros avail HS; exact HS].
           unfold C04_Proofs2.Inv, nest_of. rewrite ?En; cbn [negb]. cbn [set_tx s_tx s_gen s_db s_txlog s_ops s_fl].
           split; [reflexivity|].
           split. { rewrite spec_OC.
                    destruct (cls_of r0) eqn:Ec; [destruct r0; discriminate | reflexivity | reflexivity]. }
           split. { intros k t0 [Hin|Hin]; [inversion Hin; lia | specialize (Hg1 _ _ Hin); lia]. }
           split; [fold g; lia|].
           split. { intros nm t0 [Hin|Hin]; [inversion Hin; subst; right; left; exists g; split; [reflexivity | fold g; lia] | left; exact Hin]. }
           split; [congruence|]. split; [change (s_logd s2 = s_logd s); congruence|].
           split. { apply prop_OC_same; exact A8. }
           split. { rewrite <- Hfl1; exact A9. }
           exists ((KRbTo, fault (length (s_ops s2))) :: nops ++ [(KSave, false)]).
           split. { rewrite B1, Hops1. cbn [app]. rewrite <- app_assoc. reflexivity. }
           split. { cbn [forallb body_op fst]. rewrite forallb_app, B2; reflexivity. }
           intros _. destruct (B3 eq_refl) as (D1 & D2 & D3 & D4 & D5).
           rewrite stmt_errs_OC, save_errs_OC. rewrite Ef2.
           change ((KRbTo, false) :: nops ++ [(KSave, false)]) with ([(KRbTo, false)] ++ nops ++ [(KSave, false)]).
           rewrite !countf_app. cbn [countf filter fst snd opkind_eqb andb length].
           repeat split; try assumption; lia.
        -- destruct K as [_ [_ [_ [Erb _]]]].
           unfold basec in Erb. rewrite rbto_exact in Erb by exact Hfresh. discriminate.
Qed.

End Nested.

Section Body.
Variable E : env.
Hypothesis savepoint_pushes : forall n t, sq_save E n t = ref_save n t.
Hypothesis rollback_to_exact : forall n t, sq_rbto E n t = ref_rbto n t.
Variable C : cfg.
Hypothesis savepoints : c_nosp C = false.
Variable fault : nat -> bool.
Notation Inv := (Inv C).

Lemma inv_refl : forall base ok h s t local,
  s_tx s = Some (mkTx t (local ++ base)) -> gen_ok (s_gen s) (local ++ base) ->
  Inv base ok h s t local [] h s t local.
Proof.
  intros base ok h s t local Htx Hg. unfold C04_Proofs2.Inv.
  repeat (split; [first [assumption | reflexivity | lia | apply new_names_refl | apply flags_le_refl | (unfold s_logd; cbn; congruence)]|]).
  exists []. split; [reflexivity|]. split; [reflexivity|]. fin; auto.
Qed.

Lemma inv_trans_cons : forall base ok h s t local o h1 s1 t1 local1 l2 h2 s2 t2 local2,
  Inv base true h s t local [o] h1 s1 t1 local1 ->
  Inv base ok h1 s1 t1 local1 l2 h2 s2 t2 local2 ->
  Inv base ok h s t local (o :: l2) h2 s2 t2 local2.
Proof. intros. change (o :: l2) with ([o] ++ l2). eapply inv_trans; eassumption. Qed.

Lemma rb_back : forall f f', flags_le f f' -> x_rb f' = false -> x_rb f = false.
Proof. intros f f' [F _] H; eapply le_false; eassumption. Qed.
Lemma drop_back : forall f f', flags_le f f' -> x_drop f' = false -> x_drop f = false.
Proof. intros f f' [_ F] H; eapply le_false; eassumption. Qed.

Lemma inv_dead : forall base ok h s t local l h' s' t' local',
  Inv base ok h s t local l h' s' t' local' -> s_dead s = false -> s_dead s' = false.
Proof.
  intros base ok h s t local l h' s' t' local' H Hd.
  destruct H as (_ & _ & _ & _ & _ & _ & A7 & _). rewrite (f_equal (fun x => snd (fst x)) A7 : s_dead s' = s_dead s). exact Hd.
Qed.

Lemma inv_nonest : forall base ok h s t local l h' s' t' local',
  Inv base ok h s t local l h' s' t' local' -> s_nonest s = false -> s_nonest s' = false.
Proof.
  intros base ok h s t local l h' s' t' local' H Hd.
  destruct H as (_ & _ & _ & _ & _ & _ & A7 & _). rewrite (f_equal snd A7 : s_nonest s' = s_nonest s). exact Hd.
Qed.

Lemma set_dead_id : forall s, set_dead s (s_dead s) = s.
Proof. intros []; reflexivity. Qed.

Lemma set_nonest_id : forall s, set_nonest s (s_nonest s) = s.
Proof. intros []; reflexivity. Qed.

(* the observation of a call whose receiver switched nested transactions off: judged with
   nested transactions off, whatever the enclosing handle says *)
Lemma inv_nn : forall base h s t local o h' s0 t1 local1,
  Inv base true h (set_nonest s true) t local [o] h' s0 t1 local1 ->
  Inv base true h s t local [ONN o] h' (set_nonest s0 (s_nonest s)) t1 local1.
Proof.
  intros base h s t local o h' s0 t1 local1 H.
  destruct H as (A1 & A2 & A3 & A4 & A5 & A6 & A7 & A8 & A9 & nops & B1 & B2 & B3).
  unfold C04_Proofs2.Inv. cbn [set_nonest s_tx s_gen s_db s_fl s_ops] in *.
  split; [exact A1|].
  split. { unfold nest_of in A2. cbn [set_nonest s_nonest] in A2. rewrite orb_true_r in A2. exact A2. }
  split; [exact A3|]. split; [exact A4|]. split; [exact A5|]. split; [exact A6|].
  split. { unfold s_logd in *. cbn [set_nonest s_txlog s_dead s_nonest] in *. inversion A7. reflexivity. }
  split; [exact A8|]. split; [exact A9|].
  exists nops. split; [exact B1|]. split; [exact B2|]. exact B3.
Qed.

(* a nested call under its own (never cancelled) context, with the nested-transaction setting left
   alone, behaves like one under the enclosing context *)
Lemma nested_cx_step : forall cx body, body_spec C body -> body_mono body ->
  forall h s r o h1 s1 t local base,
  nested E C fault cx false body h s = (r, o, h1, s1) -> s_dead s = false ->
  s_tx s = Some (mkTx t (local ++ base)) -> gen_ok (s_gen s) (local ++ base) ->
  x_rb (s_fl s1) = false -> x_drop (s_fl s1) = false ->
  h1 = h /\
  ((exists t1 local1 l, o = OC true l (cls_of r) (cls_of r) /\ Inv base true h s t local [o] h s1 t1 local1
       /\ (forall avail, Sub avail (unames local) -> Sub avail (unames local1)))
   \/ (exists e, r = RErr e /\ o = OC false [] CNil (CErr e) /\ Inv base true h s t local [o] h s1 t local)).
Proof.
  intros cx body HB HM h s r o h1 s1 t local base H Hdead Htx Hg Hrb Hdr. unfold nested in H.
  assert (Es : (if cx then set_dead s false else s) = s).
  { destruct cx; [|reflexivity]. rewrite <- Hdead. apply set_dead_id. }
  rewrite Es in H.
  destruct (nested0 E C fault body h s) as [[[r0 o0] h0] s0] eqn:En. inversion H; subst r0 o0 h0 s1. clear H.
  assert (Ef : s_fl (if cx then set_dead s0 (s_dead s) else s0) = s_fl s0) by (destruct cx; reflexivity).
  rewrite Ef in Hrb, Hdr.
  pose proof (nested_step E savepoint_pushes rollback_to_exact C savepoints fault body HB HM _ _ _ _ _ _ t local base En Hdead Htx Hg Hrb Hdr) as [Eh K].
  assert (Hs0 : (if cx then set_dead s0 (s_dead s) else s0) = s0).
  { destruct cx; [|reflexivity].
    assert (Hd0 : s_dead s0 = false).
    { destruct K as [[t1 [local1 [l0 [_ [St _]]]]] | [e [_ [_ St]]]]; exact (inv_dead _ _ _ _ _ _ _ _ _ _ _ St Hdead). }
    rewrite Hdead, <- Hd0. apply set_dead_id. }
  rewrite Hs0. split; [exact Eh | exact K].
Qed.

(* any nested call - under its own context or not, with nested transactions switched off on its
   receiver or not - is one step of the enclosing body and hands the enclosing handle back *)
Lemma nested_any_step : forall cx nn body, body_spec C body -> body_mono body ->
  forall h s r o h1 s1 t local base,
  nested E C fault cx nn body h s = (r, o, h1, s1) -> s_dead s = false ->
  s_tx s = Some (mkTx t (local ++ base)) -> gen_ok (s_gen s) (local ++ base) ->
  x_rb (s_fl s1) = false -> x_drop (s_fl s1) = false ->
  h1 = h /\ exists t1 local1, Inv base true h s t local [o] h s1 t1 local1
             /\ (forall avail, Sub avail (unames local) -> Sub avail (unames local1)).
Proof.
  intros cx nn body HB HM h s r o h1 s1 t local base H Hdead Htx Hg Hrb Hdr.
  destruct nn.
  - unfold nested in H.
    assert (Es : (if cx then set_dead s false else s) = s).
    { destruct cx; [|reflexivity]. rewrite <- Hdead. apply set_dead_id. }
    rewrite Es in H.
    destruct (nested0 E C fault body h (set_nonest s true)) as [[[r0 o0] h0] s0] eqn:En.
    inversion H; subst r0 o h0 s1. clear H.
    assert (Ef : s_fl (if cx then set_dead (set_nonest s0 (s_nonest s)) (s_dead s) else set_nonest s0 (s_nonest s)) = s_fl s0)
      by (destruct cx; reflexivity).
    rewrite Ef in Hrb, Hdr.
    pose proof (nested_step E savepoint_pushes rollback_to_exact C savepoints fault body HB HM _ _ _ _ _ _ t local base En Hdead Htx Hg Hrb Hdr) as [Eh K].
    assert (K' : exists t1 local1, Inv base true h (set_nonest s true) t local [o0] h s0 t1 local1
                   /\ (forall avail, Sub avail (unames local) -> Sub avail (unames local1))).
    { destruct K as [[t1 [local1 [l0 [_ [St HS]]]]] | [e [_ [_ St]]]].
      - exists t1, local1. split; assumption.
      - exists t, local. split; [exact St | auto]. }
    destruct K' as [t1 [local1 [St HS]]].
    apply inv_nn in St.
    assert (Hs0 : (if cx then set_dead (set_nonest s0 (s_nonest s)) (s_dead s) else set_nonest s0 (s_nonest s)) = set_nonest s0 (s_nonest s)).
    { destruct cx; [|reflexivity].
      pose proof (inv_dead _ _ _ _ _ _ _ _ _ _ _ St Hdead) as Hd0.
      rewrite Hdead, <- Hd0. apply set_dead_id. }
    rewrite Hs0. split; [exact Eh|]. exists t1, local1. split; assumption.
  - destruct (nested_cx_step cx body HB HM _ _ _ _ _ _ _ _ _ H Hdead Htx Hg Hrb Hdr)
      as [Eh [[t1 [local1 [l0 [_ [St HS]]]]] | [e [_ [_ St]]]]]; (split; [exact Eh|]).
    + exists t1, local1. split; assumption.
    + exists t, local. split; [exact St | auto].
Qed.

Lemma body_inv : forall p avail h s r l h' s' t local base,
  run_body E C fault p h s = (r, l, h', s') -> s_dead s = false -> plain_prog p = true ->
  s_tx s = Some (mkTx t (local ++ base)) ->
  Sub avail (unames local) -> scoped avail p = true ->
  gen_ok (s_gen s) (local ++ base) ->
  x_rb (s_fl s') = false -> x_drop (s_fl s') = false ->
  exists t' local', Inv base (is_ok r) h s t local l h' s' t' local'.
Proof.
  induction p as [o | m chk k IHk | chk k IHk | b IHb chk rcv cx nn k IHk | n k IHk | n k IHk | k IHk];
    intros avail h s r l h' s' t local base H Hdead Hnc Htx HS Hsc Hg Hrb Hdr; cbn [run_body] in H; cbn [scoped] in Hsc;
    cbn [plain_prog] in Hnc; [| | | | | |discriminate].
  - (* Done *)
    exists t, local. destruct o; inversion H; subst; apply inv_refl; assumption.
  - (* Write *)
    destruct (h_stmt fault (Some m) h s) as [[e n0] s1] eqn:Es.
    pose proof (write_step C fault _ _ _ _ _ _ _ _ _ Es Hdead Htx Hg) as St.
    pose proof (inv_dead _ _ _ _ _ _ _ _ _ _ _ St Hdead) as Hd1.
    assert (Hcont : forall r0 l0 h0 s0, run_body E C fault k h s1 = (r0, l0, h0, s0) ->
              (r0, OW m (cls_oe e) :: l0, h0, s0) = (r, l, h', s') ->
              exists t' local', Inv base (is_ok r) h s t local l h' s' t' local').
    { intros r0 l0 h0 s0 Ek Eq. inversion Eq; subst r0 l h0 s0. clear Eq.
      destruct St as (A1 & A2 & A3 & St').
      destruct (IHk avail _ _ _ _ _ _ _ _ _ Ek Hd1 Hnc A1 HS Hsc A3 Hrb Hdr) as [t' [local' HI]].
      exists t', local'. eapply inv_trans_cons; [|exact HI]. unfold C04_Proofs2.Inv. repeat (split; [assumption|]). exact St'. }
    destruct e as [e|]; [destruct chk|].
    + inversion H; subst. eexists; eexists. eapply inv_ok_false; exact St.
    + destruct (run_body E C fault k h s1) as [[[r0 l0] h0] s0] eqn:Ek. eapply Hcont; [reflexivity | exact H].
    + destruct (run_body E C fault k h s1) as [[[r0 l0] h0] s0] eqn:Ek. eapply Hcont; [reflexivity | exact H].
  - (* Read *)
    destruct (h_stmt fault None h s) as [[e n0] s1] eqn:Es.
    pose proof (read_step C fault _ _ _ _ _ _ _ _ Es Hdead Htx Hg) as St.
    pose proof (inv_dead _ _ _ _ _ _ _ _ _ _ _ St Hdead) as Hd1.
    assert (Hcont : forall r0 l0 h0 s0, run_body E C fault k h s1 = (r0, l0, h0, s0) ->
              (r0, OR (cls_oe e) n0 :: l0, h0, s0) = (r, l, h', s') ->
              exists t' local', Inv base (is_ok r) h s t local l h' s' t' local').
    { intros r0 l0 h0 s0 Ek Eq. inversion Eq; subst r0 l h0 s0. clear Eq.
      destruct St as (A1 & A2 & A3 & St').
      destruct (IHk avail _ _ _ _ _ _ _ _ _ Ek Hd1 Hnc A1 HS Hsc A3 Hrb Hdr) as [t' [local' HI]].
      exists t', local'. eapply inv_trans_cons; [|exact HI]. unfold C04_Proofs2.Inv. repeat (split; [assumption|]). exact St'. }
    destruct e as [e|]; [destruct chk|].
    + inversion H; subst. eexists; eexists. eapply inv_ok_false; exact St.
    + destruct (run_body E C fault k h s1) as [[[r0 l0] h0] s0] eqn:Ek. eapply Hcont; [reflexivity | exact H].
    + destruct (run_body E C fault k h s1) as [[[r0 l0] h0] s0] eqn:Ek. eapply Hcont; [reflexivity | exact H].
  - (* Child *)
    apply andb_prop in Hsc. destruct Hsc as [Hscb Hsck].
    apply andb_prop in Hnc. destruct Hnc as [Hncb Hnck].
    destruct (nested E C fault cx nn (run_body E C fault b) h s) as [[[r0 o] h1] s1] eqn:En.
    assert (HBS : body_spec C (run_body E C fault b)).
    { intros hc sc rc lc hc' sc' tc basec Eb Hdc0 Htc Hgc Hrc Hdc.
      apply (IHb [] hc sc rc lc hc' sc' tc [] basec Eb Hdc0 Hncb Htc (sub_nil _) Hscb Hgc Hrc Hdc). }
    pose proof (run_body_flags E C fault b) as HMB.
    (* one step (the nested call), whatever it returned, leaves the enclosing handle as it was *)
    assert (Hstep : x_rb (s_fl s1) = false -> x_drop (s_fl s1) = false ->
              h1 = h /\ exists t1 local1, Inv base true h s t local [o] h s1 t1 local1 /\ Sub avail (unames local1)).
    { intros R D.
      destruct (nested_any_step cx nn _ HBS HMB _ _ _ _ _ _ _ _ _ En Hdead Htx Hg R D)
        as [Eh [t1 [local1 [St HSp]]]].
      split; [exact Eh|]. exists t1, local1. split; [exact St | apply HSp; exact HS]. }
    (* continuing with k *)
    assert (Hcont : forall r1 l1 h2 s2,
              run_body E C fault k h1 s1 = (r1, l1, h2, s2) ->
              (r1, o :: l1, h2, s2) = (r, l, h', s') ->
              exists t' local', Inv base (is_ok r) h s t local l h' s' t' local').
    { intros r1 l1 h2 s2 Ek Eq. inversion Eq; subst r1 l h2 s2. clear Eq.
      pose proof (run_body_flags E C fault k _ _ _ _ _ _ Ek) as Fk.
      destruct (Hstep (rb_back _ _ Fk Hrb) (drop_back _ _ Fk Hdr)) as [Eh [t1 [local1 [St HS1]]]]. subst h1.
      pose proof St as (A1 & A2 & A3 & _).
      destruct (IHk avail _ _ _ _ _ _ _ _ _ Ek (inv_dead _ _ _ _ _ _ _ _ _ _ _ St Hdead) Hnck A1 HS1 Hsck A3 Hrb Hdr) as [t' [local' HI]].
      exists t', local'. eapply inv_trans_cons; eassumption. }
    assert (Hret : (r0, [o], h1, s1) = (r, l, h', s') ->
              exists t' local', Inv base (is_ok r) h s t local l h' s' t' local').
    { intro Eq. inversion Eq; subst r l h' s'. clear Eq.
      destruct (Hstep Hrb Hdr) as [Eh [t1 [local1 [St _]]]]. subst h1.
      exists t1, local1. destruct (is_ok r0); [exact St | eapply inv_ok_false; exact St]. }
    destruct r0 as [|e|q].
    + destruct (run_body E C fault k h1 s1) as [[[r1 l1] h2] s2] eqn:Ek. eapply Hcont; [reflexivity | exact H].
    + destruct chk; [apply Hret; exact H|].
      destruct (run_body E C fault k h1 s1) as [[[r1 l1] h2] s2] eqn:Ek. eapply Hcont; [reflexivity | exact H].
    + destruct (recovers rcv q); [|apply Hret; exact H].
      destruct (run_body E C fault k h1 s1) as [[[r1 l1] h2] s2] eqn:Ek. eapply Hcont; [reflexivity | exact H].
  - (* Save *)
    destruct (h_sp E C fault true (NUser n) h s) as [h1 s1] eqn:Es.
    destruct h1 as [e|].
    + inversion H; subst r l h' s'. clear H.
      destruct (save_step E savepoint_pushes rollback_to_exact C savepoints fault _ _ _ _ _ _ _ _ Es Hdead Htx Hg Hdr)
        as [[K _] | [e' [Ee St]]]; [discriminate|].
      inversion Ee; subst e'. exists t, local. exact St.
    + destruct (run_body E C fault k None s1) as [[[r1 l1] h2] s2] eqn:Ek.
      inversion H; subst r l h' s'. clear H.
      pose proof (run_body_flags E C fault k _ _ _ _ _ _ Ek) as Fk.
      destruct (save_step E savepoint_pushes rollback_to_exact C savepoints fault _ _ _ _ _ _ _ _ Es Hdead Htx Hg (drop_back _ _ Fk Hdr))
        as [[_ St] | [e' [Ee _]]]; [|discriminate].
      pose proof St as (A1 & A2 & A3 & _).
      assert (HS1 : Sub (n :: avail) (unames ((NUser n, t) :: local))).
      { unfold unames; cbn [fu map fst]. apply sub_take. exact HS. }
      destruct (IHk (n :: avail) _ _ _ _ _ _ _ _ _ Ek (inv_dead _ _ _ _ _ _ _ _ _ _ _ St Hdead) Hnc A1 HS1 Hsc A3 Hrb Hdr) as [t' [local' HI]].
      exists t', local'. eapply inv_trans_cons; eassumption.
  - (* RbTo *)
    apply andb_prop in Hsc. destruct Hsc as [Hmem Hsck]. apply memz_In in Hmem.
    destruct (h_sp E C fault false (NUser n) h s) as [h1 s1] eqn:Es.
    destruct h1 as [e|].
    + inversion H; subst r l h' s'. clear H.
      destruct (rbto_step E savepoint_pushes rollback_to_exact C savepoints fault _ _ _ _ _ _ _ _ _ Es Hdead Htx Hg HS Hmem Hdr)
        as [[K _] | [e' [Ee St]]]; [discriminate|].
      inversion Ee; subst e'. exists t, local. exact St.
    + destruct (run_body E C fault k None s1) as [[[r1 l1] h2] s2] eqn:Ek.
      inversion H; subst r l h' s'. clear H.
      pose proof (run_body_flags E C fault k _ _ _ _ _ _ Ek) as Fk.
      destruct (rbto_step E savepoint_pushes rollback_to_exact C savepoints fault _ _ _ _ _ _ _ _ _ Es Hdead Htx Hg HS Hmem (drop_back _ _ Fk Hdr))
        as [[_ [snap [local2 [St HS2]]]] | [e' [Ee _]]]; [|discriminate].
      pose proof St as (A1 & A2 & A3 & _).
      destruct (IHk (cutz n avail) _ _ _ _ _ _ _ _ _ Ek (inv_dead _ _ _ _ _ _ _ _ _ _ _ St Hdead) Hnc A1 HS2 Hsck A3 Hrb Hdr) as [t' [local' HI]].
      exists t', local'. eapply inv_trans_cons; eassumption.
Qed.
End Body.
