(* C01_Spec.v — the property's own vocabulary, written from the property text and not by calling
   the builder: which values a statement binds and in which order ([bound_values]), where the
   placeholders of a SQL text are ([placeholders]), the property's domain ([wfb]), "same shape"
   ([shape]), and the argument strings that must never show up in SQL text ([value_strings]).
   No proofs here. *)
From Verif Require Import Base C01_Model C01_Stmt.

(* ------------------------------------------------------------------ *)
(* placeholders of a SQL text                                           *)
Definition digit_val (c : ascii) : option (Decimal.uint -> Decimal.uint) :=
  if ceq c "0" then Some Decimal.D0 else if ceq c "1" then Some Decimal.D1
  else if ceq c "2" then Some Decimal.D2 else if ceq c "3" then Some Decimal.D3
  else if ceq c "4" then Some Decimal.D4 else if ceq c "5" then Some Decimal.D5
  else if ceq c "6" then Some Decimal.D6 else if ceq c "7" then Some Decimal.D7
  else if ceq c "8" then Some Decimal.D8 else if ceq c "9" then Some Decimal.D9 else None.
(* the maximal run of decimal digits at the head of [s] *)
Fixpoint read_uint (s : la) : Decimal.uint :=
  match s with
  | [] => Decimal.Nil
  | c :: r => match digit_val c with Some d => d (read_uint r) | None => Decimal.Nil end
  end.
(* "$n" dialect: every '$' followed by digits is placeholder number n *)
Fixpoint ph_numbered (s : la) : list N :=
  match s with
  | [] => []
  | c :: r =>
    if ceq c "$" then
      match read_uint r with
      | Decimal.Nil => ph_numbered r
      | u => N.of_uint u :: ph_numbered r
      end
    else ph_numbered r
  end.
(* "?" dialect: the k-th '?' is placeholder number k *)
Definition nseq (n : nat) : list N := map N.of_nat (seq 1 n).
Definition placeholders (numbered : bool) (sql : la) : list N :=
  if numbered then ph_numbered sql else nseq (count_c "?" sql).

(* ------------------------------------------------------------------ *)
(* which values a statement binds, left to right                        *)

(* for each '?' of a template: is the last byte before it (placeholders skipped) a '(' ? *)
Fixpoint paren_flags (bs : la) (ap : bool) : list bool :=
  match bs with
  | [] => []
  | c :: r => if ceq c "?" then ap :: paren_flags r ap else paren_flags r (ceq c "(")
  end.
(* the @names of a template, in order of occurrence *)
Fixpoint names_in (s : la) (cur : option la) : list la :=
  match s with
  | [] => match cur with Some n => [n] | None => [] end
  | c :: r =>
    match cur with
    | Some n => if is_name_end c then n :: names_in r None else names_in r (Some (n ++ [c]))
    | None => if ceq c "@" then names_in r (Some []) else names_in r None
    end
  end.

Definition bytes_vals (b : string) : list scalar :=
  map (fun c => SInt (Z.of_N (ccode c))) (s2l b).
Definition known_list (v : val) : option (list val) :=
  match v with VList LIface l | VList LKnown l => Some l | _ => None end.

Fixpoint zipw {A B C} (f : A -> B -> C) (l : list A) (m : list B) {struct m} : list C :=
  match m, l with
  | b :: m', a :: l' => f a b :: zipw f l' m'
  | _, _ => []
  end.

Fixpoint lookup_last_v (defs : list (string * list scalar)) (n : string) (acc : option (list scalar))
  : option (list scalar) :=
  match defs with
  | [] => acc
  | (k, l) :: r => lookup_last_v r n (if String.eqb k n then Some l else acc)
  end.

Fixpoint bound_values (v : val) : list scalar :=
  (* a value standing right after '(' in a template: a slice gives its elements without further
     parentheses, an empty slice one NULL *)
  let after_paren := fun x : val =>
    match x with
    | VList _ [] => [SNull]
    | VList _ l => flat_map bound_values l
    | VS (SBytes b) => match s2l b with [] => [SNull] | _ => [SBytes b] end   (* a []byte is one value *)
    | _ => bound_values x
    end in
  let named_defs := fun x : val =>
    match x with
    | VNamed n y => [(n, bound_values y)]
    | VNameSrc l => flat_map (fun y => match y with VNamed n z => [(n, bound_values z)] | _ => [] end) l
    | _ => []
    end in
  let column := fun c : val => match c with VQStr _ => [] | _ => bound_values c end in
  match v with
  | VS s => [s]
  | VDrv s => [s]
  | VQStr s => [SStr s]
  | VList _ l => flat_map bound_values l
  | VGormValuer isnil x => if isnil then [SNull] else bound_values x
  | VExpr wop sql vars =>
    List.concat (zipw (fun (f : bool) (x : list scalar * list scalar) => if f || wop then fst x else snd x)
                      (paren_flags (s2l sql) false) (map (fun x => (after_paren x, bound_values x)) vars))
  | VNamedExpr sql vars =>
    if contains_c "@" (s2l sql) then
      let defs := flat_map named_defs vars in
      flat_map (fun n => match lookup_last_v defs (l2s n) None with Some l => l | None => [] end)
               (names_in (s2l sql) None)
    else
      List.concat (zipw (fun (f : bool) (x : list scalar * list scalar) => if f then fst x else snd x)
                        (paren_flags (s2l sql) false) (map (fun x => (after_paren x, bound_values x)) vars))
  | VCmp o c x =>
    column c ++
    match o with
    | OEq | ONeq => match x with
                    | VList LIface l | VList LKnown l => flat_map bound_values l
                    | _ => if eq_nil x then [] else bound_values x
                    end
    | _ => bound_values x
    end
  | VIn c vs => column c ++ flat_map bound_values vs
  | VAnd l | VOr l | VNot l | VWhere l | VSeq _ l => flat_map bound_values l
  | VSubN _ q _ => bound_values q
  | VRawSub sql vars =>
    if contains_c "@" (s2l sql) then
      let defs := flat_map named_defs vars in
      flat_map (fun n => match lookup_last_v defs (l2s n) None with Some l => l | None => [] end)
               (names_in (s2l sql) None)
    else
      List.concat (zipw (fun (f : bool) (x : list scalar * list scalar) => if f then fst x else snd x)
                        (paren_flags (s2l sql) false) (map (fun x => (after_paren x, bound_values x)) vars))
  | _ => []
  end.

(* "[]byte is one value": the reference reading of a statement is taken on the input in which every
   []byte argument is made opaque (wrapped like a driver.Valuer, which no code path takes apart) *)
(* ... also where a []byte (or a driver.Valuer whose Value() is a []byte: a binary key) is the only
   argument of a primary-key condition (First(&x, key), Where(key), Delete(&x, key)): it is ONE key
   (read here independently of the construction model; gorm agrees since 70948e8) *)
Definition sole_bytes (q : val) (args : list val) : option string :=
  match args, q with
  | [], VS (SBytes b) | [], VDrv (SBytes b) => match s2l b with [] => None | _ => Some b end
  | _, _ => None
  end.
Definition one_key (b : string) : val := VIn primary_column [VDrv (SBytes b)].
Definition unbytes_conds (ub : val -> val) (c : list val) : list val :=
  match c with
  | q :: args => match sole_bytes q args with Some b => [one_key b] | None => map ub c end
  | [] => []
  end.

Fixpoint unbytes (v : val) : val :=
  match v with
  | VS (SBytes b) => match s2l b with [] => v | _ => VDrv (SBytes b) end
  | VList k l => VList k (map unbytes l)
  | VNamed n x => VNamed n (unbytes x)
  | VNameSrc l => VNameSrc (map unbytes l)
  | VGormValuer b x => VGormValuer b (unbytes x)
  | VExpr w s vars => VExpr w s (map unbytes vars)
  | VNamedExpr s vars => VNamedExpr s (map unbytes vars)
  | VCmp o c x => VCmp o (unbytes c) (unbytes x)
  | VIn c vs => VIn (unbytes c) (map unbytes vs)
  | VAnd l => VAnd (map unbytes l)
  | VOr l => VOr (map unbytes l)
  | VNot l => VNot (map unbytes l)
  | VWhere l => VWhere (map unbytes l)
  | VSeq sp l => VSeq sp (map unbytes l)
  | VSubN ti q wh => VSubN ti (unbytes q) (map unbytes wh)
  | VRawSub s vars => VRawSub s (map unbytes vars)
  | VSub ti chain => VSub ti (map unbytes chain)
  | KCond k q args =>
    match sole_bytes q args with Some b => KCond k (one_key b) [] | None => KCond k (unbytes q) (map unbytes args) end
  | KHaving q args =>
    match sole_bytes q args with Some b => KHaving (one_key b) [] | None => KHaving (unbytes q) (map unbytes args) end
  | KSelect q args => KSelect q (map unbytes args)
  | KTable nm al args => KTable nm al (map unbytes args)
  | KJoins q args => KJoins q (map unbytes args)
  | KOrderExpr x => KOrderExpr (unbytes x)
  | KClauses l => KClauses (map unbytes l)
  | VMapCond l => VMapCond (map unbytes l)
  | VStructCond l => VStructCond (map unbytes l)
  | VField nm z x => VField nm z (unbytes x)
  | VOnConflict cols dn sets wh => VOnConflict (map unbytes cols) dn (map unbytes sets) (map unbytes wh)
  | _ => v
  end.
Definition unbytes_fin (f : fin) : fin :=
  match f with
  | FFind c => FFind (unbytes_conds unbytes c) | FFirst c => FFirst (unbytes_conds unbytes c)
  | FTake c => FTake (unbytes_conds unbytes c) | FLast c => FLast (unbytes_conds unbytes c)
  | FCount => FCount
  | FPluck c => FPluck c
  | FUpdate c v => FUpdate c (unbytes v)
  | FUpdatesMap kv => FUpdatesMap (map unbytes kv)
  | FUpdatesStruct fs => FUpdatesStruct (map unbytes fs)
  | FDelete c => FDelete (unbytes_conds unbytes c)
  | FCreateStruct fs => FCreateStruct (map unbytes fs)
  | FCreateSlice rows => FCreateSlice (map unbytes rows)
  | FCreateMap kv => FCreateMap (map unbytes kv)
  | FCreateMaps rows => FCreateMaps (map unbytes rows)
  | FSaveStruct fs => FSaveStruct (map unbytes fs)
  | FSaveSlice rows => FSaveSlice (map unbytes rows)
  | FRaw s a => FRaw s (map unbytes a)
  | FExec s a => FExec s (map unbytes a)
  end.

(* ------------------------------------------------------------------ *)
(* "empty slices to NULL": how many times the word NULL has to stand in the text               *)
Fixpoint count_sub (p s : la) : nat :=
  match s with
  | [] => O
  | _ :: r => (if prefix p s then 1 else 0) + count_sub p r
  end.
Definition nulls_in (s : string) : nat := count_sub (s2l "NULL") (s2l s).

(* an empty slice written as a value (not right after '(' of a template, where it binds one NULL
   value instead) renders (NULL); Eq / Neq of nil render IS [NOT] NULL; IN without values renders
   IN (NULL) or, negated, IS NOT NULL; literal NULLs of templates and identifiers are counted as they are *)
Fixpoint null_words (v : val) : nat :=
  let sum := fun l => list_sum (map null_words l) in
  let tmpl_args := fun (wop : bool) (sql : string) (vars : list val) =>
    list_sum (zipw (fun (f : bool) (n : nat * bool) => if (f || wop) && snd n then 0 else fst n)
                   (paren_flags (s2l sql) false)
                   (map (fun x => (null_words x, match x with VList _ [] => true | _ => false end)) vars)) in
  match v with
  | VList _ [] => 1
  | VList _ l => sum l
  | VGormValuer isnil x => if isnil then 0 else null_words x
  | VCol t n a _ => nulls_in t + nulls_in n + nulls_in a
  | VTable n a _ => nulls_in n + nulls_in a
  | VText s => nulls_in s
  | VExpr wop sql vars => nulls_in sql + tmpl_args wop sql vars
  | VNamedExpr sql vars =>
    nulls_in sql + if contains_c "@" (s2l sql) then 0 else tmpl_args false sql vars
  | VCmp o c x =>
    match c with VQStr s => nulls_in s | _ => null_words c end +
    match x with
    | VList _ [] => 1
    | _ => match o with
           | OEq | ONeq => if eq_nil x then 1 else null_words x
           | _ => null_words x
           end
    end
  | VIn c vs =>
    match c with VQStr s => nulls_in s | _ => null_words c end +
    match vs with [] => 1 | _ => sum vs end
  | VAnd l | VOr l | VNot l | VWhere l => sum l
  | VSeq sp l => sum l + nulls_in sp * pred (length l)
  | VSubN _ q _ => null_words q
  | _ => 0
  end.

(* ------------------------------------------------------------------ *)
(* the property's domain, on the clause tree                            *)

(* text that is not an argument value (identifiers, keywords, separators): no placeholder byte of
   either dialect, no '@', and no digit in front (so that it can follow "$n") *)
Definition starts_digit (s : la) : bool := match s with c :: _ => is_digit c | [] => false end.
Definition clean_text (s : la) : bool :=
  negb (contains_c "?" s) && negb (contains_c "$" s) && negb (contains_c "@" s) && negb (starts_digit s).
Definition clean_str (s : string) : bool := clean_text (s2l s).
(* a template: no '$'; no digit at the front; what follows a '?' is neither a digit nor another
   placeholder *)
Fixpoint after_q_ok (s : la) : bool :=
  match s with
  | [] => true
  | c :: r => (if ceq c "?" then match r with
                                 | d :: _ => negb (is_digit d || ceq d "?" || ceq d "@")
                                 | [] => true
                                 end
               else true) && after_q_ok r
  end.
Definition tmpl_ok (s : la) : bool := negb (contains_c "$" s) && negb (starts_digit s) && after_q_ok s.
Definition word_name (n : la) : bool := nonempty n && forallb is_word n.
(* a '?' or '@' inside a quoted region of a template is a placeholder for gorm but not for a database *)
Fixpoint quoted_ph (s : la) (q : option ascii) : bool :=
  match s with
  | [] => false
  | c :: r =>
    match q with
    | Some d => if ceq c d then quoted_ph r None else (ceq c "?" || ceq c "@") || quoted_ph r q
    | None => if ceq c "'" || ceq c """" || ceq c "`" then quoted_ph r (Some c) else quoted_ph r None
    end
  end.

Definition tinfo_ok (ti : tinfo) : bool :=
  clean_str (t_table ti) && match t_pk ti with Some p => clean_str p | None => true end.

(* an empty []byte bound by an already built sub-query would be bound as NULL when the handle is
   embedded (rv.Len() == 0 in Expr.Build): not in the domain *)
Definition nonempty_bytes (s : scalar) : bool :=
  match s with SBytes b => match s2l b with [] => false | _ => true end | _ => true end.

Fixpoint wfb (v : val) : bool :=
  let named_arg_ok := fun x : val =>
    match x with
    | VNamed n y => wfb y
    | VNameSrc l => forallb (fun y => match y with VNamed n z => wfb z | _ => false end) l
    | _ => false
    end in
  let named_defs := fun x : val =>
    match x with
    | VNamed n y => [n]
    | VNameSrc l => flat_map (fun y => match y with VNamed n z => [n] | _ => [] end) l
    | _ => []
    end in
  let column := fun c : val => match c with VQStr s => clean_str s | _ => wfb c end in
  let template := fun (sql : string) (vars : list val) =>
    let sl := s2l sql in
    tmpl_ok sl && negb (quoted_ph sl None) &&
    if contains_c "@" sl then
      negb (contains_c "?" sl) && forallb named_arg_ok vars
      && forallb (fun n => word_name n && existsb (String.eqb (l2s n)) (flat_map named_defs vars))
                 (names_in sl None)
    else (count_c "?" sl =? length vars)%nat && forallb wfb vars in
  match v with
  | VS _ | VDrv _ | VQStr _ => true
  | VList _ l => forallb wfb l
  | VNamed _ _ | VNameSrc _ => false
  | VGormValuer _ x => wfb x
  | VCol tbl name alias _ => clean_str tbl && clean_str name && clean_str alias
  | VTable name alias _ => clean_str name && clean_str alias
  | VText s => clean_str s
  | VExpr _ sql vars => negb (contains_c "@" (s2l sql)) && template sql vars
  | VNamedExpr sql vars => template sql vars
  | VCmp _ c x => column c && wfb x
  | VIn c vs => column c && forallb wfb vs
  | VAnd l | VOr l | VNot l | VWhere l => forallb wfb l
  | VSeq sp l => clean_str sp && forallb wfb l
  | VSubN ti q _ => tinfo_ok ti && wfb q
  | VRawSub sql vars => template sql vars && forallb nonempty_bytes (bound_values (VRawSub sql vars))
  | _ => true
  end.

(* ------------------------------------------------------------------ *)
(* same shape: everything but the values                                 *)
Definition shape_scalar (s : scalar) : scalar :=
  match s with
  | SNull => SNull
  | SBytes b => SBytes (l2s (map (fun _ => "000"%char) (s2l b)))
  | _ => SInt 0
  end.
Fixpoint shape (v : val) : val :=
  match v with
  | VS s => VS (shape_scalar s)
  | VDrv s => VDrv (shape_scalar s)
  | VList k l => VList k (map shape l)
  | VNamed n x => VNamed n (shape x)
  | VNameSrc l => VNameSrc (map shape l)
  | VGormValuer b x => VGormValuer b (shape x)
  | VExpr w s vars => VExpr w s (map shape vars)
  | VNamedExpr s vars => VNamedExpr s (map shape vars)
  | VCmp o c x => VCmp o (shape c) (shape x)
  | VIn c vs => VIn (shape c) (map shape vs)
  | VAnd l => VAnd (map shape l)
  | VOr l => VOr (map shape l)
  | VNot l => VNot (map shape l)
  | VWhere l => VWhere (map shape l)
  | VSeq sp l => VSeq sp (map shape l)
  | VSubN ti q wh => VSubN ti (shape q) (map shape wh)
  | VRawSub s vars => VRawSub s (map shape vars)
  | VSub ti chain => VSub ti (map shape chain)
  | KCond k q args => KCond k (shape q) (map shape args)
  | KHaving q args => KHaving (shape q) (map shape args)
  | KSelect q args => KSelect q (map shape args)
  | KTable nm al args => KTable nm al (map shape args)
  | KJoins q args => KJoins q (map shape args)
  | KOrderExpr x => KOrderExpr (shape x)
  | KClauses l => KClauses (map shape l)
  | VMapCond l => VMapCond (map shape l)
  | VStructCond l => VStructCond (map shape l)
  | VField nm z x => VField nm z (shape x)
  | VOnConflict cols dn sets wh => VOnConflict (map shape cols) dn (map shape sets) (map shape wh)
  | _ => v
  end.
Definition shape_fin (f : fin) : fin :=
  match f with
  | FFind c => FFind (map shape c) | FFirst c => FFirst (map shape c)
  | FTake c => FTake (map shape c) | FLast c => FLast (map shape c)
  | FCount => FCount
  | FPluck c => FPluck c
  | FUpdate c v => FUpdate c (shape v)
  | FUpdatesMap kv => FUpdatesMap (map shape kv)
  | FUpdatesStruct fs => FUpdatesStruct (map shape fs)
  | FDelete c => FDelete (map shape c)
  | FCreateStruct fs => FCreateStruct (map shape fs)
  | FCreateSlice rows => FCreateSlice (map shape rows)
  | FCreateMap kv => FCreateMap (map shape kv)
  | FCreateMaps rows => FCreateMaps (map shape rows)
  | FSaveStruct fs => FSaveStruct (map shape fs)
  | FSaveSlice rows => FSaveSlice (map shape rows)
  | FRaw s a => FRaw s (map shape a)
  | FExec s a => FExec s (map shape a)
  end.
(* pieces up to the values *)
Definition erase_piece (p : piece) : piece :=
  match p with PC c => PC c | PV s => PV (shape_scalar s) | PH s => PH (shape_scalar s) end.
Definition erase (ps : pieces) : pieces := map erase_piece ps.

(* ------------------------------------------------------------------ *)
(* the argument strings of a statement (for "never becomes part of the SQL text")                *)
Definition scalar_strings (s : scalar) : list string :=
  match s with SStr x | SBytes x => [x] | _ => [] end.
Fixpoint value_strings (v : val) : list string :=
  let vs := flat_map value_strings in
  match v with
  | VS s | VDrv s => scalar_strings s
  | VList _ l | VNameSrc l | VAnd l | VOr l | VNot l | VWhere l | VSeq _ l | VMapCond l | VStructCond l
  | KClauses l => vs l
  | VNamed _ x | VGormValuer _ x | VField _ _ x | KOrderExpr x => value_strings x
  | VExpr _ _ vars | VNamedExpr _ vars | VRawSub _ vars => vs vars
  | VCmp _ c x => value_strings c ++ value_strings x
  | VIn c l => value_strings c ++ vs l
  | VSubN _ q wh => value_strings q ++ vs wh
  | VSub _ chain => vs chain
  | KCond _ q args | KHaving q args => value_strings q ++ vs args
  | KSelect _ args | KTable _ _ args | KJoins _ args => vs args
  | VOnConflict cols _ sets wh => vs cols ++ vs sets ++ vs wh
  | _ => []
  end.
Definition fin_strings (f : fin) : list string :=
  let vs := flat_map value_strings in
  match f with
  | FFind c | FFirst c | FTake c | FLast c | FDelete c => vs c
  | FCount | FPluck _ => []
  | FUpdate _ v => value_strings v
  | FUpdatesMap l | FUpdatesStruct l | FCreateStruct l | FCreateSlice l | FCreateMap l | FCreateMaps l
  | FSaveStruct l | FSaveSlice l => vs l
  | FRaw _ a | FExec _ a => vs a
  end.

Fixpoint contains_sub (p s : la) : bool :=
  match s with
  | [] => match p with [] => true | _ => false end
  | _ :: r => prefix p s || contains_sub p r
  end.
