(* C06_ExtPath.v — "alone" is the SYNTACTIC derivation path.  The isolation theorems of C06_ExtProofs
   compare every finisher with the replay of the ghost chain stored in its statement.  Here the
   ghost is eliminated: [hpaths] computes, from the history alone, the derivation path of every handle
   (what the harness replays on a fresh gorm.Open), and for every LINEAR history (a chain result is
   used at most once: DESIGN 8.0) the ghost chain of every finisher IS that path. *)
From Verif Require Import Base C06_Model C06_Proofs2 C06_Ext C06_ExtProofs.
Open Scope nat_scope.

(* ---- invariant ---- *)
Definition hdl (st : xstate) (h : nat) : nat * nat := nth h (xs_handles st) (0, 1).
Definition ent (tbl : list hent) (h : nat) : hent := nth h tbl hent0.
Definition live (tbl : list hent) (h : nat) : Prop := h < length tbl /\ he_dead (ent tbl h) = false.

Record pinv (tbl : list hent) (st : xstate) : Prop := {
  p_len : length (xs_handles st) = length tbl;
  p_mode : forall h, h < length tbl -> snd (hdl st h) = he_mode (ent tbl h);
  p_gp : forall h, live tbl h -> x_gp (xget (xs_stmts st) (fst (hdl st h))) = he_path (ent tbl h);
  p_lt : forall h, h < length tbl -> fst (hdl st h) < length (xs_stmts st);
  p_sep : forall h h', live tbl h -> live tbl h' -> h <> h' -> he_mode (ent tbl h) = 0 ->
                       fst (hdl st h) <> fst (hdl st h');
  p_x : xsinv st
}.

Lemma kill_length tbl p : length (kill tbl p) = length tbl.
Proof. unfold kill. destruct (he_mode (nth p tbl hent0)); auto. apply upd_nth_length. Qed.
Lemma kill_ent tbl p h :
  he_mode (ent (kill tbl p) h) = he_mode (ent tbl h) /\ he_path (ent (kill tbl p) h) = he_path (ent tbl h).
Proof.
  unfold kill, ent. destruct (he_mode (nth p tbl hent0)) eqn:E; auto.
  destruct (Nat.eq_dec p h) as [-> | N].
  - destruct (Nat.lt_ge_cases h (length tbl)) as [L | L].
    + rewrite nth_upd_nth_eq; auto.
    + rewrite !nth_overflow; auto. rewrite upd_nth_length. lia.
  - rewrite nth_upd_nth_neq; auto.
Qed.
Lemma kill_live tbl p h : live (kill tbl p) h -> live tbl h /\ (h = p -> he_mode (ent tbl p) <> 0).
Proof.
  unfold live. rewrite kill_length. intros (L & D). unfold kill, ent in *.
  destruct (he_mode (nth p tbl hent0)) eqn:E.
  - destruct (Nat.eq_dec p h) as [-> | N].
    + rewrite nth_upd_nth_eq in D; auto. discriminate D.
    + rewrite nth_upd_nth_neq in D; auto.
  - split; [split; auto|]. intros _. lia.
Qed.

Lemma ent_push_old tbl e h : h < length tbl -> ent (tbl ++ [e]) h = ent tbl h.
Proof. intro L. unfold ent. apply app_nth1, L. Qed.
Lemma ent_push_new tbl e : ent (tbl ++ [e]) (length tbl) = e.
Proof. unfold ent. rewrite app_nth2, Nat.sub_diag; auto. Qed.

(* the generic extension step: statement list became sts', a handle (i, m) with entry e is added *)
Lemma pinv_extend tbl st p mh' sts' outs' i m e :
  pinv tbl st -> live tbl p ->
  xsinv (mk_xs mh' sts' (xs_handles st ++ [(i, m)]) outs') ->
  length (xs_stmts st) <= length sts' -> i < length sts' ->
  (forall j, j < length (xs_stmts st) -> j <> i -> x_gp (xget sts' j) = x_gp (xget (xs_stmts st) j)) ->
  x_gp (xget sts' i) = he_path e -> m = he_mode e ->
  (length (xs_stmts st) <= i
   \/ (i = fst (hdl st p) /\ he_mode (ent tbl p) = 0)
   \/ (i = fst (hdl st p) /\ he_mode e <> 0 /\ x_gp (xget sts' i) = x_gp (xget (xs_stmts st) i))) ->
  pinv (kill tbl p ++ [e]) (mk_xs mh' sts' (xs_handles st ++ [(i, m)]) outs').
Proof.
  intros [P1 P2 P3 P4 P5 P6] Lp X' Ll Li Ho Hn Hm Hc.
  assert (KL := kill_length tbl p).
  assert (HD : forall h, h < length tbl -> hdl (mk_xs mh' sts' (xs_handles st ++ [(i, m)]) outs') h = hdl st h).
  { intros h L. unfold hdl. cbn [xs_handles]. apply app_nth1. rewrite P1. exact L. }
  assert (HN : hdl (mk_xs mh' sts' (xs_handles st ++ [(i, m)]) outs') (length tbl) = (i, m)).
  { unfold hdl. cbn [xs_handles]. rewrite app_nth2, P1, Nat.sub_diag; auto. lia. }
  assert (EO : forall h, h < length tbl -> ent (kill tbl p ++ [e]) h = ent (kill tbl p) h).
  { intros h L. apply ent_push_old. rewrite KL. exact L. }
  assert (EN : ent (kill tbl p ++ [e]) (length tbl) = e).
  { rewrite <- KL. apply ent_push_new. }
  assert (LV : forall h, live (kill tbl p ++ [e]) h -> h < length tbl -> live tbl h /\ (h = p -> he_mode (ent tbl p) <> 0)).
  { intros h (L & D) L'. apply kill_live. split; [rewrite KL; exact L'|]. rewrite EO in D; auto. }
  assert (LEN : length (kill tbl p ++ [e]) = S (length tbl)) by (rewrite app_length, KL; cbn; lia).
  (* an old live handle other than a killed p never sits on statement i unless its ghost is unchanged *)
  assert (KEY : forall h, live tbl h -> (h = p -> he_mode (ent tbl p) <> 0) ->
                 fst (hdl st h) = i -> x_gp (xget sts' i) = x_gp (xget (xs_stmts st) i)).
  { intros h Lh Np Ei. assert (L4 := P4 h (proj1 Lh)). destruct Hc as [C | [(C1 & C2) | (C1 & C2 & C3)]]; auto.
    - lia.
    - exfalso. destruct (Nat.eq_dec h p) as [-> | N]; [apply Np; auto|].
      apply (P5 p h Lp Lh (not_eq_sym N) C2). congruence. }
  constructor; cbn [xs_handles xs_stmts xs_maps].
  - rewrite !app_length, P1, KL. reflexivity.
  - intros h L. rewrite LEN in L. destruct (Nat.eq_dec h (length tbl)) as [-> | N].
    + rewrite HN, EN. exact Hm.
    + assert (L' : h < length tbl) by lia. rewrite HD, EO; auto. rewrite (proj1 (kill_ent tbl p h)). apply P2, L'.
  - intros h Lh. assert (L := proj1 Lh). rewrite LEN in L. destruct (Nat.eq_dec h (length tbl)) as [-> | N].
    + rewrite HN, EN. exact Hn.
    + assert (L' : h < length tbl) by lia. destruct (LV h Lh L') as (Lo & Np).
      rewrite HD, EO; auto. rewrite (proj2 (kill_ent tbl p h)), <- (P3 h Lo).
      destruct (Nat.eq_dec (fst (hdl st h)) i) as [Q | Q].
      * rewrite Q. apply (KEY h Lo Np Q).
      * apply Ho; auto.
  - intros h L. rewrite LEN in L. destruct (Nat.eq_dec h (length tbl)) as [-> | N].
    + rewrite HN. exact Li.
    + assert (L' : h < length tbl) by lia. rewrite HD; auto. specialize (P4 h L'). lia.
  - intros h h' Lh Lh' Nh M0. assert (L := proj1 Lh). assert (L' := proj1 Lh'). rewrite LEN in L, L'.
    destruct (Nat.eq_dec h (length tbl)) as [-> | N]; destruct (Nat.eq_dec h' (length tbl)) as [-> | N'].
    + congruence.
    + (* the new handle is a chain result: nobody live sits on its statement *)
      assert (L2 : h' < length tbl) by lia. destruct (LV h' Lh' L2) as (Lo & Np).
      rewrite HN, HD; auto. rewrite EN in M0. cbn [fst]. intro Q. assert (L4 := P4 h' L2).
      destruct Hc as [C | [(C1 & C2) | (C1 & C2 & C3)]]; [lia | | congruence].
      destruct (Nat.eq_dec h' p) as [-> | Nq]; [apply Np; auto|].
      apply (P5 p h' Lp Lo (not_eq_sym Nq) C2). congruence.
    + assert (L2 : h < length tbl) by lia. destruct (LV h Lh L2) as (Lo & Np).
      rewrite HN, HD; auto. rewrite EO in M0; auto. rewrite (proj1 (kill_ent tbl p h)) in M0. cbn [fst]. intro Q.
      assert (L4 := P4 h L2).
      destruct Hc as [C | [(C1 & C2) | (C1 & C2 & C3)]]; [lia | |].
      * destruct (Nat.eq_dec h p) as [-> | Nq]; [apply Np; auto|].
        apply (P5 p h Lp Lo (not_eq_sym Nq) C2). congruence.
      * destruct (Nat.eq_dec h p) as [-> | Nq]; [apply Np; auto|].
        apply (P5 h p Lo Lp Nq M0). congruence.
    + assert (L2 : h < length tbl) by lia. assert (L2' : h' < length tbl) by lia.
      destruct (LV h Lh L2) as (Lo & _). destruct (LV h' Lh' L2') as (Lo' & _).
      rewrite !HD; auto. rewrite EO in M0; auto. rewrite (proj1 (kill_ent tbl p h)) in M0. apply P5; auto.
  - exact X'.
Qed.

(* ---- what the primitives do to the ghost chains ---- *)
Lemma gi_spec mh sts hd mh1 sts1 i :
  x_get_instance false mh sts hd = (mh1, sts1, i) ->
  length sts <= length sts1 /\ (forall j, j < length sts -> xget sts1 j = xget sts j) /\
  x_gp (xget sts1 i) = inst' (snd hd) (x_gp (xget sts (fst hd))) /\
  ((snd hd = 0 /\ i = fst hd /\ sts1 = sts) \/ (snd hd <> 0 /\ i = length sts /\ length sts1 = S (length sts))).
Proof.
  intro E. unfold x_get_instance in E. destruct (snd hd) as [|[|m]] eqn:M.
  - inversion E; subst. split; [lia|]. split; [auto|]. split; [reflexivity|]. left. auto.
  - inversion E; subst. rewrite app_length. cbn [length]. split; [lia|]. split; [|split].
    + intros j L. apply xget_push_other. lia.
    + rewrite xget_push_same. reflexivity.
    + right. split; [discriminate|]. split; [reflexivity | lia].
  - unfold x_clone in E. inversion E; subst. rewrite app_length. cbn [length]. split; [lia|]. split; [|split].
    + intros j L. apply xget_push_other. lia.
    + rewrite xget_push_same. reflexivity.
    + right. split; [discriminate|]. split; [reflexivity | lia].
Qed.

Lemma apply_gp mh s o mh2 s' : x_apply mh s o = (mh2, s') -> x_gp s' = x_gp s.
Proof.
  destruct o as [k v | k v |]; cbn [x_apply]; intro E.
  - destruct (x_pre s); inversion E; subst; reflexivity.
  - inversion E; subst; reflexivity.
  - inversion E; subst; reflexivity.
Qed.

Lemma sess_spec mh sts i nd ctx skip prep mh1 sts1 h :
  x_session false tree_guard mh sts i nd ctx skip prep = (mh1, sts1, h) ->
  snd h = (if nd then 1 else 2) /\ length sts <= length sts1 /\
  (forall j, j < length sts -> x_gp (xget sts1 j) = x_gp (xget sts j)) /\
  x_gp (xget sts1 (fst h)) = sess_path (x_gp (xget sts i)) ctx skip /\
  x_ctx (xget sts1 (fst h)) = match ctx with Some v => v | None => x_ctx (xget sts i) end /\
  ((fst h = i /\ tree_guard nd ctx skip prep = false) \/ (fst h = length sts /\ length sts1 = S (length sts))).
Proof.
  intro E. unfold x_session in E. destruct (tree_guard nd ctx skip prep) eqn:G.
  - unfold x_clone in E. inversion E; subst; clear E. cbn [fst snd]. rewrite app_length. cbn [length].
    split; [reflexivity|]. split; [lia|]. split; [|split; [|split]].
    + intros j L. rewrite xget_push_other by lia. reflexivity.
    + rewrite xget_push_same. unfold sess_path. destruct ctx, skip; reflexivity.
    + rewrite xget_push_same. destruct ctx, skip; reflexivity.
    + right. split; [reflexivity | lia].
  - unfold tree_guard in G. destruct ctx; [discriminate G|]. destruct prep; [discriminate G|]. destruct skip; [discriminate G|].
    inversion E; subst; clear E. cbn [fst snd]. rewrite upd_nth_length.
    replace (mk_x (x_ctx (xget sts i)) (x_skip (xget sts i) || false) (x_pre (xget sts i)) (x_set (xget sts i)) (x_gp (xget sts i)))
      with (xget sts i) by (destruct (xget sts i); cbn; rewrite Bool.orb_false_r; reflexivity).
    assert (Q : forall j, xget (upd_nth sts i (xget sts i)) j = xget sts j).
    { intro j. destruct (Nat.eq_dec j i) as [-> | N]; [|apply xget_upd_other, N].
      destruct (Nat.lt_ge_cases i (length sts)) as [L | L].
      - apply nth_upd_nth_eq, L.
      - unfold xget. rewrite !nth_overflow; auto. rewrite upd_nth_length. lia. }
    split; [reflexivity|]. split; [lia|]. split; [|split; [|split]].
    + intros j _. rewrite Q. reflexivity.
    + unfold sess_path. rewrite Q. reflexivity.
    + rewrite Q. reflexivity.
    + left. auto.
Qed.

(* a chain method or a finisher: getInstance, then the instance's ghost grows by one entry *)
Lemma pinv_inst tbl st p mh1 sts1 i mh2 s2 q outs' :
  pinv tbl st -> live tbl p ->
  x_get_instance false (xs_maps st) (xs_stmts st) (hdl st p) = (mh1, sts1, i) ->
  x_gp s2 = x_gp (xget sts1 i) ++ [q] ->
  xsinv (mk_xs mh2 (upd_nth sts1 i s2) (xs_handles st ++ [(i, 0)]) outs') ->
  pinv (kill tbl p ++ [mk_h 0 (inst (ent tbl p) ++ [q]) false])
       (mk_xs mh2 (upd_nth sts1 i s2) (xs_handles st ++ [(i, 0)]) outs').
Proof.
  intros P Lp EG Eg XS. destruct (gi_spec _ _ _ _ _ _ EG) as (Ll & Hold & Hgp & Hc).
  assert (P2 := p_mode _ _ P p (proj1 Lp)). assert (P3 := p_gp _ _ P p Lp). assert (P4 := p_lt _ _ P p (proj1 Lp)).
  assert (Li : i < length sts1) by (destruct Hc as [(_ & -> & ->) | (_ & -> & ->)]; lia).
  apply (pinv_extend tbl st p); [exact P | exact Lp | exact XS | | | | | | ]; cbn [he_path he_mode].
  - rewrite upd_nth_length. exact Ll.
  - rewrite upd_nth_length. exact Li.
  - intros j L N. rewrite xget_upd_other by exact N. rewrite Hold by exact L. reflexivity.
  - unfold xget at 1. rewrite nth_upd_nth_eq by exact Li. rewrite Eg, Hgp, P2, P3. reflexivity.
  - reflexivity.
  - destruct Hc as [(M & -> & ->) | (M & -> & E)].
    + right. left. split; [reflexivity|]. rewrite <- P2. exact M.
    + left. lia.
Qed.

Lemma pinv_step tbl st x :
  pinv tbl st -> usable tbl (step_parent x) = true ->
  pinv (tstep tbl x) (do_xstep false tree_guard st x) /\
  map fst (xs_outs (do_xstep false tree_guard st x)) =
    map fst (xs_outs st) ++ (match x with XFinish _ => [he_path (new_ent tbl x)] | _ => [] end).
Proof.
  intros P U. assert (XS := xinv_step tree_guard tree_guard_sound st x (p_x _ _ P)).
  assert (Lp : live tbl (step_parent x)).
  { unfold usable in U. apply andb_prop in U. destruct U as (U1 & U2). split; [apply Nat.ltb_lt, U1|].
    destruct (he_dead (nth (step_parent x) tbl hent0)) eqn:D; [discriminate U2 | exact D]. }
  revert XS. unfold tstep, do_xstep. cbv zeta.
  destruct x as [p o | p k | p | p]; cbn [step_parent new_ent] in *;
    change (nth p (xs_handles st) (0, 1)) with (hdl st p); fold (ent tbl p).
  - (* chain method *)
    destruct (x_get_instance false (xs_maps st) (xs_stmts st) (hdl st p)) as [[mh1 sts1] i] eqn:EG.
    destruct (x_apply mh1 (xget sts1 i) o) as [mh2 s'] eqn:EA. intro XS.
    split; [|cbn [xs_outs]; rewrite app_nil_r; reflexivity].
    eapply pinv_inst; eauto. cbn [x_push x_gp]. rewrite (apply_gp _ _ _ _ _ EA). reflexivity.
  - destruct k as [nd ctx skip prep | |].
    + (* Session *)
      destruct (x_session false tree_guard (xs_maps st) (xs_stmts st) (fst (hdl st p)) nd ctx skip prep) as [[mh1 sts1] [i m]] eqn:ES.
      intro XS. split; [|cbn [xs_outs]; rewrite app_nil_r; reflexivity].
      destruct (sess_spec _ _ _ _ _ _ _ _ _ _ ES) as (Hm & Ll & Hold & Hgp & _ & Hc). cbn [fst snd] in *.
      assert (P3 := p_gp _ _ P p Lp). assert (P4 := p_lt _ _ P p (proj1 Lp)).
      apply (pinv_extend tbl st p); [exact P | exact Lp | exact XS | | | | | | ]; cbn [he_path he_mode].
      * exact Ll.
      * destruct Hc as [(-> & _) | (-> & ->)]; lia.
      * intros j L _. apply Hold, L.
      * rewrite Hgp, P3. reflexivity.
      * exact Hm.
      * destruct Hc as [(-> & _) | (-> & E)].
        -- right. right. split; [reflexivity|]. split; [destruct nd; discriminate|]. apply Hold, P4.
        -- left. lia.
    + (* Debug *)
      destruct (x_get_instance false (xs_maps st) (xs_stmts st) (hdl st p)) as [[mh1 sts1] i] eqn:EG.
      destruct (x_session false tree_guard mh1 sts1 i false None false false) as [[mh2 sts2] [i2 m2]] eqn:ES.
      intro XS. split; [|cbn [xs_outs]; rewrite app_nil_r; reflexivity].
      destruct (gi_spec _ _ _ _ _ _ EG) as (Ll & Hold & Hgp & Hc).
      destruct (sess_spec _ _ _ _ _ _ _ _ _ _ ES) as (Hm & Ll2 & Hold2 & Hgp2 & _ & Hc2). cbn [fst snd] in *.
      assert (P2 := p_mode _ _ P p (proj1 Lp)). assert (P3 := p_gp _ _ P p Lp). assert (P4 := p_lt _ _ P p (proj1 Lp)).
      assert (Li : i < length sts1) by (destruct Hc as [(_ & -> & ->) | (_ & -> & ->)]; lia).
      apply (pinv_extend tbl st p); [exact P | exact Lp | exact XS | | | | | | ]; cbn [he_path he_mode].
      * lia.
      * destruct Hc2 as [(-> & _) | (-> & ->)]; lia.
      * intros j L _. rewrite Hold2 by lia. rewrite Hold by exact L. reflexivity.
      * rewrite Hgp2. unfold sess_path. rewrite Hgp, P2, P3. reflexivity.
      * exact Hm.
      * destruct Hc2 as [(-> & _) | (-> & E)]; [|left; lia].
        destruct Hc as [(M & -> & ->) | (M & -> & E)]; [|left; lia].
        right. right. split; [reflexivity|]. split; [discriminate|]. apply Hold2, P4.
    + (* Begin *)
      destruct (x_get_instance false (xs_maps st) (xs_stmts st) (hdl st p)) as [[mh1 sts1] i] eqn:EG.
      match goal with |- context [x_session false tree_guard mh1 sts1 i ?a ?b false false] =>
        destruct (x_session false tree_guard mh1 sts1 i a b false false) as [[mh2 sts2] [i2 m2]] eqn:ES end.
      intro XS. split; [|cbn [xs_outs]; rewrite app_nil_r; reflexivity].
      destruct (gi_spec _ _ _ _ _ _ EG) as (Ll & Hold & Hgp & Hc).
      destruct (sess_spec _ _ _ _ _ _ _ _ _ _ ES) as (Hm & Ll2 & Hold2 & Hgp2 & _ & Hc2). cbn [fst snd] in *.
      assert (P2 := p_mode _ _ P p (proj1 Lp)). assert (P3 := p_gp _ _ P p Lp). assert (P4 := p_lt _ _ P p (proj1 Lp)).
      assert (X1 : xinv mh1 sts1) by (eapply get_instance_xinv; [apply (xi_h _ (p_x _ _ P)) | exact EG]).
      destruct Hc2 as [(_ & G) | (-> & E2)]; [discriminate G|].
      assert (Gq : x_gp (xget sts1 i) = inst (ent tbl p)) by (rewrite Hgp, P2, P3; reflexivity).
      apply (pinv_extend tbl st p); [exact P | exact Lp | exact XS | | | | | | ]; cbn [he_path he_mode].
      * lia.
      * lia.
      * intros j L _. rewrite Hold2 by lia. rewrite Hold by exact L. reflexivity.
      * rewrite Hgp2. unfold sess_path. rewrite Gq. f_equal. f_equal. f_equal.
        destruct X1 as (_ & _ & C). rewrite <- Gq, <- C. reflexivity.
      * rewrite Hm, <- P2. destruct (snd (hdl st p)) as [|[|n]]; reflexivity.
      * left. lia.
  - (* finisher *)
    destruct (x_get_instance false (xs_maps st) (xs_stmts st) (hdl st p)) as [[mh1 sts1] i] eqn:EG. intro XS.
    split.
    + eapply pinv_inst; eauto.
    + cbn [xs_outs]. rewrite map_app. cbn [map fst x_push x_gp he_path]. f_equal. f_equal.
      destruct (gi_spec _ _ _ _ _ _ EG) as (_ & _ & Hgp & _).
      rewrite Hgp, (p_mode _ _ P p (proj1 Lp)), (p_gp _ _ P p Lp). reflexivity.
  - (* abandoned *)
    intro XS. split; [|cbn [xs_outs]; rewrite app_nil_r; reflexivity].
    assert (P2 := p_mode _ _ P p (proj1 Lp)). assert (P3 := p_gp _ _ P p Lp). assert (P4 := p_lt _ _ P p (proj1 Lp)).
    replace (hdl st p) with (fst (hdl st p), snd (hdl st p)) in * by (destruct (hdl st p); reflexivity).
    apply (pinv_extend tbl st p); [exact P | exact Lp | exact XS | | | | | | ]; cbn [he_path he_mode fst snd].
    + lia.
    + exact P4.
    + intros j L _. reflexivity.
    + exact P3.
    + exact P2.
    + destruct (he_mode (ent tbl p)) eqn:M.
      * right. left. auto.
      * right. right. split; [reflexivity|]. split; [discriminate | reflexivity].
Qed.

Lemma pinv0 : pinv tbl0 xstate0.
Proof.
  constructor; cbn.
  - reflexivity.
  - intros h L. destruct h as [|h]; [reflexivity | lia].
  - intros h (L & _). cbn in L. destruct h as [|h]; [reflexivity | lia].
  - intros h L. destruct h as [|h]; cbn; lia.
  - intros h h' (L & _) (L' & _) N. cbn in L, L'. lia.
  - apply xinv_state0.
Qed.

Lemma paths_run hist : forall tbl st, pinv tbl st -> linearb tbl hist = true ->
  map fst (xs_outs (fold_left (do_xstep false tree_guard) hist st)) = map fst (xs_outs st) ++ fin_paths tbl hist.
Proof.
  induction hist as [|x r IH]; intros tbl st P L; cbn [fold_left fin_paths].
  - rewrite app_nil_r. reflexivity.
  - cbn [linearb] in L. apply andb_prop in L. destruct L as (U & L).
    destruct (pinv_step tbl st x P U) as (P' & E). rewrite (IH _ _ P' L), E, <- app_assoc. reflexivity.
Qed.

(* for a linear history the ghost chain of every finisher is the derivation path of its handle *)
Theorem ghost_is_path hist : linearb tbl0 hist = true ->
  map fst (xs_outs (run_xhist false tree_guard hist)) = fin_paths tbl0 hist.
Proof. intro L. unfold run_xhist. rewrite (paths_run hist tbl0 xstate0 pinv0 L). reflexivity. Qed.

Lemma isolated_map (l : list (list xpop * xobs)) :
  (forall c o, In (c, o) l -> o = xreplay c) -> map snd l = map xreplay (map fst l).
Proof.
  induction l as [|[c o] r IH]; intro H; cbn; auto.
  rewrite (H c o (or_introl eq_refl)), IH; auto. intros c' o' Hin. apply H. right. exact Hin.
Qed.

(* THE PROPERTY without a ghost: what the finishers of a linear history ran under (context, SkipHooks,
   preloads, settings), in order, is what their syntactic derivation paths give alone *)
Theorem syntactic_isolation hist : linearb tbl0 hist = true ->
  map snd (xs_outs (run_xhist false tree_guard hist)) = map xreplay (fin_paths tbl0 hist).
Proof.
  intro L. rewrite <- (ghost_is_path hist L). apply isolated_map. apply x_isolation_all, tree_guard_sound.
Qed.

(* non-vacuity: an interleaved history (a pending chain, a sibling, a child session) is linear *)
Definition wit_linear : list xstep :=
  [XDerive 0 (XPreload 1 0); XSess 1 (XSession false None false false); XDerive 2 (XPreload 2 5);
   XSess 2 (XSession true (Some 7%Z) true false); XDerive 2 (XSet 1 3); XFinish 3; XFinish 2; XFinish 5; XSess 4 XBegin; XFinish 9].
Lemma wit_linear_ok : linearb tbl0 wit_linear = true /\ length (fin_paths tbl0 wit_linear) = 4.
Proof. vm_compute. split; reflexivity. Qed.
(* re-using a chain result is not linear *)
Lemma reuse_not_linear : linearb tbl0 [XDerive 0 XOther; XDerive 1 XOther; XDerive 1 XOther] = false.
Proof. vm_compute. reflexivity. Qed.
