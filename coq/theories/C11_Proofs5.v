(* C11_Proofs5.v — utils.ToStringKey as it is on the tree (escape '\' and '_' in string parts, print
   the string "nil" as "\nil", print zero numbers as numbers) is faithful to SQL value equality for
   ALL keys of a typed schema, so the preload / Association().Find theorems hold with no hypothesis
   on key contents.  Relation to the previous encoding: identical on every key free of '\', '_',
   the string "nil" and by-value zeros. *)
From Coq Require Import DecimalString DecimalZ.
From Verif Require Import Base C11_Model C11_Proofs C11_Proofs2 C11_Proofs3 C11_Proofs4.
Open Scope nat_scope.

(* well-formed encoded part: a sequence of tokens, each a plain character (neither '\' nor '_')
   or '\' followed by one character *)
Fixpoint wf (s : string) : bool :=
  match s with
  | EmptyString => true
  | String a r =>
    if Ascii.eqb a bs then match r with EmptyString => false | String _ r' => wf r' end
    else if Ascii.eqb a us then false else wf r
  end.

Lemma split_wf_n : forall n x y r r',
  String.length x <= n -> wf x = true -> wf y = true ->
  (x ++ String us r)%string = (y ++ String us r')%string -> x = y /\ r = r'.
Proof.
  induction n as [|n IH]; intros x y r r' L Wx Wy E.
  - destruct x; [|cbn in L; lia]. destruct y as [|b y]; cbn in E.
    + inversion E. split; reflexivity.
    + inversion E; subst b. cbn in Wy. discriminate.
  - destruct x as [|a x].
    + destruct y as [|b y]; cbn in E; [inversion E; split; reflexivity|].
      inversion E; subst b. cbn in Wy. discriminate.
    + destruct y as [|b y]; cbn in E.
      * inversion E; subst a. cbn in Wx. discriminate.
      * inversion E; subst b. clear E. cbn in Wx, Wy.
        destruct (Ascii.eqb a bs) eqn:Eb.
        -- destruct x as [|a2 x]; [discriminate|]. destruct y as [|b2 y]; [discriminate|].
           cbn in H1. inversion H1; subst b2.
           destruct (IH x y r r') as [-> ->]; auto. cbn in L. lia.
        -- destruct (Ascii.eqb a us); [discriminate|].
           destruct (IH x y r r') as [-> ->]; auto. cbn in L. lia.
Qed.

Lemma split_wf x y r r' : wf x = true -> wf y = true ->
  (x ++ String us r)%string = (y ++ String us r')%string -> x = y /\ r = r'.
Proof. apply (split_wf_n (String.length x)). lia. Qed.

Lemma join_inj_wf : forall l1 l2,
  length l1 = length l2 ->
  Forall (fun s => wf s = true) l1 -> Forall (fun s => wf s = true) l2 ->
  String.concat "_" l1 = String.concat "_" l2 -> l1 = l2.
Proof.
  induction l1 as [|x l1 IH]; intros [|y l2] L F1 F2 E; cbn in L; try discriminate; [reflexivity|].
  inversion F1 as [|? ? Hx F1']; inversion F2 as [|? ? Hy F2']; subst.
  destruct l1 as [|x' l1], l2 as [|y' l2]; cbn in L; try discriminate.
  - cbn in E. subst. reflexivity.
  - rewrite !concat_cons2 in E. cbn [append] in E.
    destruct (split_wf x y _ _ Hx Hy E) as [-> E']. f_equal. apply IH; auto.
Qed.

(* ---- the escaping ---- *)
Lemma esc_wf s : wf (esc s) = true.
Proof.
  induction s as [|a s IH]; cbn; [reflexivity|].
  destruct (Ascii.eqb a bs) eqn:Eb; [cbn; rewrite ?Ascii.eqb_refl; exact IH|].
  destruct (Ascii.eqb a us) eqn:Eu; cbn.
  - rewrite ?Ascii.eqb_refl. exact IH.
  - rewrite Eb, Eu. exact IH.
Qed.

Ltac ch := repeat match goal with
  | H : Ascii.eqb _ _ = true |- _ => apply Ascii.eqb_eq in H; subst
  end.

Lemma esc_inj : forall s t, esc s = esc t -> s = t.
Proof.
  induction s as [|a s IH]; intros [|b t] E; cbn in E.
  - reflexivity.
  - destruct (Ascii.eqb b bs); [discriminate|]. destruct (Ascii.eqb b us); discriminate.
  - destruct (Ascii.eqb a bs); [discriminate|]. destruct (Ascii.eqb a us); discriminate.
  - destruct (Ascii.eqb a bs) eqn:Ab, (Ascii.eqb b bs) eqn:Bb;
      [| destruct (Ascii.eqb b us) eqn:Bu | destruct (Ascii.eqb a us) eqn:Au
       | destruct (Ascii.eqb a us) eqn:Au, (Ascii.eqb b us) eqn:Bu];
      ch; inversion E; subst; rewrite ?Ascii.eqb_refl in *; try discriminate;
      try (f_equal; apply IH; assumption).
Qed.

(* in esc's output a backslash is followed by '\' or '_' *)
Lemma esc_not_bs_n s r : esc s <> String bs (String "n" r).
Proof.
  destruct s as [|a s]; cbn; [discriminate|].
  destruct (Ascii.eqb a bs) eqn:Ab; [intro E; inversion E|].
  destruct (Ascii.eqb a us) eqn:Au; [intro E; inversion E|].
  intro E. inversion E; subst a. rewrite Ascii.eqb_refl in Ab. discriminate.
Qed.

Lemma esc_nil s : esc s = "nil"%string -> s = "nil"%string.
Proof. intro E. apply esc_inj. rewrite E. reflexivity. Qed.

Lemma esc_str_wf s : wf (esc_str s) = true.
Proof. unfold esc_str. destruct (String.eqb s "nil"); [reflexivity | apply esc_wf]. Qed.

Lemma esc_str_inj s t : esc_str s = esc_str t -> s = t.
Proof.
  unfold esc_str. destruct (String.eqb s "nil") eqn:Es, (String.eqb t "nil") eqn:Et; intro E.
  - apply String.eqb_eq in Es, Et. congruence.
  - exfalso. symmetry in E. exact (esc_not_bs_n t _ E).
  - exfalso. exact (esc_not_bs_n s _ E).
  - apply esc_inj. exact E.
Qed.

Lemma esc_str_not_nil s : esc_str s <> "nil"%string.
Proof.
  unfold esc_str. destruct (String.eqb s "nil") eqn:Es; [discriminate|].
  intro E. apply esc_nil in E. subst s. discriminate.
Qed.

Lemma allok_wf s : allok s = true -> wf s = true.
Proof.
  induction s as [|a s IH]; cbn; [reflexivity|]. intro H. apply andb_prop in H. destruct H as [Ha Hs].
  destruct (Ascii.eqb a bs) eqn:Eb; [apply Ascii.eqb_eq in Eb; subst a; discriminate|].
  destruct (Ascii.eqb a us) eqn:Eu; [apply Ascii.eqb_eq in Eu; subst a; discriminate|]. exact (IH Hs).
Qed.

Lemma part_fixed_wf p : wf (part_str p) = true.
Proof. destruct p; cbn; try apply esc_str_wf; try (apply allok_wf, dec_allok); reflexivity. Qed.

Lemma part_fixed_val p q : sort_ok p q = true ->
  part_str p = part_str q -> part_val p = part_val q.
Proof.
  intros S E.
  destruct p as [s|s|n|z|z|], q as [s'|s'|n'|z'|z'|]; cbn in *; try discriminate; try reflexivity;
    try (apply esc_str_inj in E; subst; reflexivity);
    try (exfalso; eapply esc_str_not_nil; eassumption);
    try (exfalso; symmetry in E; eapply esc_str_not_nil; eassumption);
    try (apply dec_inj in E; subst; try rewrite (N2Z.inj _ _ E); reflexivity);
    try (exfalso; eapply dec_not_nil; eassumption);
    try (exfalso; symmetry in E; eapply dec_not_nil; eassumption).
Qed.

Lemma part_val_fixed p q : part_val p = part_val q -> part_str p = part_str q.
Proof.
  intro E. destruct p as [s|s|n|z|z|], q as [s'|s'|n'|z'|z'|]; cbn in *; try discriminate; try reflexivity;
    inversion E; subst; reflexivity.
Qed.

Lemma fixed_vals k1 k2 : compat k1 k2 ->
  to_string_key k1 = to_string_key k2 -> kvals k1 = kvals k2.
Proof.
  intros Cm E. unfold to_string_key in E.
  apply join_inj_wf in E.
  - clear - Cm E. induction Cm as [|p q k1 k2 S Cm IH]; cbn in *; [reflexivity|].
    inversion E. f_equal; [apply part_fixed_val; assumption | apply IH; assumption].
  - rewrite !map_length. apply compat_length. exact Cm.
  - apply Forall_forall. intros s Hs. apply in_map_iff in Hs. destruct Hs as [p [<- _]]. apply part_fixed_wf.
  - apply Forall_forall. intros s Hs. apply in_map_iff in Hs. destruct Hs as [p [<- _]]. apply part_fixed_wf.
Qed.

Lemma vals_fixed : forall k1 k2, kvals k1 = kvals k2 -> to_string_key k1 = to_string_key k2.
Proof.
  intros k1 k2 E. unfold to_string_key. f_equal. unfold kvals in E.
  revert k2 E. induction k1 as [|p k1 IH]; intros [|q k2] E; cbn in *; try discriminate; [reflexivity|].
  inversion E. f_equal; [apply part_val_fixed; assumption | apply IH; assumption].
Qed.

(* only schema typing is needed *)
Theorem key_faithful ps cs :
  (forall k1 k2, In k1 ps -> In k2 ps \/ In k2 cs -> compat k1 k2) ->
  keys_faithful to_string_key ps cs.
Proof.
  intro Cm. split.
  - intros k1 k2 H1 H2 _ _ E. apply fixed_vals; auto.
  - intros kp kc Hp Hc _ NN. split.
    + intro E. assert (V : kvals kp = kvals kc) by (apply fixed_vals; auto).
      unfold key_eqv. rewrite V. apply tuple_eqb_refl, non_null_vals, NN.
    + intro E. unfold key_eqv in E. apply tuple_eqb_eq in E. destruct E as [E _]. apply vals_fixed; exact E.
Qed.

Theorem preload_total h ps cs :
  (forall k1 k2, In k1 ps -> In k2 ps \/ In k2 (map c_key cs) -> compat k1 k2) ->
  preload_hop to_string_key h ps cs = Some (norm_single (h_single h) (attach h ps cs)).
Proof. intro Cm. apply preload_hop_attach, key_faithful, Cm. Qed.

(* corresponding key columns have the same SQL type *)
Definition typed (ks1 ks2 : list key) : Prop :=
  forall k1 k2, In k1 ks1 -> In k2 ks1 \/ In k2 ks2 -> compat k1 k2.

Theorem preload_m2m_total h ps js cs :
  typed ps (map fst js) -> typed (map snd js) (map c_key cs) ->
  (forall j, In j js -> all_zero (snd j) = false) -> join_rows_unique ps js cs ->
  preload_m2m to_string_key h ps js cs = Some (attach_m2m h ps js cs).
Proof. intros T1 T2 Z U. apply preload_m2m_attach; auto using key_faithful. Qed.

Theorem preload_nested_total h1 h2 ps cs1 cs2 :
  let f := filter (owned h1 ps) cs1 in
  typed ps (map c_key cs1) -> typed (map c_key2 f) (map c_key cs2) ->
  preload_nested to_string_key h1 h2 ps cs1 cs2 =
  (Some (norm_single (h_single h1) (attach h1 ps cs1)), map c_uid f,
   Some (norm_single (h_single h2) (attach h2 (map c_key2 f) cs2))).
Proof. intros f T1 T2. apply preload_nested_attach; apply key_faithful; assumption. Qed.

Theorem assoc_find_total h ps cs :
  (forall k1 k2, In k1 ps -> In k2 ps -> compat k1 k2) ->
  assoc_find to_string_key h ps cs = map c_uid (filter (owned h ps) cs).
Proof.
  intro T. apply assoc_find_owned. intros k1 k2 H1 H2 _ _ E. apply fixed_vals; auto.
Qed.

(* the fix changed no key that is free of '\', '_' and is not the string "nil" or a by-value zero *)
Fixpoint has_bs (s : string) : bool :=
  match s with EmptyString => false | String a r => Ascii.eqb a bs || has_bs r end.

Lemma esc_plain s : has_us s = false -> has_bs s = false -> esc s = s.
Proof.
  induction s as [|a s IH]; cbn; [reflexivity|]. intros U B.
  apply orb_false_elim in U. apply orb_false_elim in B. destruct U as [Ua Us], B as [Ba Bs].
  unfold us. rewrite Ba, Ua, (IH Us Bs). reflexivity.
Qed.

Definition plain_part (p : keypart) : bool :=
  match p with
  | KStr s | KPStr s => negb (has_us s) && negb (has_bs s) && negb (String.eqb s "nil")
  | KInt z => negb (Z.eqb z 0)
  | _ => true
  end.

Theorem encoding_unchanged k : forallb plain_part k = true -> to_string_key k = to_string_key_prev k.
Proof.
  intro H. unfold to_string_key, to_string_key_prev. f_equal. apply map_ext_in. intros p Hp.
  rewrite forallb_forall in H. specialize (H p Hp).
  destruct p; cbn in *; try reflexivity.
  - apply andb_prop in H. destruct H as [H N]. apply andb_prop in H. destruct H as [U B].
    unfold esc_str. destruct (String.eqb s "nil"); [discriminate|]. apply esc_plain.
    + destruct (has_us s); [discriminate | reflexivity].
    + destruct (has_bs s); [discriminate | reflexivity].
  - apply andb_prop in H. destruct H as [H N]. apply andb_prop in H. destruct H as [U B].
    unfold esc_str. destruct (String.eqb s "nil"); [discriminate|]. apply esc_plain.
    + destruct (has_us s); [discriminate | reflexivity].
    + destruct (has_bs s); [discriminate | reflexivity].
  - destruct (Z.eqb z 0); [discriminate | reflexivity].
Qed.

(* utils_test.go's expected outputs *)
Example encoding_keeps_tests :
  to_string_key [KStr "a"] = "a"%string /\
  to_string_key [KInt 1; KInt 2; KInt 3] = "1_2_3"%string /\
  to_string_key [KInt 1; KNil; KInt 3] = "1_nil_3"%string.
Proof. repeat split; vm_compute; reflexivity. Qed.
