(* C03_Proofs2.v — the primary-key back-fill of callbacks.Create: LastInsertId arithmetic (both
   directions) and the RETURNING scan, over slices of any length. *)
From Verif Require Import Base C03_Model.
Open Scope Z_scope.

(* ---- generic list facts ---- *)
Lemma rev_repeat {A} : forall (x : A) n, rev (repeat x n) = repeat x n.
Proof.
  intros x n. induction n as [|n IH]; [reflexivity|].
  cbn. rewrite IH. clear IH. induction n as [|n IH]; [reflexivity|]. cbn. rewrite IH. reflexivity.
Qed.

Lemma nth_map2 {A B C} (f : A -> B -> C) : forall a b i da db dc,
  (i < length a)%nat -> (i < length b)%nat ->
  nth i (map2 f a b) dc = f (nth i a da) (nth i b db).
Proof.
  induction a as [|x a IH]; intros [|y b] i da db dc Ha Hb; cbn in *; try lia.
  destruct i as [|i]; [reflexivity|]. apply IH; lia.
Qed.

Lemma length_map2 {A B C} (f : A -> B -> C) : forall a b,
  length (map2 f a b) = Nat.min (length a) (length b).
Proof. induction a as [|x a IH]; intros [|y b]; cbn; auto. Qed.

Lemma opt_all_spec {A} : forall (l : list (option A)) r,
  opt_all l = Some r ->
  length r = length l /\ forall i d, (i < length l)%nat -> nth i l None = Some (nth i r d).
Proof.
  induction l as [|[x|] l IH]; intros r H; cbn in H; try discriminate.
  - inversion H. split; [reflexivity|]. intros i d Hi. cbn in Hi. lia.
  - destruct (opt_all l) as [r'|] eqn:E; try discriminate. inversion H; subst.
    destruct (IH r' eq_refl) as [Hl Hn]. split; [cbn; lia|].
    intros [|i] d Hi; cbn; [reflexivity|]. apply Hn. cbn in Hi. lia.
Qed.

Lemma nth_map_seq {B} : forall (f : nat -> B) n i d, (i < n)%nat -> nth i (map f (seq 0 n)) d = f i.
Proof.
  intros f n i d Hi. rewrite nth_indep with (d' := f 0%nat) by (rewrite map_length, seq_length; exact Hi).
  rewrite map_nth, seq_nth by exact Hi. reflexivity.
Qed.

(* ---- SQLite key assignment ---- *)
Lemma length_assign : forall keys cur, length (assign cur keys) = length keys.
Proof. induction keys as [|k r IH]; intros cur; cbn; [reflexivity|]. destruct (k =? 0); cbn; rewrite IH; reflexivity. Qed.

(* a preset key is the key of its row *)
Lemma assign_preset : forall keys cur i,
  (i < length keys)%nat -> nth i keys 0 <> 0 -> nth i (assign cur keys) 0 = nth i keys 0.
Proof.
  induction keys as [|k r IH]; intros cur i Hi Hk; cbn in *; [lia|].
  destruct (k =? 0) eqn:E.
  - destruct i as [|i]; cbn. { apply Z.eqb_eq in E. contradiction. } apply IH; [lia | exact Hk].
  - destruct i as [|i]; cbn; [reflexivity|]. apply IH; [lia | exact Hk].
Qed.

Lemma assign_all_zero : forall n cur,
  assign cur (repeat 0 n) = map (fun i => cur + 1 + Z.of_nat i) (seq 0 n).
Proof.
  induction n as [|n IH]; intros cur; [reflexivity|].
  cbn [repeat assign]. cbn [Z.eqb]. rewrite IH. cbn [seq map]. f_equal; [lia|].
  rewrite <- seq_shift. rewrite map_map. apply map_ext. intro i. lia.
Qed.

Lemma assign_all_preset : forall keys cur, Forall (fun k => k <> 0) keys -> assign cur keys = keys.
Proof.
  induction keys as [|k r IH]; intros cur H; [reflexivity|]. inversion H; subst. cbn.
  destruct (k =? 0) eqn:E; [apply Z.eqb_eq in E; contradiction|]. f_equal. apply IH. assumption.
Qed.

(* ---- LastInsertId walks ---- *)
Lemma bf_fwd_all_zero : forall n id,
  bf_fwd id (repeat true n) = map (fun i => Some (id + Z.of_nat i)) (seq 0 n).
Proof.
  induction n as [|n IH]; intros id; [reflexivity|].
  cbn [repeat bf_fwd]. rewrite IH. cbn [seq map]. f_equal; [f_equal; lia|].
  rewrite <- seq_shift. rewrite map_map. apply map_ext. intro i. f_equal. lia.
Qed.

Lemma bf_down_all_zero : forall n id,
  bf_down id (repeat true n) = map (fun i => Some (id - Z.of_nat i)) (seq 0 n).
Proof.
  induction n as [|n IH]; intros id; [reflexivity|].
  cbn [repeat bf_down]. rewrite IH. cbn [seq map]. f_equal; [f_equal; lia|].
  rewrite <- seq_shift. rewrite map_map. apply map_ext. intro i. f_equal. lia.
Qed.

Lemma bf_fwd_none : forall n id, bf_fwd id (repeat false n) = repeat None n.
Proof. induction n as [|n IH]; intros id; [reflexivity|]. cbn. rewrite IH. reflexivity. Qed.
Lemma bf_down_none : forall n id, bf_down id (repeat false n) = repeat None n.
Proof. induction n as [|n IH]; intros id; [reflexivity|]. cbn. rewrite IH. reflexivity. Qed.

(* all keys zero, ids a, a+1, ..., a+n-1: the driver reports the last (reversed dialects) or the
   first of them; record i receives a+i in both directions *)
Theorem backfill_lastid_all_zero : forall reversed n a i,
  (i < n)%nat ->
  nth i (backfill_lastid reversed (if reversed then a + Z.of_nat n - 1 else a) (repeat true n)) None
  = Some (a + Z.of_nat i).
Proof.
  intros reversed n a i Hi. unfold backfill_lastid. destruct reversed.
  - rewrite rev_repeat. rewrite bf_down_all_zero.
    rewrite rev_nth by (rewrite map_length, seq_length; exact Hi).
    rewrite map_length, seq_length.
    rewrite nth_map_seq by lia. f_equal. lia.
  - rewrite bf_fwd_all_zero. rewrite nth_map_seq by lia. reflexivity.
Qed.

(* all keys preset: nothing is written *)
Theorem backfill_lastid_all_preset : forall reversed n id,
  backfill_lastid reversed id (repeat false n) = repeat None n.
Proof.
  intros [|] n id; unfold backfill_lastid.
  - rewrite rev_repeat, bf_down_none, rev_repeat. reflexivity.
  - apply bf_fwd_none.
Qed.

(* the keys the records hold after the LastInsertId path, on SQLite (LastInsertId = last row) *)
Definition keys_after_lastid (reversed : bool) (base : Z) (keys : list Z) : list Z :=
  let ids := assign base keys in
  map2 (fun k o => match o with Some id => id | None => k end) keys
       (backfill_lastid reversed (last_z ids 0) (map (fun k => k =? 0) keys)).

Lemma lastz_map_seq_gen : forall n (f : nat -> Z) d s, lastz (map f (seq s (S n))) d = f (s + n)%nat.
Proof.
  induction n as [|n IH]; intros f d s.
  - cbn. f_equal. lia.
  - change (seq s (S (S n))) with (s :: seq (S s) (S n)). cbn [map].
    specialize (IH f d (S s)). rewrite <- (Nat.add_succ_comm s n). rewrite <- IH.
    change (seq (S s) (S n)) with (S s :: seq (S (S s)) n). reflexivity.
Qed.
Lemma lastz_map_seq : forall n (f : nat -> Z) d, (0 < n)%nat -> lastz (map f (seq 0 n)) d = f (n - 1)%nat.
Proof.
  intros n f d Hn. destruct n as [|n]; [lia|]. rewrite lastz_map_seq_gen. f_equal. lia.
Qed.

Lemma map2_nth_ext {A B C} (f : A -> B -> C) : forall a b (r : list C) da db dc,
  length a = length r -> length b = length r ->
  (forall i, (i < length r)%nat -> f (nth i a da) (nth i b db) = nth i r dc) ->
  map2 f a b = r.
Proof.
  induction a as [|x a IH]; intros [|y b] [|z r] da db dc Ha Hb H; cbn in *; try lia; [reflexivity|].
  f_equal.
  - apply (H 0%nat). lia.
  - eapply IH; try lia. intros i Hi. apply (H (S i)). lia.
Qed.

Theorem lastid_correct_all_zero : forall n base,
  keys_after_lastid true base (repeat 0 n) = assign base (repeat 0 n).
Proof.
  intros n base. unfold keys_after_lastid. rewrite assign_all_zero.
  destruct n as [|n]; [reflexivity|].
  assert (Hz : map (fun k => k =? 0) (repeat 0 (S n)) = repeat true (S n)).
  { generalize (S n) as m. induction m as [|m IH]; [reflexivity|]. cbn. rewrite IH. reflexivity. }
  rewrite Hz. unfold last_z. rewrite lastz_map_seq by lia.
  eapply map2_nth_ext with (da := 0) (db := None) (dc := 0).
  - rewrite repeat_length, map_length, seq_length. reflexivity.
  - unfold backfill_lastid. rewrite rev_length, rev_repeat, bf_down_all_zero, !map_length, !seq_length. reflexivity.
  - rewrite map_length, seq_length. intros i Hi.
    replace (base + 1 + Z.of_nat (S n - 1)) with ((base + 1) + Z.of_nat (S n) - 1) by lia.
    rewrite (backfill_lastid_all_zero true (S n) (base + 1) i Hi).
    rewrite nth_map_seq by lia. reflexivity.
Qed.

Theorem lastid_correct_all_preset : forall reversed keys base,
  Forall (fun k => k <> 0) keys -> keys_after_lastid reversed base keys = assign base keys.
Proof.
  intros reversed keys base H. unfold keys_after_lastid.
  assert (Hz : map (fun k => k =? 0) keys = repeat false (length keys)).
  { induction H as [|k r Hk Hr IH]; [reflexivity|]. cbn. rewrite IH.
    destruct (k =? 0) eqn:E; [apply Z.eqb_eq in E; contradiction | reflexivity]. }
  rewrite Hz, backfill_lastid_all_preset, assign_all_preset by exact H.
  clear. induction keys as [|k r IH]; [reflexivity|]. cbn. rewrite IH. reflexivity.
Qed.

(* mixing preset and zero keys: record 0 of [{}; {Key:10}; {}] receives key 10, the key of row 1 *)
Theorem lastid_mixed_refuted :
  exists base keys, keys_after_lastid true base keys <> assign base keys.
Proof. exists 0, [0; 10; 0]. vm_compute. discriminate. Qed.

(* []map destinations *)
Theorem backfill_maps_all_absent : forall n base,
  backfill_maps true (last_z (assign base (repeat 0 n)) 0) n = assign base (repeat 0 n).
Proof.
  intros n base. rewrite assign_all_zero. unfold backfill_maps.
  destruct n as [|n]; [reflexivity|]. unfold last_z. rewrite lastz_map_seq by lia.
  apply map_ext. intro i. lia.
Qed.
Theorem backfill_maps_preset_refuted :
  exists base keys, backfill_maps true (last_z (assign base keys) 0) (length keys) <> assign base keys.
Proof. exists 0, [5000; 3000]. vm_compute. discriminate. Qed.

(* ------------------------------------------------------------------ *)
(* RETURNING path: record i receives the key of row i, for every slice *)
Lemma auto_idx_spec : forall fs s j,
  auto_idx fs s = Some j ->
  (s <= j)%nat /\ (j - s < length fs)%nat /\
  forall d, fd_pk (nth (j - s) fs d) && fd_auto (nth (j - s) fs d) = true.
Proof.
  induction fs as [|f fs IH]; intros s j H; cbn in H; [discriminate|].
  destruct (fd_pk f && fd_auto f) eqn:E.
  - inversion H; subst. replace (j - j)%nat with 0%nat by lia. cbn. repeat split; try lia. intro; exact E.
  - destruct (IH _ _ H) as [H1 [H2 H3]]. repeat split; cbn; try lia.
    intro d. replace (j - s)%nat with (S (j - S s)) by lia. cbn. apply H3.
Qed.

Definition int_kind (k : kind) : bool := match k with KInt _ | KUint _ => true | _ => false end.

Lemma key_cell : forall f now incl id z c,
  is_dbdef f = true -> fd_auto f = true -> int_kind (fd_kind f) = true ->
  (z <> 0 -> id = z) ->
  cell f now incl id (GInt z) = Some c -> c = DInt id.
Proof.
  intros f now incl id z c Hd Ha Hk Hid Hc. unfold cell in Hc. rewrite Hd in Hc.
  cbn [is_zero] in Hc. destruct (z =? 0) eqn:E; cbn [negb] in Hc.
  - rewrite Ha in Hc. inversion Hc. reflexivity.
  - apply Z.eqb_neq in E. rewrite (Hid E).
    destruct (fd_kind f); try discriminate; cbn in Hc.
    + destruct (int_ok w z); inversion Hc; reflexivity.
    + destruct (uint_ok w z); inversion Hc; reflexivity.
Qed.

Theorem returning_backfill : forall fs now reversed prio ph is_struct base recs after rows b' j,
  auto_idx fs 0 = Some j ->
  is_dbdef (nth j fs (mk_fd [] "" KStr false false false None None 0 0 false)) = true ->
  int_kind (fd_kind (nth j fs (mk_fd [] "" KStr false false false None None 0 0 false))) = true ->
  Forall (fun r => length r = length fs /\ exists z, nth j r GAbsent = GInt z) recs ->
  create_stmt fs now true reversed prio ph is_struct base recs = Some (after, rows, b') ->
  length after = length recs /\ length rows = length recs /\
  forall i, (i < length recs)%nat ->
    let id := nth i (assign base (map (rec_key fs) recs)) 0 in
    nth j (nth i rows []) DNull = DInt id            (* the row that stores record i has key id *)
    /\ nth j (nth i after []) GAbsent = GInt id.     (* and record i carries it *)
Proof.
  intros fs now reversed prio ph is_struct base recs after rows b' j Hj Hdb Hik Hrecs Hc.
  set (dflt := mk_fd [] "" KStr false false false None None 0 0 false) in *.
  destruct (auto_idx_spec _ _ _ Hj) as [_ [Hjl Hpk]]. rewrite Nat.sub_0_r in *.
  specialize (Hpk dflt). apply andb_prop in Hpk. destruct Hpk as [_ Hauto].
  unfold create_stmt in Hc.
  set (keys := map (rec_key fs) recs) in *. set (ids := assign base keys) in *.
  set (incl := if is_struct then map (fun _ => false) fs else incl_of fs recs) in *.
  destruct (opt_all (map2 (fun id r => row_of fs now incl id r) ids recs)) as [rows0|] eqn:Er; [|discriminate].
  assert (Hex : existsb is_dbdef fs = true).
  { apply existsb_exists. exists (nth j fs dflt). split; [apply nth_In; exact Hjl | exact Hdb]. }
  rewrite Hex in Hc. cbn [andb] in Hc. inversion Hc; subst after rows b'. clear Hc.
  destruct (opt_all_spec _ _ Er) as [Hlen Hnth].
  rewrite length_map2 in Hlen. unfold ids in Hlen at 1. rewrite length_assign in Hlen.
  unfold keys in Hlen at 1. rewrite map_length, Nat.min_id in Hlen.
  assert (Hincl : length incl = length fs).
  { unfold incl. destruct is_struct; [apply map_length|]. unfold incl_of. rewrite map_length, combine_length, seq_length. lia. }
  split; [rewrite length_map2, combine_length, map_length, Hlen; lia|]. split; [exact Hlen|].
  intros i Hi id.
  rewrite Forall_forall in Hrecs.
  destruct (Hrecs (nth i recs []) (nth_In _ _ Hi)) as [Hrl [z Hz]].
  (* the row of record i *)
  assert (Hrow : row_of fs now incl (nth i ids 0) (nth i recs []) = Some (nth i rows0 [])).
  { specialize (Hnth i [] ltac:(rewrite length_map2; unfold ids; rewrite length_assign; unfold keys; rewrite map_length; lia)).
    rewrite (nth_map2 _ _ _ _ 0 [] None) in Hnth; [exact Hnth | unfold ids; rewrite length_assign; unfold keys; rewrite map_length; lia | lia]. }
  unfold row_of in Hrow. destruct (opt_all_spec _ _ Hrow) as [Hrl2 Hcell].
  rewrite length_map2, combine_length, Hincl, Hrl, !Nat.min_id in Hrl2.
  specialize (Hcell j DNull ltac:(rewrite length_map2, combine_length, Hincl, Hrl, !Nat.min_id; exact Hjl)).
  rewrite (nth_map2 _ _ _ _ (dflt, false) GAbsent None) in Hcell
    by (try rewrite combine_length; lia).
  rewrite combine_nth in Hcell by lia. cbn [fst snd] in Hcell. rewrite Hz in Hcell.
  assert (Hkey : nth j (nth i rows0 []) DNull = DInt (nth i ids 0)).
  { eapply key_cell; try exact Hcell; try assumption.
    intro Hzn. unfold ids. rewrite assign_preset.
    - unfold keys. rewrite nth_indep with (d' := rec_key fs []) by (rewrite map_length; lia).
      rewrite map_nth. unfold rec_key. rewrite Hj, Hz. reflexivity.
    - unfold keys. rewrite map_length. lia.
    - unfold keys. rewrite nth_indep with (d' := rec_key fs []) by (rewrite map_length; lia).
      rewrite map_nth. unfold rec_key. rewrite Hj, Hz. exact Hzn. }
  split; [exact Hkey|].
  (* memory after: the RETURNING scan writes the row's key *)
  rewrite (nth_map2 _ _ _ _ [] ([], None) []) by (try rewrite combine_length, map_length; lia).
  unfold after_rec.
  rewrite combine_nth by (rewrite map_length; lia). cbn [fst snd].
  rewrite (nth_map2 _ _ _ _ dflt (GAbsent, DNull) GAbsent) by (try rewrite combine_length; lia).
  rewrite combine_nth by lia. cbn [fst snd].
  rewrite Hdb, Hkey. unfold set_from_db.
  destruct (fd_kind (nth j fs dflt)); try discriminate; reflexivity.
Qed.
