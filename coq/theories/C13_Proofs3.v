(* C13_Proofs3.v — the four pipelines and the operations: the hook log of [run]. *)
From Verif Require Import Base C13_Model C13_Proofs C13_Proofs2.
Open Scope Z_scope.

(* ---------------------------------------------------------------- association callbacks *)
Definition boss_t (a : assocs) := fst (fst (a_tys a)).
Definition kid_t (a : assocs) := snd (fst (a_tys a)).
Definition pet_t (a : assocs) := snd (a_tys a).

Definition struct_shape := mk_shape CStruct true true.

Definition assocs_ok (c : cx) (a : assocs) : Prop :=
  assoc_vals_ok (is_struct c) (a_boss a) /\ assoc_vals_ok false (a_kids a) /\ assoc_vals_ok false (a_pets a)
  /\ (is_struct c = true ->
        uniform_phase struct_shape (boss_t a) (fc_hooks PBeforeCreate)
        /\ uniform_phase struct_shape (boss_t a) (fc_hooks PAfterCreate))
  /\ a_keepers a = [].          (* graphs whose association values carry associations of their own: correspondence only *)

Definition before_sched (c : cx) (a : assocs) := assoc_sched c (boss_t a) TBosses (is_struct c) (a_boss a).
Definition after_sched (c : cx) (a : assocs) :=
  assoc_sched c (kid_t a) TKids false (a_kids a) ++ assoc_sched c (pet_t a) TPets false (a_pets a).

Lemma save_before_step : forall c a s, assocs_ok c a ->
  hstep (c_fails c) s (save_before_assoc c a s) (gated s (sched_log (before_sched c a) (s_k s) (c_fails c))).
Proof.
  intros c a s (B & _ & _ & U & _). unfold save_before_assoc, before_sched.
  destruct (is_nil (s_err s)) eqn:E.
  - apply save_assoc_step; assumption.
  - unfold gated. rewrite E. apply hstep_quiet; reflexivity.
Qed.

Lemma save_after_step : forall c a s, assocs_ok c a ->
  hstep (c_fails c) s (save_after_assoc c a s) (gated s (sched_log (after_sched c a) (s_k s) (c_fails c))).
Proof.
  intros c a s (_ & K & P & _ & NK). unfold save_after_assoc, after_sched. rewrite NK. cbn [is_nil].
  destruct (is_nil (s_err s)) eqn:E.
  - eapply hstep_seq.
    + apply save_assoc_step; [exact K | intro X; discriminate].
    + apply save_assoc_step; [exact P | intro X; discriminate].
  - unfold gated. rewrite E. apply hstep_quiet; reflexivity.
Qed.

(* ---------------------------------------------------------------- create / update pipelines *)
Definition cu_sched (c : cx) (pb pa : phase) (tags : list Z) (a : assocs) : list (list hev) :=
  [ph c pb tags] ++ before_sched c a ++ after_sched c a ++ [ph c pa tags].

Lemma hooks_phase_step' : forall c p s tags,
  goodk (c_shape c) (keys s) -> uniform_phase (c_shape c) (c_ty c) (fc_hooks p) -> map fst (keys s) = tags ->
  hstep (c_fails c) s (hooks_phase c p s) (gated s (sched_log [ph c p tags] (s_k s) (c_fails c))).
Proof. intros c p s tags G U <-. apply hooks_phase_step; assumption. Qed.

Lemma hs_keys' : forall F s s' e, hstep F s s' e -> keys s' = keys s.
Proof. intros F s s' e H. destruct H; assumption. Qed.

Section CU.
  Variables (c : cx) (a : assocs) (q : qarg) (pb pa : phase) (stmt : cx -> S -> S).
  Hypothesis stmt_step : forall s, goodk (c_shape c) (keys s) -> hstep (c_fails c) s (stmt c s) [].

  Definition cu_body (s : S) : S :=
    commit_or_rollback c (hooks_phase c pa (save_after_assoc c a (stmt c (save_before_assoc c a (hooks_phase c pb (begin_tx c s)))))).

  Lemma cu_body_step : forall s,
    goodk (c_shape c) (keys s) ->
    uniform_phase (c_shape c) (c_ty c) (fc_hooks pb) -> uniform_phase (c_shape c) (c_ty c) (fc_hooks pa) ->
    assocs_ok c a ->
    hstep (c_fails c) s (cu_body s)
          (gated s (sched_log (cu_sched c pb pa (map fst (keys s)) a) (s_k s) (c_fails c))).
  Proof.
    intros s G U1 U2 AO. unfold cu_body, cu_sched.
    set (tags := map fst (keys s)).
    set (s1 := begin_tx c s).
    pose proof (begin_tx_step (c_fails c) c s) as B. fold s1 in B.
    pose proof (hs_keys' _ _ _ _ B) as K1.
    assert (G1 : goodk (c_shape c) (keys s1)) by (rewrite K1; exact G).
    set (s2 := hooks_phase c pb s1).
    assert (P1 := hooks_phase_step' c pb s1 tags G1 U1 ltac:(rewrite K1; reflexivity)). fold s2 in P1.
    pose proof (hs_keys' _ _ _ _ P1) as K2.
    set (s3 := save_before_assoc c a s2).
    pose proof (save_before_step c a s2 AO) as SB. fold s3 in SB.
    pose proof (hs_keys' _ _ _ _ SB) as K3.
    assert (G3 : goodk (c_shape c) (keys s3)) by (rewrite K3, K2; exact G1).
    set (s4 := stmt c s3).
    pose proof (stmt_step s3 G3) as ST. fold s4 in ST.
    pose proof (hs_keys' _ _ _ _ ST) as K4.
    set (s5 := save_after_assoc c a s4).
    pose proof (save_after_step c a s4 AO) as SA. fold s5 in SA.
    pose proof (hs_keys' _ _ _ _ SA) as K5.
    assert (G5 : goodk (c_shape c) (keys s5)) by (rewrite K5, K4; exact G3).
    set (s6 := hooks_phase c pa s5).
    assert (P2 := hooks_phase_step' c pa s5 tags G5 U2 ltac:(rewrite K5, K4, K3, K2, K1; reflexivity)). fold s6 in P2.
    pose proof (commit_step (c_fails c) c s6) as CM.
    eapply hstep_seq_quiet_l; [exact B|].
    eapply hstep_seq_quiet_r; [|exact CM].
    eapply hstep_seq; [exact P1|].
    eapply hstep_seq; [exact SB|].
    eapply hstep_seq_quiet_l; [exact ST|].
    eapply hstep_seq; [exact SA|].
    exact P2.
  Qed.
End CU.

Lemma create_pipeline_eq : forall c a q s,
  run_pipeline c a q create_pipeline s = cu_body c a PBeforeCreate PAfterCreate stmt_create s.
Proof. reflexivity. Qed.
Lemma update_pipeline_eq : forall c a q s,
  run_pipeline c a q update_pipeline s = cu_body c a PBeforeUpdate PAfterUpdate stmt_update s.
Proof. reflexivity. Qed.

Lemma delete_before_assoc_off : forall c a s, x_delassoc (c_x c) = 0 -> delete_before_assoc c a s = s.
Proof.
  intros c a s H. unfold delete_before_assoc. rewrite H. cbn.
  destruct (is_nil (s_err s) && negb (is_nil (s_recs s))); reflexivity.
Qed.
Lemma preload_cb_off : forall c a s, x_preload (c_x c) = false -> preload_cb c a s = s.
Proof. intros c a s H. unfold preload_cb. rewrite H. reflexivity. Qed.

Definition del_sched (c : cx) (tags : list Z) : list (list hev) := [ph c PBeforeDelete tags; ph c PAfterDelete tags].

Lemma delete_pipeline_step : forall c a q s,
  x_delassoc (c_x c) = 0 ->
  goodk (c_shape c) (keys s) ->
  uniform_phase (c_shape c) (c_ty c) (fc_hooks PBeforeDelete) -> uniform_phase (c_shape c) (c_ty c) (fc_hooks PAfterDelete) ->
  hstep (c_fails c) s (run_pipeline c a q delete_pipeline s)
        (gated s (sched_log (del_sched c (map fst (keys s))) (s_k s) (c_fails c))).
Proof.
  intros c a q s XD G U1 U2. unfold run_pipeline, delete_pipeline, del_sched. cbn [fold_left run_cb].
  rewrite delete_before_assoc_off by exact XD.
  set (tags := map fst (keys s)).
  set (s1 := begin_tx c s).
  pose proof (begin_tx_step (c_fails c) c s) as B. fold s1 in B.
  pose proof (hs_keys' _ _ _ _ B) as K1.
  assert (G1 : goodk (c_shape c) (keys s1)) by (rewrite K1; exact G).
  set (s2 := hooks_phase c PBeforeDelete s1).
  assert (P1 := hooks_phase_step' c PBeforeDelete s1 tags G1 U1 ltac:(rewrite K1; reflexivity)). fold s2 in P1.
  pose proof (hs_keys' _ _ _ _ P1) as K2.
  assert (G2 : goodk (c_shape c) (keys s2)) by (rewrite K2; exact G1).
  set (s3 := stmt_delete c s2).
  pose proof (stmt_delete_step (c_fails c) c s2 G2) as ST. fold s3 in ST.
  pose proof (hs_keys' _ _ _ _ ST) as K3.
  assert (G3 : goodk (c_shape c) (keys s3)) by (rewrite K3; exact G2).
  set (s4 := hooks_phase c PAfterDelete s3).
  assert (P2 := hooks_phase_step' c PAfterDelete s3 tags G3 U2 ltac:(rewrite K3, K2, K1; reflexivity)). fold s4 in P2.
  pose proof (commit_step (c_fails c) c s4) as CM.
  eapply hstep_seq_quiet_l; [exact B|].
  eapply hstep_seq_quiet_r; [|exact CM].
  change [ph c PBeforeDelete tags; ph c PAfterDelete tags] with ([ph c PBeforeDelete tags] ++ [ph c PAfterDelete tags]).
  eapply hstep_seq; [exact P1|].
  eapply hstep_seq_quiet_l; [exact ST|].
  exact P2.
Qed.

(* ---------------------------------------------------------------- query pipeline *)
Definition loaded_rows (c : cx) (limit : Z) (tb : list row) : list row :=
  let rows := select_rows (c_table c) limit tb in
  match sh_cont (c_shape c) with CStruct => firstn 1 rows | _ => rows end.
Definition loaded (c : cx) (limit : Z) (tb : list row) : list Z :=
  map (fun r => snd (fst r)) (loaded_rows c limit tb).
Definition recs_of_rows (rows : list row) : list mrec :=
  map (fun r : row => mk_rec (snd (fst r)) (snd (fst r)) (snd r) false) rows.

Lemma stmt_query_eq : forall c first limit s, s_err s = [] ->
  stmt_query c first limit s =
  let recs := recs_of_rows (loaded_rows c limit (s_tbl s)) in
  let s1 := emit (TStmt VSelect (c_table c) (s_pool s)) s in
  if first && is_nil recs then add_err ERecordNotFound (set_recs recs s1) else set_recs recs s1.
Proof.
  intros c first limit s E. unfold stmt_query, loaded_rows, recs_of_rows. rewrite E. cbn [is_nil negb].
  destruct (sh_cont (c_shape c)); cbv zeta;
    match goal with |- context [is_nil (map ?f ?l)] => destruct l; reflexivity end.
Qed.

(* destinations of a query: reachable through a pointer *)
Definition query_shape_ok (sh : shape) : Prop := wf_shape sh /\ elem_addr_k sh false = true.

Lemma query_pipeline_hooks : forall c a first limit s,
  x_preload (c_x c) = false ->
  query_shape_ok (c_shape c) -> uniform_phase (c_shape c) (c_ty c) (fc_hooks PAfterFind) -> s_err s = [] ->
  let s' := run_pipeline c a (mk_qarg first limit) query_pipeline s in
  hooks_of (s_tr s') = hooks_of (s_tr s) ++ ph c PAfterFind (loaded c limit (s_tbl s))
  /\ s_k s' = s_k s + len (ph c PAfterFind (loaded c limit (s_tbl s)))
  /\ s_tbl s' = s_tbl s.
Proof.
  intros c a first limit s XP (W & EA) U E0. unfold run_pipeline, query_pipeline. cbn [fold_left run_cb q_first q_limit].
  rewrite preload_cb_off by exact XP.
  rewrite stmt_query_eq by exact E0. cbv zeta.
  remember (loaded_rows c limit (s_tbl s)) as rows eqn:RW.
  remember (recs_of_rows rows) as recs eqn:RC.
  set (s1 := emit (TStmt VSelect (c_table c) (s_pool s)) s).
  assert (LT : loaded c limit (s_tbl s) = map m_tag recs).
  { unfold loaded. rewrite <- RW. rewrite RC. unfold recs_of_rows. rewrite map_map. reflexivity. }
  rewrite LT.
  assert (H2 : hooks_of (s_tr (set_recs recs s1)) = hooks_of (s_tr s)).
  { cbn. rewrite hooks_of_app. cbn. apply app_nil_r. }
  destruct recs as [|m0 mr] eqn:RE.
  - (* nothing loaded: the guard RowsAffected > 0 *)
    assert (Q : forall s3, s_recs s3 = [] -> hooks_phase c PAfterFind s3 = s3).
    { intros s3 R3. unfold hooks_phase. rewrite R3. cbn [is_nil negb]. rewrite andb_false_r. reflexivity. }
    cbn [map]. unfold ph, phase_events. cbn [flat_map].
    assert (Z0 : (if c_skip c then @nil hev else []) = []) by (destruct (c_skip c); reflexivity). rewrite Z0.
    rewrite app_nil_r. unfold len. cbn [length Z.of_nat]. rewrite Z.add_0_r.
    cbn [is_nil]. destruct first; cbn [andb]; rewrite Q by reflexivity;
      cbn; rewrite ?hooks_of_app; cbn; rewrite ?app_nil_r; repeat split; reflexivity.
  - rewrite <- RE in *. assert (NE : is_nil recs = false) by (rewrite RE; reflexivity).
    rewrite NE, andb_false_r.
    set (s2 := set_recs recs s1) in *.
    assert (A : addressable (c_shape c) (s_recs s2)).
    { subst s2. cbn [s_recs set_recs]. split; [exact W|]. split.
      - rewrite RC. unfold recs_of_rows. clear -EA. induction rows as [|x l IH]; [reflexivity|]. cbn [map forallb].
        rewrite IH, andb_true_r. unfold elem_addr, elem_addr_k in *. cbn [m_nil]. exact EA.
      - destruct (sh_cont (c_shape c)) eqn:C; try exact I.
        unfold loaded_rows in RW. rewrite C in RW.
        destruct (select_rows (c_table c) limit (s_tbl s)) as [|x l]; cbn in RW; subst rows; cbn in RC.
        + rewrite RC in RE. discriminate.
        + eexists. exact RC. }
    pose proof (hooks_phase_ok c PAfterFind s2 A U) as [F H K _].
    unfold phase_log in H, K. change (s_err s2) with (s_err s) in *. rewrite E0 in *. cbn [is_nil andb] in *.
    change (s_recs s2) with recs in *.
    unfold ph. destruct (c_skip c); cbn [negb] in *.
    + rewrite H, H2. split; [reflexivity|]. split; [rewrite K; reflexivity|]. destruct F as (_ & _ & _ & T & _). exact T.
    + rewrite H, H2. split; [reflexivity|]. split; [rewrite K; reflexivity|]. destruct F as (_ & _ & _ & T & _). exact T.
Qed.
