(* C06_Model.v — HEAP model of the statement state of a *gorm.DB handle.
   Modelled code (line by line where aliasing matters):
     gorm.go            DB.getInstance (clone 0/1/2), DB.Session, WithContext, Debug ; finisher_api.go Begin
     statement.go       Statement.clone (which fields are shared, which are copied), AddClause
     chainable_api.go   Where/Or/Not/Having/Group/Order/Limit/Offset/Select/Distinct/Omit/Joins/Scopes/
                        Unscoped/Table/Model/Clauses(Returning, OrderBy, Locking, OnConflict, From)
     clause/*.go        every MergeClause that carries a slice (where, order_by, group_by, returning),
                        the scalar ones (limit, locking, on_conflict, from), Where.Build's swap (on a private copy since 12bf8b8)
     callbacks/query.go BuildQuerySQL (fromClause.Joins append), AfterQuery (join trimming)
     callbacks.go       processor.Execute (scopes)
   Go slices are (loc,len,cap) into a heap of backing arrays; [append] writes in place iff
   len+n <= cap, else allocates [grow old needed] cells.  Every operation returns the new heap
   and its WRITE SET.  No proofs here. *)
From Verif Require Export Base.
Open Scope Z_scope.

Notation cell := Z (only parsing).          (* id of an expression / column; < 0 : a single-Or condition *)
Definition is_or (c : cell) : bool := c <? 0.

(* which slice of the statement an array was allocated for (= its Go element type) *)
Inductive field := FWhere | FHaving | FGroup | FOrder | FRet | FSel | FOmit | FJoins | FScopes | FFromj.
Definition field_eqb (a b : field) : bool :=
  match a, b with
  | FWhere, FWhere | FHaving, FHaving | FGroup, FGroup | FOrder, FOrder | FRet, FRet
  | FSel, FSel | FOmit, FOmit | FJoins, FJoins | FScopes, FScopes | FFromj, FFromj => true
  | _, _ => false
  end.
Definition all_fields := [FWhere; FHaving; FGroup; FOrder; FRet; FSel; FOmit; FJoins; FScopes; FFromj].

Notation arr := (field * list Z)%type (only parsing).
Notation heap := (list (field * list Z)) (only parsing).
Inductive slice := SNil | SArr (l n c : nat).       (* nil | (backing array, len, cap) *)
Notation wset := (list (nat * nat)) (only parsing).   (* written (array, index) cells *)

Definition cells_of (h : heap) (l : nat) : list cell := snd (nth l h (FWhere, [])).
Definition rd (h : heap) (s : slice) : list cell :=
  match s with SNil => [] | SArr l n _ => firstn n (cells_of h l) end.
Definition rdo (h : heap) (s : slice) : option (list cell) :=
  match s with SNil => None | _ => Some (rd h s) end.
Definition slen (s : slice) : nat := match s with SNil => 0 | SArr _ n _ => n end.
Definition scap (s : slice) : nat := match s with SNil => 0 | SArr _ _ c => c end.

Fixpoint upd_nth {A} (l : list A) (i : nat) (v : A) : list A :=
  match l, i with
  | [], _ => []
  | _ :: r, O => v :: r
  | x :: r, S j => x :: upd_nth r j v
  end.
Definition hwrite (h : heap) (l i : nat) (v : cell) : heap :=
  match nth_error h l with
  | Some (f, a) => upd_nth h l (f, upd_nth a i v)
  | None => h
  end.

(* ---- heap commands: result, new heap, cells written ---- *)
Definition res (A : Type) := (A * heap * wset)%type.
Definition cmd (A : Type) := heap -> res A.
Definition ret {A} (a : A) : cmd A := fun h => (a, h, []).
Definition bind {A B} (m : cmd A) (k : A -> cmd B) : cmd B :=
  fun h => let '(a, h1, w1) := m h in let '(b, h2, w2) := k a h1 in (b, h2, w1 ++ w2).
Notation "x <- m ;; k" := (bind m (fun x => k)) (at level 61, m at next level, right associativity).
Notation "m ;;; k" := (bind m (fun _ => k)) (at level 61, right associativity).

Definition alloc (f : field) (xs : list cell) : cmd nat := fun h => (length h, h ++ [(f, xs)], []).
Definition wr (l i : nat) (v : cell) : cmd unit := fun h => (tt, hwrite h l i v, [(l, i)]).
Fixpoint wr_list (l i : nat) (xs : list cell) : cmd unit :=
  match xs with
  | [] => ret tt
  | x :: r => wr l i x ;;; wr_list l (S i) r
  end.
Definition rdc (s : slice) : cmd (list cell) := fun h => (rd h s, h, []).
Definition pad (n : nat) : list cell := repeat 0 n.

Section WithGrow.
(* the Go runtime's growth policy; the theorems assume only [needed <= grow f old needed] *)
Variable grow : field -> nat -> nat -> nat.
(* which MergeClause bodies append onto the slice already stored in the clause (true) instead of
   copying it first (false); regenerated from the sources (FactsOK_C06) *)
Variable md : field -> bool.

(* make([]T, len(xs), cap) filled with xs : a slice literal, BuildCondition's conds, a caller's slice *)
Definition h_user (f : field) (xs : list cell) (cap : nat) : cmd slice :=
  let c := Nat.max cap (length xs) in
  l <- alloc f (xs ++ pad (c - length xs)) ;; ret (SArr l (length xs) c).
Definition h_lit (f : field) (xs : list cell) : cmd slice := h_user f xs (length xs).

(* make([]T, len(s)); copy(_, s) *)
Definition h_copy (f : field) (s : slice) : cmd slice :=
  xs <- rdc s ;; l <- alloc f xs ;; ret (SArr l (length xs) (length xs)).

(* append(s, xs...) *)
Definition h_append (f : field) (s : slice) (xs : list cell) : cmd slice :=
  match xs with
  | [] => ret s
  | _ =>
    match s with
    | SNil => h_user f xs (grow f 0 (length xs))
    | SArr l n c =>
        if (n + length xs <=? c)%nat then wr_list l n xs ;;; ret (SArr l (n + length xs) c)
        else
          let c' := Nat.max (grow f c (n + length xs)) (n + length xs) in
          old <- rdc s ;;
          l' <- alloc f (old ++ xs ++ pad (c' - (n + length xs))) ;; ret (SArr l' (n + length xs) c')
    end
  end.
(* for x in xs { s = append(s, x) } *)
Fixpoint h_append_each (f : field) (s : slice) (xs : list cell) : cmd slice :=
  match xs with
  | [] => ret s
  | x :: r => s1 <- h_append f s [x] ;; h_append_each f s1 r
  end.

(* ---- Where.Build: swap a leading single-Or condition with the first other expression ---- *)
Fixpoint first_non_or (l : list cell) (i : nat) : option nat :=
  match l with
  | [] => None
  | x :: r => if is_or x then first_non_or r (S i) else Some i
  end.
Definition wnorm (l : list cell) : list cell :=
  match first_non_or l 0 with
  | Some (S j) => upd_nth (upd_nth l 0 (nth (S j) l 0)) (S j) (nth 0 l 0)
  | _ => l
  end.
(* Since 12bf8b8 the swap is done on a private copy: where.Exprs = append([]Expression(nil), where.Exprs...)
   and only when a swap is needed; nothing is written into the (possibly shared) array.  Returns the
   slice Build reads.  (The copy's two swap writes go to the fresh array: modelled as allocating the
   swapped content directly.) *)
Definition h_swap (f : field) (s : slice) : cmd slice :=
  match s with
  | SNil => ret SNil
  | SArr l n c =>
      xs <- rdc s ;;
      match first_non_or xs 0 with
      | Some (S j) => h_user f (wnorm xs) (grow f 0 (length xs))
      | _ => ret s
      end
  end.

(* ---- statements ---- *)
Record scal := mk_scal {
  k_lim : option (option Z * Z);   (* LIMIT clause: None = absent, Some (Limit *int, Offset int) *)
  k_distinct : bool; k_unscoped : bool;
  k_table : Z; k_model : Z;         (* 0 = unset *)
  k_lock : Z; k_onconf : Z;         (* FOR / ON CONFLICT clause, 0 = absent *)
  k_retp : bool;                    (* RETURNING clause present *)
  k_grpp : bool                     (* GROUP BY clause present *)
}.
Definition scal0 := mk_scal None false false 0 0 0 0 false false.

(* operations of the C06 quantifier (chainable_api.go) *)
Inductive op :=
| OWhere (xs : list cell) (cap : nat)      (* Where(q,args): conds = BuildCondition(...) of capacity cap *)
| OOr (x : cell) | ONot (x : cell)
| OHaving (xs : list cell) (cap : nat)
| OGroup (x : cell)
| OOrder (x : cell)
| OOrderBy (xs : list cell) (cap : nat) (reorder : bool)   (* Clauses(clause.OrderBy{Columns}) *)
| OLimit (n : Z) | OOffset (n : Z)
| OSelect (x : cell) (more : list cell)
| OSelectSlice (xs : list cell) (cap : nat) (more : list cell)  (* Select([]string, ...) *)
| ODistinct (args : list cell)
| OOmit (xs : list cell)
| OJoins (x : cell)
| OScopes (xs : list cell)
| OUnscoped | OTable (t : Z) | OModel (m : Z)
| OReturning (u : option (list cell * nat))          (* Clauses(clause.Returning{Columns}); None = nil *)
| OLocking (l : Z) | OOnConflict (o : Z)
| OFrom (xs : list cell) (cap : nat).                (* Clauses(clause.From{Joins}) *)

Inductive fin := FFind | FFirst | FTake | FUpdate (col v : Z) | FDelete.
Inductive pop := POp (o : op) | PFin (f : fin).     (* what was applied to a statement since it was created *)

Record mstmt := mk_stmt { sl : field -> slice; sc : scal; gp : list pop }.
Definition stmt0 : mstmt := mk_stmt (fun _ => SNil) scal0 [].
Definition set_sl (s : mstmt) (f : field) (v : slice) : mstmt :=
  mk_stmt (fun g => if field_eqb g f then v else sl s g) (sc s) (gp s).
Definition set_sc (s : mstmt) (k : scal) : mstmt := mk_stmt (sl s) k (gp s).
Definition push_gp (s : mstmt) (p : pop) : mstmt := mk_stmt (sl s) (sc s) (gp s ++ [p]).

(* Statement.clone: Clauses map copied shallowly (the slices inside the clauses stay shared),
   Selects/Omits shared, Joins/scopes copied with make(len)+copy when non-empty *)
Definition copy_if_nonempty (f : field) (s : slice) : cmd slice :=
  match slen s with O => ret SNil | _ => h_copy f s end.
Definition stmt_clone (s : mstmt) : cmd mstmt :=
  j <- copy_if_nonempty FJoins (sl s FJoins) ;;
  sp <- copy_if_nonempty FScopes (sl s FScopes) ;;
  ret (set_sl (set_sl s FJoins j) FScopes sp).

(* ---- MergeClause bodies ---- *)
(* generic: the slice [old] stored in the clause, the new items [xs] *)
Definition merge_append (f : field) (old : slice) (xs : list cell) : cmd slice :=
  if md f then h_append f old xs                      (* append(v.X, new...) *)
  else c <- h_copy f old ;; h_append f c xs.          (* make+copy, then append *)

(* clause/where.go Where.MergeClause *)
Definition m_where (s : mstmt) (conds : slice) : cmd mstmt :=
  match sl s FWhere with
  | SNil => ret (set_sl s FWhere conds)
  | old =>
      new <- rdc conds ;;
      if md FWhere then w <- h_append FWhere old new ;; ret (set_sl s FWhere w)
      else o <- rdc old ;; w <- h_lit FWhere (o ++ new) ;; ret (set_sl s FWhere w)   (* make(len+len); copy; copy *)
  end.
(* clause/order_by.go OrderBy.MergeClause (Reorder on the first column only) *)
Definition m_order (s : mstmt) (cols : slice) (reorder : bool) : cmd mstmt :=
  match sl s FOrder with
  | SNil => ret (set_sl s FOrder cols)
  | old => if reorder then ret (set_sl s FOrder cols)
           else new <- rdc cols ;; w <- merge_append FOrder old new ;; ret (set_sl s FOrder w)
  end.
(* clause/group_by.go GroupBy.MergeClause *)
Definition m_group (s : mstmt) (cols having : slice) : cmd mstmt :=
  if k_grpp (sc s) then
    nc <- rdc cols ;; g <- merge_append FGroup (sl s FGroup) nc ;;
    nh <- rdc having ;; hv <- merge_append FHaving (sl s FHaving) nh ;;
    ret (set_sl (set_sl s FGroup g) FHaving hv)
  else
    let k := sc s in
    ret (set_sc (set_sl (set_sl s FGroup cols) FHaving having)
           (mk_scal (k_lim k) (k_distinct k) (k_unscoped k) (k_table k) (k_model k) (k_lock k) (k_onconf k) (k_retp k) true)).
(* clause/returning.go Returning.MergeClause *)
Definition set_retp (k : scal) : scal :=
  mk_scal (k_lim k) (k_distinct k) (k_unscoped k) (k_table k) (k_model k) (k_lock k) (k_onconf k) true (k_grpp k).
Definition m_ret (s : mstmt) (cols : slice) : cmd mstmt :=
  new <- (if k_retp (sc s) && negb (slen cols =? 0)%nat then
            match sl s FRet with
            | SNil => ret SNil
            | old => xs <- rdc cols ;;
                     if md FRet then h_append FRet old xs      (* the body before 6cb0e65: append(v.Columns, new...) *)
                     else o <- rdc old ;; h_lit FRet (o ++ xs)  (* make(0, len+len); append; append *)
            end
          else ret cols) ;;
  ret (set_sc (set_sl s FRet new) (set_retp (sc s))).
(* clause/limit.go Limit.MergeClause *)
Definition m_limit (s : mstmt) (nl : option Z) (no : Z) : mstmt :=
  let k := sc s in
  let v := match k_lim k with
           | None => (nl, no)
           | Some (ol, oo) =>
               let l := match nl, ol with
                        | None, Some v => Some v
                        | Some 0, Some v => Some v
                        | n, _ => n
                        end in
               let o := if (no =? 0) && (0 <? oo) then oo else if no <? 0 then 0 else no in
               (l, o)
           end in
  set_sc s (mk_scal (Some v) (k_distinct k) (k_unscoped k) (k_table k) (k_model k) (k_lock k) (k_onconf k) (k_retp k) (k_grpp k)).

Definition upd_scal (s : mstmt) (g : scal -> scal) : mstmt := set_sc s (g (sc s)).

(* Select(query, args...) with plain column names *)
Definition do_select (s : mstmt) (first : slice) (more : list cell) : cmd mstmt :=
  v <- h_append_each FSel first more ;; ret (set_sl s FSel v).

(* one chain method applied to the statement of tx (after getInstance) *)
Definition apply_op (s : mstmt) (o : op) : cmd mstmt :=
  match o with
  | OWhere xs cap => match xs with [] => ret s | _ => c <- h_user FWhere xs cap ;; m_where s c end
  | OOr x => c <- h_lit FWhere [x] ;; m_where s c
  | ONot x => c <- h_lit FWhere [x] ;; m_where s c
  | OHaving xs cap => c <- h_user FHaving xs cap ;; m_group s SNil c
  | OGroup x => c <- h_lit FGroup [x] ;; m_group s c SNil
  | OOrder x => c <- h_lit FOrder [x] ;; m_order s c false
  | OOrderBy xs cap re => c <- h_user FOrder xs cap ;; m_order s c re
  | OLimit n => ret (m_limit s (Some n) 0)
  | OOffset n => ret (m_limit s None n)
  | OSelect x more => c <- h_lit FSel [x] ;; do_select s c more
  | OSelectSlice xs cap more =>
      (* Selects = append(make([]string, 0, len(v)+len(args)), v...): the caller's slice (of capacity cap) is only read *)
      c <- h_user FSel xs (length xs + length more) ;; do_select s c more
  | ODistinct args =>
      let s1 := upd_scal s (fun k => mk_scal (k_lim k) true (k_unscoped k) (k_table k) (k_model k) (k_lock k) (k_onconf k) (k_retp k) (k_grpp k)) in
      match args with
      | [] => ret s1
      | x :: more => c <- h_lit FSel [x] ;; do_select s1 c more
      end
  | OOmit xs => match xs with [] => ret (set_sl s FOmit SNil) | _ => c <- h_lit FOmit xs ;; ret (set_sl s FOmit c) end
  | OJoins x => j <- h_append FJoins (sl s FJoins) [x] ;; ret (set_sl s FJoins j)
  | OScopes xs => j <- h_append FScopes (sl s FScopes) xs ;; ret (set_sl s FScopes j)
  | OUnscoped => ret (upd_scal s (fun k => mk_scal (k_lim k) (k_distinct k) true (k_table k) (k_model k) (k_lock k) (k_onconf k) (k_retp k) (k_grpp k)))
  | OTable t => ret (upd_scal s (fun k => mk_scal (k_lim k) (k_distinct k) (k_unscoped k) t (k_model k) (k_lock k) (k_onconf k) (k_retp k) (k_grpp k)))
  | OModel m => ret (upd_scal s (fun k => mk_scal (k_lim k) (k_distinct k) (k_unscoped k) (k_table k) m (k_lock k) (k_onconf k) (k_retp k) (k_grpp k)))
  | OReturning u =>
      c <- match u with None => ret SNil | Some (xs, cap) => h_user FRet xs cap end ;; m_ret s c
  | OLocking l => ret (upd_scal s (fun k => mk_scal (k_lim k) (k_distinct k) (k_unscoped k) (k_table k) (k_model k) l (k_onconf k) (k_retp k) (k_grpp k)))
  | OOnConflict o => ret (upd_scal s (fun k => mk_scal (k_lim k) (k_distinct k) (k_unscoped k) (k_table k) (k_model k) (k_lock k) o (k_retp k) (k_grpp k)))
  | OFrom xs cap => c <- h_user FFromj xs cap ;; ret (set_sl s FFromj c)
  end.
Definition chain_op (s : mstmt) (o : op) : cmd mstmt :=
  s1 <- apply_op s o ;; ret (push_gp s1 (POp o)).

(* ---- finishers ---- *)
Definition pk_cell : cell := 0.
(* processor.Execute: run the pending scopes (scope x = func(db){ return db.Where("s<x> = ?", x) }) *)
Fixpoint run_scopes (s : mstmt) (xs : list cell) : cmd mstmt :=
  match xs with
  | [] => ret s
  | x :: r => c <- h_lit FWhere [x] ;; s1 <- m_where s c ;; run_scopes s1 r
  end.
Definition exec_scopes (s : mstmt) : cmd mstmt :=
  xs <- rdc (sl s FScopes) ;; run_scopes (set_sl s FScopes SNil) xs.

(* utils.RTrimSlice *)
Definition rtrim (s : slice) (k : nat) : slice :=
  match s with
  | SNil => SNil
  | SArr l n c => if (n <=? k)%nat then SArr l 0 c else SArr l (n - k) c
  end.

(* token ids of the rendered SQL skeleton *)
Definition kSelect := 900001. Definition kDistinct := 900002. Definition kStar := 900003.
Definition kFrom := 900004.   Definition kWhere := 900005.    Definition kGroupBy := 900006.
Definition kHaving := 900007. Definition kOrderBy := 900008.  Definition kLimit := 900009.
Definition kOffset := 900010. Definition kFor := 900011.      Definition kReturning := 900012.
Definition kUpdate := 900013. Definition kSet := 900014.      Definition kDelete := 900015.
Definition schema_cols : list cell := [0; 1; 2; 3].   (* `id`, `c1`, `c2`, `c3` *)

(* the statement as lists: what Build reads *)
Record pstmt := mk_p { pl : field -> option (list cell); pk : scal }.
Definition pget (p : pstmt) (f : field) : list cell := match pl p f with Some l => l | None => [] end.
Definition mem (x : cell) (l : list cell) : bool := existsb (Z.eqb x) l.

Definition r_table (p : pstmt) : list Z := if k_table (pk p) =? 0 then [] else [k_table (pk p)].
Definition r_where (p : pstmt) : list Z :=
  match pl p FWhere with Some l => kWhere :: l | None => [] end.
Definition r_vars_where (p : pstmt) : list Z := map Z.abs (pget p FWhere).
Definition r_ret (p : pstmt) : list Z :=
  if k_retp (pk p) then kReturning :: (match pget p FRet with [] => [kStar] | l => l end) else [].
Definition has_target (p : pstmt) (dest_model : bool) : bool :=
  dest_model || negb (k_model (pk p) =? 0) || negb (k_table (pk p) =? 0).

Definition r_query (p : pstmt) : list Z * list Z :=
  let k := pk p in
  let sel := match pget p FSel with
             | [] => match pget p FOmit with
                     | [] => match pget p FFromj with [] => [] | _ => schema_cols end
                     | om => filter (fun c => negb (mem c om)) schema_cols
                     end
             | l => l
             end in
  let grp := if k_grpp k then
               (match pget p FGroup with [] => [] | g => kGroupBy :: g end) ++
               (match pget p FHaving with [] => [] | hv => kHaving :: hv end)
             else [] in
  let ord := match pl p FOrder with Some l => kOrderBy :: l | None => [] end in
  let lim := match k_lim k with
             | Some (l, o) =>
                 (match l with Some v => if 0 <=? v then [(kLimit, v)] else [] | None => [] end) ++
                 (if 0 <? o then [(kOffset, o)] else [])
             | None => []
             end in
  let lck := if k_lock k =? 0 then [] else [kFor; k_lock k] in
  ([kSelect] ++ (match sel with [] => [kStar] | _ => (if k_distinct k then [kDistinct] else []) ++ sel end) ++ [kFrom] ++ r_table p ++ pget p FFromj
     ++ r_where p ++ grp ++ ord ++ map fst lim ++ lck,
   map Z.abs (pget p FFromj) ++ r_vars_where p
     ++ (if k_grpp k then map Z.abs (pget p FHaving) else []) ++ map snd lim).

Definition r_update (p : pstmt) (col v : Z) : list Z * list Z :=
  if has_target p false then
    if (match pget p FSel with [] => true | _ => false end) && negb (mem col (pget p FOmit))
    then ([kUpdate] ++ r_table p ++ [kSet; col] ++ r_where p ++ r_ret p, v :: r_vars_where p)
    else ([], [])
  else ([], []).
Definition r_delete (p : pstmt) : list Z * list Z :=
  ([kDelete; kFrom] ++ r_table p ++ pget p FFromj ++ r_where p ++ r_ret p,
   map Z.abs (pget p FFromj) ++ r_vars_where p).

Definition render (p : pstmt) (f : fin) : list Z * list Z :=
  match f with
  | FFind | FFirst | FTake => r_query p
  | FUpdate c v => r_update p c v
  | FDelete => r_delete p
  end.

Definition abs (h : heap) (s : mstmt) : pstmt := mk_p (fun f => rdo h (sl s f)) (sc s).

(* Find/First/Take/Update/Delete on tx (after getInstance); returns the statement left behind
   and the rendered (tokens, vars) *)
Definition is_query (f : fin) : bool := match f with FFind | FFirst | FTake => true | _ => false end.
Definition finish (s : mstmt) (f : fin) : cmd (mstmt * (list Z * list Z)) :=
  (* finisher prologue *)
  s1 <- match f with
        | FFirst => c <- h_lit FOrder [pk_cell] ;; m_order (m_limit s (Some 1) 0) c false
        | FTake => ret (m_limit s (Some 1) 0)
        | _ => ret s
        end ;;
  (* processor.Execute: scopes *)
  s2 <- exec_scopes s1 ;;
  (* BuildQuerySQL: fromClause.Joins = append(fromClause.Joins, join) per statement join *)
  (* (with no statement joins the loop appends nothing: the guard len(Joins)!=0||len(from.Joins)!=0 is not needed) *)
  s3 <- (if is_query f then
           js <- rdc (sl s2 FJoins) ;; fj <- h_append_each FFromj (sl s2 FFromj) js ;; ret (set_sl s2 FFromj fj)
         else ret s2) ;;
  (* Statement.Build: Where.Build swaps on a private copy; GroupBy.Build builds Having through Where.Build *)
  sw <- h_swap FWhere (sl s3 FWhere) ;;
  sh <- (if is_query f && k_grpp (sc s3) then h_swap FHaving (sl s3 FHaving) else ret (sl s3 FHaving)) ;;
  out <- (fun h => (render (abs h (set_sl (set_sl s3 FWhere sw) FHaving sh)) f, h, [])) ;;
  (* AfterQuery: keep the original From joins *)
  let s4 := if is_query f then set_sl s3 FFromj (rtrim (sl s3 FFromj) (slen (sl s3 FJoins))) else s3 in
  ret (push_gp s4 (PFin f), out).

(* ---- handles ---- *)
Inductive sess := SPlain | SNewDB | SCtx | SDebug | SBegin
  | SNewCtx.   (* Session{NewDB: true, Context and/or SkipHooks}: a statement of its own AND clone mode 1 *)
Inductive step :=
| Derive (p : nat) (o : op)        (* handles[p].<chain method> *)
| Sess (p : nat) (k : sess)        (* handles[p].Session(..) / WithContext / Debug / Begin *)
| Finish (p : nat) (f : fin)
| Abandon (p : nat).

Record state := mk_state {
  st_heap : heap;
  st_stmts : list mstmt;
  st_handles : list (nat * nat);                       (* (statement, clone mode) ; handle 0 = Open *)
  st_outs : list (list pop * (list Z * list Z));       (* per finisher: the chain, the rendered SQL *)
  st_ws : list wset                                    (* per step: cells written *)
}.
Definition state0 : state := mk_state [] [stmt0] [(O, 1%nat)] [] [].

Definition get_stmt (sts : list mstmt) (i : nat) : mstmt := nth i sts stmt0.
Definition set_stmt (sts : list mstmt) (i : nat) (s : mstmt) : list mstmt := upd_nth sts i s.

(* DB.getInstance: returns the statement index of tx *)
Definition new_stmt : mstmt := stmt0.
Definition get_instance (sts : list mstmt) (hd : nat * nat) : cmd (list mstmt * nat) :=
  match snd hd with
  | O => ret (sts, fst hd)
  | S O => ret (sts ++ [new_stmt], length sts)
  | _ => c <- stmt_clone (get_stmt sts (fst hd)) ;; ret (sts ++ [c], length sts)
  end.

Definition do_step (st : state) (x : step) : state :=
  let hd p := nth p (st_handles st) (O, 1%nat) in
  let '(sts, hds, outs, h, w) :=
    match x with
    | Derive p o =>
        let '((sts1, i), h1, w1) := get_instance (st_stmts st) (hd p) (st_heap st) in
        let '(s', h2, w2) := chain_op (get_stmt sts1 i) o h1 in
        (set_stmt sts1 i s', st_handles st ++ [(i, O)], st_outs st, h2, w1 ++ w2)
    | Finish p f =>
        let '((sts1, i), h1, w1) := get_instance (st_stmts st) (hd p) (st_heap st) in
        let '((s', out), h2, w2) := finish (get_stmt sts1 i) f h1 in
        (set_stmt sts1 i s', st_handles st ++ [(i, O)], st_outs st ++ [(gp s', out)], h2, w1 ++ w2)
    | Sess p k =>
        match k with
        | SPlain => (st_stmts st, st_handles st ++ [(fst (hd p), 2%nat)], st_outs st, st_heap st, [])
        | SNewDB => (st_stmts st, st_handles st ++ [(fst (hd p), 1%nat)], st_outs st, st_heap st, [])
        | SCtx =>
            let '(c, h1, w1) := stmt_clone (get_stmt (st_stmts st) (fst (hd p))) (st_heap st) in
            (st_stmts st ++ [c], st_handles st ++ [(length (st_stmts st), 2%nat)], st_outs st, h1, w1)
        | SDebug =>
            let '((sts1, i), h1, w1) := get_instance (st_stmts st) (hd p) (st_heap st) in
            (sts1, st_handles st ++ [(i, 2%nat)], st_outs st, h1, w1)
        | SBegin =>
            let '((sts1, i), h1, w1) := get_instance (st_stmts st) (hd p) (st_heap st) in
            let '(c, h2, w2) := stmt_clone (get_stmt sts1 i) h1 in
            (sts1 ++ [c], st_handles st ++ [(length sts1, match snd (hd p) with S O => 1%nat | _ => 2%nat end)],
             st_outs st, h2, w1 ++ w2)
        | SNewCtx =>
            let '(c, h1, w1) := stmt_clone (get_stmt (st_stmts st) (fst (hd p))) (st_heap st) in
            (st_stmts st ++ [c], st_handles st ++ [(length (st_stmts st), 1%nat)], st_outs st, h1, w1)
        end
    | Abandon p => (st_stmts st, st_handles st ++ [hd p], st_outs st, st_heap st, [])
    end in
  mk_state h sts hds outs (st_ws st ++ [w]).

Definition run_hist (hist : list step) : state := fold_left do_step hist state0.

(* ---- the same chain alone, on lists ---- *)
Definition pset (p : pstmt) (f : field) (v : option (list cell)) : pstmt :=
  mk_p (fun g => if field_eqb g f then v else pl p g) (pk p).
Definition pstmt0 : pstmt := mk_p (fun _ => None) scal0.
Definition papp (a : option (list cell)) (xs : list cell) : option (list cell) :=
  match a, xs with
  | None, [] => None
  | _, _ => Some ((match a with Some l => l | None => [] end) ++ xs)
  end.
Definition p_where (p : pstmt) (xs : list cell) : pstmt :=
  match pl p FWhere with
  | None => pset p FWhere (Some xs)
  | Some o => pset p FWhere (Some (o ++ xs))
  end.
Definition p_order (p : pstmt) (xs : list cell) (re : bool) : pstmt :=
  match pl p FOrder with
  | None => pset p FOrder (Some xs)
  | Some o => if re then pset p FOrder (Some xs) else pset p FOrder (Some (o ++ xs))
  end.
Definition pcopy (a : option (list cell)) : list cell := match a with Some l => l | None => [] end.
Definition p_group (p : pstmt) (cols having : option (list cell)) : pstmt :=
  if k_grpp (pk p) then
    pset (pset p FGroup (Some (pcopy (pl p FGroup) ++ pcopy cols))) FHaving (Some (pcopy (pl p FHaving) ++ pcopy having))
  else
    let k := pk p in
    mk_p (pl (pset (pset p FGroup cols) FHaving having))
         (mk_scal (k_lim k) (k_distinct k) (k_unscoped k) (k_table k) (k_model k) (k_lock k) (k_onconf k) (k_retp k) true).
Definition p_ret (p : pstmt) (cols : option (list cell)) : pstmt :=
  let new := if k_retp (pk p) && negb (length (pcopy cols) =? 0)%nat then
               match pl p FRet with
               | None => None
               | Some o => Some (o ++ pcopy cols)
               end
             else cols in
  mk_p (pl (pset p FRet new)) (set_retp (pk p)).
Definition p_scal (p : pstmt) (g : scal -> scal) : pstmt := mk_p (pl p) (g (pk p)).
Definition p_limit (p : pstmt) (nl : option Z) (no : Z) : pstmt :=
  mk_p (pl p) (sc (m_limit (mk_stmt (fun _ => SNil) (pk p) []) nl no)).

Definition p_op (p : pstmt) (o : op) : pstmt :=
  match o with
  | OWhere xs _ => match xs with [] => p | _ => p_where p xs end
  | OOr x | ONot x => p_where p [x]
  | OHaving xs _ => p_group p None (Some xs)
  | OGroup x => p_group p (Some [x]) None
  | OOrder x => p_order p [x] false
  | OOrderBy xs _ re => p_order p xs re
  | OLimit n => p_limit p (Some n) 0
  | OOffset n => p_limit p None n
  | OSelect x more => pset p FSel (Some (x :: more))
  | OSelectSlice xs _ more => pset p FSel (Some (xs ++ more))
  | ODistinct args =>
      let p1 := p_scal p (fun k => mk_scal (k_lim k) true (k_unscoped k) (k_table k) (k_model k) (k_lock k) (k_onconf k) (k_retp k) (k_grpp k)) in
      match args with [] => p1 | _ => pset p1 FSel (Some args) end
  | OOmit xs => match xs with [] => pset p FOmit None | _ => pset p FOmit (Some xs) end
  | OJoins x => pset p FJoins (papp (pl p FJoins) [x])
  | OScopes xs => pset p FScopes (papp (pl p FScopes) xs)
  | OUnscoped => p_scal p (fun k => mk_scal (k_lim k) (k_distinct k) true (k_table k) (k_model k) (k_lock k) (k_onconf k) (k_retp k) (k_grpp k))
  | OTable t => p_scal p (fun k => mk_scal (k_lim k) (k_distinct k) (k_unscoped k) t (k_model k) (k_lock k) (k_onconf k) (k_retp k) (k_grpp k))
  | OModel m => p_scal p (fun k => mk_scal (k_lim k) (k_distinct k) (k_unscoped k) (k_table k) m (k_lock k) (k_onconf k) (k_retp k) (k_grpp k))
  | OReturning u => p_ret p (match u with None => None | Some (xs, _) => Some xs end)
  | OLocking l => p_scal p (fun k => mk_scal (k_lim k) (k_distinct k) (k_unscoped k) (k_table k) (k_model k) l (k_onconf k) (k_retp k) (k_grpp k))
  | OOnConflict o => p_scal p (fun k => mk_scal (k_lim k) (k_distinct k) (k_unscoped k) (k_table k) (k_model k) (k_lock k) o (k_retp k) (k_grpp k))
  | OFrom xs _ => pset p FFromj (Some xs)
  end.

(* the statement a finisher builds from, alone (no swaps: Build reads a private copy) *)
Definition p_prefin (p : pstmt) (f : fin) : pstmt :=
  let p1 := match f with
            | FFirst => p_order (p_limit p (Some 1) 0) [pk_cell] false
            | FTake => p_limit p (Some 1) 0
            | _ => p
            end in
  let p2 := fold_left (fun q x => p_where q [x]) (pcopy (pl p1 FScopes)) (pset p1 FScopes None) in
  if is_query f then pset p2 FFromj (papp (pl p2 FFromj) (pcopy (pl p2 FJoins))) else p2.
Definition pnorm (p : pstmt) : pstmt :=
  mk_p (fun f => match f with FWhere | FHaving => option_map wnorm (pl p f) | _ => pl p f end) (pk p).
Definition p_fin (p : pstmt) (f : fin) : pstmt :=
  let p3 := p_prefin p f in
  if is_query f then
    pset p3 FFromj (match pl p3 FFromj with
                    | None => None
                    | Some l => Some (firstn (length l - length (pcopy (pl p3 FJoins))) l)
                    end)
  else p3.
Definition p_pop (p : pstmt) (x : pop) : pstmt :=
  match x with POp o => p_op p o | PFin f => p_fin p f end.
Definition replay_alone (chain : list pop) : pstmt := fold_left p_pop chain pstmt0.

(* what the finisher ending [chain] renders when the chain is the only one ever built *)
Definition split_last {A} (l : list A) : option (list A * A) :=
  match rev l with [] => None | x :: r => Some (rev r, x) end.
Definition render_alone (chain : list pop) : list Z * list Z :=
  match split_last chain with
  | Some (pre, PFin f) => render (pnorm (p_prefin (replay_alone pre) f)) f
  | _ => ([], [])
  end.

End WithGrow.

(* ---- the Go runtime's growslice for small slices (go1.23 runtime/slice.go nextslicecap +
        roundupsize over the malloc size classes) ---- *)
Definition elem_size (f : field) : Z :=
  match f with
  | FWhere | FHaving => 16      (* clause.Expression (interface) *)
  | FGroup | FRet => 56         (* clause.Column *)
  | FOrder => 64                (* clause.OrderByColumn *)
  | FSel | FOmit => 16          (* string *)
  | FJoins => 112               (* gorm.join *)
  | FScopes => 8                (* a func value *)
  | FFromj => 120               (* clause.Join *)
  end.
Definition size_classes : list Z :=
  [8; 16; 24; 32; 48; 64; 80; 96; 112; 128; 144; 160; 176; 192; 208; 224; 240; 256; 288; 320; 352;
   384; 416; 448; 480; 512; 576; 640; 704; 768; 896; 1024; 1152; 1280; 1408; 1536; 1792; 2048; 2304;
   2688; 3072; 3200; 3456; 4096; 4864; 5376; 6144; 6528; 6784; 6912; 8192; 9472; 9728; 10240; 10880;
   12288; 13568; 14336; 16384; 18432; 19072; 20480; 21760; 24576; 27264; 28672; 32768].
Fixpoint roundup (cls : list Z) (n : Z) : Z :=
  match cls with
  | [] => n
  | c :: r => if n <=? c then c else roundup r n
  end.
Definition go_grow (f : field) (old needed : nat) : nat :=
  let o := Z.of_nat old in
  let nd := Z.of_nat needed in
  let newcap := if o + o <? nd then nd
                else if o <? 256 then o + o
                else o + (o + 768) / 4 in
  let es := elem_size f in
  let mem := newcap * es in
  (* runtime.roundupsize for element types with pointers: objects above 512 bytes carry an
     8-byte malloc header (go1.22+) *)
  let rounded := if 512 <? mem then roundup size_classes (mem + 8) - 8 else roundup size_classes mem in
  Nat.max needed (Z.to_nat (rounded / es)).

(* the classification of the MergeClause bodies of the tree the model follows on check runs *)
Definition tree_md (f : field) : bool := false.
(* the tree before fix 6cb0e65: Returning.MergeClause appended onto the slice stored in the clause *)
Definition old_md (f : field) : bool := match f with FRet => true | _ => false end.

(* ---- facts about the sources the model follows (regenerated on every run, FactsOK_C06) ---- *)
Inductive mclass := MCopy | MInPlace | MNoSlice | MUnknown.
Definition tree_classes : list (string * mclass) :=
  [("Delete"%string, MNoSlice); ("From"%string, MNoSlice); ("GroupBy"%string, MCopy); ("Insert"%string, MNoSlice);
   ("Limit"%string, MNoSlice); ("Locking"%string, MNoSlice); ("OnConflict"%string, MNoSlice);
   ("OrderBy"%string, MCopy); ("Returning"%string, MCopy); ("Select"%string, MNoSlice); ("Set"%string, MCopy);
   ("Update"%string, MNoSlice); ("Values"%string, MNoSlice); ("Where"%string, MCopy)].
Fixpoint class_of (cl : list (string * mclass)) (name : string) : mclass :=
  match cl with
  | [] => MUnknown
  | (n, c) :: r => if String.eqb n name then c else class_of r name
  end.
Definition is_inplace (c : mclass) : bool := match c with MCopy | MNoSlice => false | _ => true end.
(* the classification as the model's [md]: an unclassifiable body counts as appending in place *)
Definition md_of_classes (cl : list (string * mclass)) (f : field) : bool :=
  match f with
  | FWhere => is_inplace (class_of cl "Where")
  | FHaving | FGroup => is_inplace (class_of cl "GroupBy")
  | FOrder => is_inplace (class_of cl "OrderBy")
  | FRet => is_inplace (class_of cl "Returning")
  | _ => false
  end.
(* Statement.clone: the slices it copies (make+copy); Selects and Omits must be among the shared ones *)
Definition tree_clone_copied : list string := ["Joins"%string; "scopes"%string].
(* ... and the slices it must share (probed on the running gorm: a populated statement cloned through
   Session + a chain step, compared by backing-array identity) *)
Definition tree_clone_shared : list string :=
  ["Clauses.FROM.Joins"%string; "Clauses.GROUPBY.Columns"%string; "Clauses.GROUPBY.Having"%string;
   "Clauses.ORDERBY.Columns"%string; "Clauses.RETURNING.Columns"%string; "Clauses.WHERE.Exprs"%string;
   "Omits"%string; "Selects"%string].
(* Session options: does the child of a Session-style parent get a statement of its own (model: SCtx) or
   share the parent's (model: SPlain)? *)
Definition tree_session_clones : list (string * bool) :=
  [("allowglobal"%string, false); ("batchsize"%string, false); ("ctx"%string, true); ("dryrun"%string, false);
   ("fullsave"%string, false); ("newdb"%string, false); ("newdb+ctx"%string, true); ("newdb+ctx+skiphooks"%string, true);
   ("newdb+skiphooks"%string, true); ("nonested"%string, false); ("plain"%string, false); ("queryfields"%string, false);
   ("skipdeftx"%string, false); ("skiphooks"%string, true)].
(* chain methods append in place only onto these statement-owned slices *)
Definition tree_self_appends : list string := ["Joins"%string; "Selects"%string; "scopes"%string].
