(* C17_Exh7.v — bounded-exhaustive check, pipeline shape of Create (seven built-ins), two user names,
   histories of at most two calls *)
From Verif Require Import Base C17_Model C17_Check C17_Known C17_Proofs3.
Open Scope string_scope.
Open Scope list_scope.

Definition alpha_create : alphabet :=
  mk_alphabet ["gorm:begin_transaction"; "gorm:before_create"; "gorm:save_before_associations"; "gorm:create";
               "gorm:save_after_associations"; "gorm:after_create"; "gorm:commit_or_rollback_transaction"]
              ["u1"; "u2"].

Lemma exh_create_count : count_ext 2 alpha_create (builtin_steps (a_builtins alpha_create)) = 25397%N.
Proof. vm_compute. reflexivity. Qed.

Lemma exh_create : all_ok 2 alpha_create (builtin_steps (a_builtins alpha_create)) = true.
Proof. rewrite <- all_ok_inc_eq. vm_compute. reflexivity. Qed.
