(* C01_Proofs9.v — non-interference, part 2: the pieces a value writes depend on its shape only. *)
From Verif Require Import Base C01_Model C01_Stmt C01_Spec C01_Ind C01_Proofs C01_Proofs2 C01_Proofs3
  C01_Proofs4 C01_Proofs5 C01_Proofs8.

(* ---- what the builders ask about a value does not change with the values ---- *)
Lemma needs_paren_shape : forall v, needs_paren (shape v) = needs_paren v.
Proof.
  apply val_ind'; intros; cbn [shape needs_paren]; try reflexivity.
  - (* VAnd *) destruct l as [|y [|z r]]; cbn [map]; try reflexivity. inversion H; subst. assumption.
  - (* VOr *) destruct l as [|y [|z r]]; cbn [map]; try reflexivity. inversion H; subst. assumption.
Qed.
Lemma is_single_or_shape : forall v, is_single_or (shape v) = is_single_or v.
Proof. destruct v; try reflexivity. cbn. destruct l as [|y [|z r]]; reflexivity. Qed.
Lemma has_negation_shape : forall v, has_negation (shape v) = has_negation v.
Proof. destruct v; reflexivity. Qed.
Lemma eq_nil_shape : forall v, eq_nil (shape v) = eq_nil v.
Proof. destruct v; try reflexivity; destruct s; reflexivity. Qed.
Lemma hid_of_shape : forall v, hid_of (shape v) = shape_scalar (hid_of v).
Proof. destruct v; reflexivity. Qed.
Lemma single_iface_shape : forall vs, single_iface (map shape vs) = single_iface vs.
Proof.
  intros [|x [|y r]]; try reflexivity; destruct x; try reflexivity;
  match goal with k : lkind |- _ => destruct k end; reflexivity.
Qed.
Lemma gt1_map : forall {A B0} (f : A -> B0) l, gt1 (map f l) = gt1 l.
Proof. intros A B0 f [|x [|y r]]; reflexivity. Qed.
Lemma existsb_map_eq : forall (p : val -> bool) l, (forall v, p (shape v) = p v) ->
  existsb p (map shape l) = existsb p l.
Proof. intros p l H. induction l as [|x l IH]; [reflexivity|]. cbn. rewrite H, IH. reflexivity. Qed.
Lemma tl_map : forall {A B0} (f : A -> B0) l, tl (map f l) = map f (tl l).
Proof. intros A B0 f [|x l]; reflexivity. Qed.

Section Main.
Variable numbered : bool.
Notation B := (bval numbered).
Notation argr_of := (argr_of numbered).
Notation par_of := (par_of numbered).
Notation names_of := (names_of numbered).
Notation quoted := (quoted numbered).
Notation elems_of := (elems_of numbered).
Notation negated := (negated numbered).
Notation bexprs := (bexprs numbered).
Notation member := (member numbered).

Definition Q3 (v : val) : Prop := forall e, erase (B e v) = erase (B e (shape v)).

Lemma map_sim : forall e l, Forall (Her Q3) l -> map erase (map (B e) l) = map erase (map (B e) (map shape l)).
Proof.
  intros e l H. induction H as [|x l Hx Hl IH]; [reflexivity|].
  cbn [map]. rewrite IH, (her_q _ _ Hx e). reflexivity.
Qed.

Lemma scalar_par_shape : forall s, erase (scalar_par s) = erase (scalar_par (shape_scalar s)).
Proof.
  intros [z|s|s|b|]; try reflexivity.
  cbn [shape_scalar scalar_par]. rewrite s2l_l2s.
  destruct (s2l s) as [|c r] eqn:E; [reflexivity|].
  cbn [map]. unfold erase. cbn [map erase_piece shape_scalar]. rewrite E, s2l_l2s. cbn [map]. rewrite map_map. reflexivity.
Qed.

Lemma par_sim : forall e x, Her Q3 x -> erase (par_of e x) = erase (par_of e (shape x)).
Proof.
  intros e x Hx. pose proof (her_q _ _ Hx e) as E. pose proof (her_kids _ _ Hx) as K.
  destruct x; try exact E.
  - (* VS *) cbn [par_of shape]. apply scalar_par_shape.
  - (* VList *) cbn [kids] in K. destruct l as [|y l']; [destruct k; reflexivity|].
    destruct k; try exact E;
    (cbn [shape par_of map]; rewrite !erase_sepc; f_equal; exact (map_sim e (y :: l') K)).
Qed.

Lemma names_sim : forall e x, Her Q3 x -> erase_names (names_of e x) = erase_names (names_of e (shape x)).
Proof.
  intros e x Hx. pose proof (her_kids _ _ Hx) as K.
  destruct x; try reflexivity.
  - (* VNamed *) cbn [kids] in K. inversion K; subst. cbn [shape names_of erase_names map fst snd].
    rewrite (her_q _ _ H1 e). reflexivity.
  - (* VNameSrc *) cbn [kids] in K. cbn [shape names_of]. clear Hx. induction K as [|y l Hy Hl IH]; [reflexivity|].
    cbn [map flat_map]. unfold erase_names in *. rewrite !map_app, IH. f_equal.
    destruct y; try reflexivity. cbn [shape map fst snd].
    apply her_kids in Hy. cbn [kids] in Hy. inversion Hy; subst. rewrite (her_q _ _ H1 e). reflexivity.
Qed.

Lemma argr_sim : forall e x, Her Q3 x -> erase_argr (argr_of e x) = erase_argr (argr_of e (shape x)).
Proof.
  intros e x Hx. unfold erase_argr, argr_of. cbn [a_var a_par a_hid a_names].
  rewrite (her_q _ _ Hx e), (par_sim e x Hx), (names_sim e x Hx), hid_of_shape, shape_scalar_idem. reflexivity.
Qed.
Lemma args_sim : forall e l, Forall (Her Q3) l ->
  map erase_argr (map (argr_of e) l) = map erase_argr (map (argr_of e) (map shape l)).
Proof.
  intros e l H. induction H as [|x l Hx Hl IH]; [reflexivity|].
  cbn [map]. rewrite IH, (argr_sim e x Hx). reflexivity.
Qed.

Lemma quoted_sim : forall e c, Her Q3 c -> erase (quoted e c) = erase (quoted e (shape c)).
Proof. intros e c Hc. destruct c; try exact (her_q _ _ Hc e). reflexivity. Qed.

Lemma elems_sim : forall e y, Her Q3 y ->
  option_map (map erase) (elems_of e y) = option_map (map erase) (elems_of e (shape y)).
Proof.
  intros e y Hy. pose proof (her_kids _ _ Hy) as K. destruct y; try reflexivity.
  cbn [kids] in K. cbn [shape]. match goal with k : lkind |- _ => destruct k end;
    cbn [elems_of option_map]; try reflexivity; rewrite (map_sim e l K); reflexivity.
Qed.

Lemma cmp_sim : forall e o c y, Her Q3 c -> Her Q3 y ->
  erase (cmp_build o (quoted e c) (elems_of e y) (eq_nil y) (B e y))
  = erase (cmp_build o (quoted e (shape c)) (elems_of e (shape y)) (eq_nil (shape y)) (B e (shape y))).
Proof.
  intros e o c y Hc Hy. rewrite !cmp_build_erase.
  rewrite (quoted_sim e c Hc), (elems_sim e y Hy), eq_nil_shape, (her_q _ _ Hy e). reflexivity.
Qed.
Lemma in_sim : forall e neg c vs, Her Q3 c -> Forall (Her Q3) vs ->
  erase (in_build neg (quoted e c) (map (B e) vs) (single_iface vs))
  = erase (in_build neg (quoted e (shape c)) (map (B e) (map shape vs)) (single_iface (map shape vs))).
Proof.
  intros e neg c vs Hc Hvs. rewrite !in_build_erase.
  rewrite (quoted_sim e c Hc), (map_sim e vs Hvs), single_iface_shape. reflexivity.
Qed.

Lemma negated_default : forall e x, has_negation x = false ->
  negated e x = pstr "NOT " ++ wrap_par (needs_paren x) (B e x).
Proof. intros e x H. destruct x; try reflexivity; discriminate. Qed.

Lemma negated_sim : forall e x, Her Q3 x -> erase (negated e x) = erase (negated e (shape x)).
Proof.
  intros e x Hx. pose proof (her_q _ _ Hx e) as E. pose proof (her_kids _ _ Hx) as K.
  destruct (has_negation x) eqn:Hn.
  - destruct x; try discriminate.
    + (* VCmp *) cbn [kids] in K. inversion K as [|? ? K1 K']; subst. inversion K' as [|? ? K2 K'']; subst.
      cbn [negated shape]. apply cmp_sim; assumption.
    + (* VIn *) cbn [kids] in K. inversion K as [|? ? K1 K']; subst.
      cbn [negated shape]. apply in_sim; assumption.
  - rewrite (negated_default e x Hn), (negated_default e (shape x)) by (rewrite has_negation_shape; exact Hn).
    rewrite !erase_app, !erase_wrap, needs_paren_shape, E. reflexivity.
Qed.

Lemma members_sim : forall e l, Forall (Her Q3) l ->
  map (fun m => (fst m, erase (snd m))) (map (member e) l)
  = map (fun m => (fst m, erase (snd m))) (map (member e) (map shape l)).
Proof.
  intros e l H. induction H as [|x l Hx Hl IH]; [reflexivity|].
  cbn [map]. rewrite IH. f_equal. unfold member. cbn [fst snd].
  rewrite is_single_or_shape, needs_paren_shape, (her_q _ _ Hx e). reflexivity.
Qed.
Lemma bexprs_sim : forall e join l, Forall (Her Q3) l ->
  erase (bexprs e join l) = erase (bexprs e join (map shape l)).
Proof.
  intros e join l H. unfold bexprs. rewrite !join_exprs_erase, gt1_map, (members_sim e l H). reflexivity.
Qed.

Theorem all_Q3 : forall v, Her Q3 v.
Proof.
  apply her_all. intros v K. destruct v; intro e; cbn [kids] in K; try reflexivity.
  - (* VS *) cbn [shape bval]. unfold erase. cbn. rewrite shape_scalar_idem. reflexivity.
  - (* VDrv *) cbn [shape bval]. unfold erase. cbn. rewrite shape_scalar_idem. reflexivity.
  - (* VList *) cbn [shape]. rewrite !B_VList. destruct l as [|y l']; [reflexivity|]. cbn [map].
    change (PC "(" :: sepc [PC ","] (B e y :: map (B e) l') ++ [PC ")"])
      with (pstr "(" ++ sepc [PC ","] (map (B e) (y :: l')) ++ pstr ")").
    change (PC "(" :: sepc [PC ","] (B e (shape y) :: map (B e) (map shape l')) ++ [PC ")"])
      with (pstr "(" ++ sepc [PC ","] (map (B e) (map shape (y :: l'))) ++ pstr ")").
    rewrite !erase_app, !erase_sepc, (map_sim e (y :: l') K). reflexivity.
  - (* VNamed *) cbn [shape bval]. unfold erase. cbn. rewrite hid_of_shape, shape_scalar_idem. reflexivity.
  - (* VGormValuer *) inversion K; subst. cbn [shape bval]. destruct isnil; [reflexivity | apply (her_q _ _ H1)].
  - (* VExpr *) cbn [shape]. rewrite !B_VExpr, !expr_scan_erase, (args_sim e vars K). reflexivity.
  - (* VNamedExpr *) cbn [shape].
    rewrite !B_VNamedExpr, !named_scan_erase, <- !all_names_erase, (args_sim e vars K). reflexivity.
  - (* VCmp *) inversion K as [|? ? K1 K']; subst. inversion K' as [|? ? K2 K'']; subst.
    cbn [shape]. rewrite !B_VCmp. apply cmp_sim; assumption.
  - (* VIn *) inversion K as [|? ? K1 K']; subst. cbn [shape]. rewrite !B_VIn. apply in_sim; assumption.
  - (* VAnd *) cbn [shape]. rewrite !B_VAnd, !erase_wrap, gt1_map, (bexprs_sim e _ l K). reflexivity.
  - (* VOr *) cbn [shape]. rewrite !B_VOr, !erase_wrap, gt1_map, (bexprs_sim e _ l K). reflexivity.
  - (* VNot *) cbn [shape]. rewrite !B_VNot.
    rewrite (existsb_map_eq has_negation l has_negation_shape), tl_map,
            (existsb_map_eq is_single_or (tl l) is_single_or_shape).
    destruct (existsb has_negation l && negb (existsb is_single_or (tl l))).
    + rewrite !erase_wrap, gt1_map, !erase_sepc. f_equal. f_equal.
      induction K as [|x l Hx Hl IH]; [reflexivity|]. cbn [map]. rewrite IH, (negated_sim e x Hx). reflexivity.
    + rewrite !erase_app. f_equal. destruct l as [|x [|y r]]; cbn [map].
      * reflexivity.
      * inversion K; subst. rewrite !erase_wrap, needs_paren_shape, (her_q _ _ H1 e). reflexivity.
      * change (PC "(" :: bexprs e " AND " (x :: y :: r) ++ [PC ")"])
          with (pstr "(" ++ bexprs e " AND " (x :: y :: r) ++ pstr ")").
        change (PC "(" :: bexprs e " AND " (shape x :: shape y :: map shape r) ++ [PC ")"])
          with (pstr "(" ++ bexprs e " AND " (map shape (x :: y :: r)) ++ pstr ")").
        rewrite !erase_app, (bexprs_sim e _ _ K). reflexivity.
  - (* VWhere *) cbn [shape]. rewrite !B_VWhere. apply bexprs_sim. exact K.
  - (* VSeq *) cbn [shape]. rewrite !B_VSeq, !erase_sepc, (map_sim e l K). reflexivity.
  - (* VSubN *) inversion K as [|? ? K1 K']; subst. cbn [shape bval]. apply (her_q _ _ K1).
  - (* VRawSub *) cbn [shape]. rewrite !B_VRawSub, !rebuild_erase, !raw_scan_erase, (args_sim e vars K). reflexivity.
Qed.

End Main.

(* SQL text is a function of the shape: templates, identifiers, slice lengths, nil-ness *)
Theorem text_shape_only : forall numbered e v v',
  shape v = shape v' -> render numbered (bval numbered e v) = render numbered (bval numbered e v').
Proof.
  intros numbered e v v' H. unfold render.
  rewrite <- (render_erase numbered (bval numbered e v)), <- (render_erase numbered (bval numbered e v')).
  rewrite (her_q _ _ (all_Q3 numbered v) e), (her_q _ _ (all_Q3 numbered v') e), H. reflexivity.
Qed.
