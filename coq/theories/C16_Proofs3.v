(* C16_Proofs3.v — the executable specification C16_Spec.spec_step (the predicate the checker
   evaluates on what gorm returned) holds of the model's own output, for all inputs of the domain. *)
From Verif Require Import Base C16_Model C16_Spec C16_Proofs C16_Proofs2.
Open Scope Z_scope.

Definition obs_of_result (r : result) : obs :=
  mk_obs (res_ret r) (res_ra r) (res_err r) (res_writes r) (res_tbl r).

(* ---- reflexivity of the comparisons ------------------------------------------------------- *)
Lemma val_eqb_refl v : val_eqb v v = true.
Proof. destruct v; cbn; auto using Z.eqb_refl, String.eqb_refl. Qed.
Lemma rec_eqb_refl r : rec_eqb r r = true.
Proof. unfold rec_eqb. apply forallb_forall. intros c _. apply val_eqb_refl. Qed.
Lemma tbl_eqb_refl t : tbl_eqb t t = true.
Proof. unfold tbl_eqb. induction t as [|r t IH]; cbn [list_eqb]; [reflexivity|]. now rewrite rec_eqb_refl, IH. Qed.
Lemma same_on_refl cs r : same_on cs r r = true.
Proof. unfold same_on. apply forallb_forall. intros c _. apply val_eqb_refl. Qed.

Lemma strip_same_on a b : strip_ts a = strip_ts b -> same_on data_cols a b = true /\ r_id a = r_id b.
Proof.
  destruct a, b. unfold strip_ts; cbn. intros H. inversion H; subst. split; [|reflexivity].
  unfold same_on, data_cols; cbn. rewrite !String.eqb_refl, Z.eqb_refl.
  destruct r_del0; cbn; [now rewrite Z.eqb_refl|reflexivity].
Qed.

Lemma others_same_of k t t' : without k t' = without k t -> others_same k t t' = true.
Proof. unfold others_same. intros ->. apply tbl_eqb_refl. Qed.

Lemma lookup_none_has_key t k : lookup t k = None -> has_key t k = false.
Proof. unfold has_key. now intros ->. Qed.

Lemma same_on_with_id a k v : same_on data_cols a (with_id k v) = same_on data_cols a v.
Proof. destruct v, a; reflexivity. Qed.

(* ---- Save ------------------------------------------------------------------------------------ *)
Lemma count_hit_one t v : wf t -> 0 < count_where (fun x => (r_id x =? r_id v) && live x) t ->
  count_where (fun x => (r_id x =? r_id v) && live x) t = 1.
Proof.
  intros [lo W] H. destruct (count_pos _ _ H) as (x & Hin & Hx).
  unfold count_where. rewrite (filter_key_one _ lo t x W Hin Hx); [reflexivity|].
  intros y Hy. apply andb_prop in Hy, Hx. destruct Hy as [Hy _], Hx as [Hx _].
  apply Z.eqb_eq in Hy, Hx. congruence.
Qed.

Lemma save_ra t now v : wf t -> res_err (save t now v) = false -> res_ra (save t now v) = 1.
Proof.
  intros Hwf. unfold save. destruct (r_id v =? 0) eqn:Hz0.
  - unfold create. destruct (r_id (fill_times now v) =? 0); [reflexivity|].
    destruct (lookup t _); cbn; [discriminate|reflexivity].
  - destruct (0 <? count_where _ t) eqn:C; cbn [res_ra res_err].
    + intros _. apply count_hit_one; [exact Hwf|]. now apply Z.ltb_lt.
    + unfold create. rewrite fill_times_id, with_uat_id, Hz0.
      destruct (lookup t (r_id v)); cbn; reflexivity.
Qed.

Theorem save_meets_spec t now v : wf t ->
  spec_save t v (obs_of_result (save t now v)) = true.
Proof.
  intros Hwf. unfold spec_save, obs_of_result. cbn [o_err o_ret o_tbl o_ra].
  destruct (r_id v =? 0) eqn:Hz0.
  - apply Z.eqb_eq in Hz0.
    destruct (save_zero_key t now v Hwf Hz0) as (E & W & P & N & T & S).
    pose proof (save_ra t now v Hwf E) as RA.
    rewrite E, RA, T. cbn [negb andb].
    unfold fresh_key. rewrite (lookup_none_has_key _ _ N). rewrite (proj2 (Z.ltb_lt _ _) P). cbn [negb andb orb].
    rewrite (lookup_insert_same _ _ N).
    destruct (strip_same_on _ _ S) as [S1 S2].
    assert (S3 : same_on data_cols (res_ret (save t now v)) v = true).
    { now rewrite same_on_with_id in S1. }
    rewrite S3, Z.eqb_refl. cbn [negb andb orb].
    rewrite others_same_of by apply without_insert. reflexivity.
  - apply Z.eqb_neq in Hz0.
    destruct (save_char t now v Hwf Hz0) as (E & W & O & (row & L & S) & SR & _).
    pose proof (save_ra t now v Hwf E) as RA.
    rewrite E, RA, L. cbn [negb andb orb].
    destruct (strip_same_on _ _ S) as [S1 _]. destruct (strip_same_on _ _ SR) as [S3 S4].
    rewrite S1, S3, (others_same_of _ _ _ O), S4, Z.eqb_refl. reflexivity.
Qed.

(* ---- Create with an OnConflict rule ------------------------------------------------------------ *)
Lemma same_on_fill now v : same_on (data_cols ++ [CCat; CUat]) (fill_times now v) (fill_times now v) = true.
Proof. apply same_on_refl. Qed.

Lemma same_on_data_fill now row v :
  same_on data_cols row (fill_times now v) = same_on data_cols row v.
Proof. destruct v, row; reflexivity. Qed.

Lemma coll_ok_rule now ru v old row : rule_row now ru (fill_times now v) old row ->
  coll_ok ru v (fill_times now v) old row (if rule_fires ru old then 1 else 0) = true.
Proof.
  induction ru as [|cols| |k r IH|k r IH]; cbn [rule_row coll_ok rule_fires].
  - intros ->. now rewrite rec_eqb_refl.
  - intros H. rewrite andb_true_r. apply forallb_forall. intros c _. rewrite H. apply val_eqb_refl.
  - intros H. rewrite andb_true_r, <- (same_on_data_fill now). unfold same_on. apply forallb_forall.
    intros c Hc. rewrite H. destruct Hc as [<-|[<-|[<-|[<-|[]]]]]; apply val_eqb_refl.
  - destruct (r_age old <? k); cbn [andb]; [exact IH|]. intros ->. now rewrite rec_eqb_refl.
  - exact IH.
Qed.

Theorem upsert_meets_spec t now ru v : wf t ->
  spec_upsert t now ru v (obs_of_result (create t now (Some ru) v)) = true.
Proof.
  intros Hwf. unfold spec_upsert, obs_of_result. cbn [o_err o_ret o_tbl o_ra o_writes].
  destruct (r_id v =? 0) eqn:Hz0.
  - apply Z.eqb_eq in Hz0. destruct (create_fresh t now Hwf (Some ru) v Hz0) as (E & N & P & W).
    rewrite E. cbn [res_err res_ret res_tbl res_ra res_writes negb andb].
    set (x := with_id (next_id t) (fill_times now v)) in *.
    rewrite (others_same_of _ _ _ (without_insert t x)), (lookup_insert_same _ _ N). cbn.
    unfold fresh_key. rewrite (lookup_none_has_key _ _ N), (proj2 (Z.ltb_lt _ _) P). cbn.
    rewrite andb_true_r. unfold x, with_id. destruct v; cbn. rewrite !String.eqb_refl, !Z.eqb_refl.
    destruct r_del; cbn; rewrite ?Z.eqb_refl; reflexivity.
  - apply Z.eqb_neq in Hz0.
    destruct (upsert_rule t now ru v Hwf Hz0) as (E & R & W & O & M).
    assert (WR : res_writes (create t now (Some ru) v) = 1) by (destruct (create_one t now (Some ru) v) as (_ & _ & X); exact X).
    rewrite E, WR, (others_same_of _ _ _ O). cbn [negb andb]. cbn [Z.leb Z.compare Pos.compare Pos.compare_cont].
    destruct (lookup t (r_id v)) as [old|] eqn:L.
    + destruct M as ((row & Lr & RR) & _). rewrite Lr.
      assert (RAeq : res_ra (create t now (Some ru) v) = if rule_fires ru old then 1 else 0).
      { unfold create. rewrite fill_times_id. destruct (r_id v =? 0) eqn:X; [apply Z.eqb_eq in X; congruence|].
        rewrite L. destruct (rule_fires ru old); reflexivity. }
      rewrite RAeq. now apply coll_ok_rule.
    + destruct M as (Lr & _). rewrite Lr. cbn [negb orb andb].
      rewrite same_on_refl. cbn [andb].
      unfold create. rewrite fill_times_id. destruct (r_id v =? 0) eqn:X; [apply Z.eqb_eq in X; congruence|].
      rewrite L. reflexivity.
Qed.

(* ---- records built by field.Set ------------------------------------------------------------------ *)
Lemma stores_set c v r : typed (c, v) = true -> stores (get_col c (set_col c v r)) v = true.
Proof.
  destruct r, c, v; cbn; intros H; try discriminate; unfold stores; cbn;
    rewrite ?Z.eqb_refl, ?String.eqb_refl; reflexivity.
Qed.

Lemma get_set_other' c c' v r : col_eqb c' c = false -> get_col c (set_col c' v r) = get_col c r.
Proof. destruct r, c, c', v; cbn; intros H; try reflexivity; discriminate. Qed.

Lemma one_of_mono x v l : one_of x l = true -> one_of x (v :: l) = true.
Proof. unfold one_of. cbn. intros ->. apply orb_true_r. Qed.

(* after set_pairs, a column named by the pairs holds one of the given values; any other is untouched *)
Lemma set_pairs_get ps : forallb typed ps = true -> forall c r,
  match keyvals ps c with
  | [] => get_col c (set_pairs ps r) = get_col c r
  | l => one_of (get_col c (set_pairs ps r)) l = true
  end.
Proof.
  unfold set_pairs. induction ps as [|[c' v] ps IH]; intros Ht c r; cbn [fold_left keyvals filter map]; [reflexivity|].
  cbn in Ht. apply andb_prop in Ht. destruct Ht as [T1 T2]. specialize (IH T2 c (set_col c' v r)).
  cbn [fst snd]. unfold keyvals in *. destruct (col_eqb c' c) eqn:E; cbn [map].
  - assert (c' = c) by (destruct c', c; cbn in E; try discriminate; reflexivity). subst c'.
    destruct (map snd (filter _ ps)) as [|w l].
    + rewrite IH. unfold one_of. cbn. now rewrite stores_set.
    + now apply one_of_mono.
  - destruct (map snd (filter _ ps)) as [|w l]; [|exact IH].
    rewrite IH. now apply get_set_other'.
Qed.

Lemma assign_args_pairs l r : kv_alone l = true -> assign_args l r = set_pairs (flat_map arg_pairs l) r.
Proof.
  assert (G : forall l r, forallb (fun a => match a with AKV _ _ => false | _ => true end) l = true ->
              assign_args l r = set_pairs (flat_map arg_pairs l) r).
  { clear. induction l as [|a l IH]; intros r H; [reflexivity|]. cbn in H. apply andb_prop in H. destruct H as [H1 H2].
    destruct a; try discriminate; cbn [assign_args flat_map]; rewrite IH by exact H2;
      unfold set_pairs; now rewrite fold_left_app. }
  destruct l as [|[x|kv|c v] [|b l]]; intros H; try (apply G; exact H); try reflexivity;
    cbn in H; discriminate.
Qed.

Lemma assign_map_pairs l : kv_alone l = true -> assign_map l = flat_map arg_pairs l.
Proof.
  destruct l as [|[x|kv|c v] [|b l]]; intros H; unfold assign_map;
    try (symmetry; apply flat_map_concat_map); try reflexivity.
  cbn in H. discriminate.
Qed.

Lemma set_col_del c v r : col_eqb c CDel = false -> r_del (set_col c v r) = r_del r.
Proof. destruct r, c, v; cbn; intros H; try reflexivity; discriminate. Qed.
Lemma set_pairs_del ps r : no_del ps = true -> r_del (set_pairs ps r) = r_del r.
Proof.
  unfold set_pairs, no_del. revert r; induction ps as [|p ps IH]; intros r H; cbn in *; [reflexivity|].
  apply andb_prop in H. destruct H as [H1 H2]. rewrite (IH _ H2). apply set_col_del. now apply negb_true_iff.
Qed.
Lemma set_del_null r : r_del r = None -> set_col CDel VNull r = r.
Proof. destruct r; cbn. now intros ->. Qed.

(* on a record without deleted_at and conditions that do not name it, the Unscoped reading (no
   deleted_at = NULL equality) builds the same record *)
Lemma apply_conds_pairs cs r : no_del (flat_map cond_pairs cs) = true -> r_del r = None ->
  apply_conds cs r = set_col CDel VNull (set_pairs (flat_map cond_pairs cs) r).
Proof.
  intros Nd Hr. unfold apply_conds.
  assert (E : fold_left (fun r c => set_pairs (cond_pairs c) r) cs r = set_pairs (flat_map cond_pairs cs) r).
  { clear. revert r. induction cs as [|c cs IH]; intros r; [reflexivity|].
    cbn [fold_left flat_map]. rewrite IH. unfold set_pairs. now rewrite fold_left_app. }
  rewrite E. destruct (unscoped cs); [|reflexivity].
  symmetry. apply set_del_null. now rewrite set_pairs_del.
Qed.

(* ---- "the first match with Assign applied" ------------------------------------------------------- *)
Lemma found_ok_assign r assigns skip :
  kv_alone assigns = true -> args_typed assigns = true ->
  found_ok r assigns skip (assign_args assigns r) = true.
Proof.
  intros K T. unfold found_ok. apply forallb_forall. intros c _.
  rewrite (assign_args_pairs _ _ K).
  pose proof (set_pairs_get _ T c r) as G.
  destruct (keyvals (flat_map arg_pairs assigns) c) as [|w l].
  - rewrite G, val_eqb_refl. apply orb_true_r.
  - exact G.
Qed.

(* ---- "a record built from the conditions plus Attrs, with Assign applied" ------------------------ *)
Lemma keyvals_no_del ps : no_del ps = true -> keyvals ps CDel = [].
Proof.
  unfold keyvals, no_del. induction ps as [|p ps IH]; intros H; [reflexivity|]. cbn in H.
  apply andb_prop in H. destruct H as [H1 H2]. cbn. apply negb_true_iff in H1. rewrite H1. now apply IH.
Qed.

Lemma built_ok_built cs attrs assigns :
  kv_alone attrs = true -> kv_alone assigns = true ->
  conds_typed cs = true -> args_typed attrs = true -> args_typed assigns = true ->
  no_del (flat_map cond_pairs cs) = true ->
  built_ok cs attrs assigns [] (built cs attrs assigns) = true.
Proof.
  intros Ka Ks Tc Ta Ts Nd. unfold built_ok, built. apply forallb_forall. intros c _.
  rewrite (assign_args_pairs _ _ Ks), (assign_args_pairs _ _ Ka), (apply_conds_pairs cs zero_rec Nd eq_refl).
  set (r0 := set_col CDel VNull (set_pairs (flat_map cond_pairs cs) zero_rec)).
  set (r1 := set_pairs (flat_map arg_pairs attrs) r0).
  pose proof (set_pairs_get _ Ts c r1) as G2.
  destruct (keyvals (flat_map arg_pairs assigns) c) as [|w l]; [|exact G2]. rewrite G2.
  pose proof (set_pairs_get _ Ta c r0) as G1. unfold r1.
  destruct (keyvals (flat_map arg_pairs attrs) c) as [|w l]; [|exact G1]. rewrite G1.
  pose proof (set_pairs_get _ Tc c zero_rec) as G0. unfold r0.
  destruct (col_eqb CDel c) eqn:E.
  - assert (c = CDel) by (destruct c; cbn in E; try discriminate; reflexivity). subst c.
    rewrite (keyvals_no_del _ Nd). cbn. destruct (set_pairs _ zero_rec); reflexivity.
  - rewrite (get_set_other' c CDel VNull _ E).
    destruct (keyvals (flat_map cond_pairs cs) c) as [|w l]; [|exact G0].
    rewrite G0. destruct c; reflexivity.
Qed.

(* ---- FirstOrInit ------------------------------------------------------------------------------------ *)
Theorem init_meets_spec t now ch ic :
  kv_alone (ch_attrs ch) = true -> kv_alone (ch_assigns ch) = true ->
  conds_typed (ch_conds ch ++ ic) = true -> args_typed (ch_attrs ch) = true -> args_typed (ch_assigns ch) = true ->
  no_del (flat_map cond_pairs (ch_conds ch ++ ic)) = true ->
  spec_step t now ch (FInit ic) (obs_of_result (step_repo t now ch (FInit ic))) = true.
Proof.
  intros Ka Ks Tc Ta Ts Nd. rewrite init_reading_repo. cbn [spec_step]. unfold spec_init, ref_init.
  destruct (first_match t (ch_conds ch ++ ic)) as [r|];
    cbn [obs_of_result o_err o_tbl o_writes o_ret o_ra res_err res_tbl res_writes res_ret res_ra negb andb];
    rewrite tbl_eqb_refl; cbn [andb].
  - rewrite found_ok_assign by assumption. reflexivity.
  - rewrite built_ok_built by assumption. reflexivity.
Qed.

(* ---- FirstOrCreate ------------------------------------------------------------------------------------ *)
Lemma keyvals_none ps c : forallb (fun p => negb (col_eqb (fst p) c)) ps = true -> keyvals ps c = [].
Proof.
  unfold keyvals. induction ps as [|p ps IH]; intros H; [reflexivity|]. cbn in H.
  apply andb_prop in H. destruct H as [H1 H2]. cbn. apply negb_true_iff in H1. rewrite H1. now apply IH.
Qed.

Lemma forallb_impl {A} (p q : A -> bool) l : (forall x, p x = true -> q x = true) ->
  forallb p l = true -> forallb q l = true.
Proof. intros H. rewrite !forallb_forall. auto. Qed.

Lemma args_data_keyvals l c : args_data l = true -> data_key c = false -> keyvals (flat_map arg_pairs l) c = [].
Proof.
  intros H Hc. apply keyvals_none. revert H. apply forallb_impl. intros p Hp.
  destruct (col_eqb (fst p) c) eqn:E; [|reflexivity].
  assert (fst p = c) by (destruct (fst p), c; cbn in E; try discriminate; reflexivity). congruence.
Qed.

Lemma args_data_names_key l : kv_alone l = true -> args_data l = true -> names_key (assign_map l) = false.
Proof.
  intros K H. rewrite (assign_map_pairs _ K). unfold names_key.
  destruct (existsb _ _) eqn:E; [|reflexivity]. apply existsb_exists in E. destruct E as (p & Hp & E).
  unfold args_data in H. rewrite forallb_forall in H. specialize (H p Hp).
  destruct (fst p); cbn in *; discriminate.
Qed.

Lemma conds_dom_keyvals cs c : conds_dom cs = true -> data_key c = false -> c <> CId ->
  keyvals (flat_map cond_pairs cs) c = [].
Proof.
  intros H Hc Hid. apply keyvals_none. revert H. apply forallb_impl. intros p Hp.
  destruct (col_eqb (fst p) c) eqn:E; [|reflexivity].
  assert (fst p = c) by (destruct (fst p), c; cbn in E; try discriminate; reflexivity).
  destruct p as [c' v]; cbn in *; subst c'. destruct c, v; cbn in *; try discriminate; congruence.
Qed.

Lemma conds_dom_no_del cs : conds_dom cs = true -> no_del (flat_map cond_pairs cs) = true.
Proof.
  unfold no_del. apply forallb_impl. intros [c v] H. cbn in *. destruct c, v; cbn in *; try discriminate; reflexivity.
Qed.

Lemma with_uat_get c now r : col_eqb CUat c = false -> get_col c (with_uat now r) = get_col c r.
Proof. unfold with_uat. apply get_set_other'. Qed.

Lemma found_ok_update r assigns now :
  kv_alone assigns = true -> args_typed assigns = true -> args_data assigns = true ->
  found_ok r assigns [CUat] (with_uat now (set_pairs (assign_map assigns) r)) = true.
Proof.
  intros K T D. unfold found_ok. apply forallb_forall. intros c _.
  rewrite (assign_map_pairs _ K).
  pose proof (set_pairs_get _ T c r) as G.
  destruct (col_eqb CUat c) eqn:E.
  - assert (c = CUat) by (destruct c; cbn in E; try discriminate; reflexivity). subst c.
    rewrite (args_data_keyvals _ CUat D eq_refl). reflexivity.
  - rewrite (with_uat_get _ _ _ E).
    destruct (keyvals (flat_map arg_pairs assigns) c) as [|w l]; [|exact G].
    rewrite G, val_eqb_refl. apply orb_true_r.
Qed.

(* the record handed back after the INSERT differs from the built one only in key and tracked times *)
Lemma built_ok_created cs attrs assigns b ret :
  args_data attrs = true -> args_data assigns = true -> conds_dom cs = true ->
  built_ok cs attrs assigns [] b = true ->
  (forall c, data_key c = true \/ c = CDel -> get_col c ret = get_col c b) ->
  (r_id b <> 0 -> r_id ret = r_id b) ->
  built_ok cs attrs assigns [CId; CCat; CUat] ret = true.
Proof.
  intros Da Ds Dc B Hd Hid. unfold built_ok in *. rewrite forallb_forall in B. apply forallb_forall. intros c Hc.
  specialize (B c Hc).
  destruct (data_key c) eqn:Dk.
  - rewrite (Hd c (or_introl Dk)).
    destruct (keyvals (flat_map arg_pairs assigns) c), (keyvals (flat_map arg_pairs attrs) c),
      (keyvals (flat_map cond_pairs cs) c); auto.
    cbn [mem_col existsb orb] in *. destruct c; cbn in *; try discriminate; exact B.
  - rewrite (args_data_keyvals _ c Ds Dk), (args_data_keyvals _ c Da Dk) in *.
    destruct c; try discriminate Dk.
    + (* the key: given by a condition (positive), or assigned by the database *)
      destruct (keyvals (flat_map cond_pairs cs) CId) as [|w l] eqn:Kc; [reflexivity|].
      assert (r_id b <> 0).
      { unfold one_of in B. apply existsb_exists in B. destruct B as (x & Hx & Sx).
        assert (Px : exists z, x = VInt z /\ 0 < z).
        { unfold keyvals in Kc. rewrite <- Kc in Hx. apply in_map_iff in Hx. destruct Hx as ([c' v'] & Ev & Hin).
          apply filter_In in Hin. destruct Hin as [Hin Ec]. cbn in Ev, Ec. subst v'.
          assert (c' = CId) by (destruct c'; cbn in Ec; try discriminate; reflexivity). subst c'.
          unfold conds_dom in Dc. rewrite forallb_forall in Dc. specialize (Dc _ Hin). cbn in Dc.
          destruct x; try discriminate. exists z. split; [reflexivity|now apply Z.ltb_lt]. }
        destruct Px as (z & -> & Pz). unfold stores in Sx. cbn in Sx.
        apply orb_prop in Sx. destruct Sx as [Sx|Sx].
        - apply Z.eqb_eq in Sx. lia.
        - apply andb_prop in Sx. destruct Sx as [Sx _]. apply Z.eqb_eq in Sx. lia. }
      cbn [get_col] in *. now rewrite (Hid H).
    + rewrite (conds_dom_keyvals cs CCat Dc eq_refl) by discriminate. reflexivity.
    + rewrite (conds_dom_keyvals cs CUat Dc eq_refl) by discriminate. reflexivity.
    + rewrite (Hd CDel (or_intror eq_refl)). exact B.
Qed.

Lemma fill_times_get c now r : data_key c = true \/ c = CDel -> get_col c (fill_times now r) = get_col c r.
Proof. destruct r, c; cbn; intros [H|H]; try discriminate; reflexivity. Qed.
Lemma with_id_get c k r : data_key c = true \/ c = CDel -> get_col c (with_id k r) = get_col c r.
Proof. destruct r, c; cbn; intros [H|H]; try discriminate; reflexivity. Qed.

Theorem foc_meets_spec t now ch ic : wf t -> unscoped ic = false ->
  kv_alone (ch_attrs ch) = true -> kv_alone (ch_assigns ch) = true ->
  conds_typed (ch_conds ch ++ ic) = true -> args_typed (ch_attrs ch) = true -> args_typed (ch_assigns ch) = true ->
  conds_dom (ch_conds ch ++ ic) = true -> args_data (ch_attrs ch) = true -> args_data (ch_assigns ch) = true ->
  spec_step t now ch (FFoc ic) (obs_of_result (step_repo t now ch (FFoc ic))) = true.
Proof.
  intros Hwf Hu Ka Ks Tc Ta Ts Dc Da Ds. rewrite foc_reading_repo. cbn [spec_step]. unfold spec_foc.
  set (cs := ch_conds ch ++ ic) in *. set (attrs := ch_attrs ch) in *. set (assigns := ch_assigns ch) in *.
  destruct (first_match t cs) as [r|] eqn:M.
  - (* found *)
    destruct assigns as [|a l] eqn:Ea.
    + unfold ref_foc. rewrite M.
      cbn [obs_of_result o_writes o_err o_ret o_tbl o_ra res_writes res_err res_ret res_tbl res_ra nonempty negb andb].
      rewrite rec_eqb_refl, tbl_eqb_refl. reflexivity.
    + assert (Ne : a :: l <> []) by discriminate.
      pose proof (args_data_names_key _ Ks Ds) as Nk.
      destruct (foc_found_assign t now (ch_conds ch) ic attrs (a :: l) r Hwf Hu M Ne Nk) as (R & E & RA & L & O & W).
      assert (Wr : res_writes (ref_foc t now (ch_conds ch) cs attrs (a :: l)) = 1).
      { unfold ref_foc. fold cs. rewrite M. reflexivity. }
      unfold obs_of_result. cbn [o_writes o_err o_ret o_tbl o_ra nonempty]. fold cs in R, E, RA, L, O, W.
      rewrite Wr, E, R, L, (others_same_of _ _ _ O). cbn [negb andb Z.leb Z.compare Pos.compare Pos.compare_cont opt_rec_is].
      rewrite found_ok_update by assumption. rewrite rec_eqb_refl, with_uat_id, set_pairs_id by exact Nk.
      now rewrite Z.eqb_refl.
  - (* not found: INSERT of the built record *)
    unfold ref_foc. rewrite M.
    set (b := built cs attrs assigns).
    pose proof (built_ok_built cs attrs assigns Ka Ks Tc Ta Ts (conds_dom_no_del _ Dc)) as B. fold b in B.
    destruct (create_one t now None b) as (_ & _ & Wr).
    unfold obs_of_result. cbn [o_writes o_err o_ret o_tbl o_ra]. rewrite Wr.
    cbn [Z.leb Z.compare Pos.compare Pos.compare_cont andb].
    destruct (Z.eq_dec (r_id b) 0) as [Hz|Hnz].
    + destruct (create_fresh t now Hwf None b Hz) as (E & N & P & W). rewrite E.
      cbn [res_err res_ret res_tbl res_ra res_writes].
      set (x := with_id (next_id t) (fill_times now b)) in *.
      rewrite (built_ok_created cs attrs assigns b x Da Ds Dc B).
      * unfold fresh_key. rewrite (lookup_none_has_key _ _ N), (proj2 (Z.ltb_lt _ _) P).
        rewrite (lookup_insert_same _ _ N), (others_same_of _ _ _ (without_insert t x)).
        cbn [opt_rec_is]. now rewrite rec_eqb_refl.
      * intros c Hc. unfold x. now rewrite with_id_get, fill_times_get.
      * intros X. congruence.
    + destruct (lookup t (r_id b)) as [old|] eqn:L.
      * unfold create. rewrite fill_times_id. destruct (r_id b =? 0) eqn:X; [apply Z.eqb_eq in X; congruence|].
        rewrite L. cbn. apply tbl_eqb_refl.
      * destruct (create_absent t now Hwf None b Hnz L) as (E & W). rewrite E.
        cbn [res_err res_ret res_tbl res_ra res_writes].
        set (x := fill_times now b) in *.
        assert (Hx : r_id x = r_id b) by apply fill_times_id.
        rewrite (built_ok_created cs attrs assigns b x Da Ds Dc B).
        -- assert (P : 0 < r_id b).
           { (* a non-zero key comes from a condition, hence is positive *)
             unfold built_ok in B. rewrite forallb_forall in B.
             assert (Bi := B CId (or_introl eq_refl)).
             rewrite (args_data_keyvals _ CId Ds eq_refl), (args_data_keyvals _ CId Da eq_refl) in Bi.
             destruct (keyvals (flat_map cond_pairs cs) CId) as [|w l0] eqn:Kc.
             - cbn in Bi. apply Z.eqb_eq in Bi. congruence.
             - unfold one_of in Bi. apply existsb_exists in Bi. destruct Bi as (y & Hy & Sy).
               unfold keyvals in Kc. rewrite <- Kc in Hy. apply in_map_iff in Hy. destruct Hy as ([c' v'] & Ev & Hin).
               apply filter_In in Hin. destruct Hin as [Hin Ec]. cbn in Ev, Ec. subst v'.
               assert (c' = CId) by (destruct c'; cbn in Ec; try discriminate; reflexivity). subst c'.
               unfold conds_dom in Dc. rewrite forallb_forall in Dc. specialize (Dc _ Hin). cbn in Dc.
               destruct y; try discriminate. apply Z.ltb_lt in Dc. unfold stores in Sy. cbn in Sy.
               apply orb_prop in Sy. destruct Sy as [Sy|Sy].
               + apply Z.eqb_eq in Sy. lia.
               + apply andb_prop in Sy. destruct Sy as [Sy _]. apply Z.eqb_eq in Sy. lia. }
           unfold fresh_key. rewrite Hx, (lookup_none_has_key _ _ L), (proj2 (Z.ltb_lt _ _) P).
           rewrite <- Hx. rewrite (lookup_insert_same t x) by (now rewrite Hx).
           rewrite (others_same_of _ _ _ (without_insert t x)). cbn [opt_rec_is]. now rewrite rec_eqb_refl.
        -- intros c Hc. unfold x. now rewrite fill_times_get.
        -- intros _. exact Hx.
Qed.

(* ---- Create from a map under UpdateAll: exactly the named data columns are overwritten ------------------ *)
Lemma mall_cols_mem ks c : In c [CName; CAge; CEmail; CDel] ->
  existsb (col_eqb c) (mall_cols ks) = named ks c.
Proof.
  intros Hc. unfold named, mall_cols. induction ks as [|a ks IH]; [reflexivity|].
  cbn [In] in Hc. destruct Hc as [<-|[<-|[<-|[<-|[]]]]]; destruct a; cbn; rewrite ?IH; reflexivity.
Qed.
Lemma moc_all_columns now ks ex old c : In c [CName; CAge; CEmail; CDel] ->
  get_col c (moc_apply now RAll ks ex old) = if named ks c then get_col c ex else get_col c old.
Proof.
  intros Hc. cbn [moc_apply].
  assert (Hu : col_eqb CUat c = false).
  { cbn [In] in Hc. destruct Hc as [<-|[<-|[<-|[<-|[]]]]]; reflexivity. }
  assert (G : get_col c (copy_cols (mall_cols ks) ex old) = if named ks c then get_col c ex else get_col c old).
  { unfold copy_cols. rewrite copy_cols_get. unfold mem_col. now rewrite mall_cols_mem. }
  destruct (named ks CUat); [rewrite with_uat_get by exact Hu|]; exact G.
Qed.

(* ---- all finishers ------------------------------------------------------------------------------------- *)
Lemma sortedb_wf t : sortedb t = true -> wf t.
Proof.
  destruct t as [|a t]; intros H; [exists 0; exact I|]. exists (r_id a - 1).
  cbn [wf_from]. split; [lia|]. revert a H. induction t as [|b t IH]; intros a H; [exact I|].
  cbn in H. apply andb_prop in H. destruct H as [H1 H2]. apply Z.ltb_lt in H1. split; [exact H1|]. apply IH, H2.
Qed.

