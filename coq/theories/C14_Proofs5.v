(* C14_Proofs5.v — the life cycle of an entry: one owner, which either stores a statement and
   then closes [prepared], or records the error, deletes and closes [prepared]. *)
From Verif Require Import Base C14_Model C14_Proofs2 C14_Proofs3.

(* pcs at which the owner has not stored a statement *)
Definition prestore (p : pc) : option nat :=
  match p with
  | P9 e | P9w e | P10 e _ | P10b e _ | P11 e | P11b e | P11c e => Some e
  | _ => None
  end.
Definition failing (p : pc) : option nat :=
  match p with P11 e | P11b e | P11c e => Some e | _ => None end.
Definition succeeding (p : pc) : option nat :=
  match p with P9 e | P9w e | P10 e _ | P10b e _ | P10c e _ => Some e | _ => None end.

Definition thr_inv (s : state) (P : thread -> Prop) : Prop :=
  forall t th, nth_error (s_thr s) t = Some th -> P th.

Record invC (s : state) : Prop := {
  C_valid : thr_inv s (fun th => forall e, owner_of (t_pc th) = Some e -> e < length (s_ents s));
  C_uniq : forall t1 t2 th1 th2 e, nth_error (s_thr s) t1 = Some th1 -> nth_error (s_thr s) t2 = Some th2 ->
           owner_of (t_pc th1) = Some e -> owner_of (t_pc th2) = Some e -> t1 = t2
}.

Ltac thr_all_tac Ht :=
  match goal with |- forall t0 th0, nth_error _ t0 = Some th0 -> @?Q t0 th0 =>
    apply (thr_all Q _ _ _ _ _ Ht) end.

Lemma invC_valid_step s t th c s' l :
  nth_error (s_thr s) t = Some th -> step_th s t th c = Some (s', l) -> invC s ->
  thr_inv s' (fun th => forall e, owner_of (t_pc th) = Some e -> e < length (s_ents s')).
Proof.
  intros Ht H [V U]. unfold thr_inv in *.
  step_cases H.
  all: autorewrite with st; norm_thr; try rewrite upd_length; try rewrite app_length; cbn [length].
  all: thr_all_tac Ht;
    [ cbn; intros e' He'; try discriminate He';
      try (pose proof (V _ _ Ht e') as Hv; rewrite Heqp in Hv; cbn in Hv; specialize (Hv He'); lia);
      try (inversion He'; lia)
    | intros t' th' Hne Hn' e' He'; pose proof (V _ _ Hn' e' He'); lia
    | intros t' th' Hi _ e' He'; exfalso; spawned_false Hi ].
Qed.

Lemma uniq_preserve (l sp : list thread) t x y :
  nth_error l t = Some y ->
  (forall t1 t2 th1 th2 e, nth_error l t1 = Some th1 -> nth_error l t2 = Some th2 ->
     owner_of (t_pc th1) = Some e -> owner_of (t_pc th2) = Some e -> t1 = t2) ->
  (forall e, owner_of (t_pc x) = Some e ->
     owner_of (t_pc y) = Some e \/ (forall t' th', nth_error l t' = Some th' -> owner_of (t_pc th') <> Some e)) ->
  (forall th', In th' sp -> owner_of (t_pc th') = None) ->
  forall t1 t2 th1 th2 e, nth_error (upd l t x ++ sp) t1 = Some th1 -> nth_error (upd l t x ++ sp) t2 = Some th2 ->
     owner_of (t_pc th1) = Some e -> owner_of (t_pc th2) = Some e -> t1 = t2.
Proof.
  intros Hy U Hx Hsp t1 t2 th1 th2 e H1 H2 O1 O2.
  destruct (nth_error_app_upd _ _ _ _ _ _ _ Hy H1) as [[-> ->]|[[N1 M1]|[I1 _]]];
  destruct (nth_error_app_upd _ _ _ _ _ _ _ Hy H2) as [[-> ->]|[[N2 M2]|[I2 _]]]; auto.
  - destruct (Hx _ O1) as [Ho|Hf]; [exfalso; apply N2; symmetry; eapply (U t t2); eauto | exfalso; eapply Hf; eauto].
  - rewrite (Hsp _ I2) in O2. discriminate.
  - destruct (Hx _ O2) as [Ho|Hf]; [exfalso; apply N1; eapply (U t1 t); eauto | exfalso; eapply Hf; eauto].
  - eapply U; eauto.
  - rewrite (Hsp _ I2) in O2. discriminate.
  - rewrite (Hsp _ I1) in O1. discriminate.
  - rewrite (Hsp _ I1) in O1. discriminate.
  - rewrite (Hsp _ I1) in O1. discriminate.
Qed.

Lemma invC_uniq_step s t th c s' l :
  nth_error (s_thr s) t = Some th -> step_th s t th c = Some (s', l) -> invC s ->
  forall t1 t2 th1 th2 e, nth_error (s_thr s') t1 = Some th1 -> nth_error (s_thr s') t2 = Some th2 ->
     owner_of (t_pc th1) = Some e -> owner_of (t_pc th2) = Some e -> t1 = t2.
Proof.
  intros Ht H [V U]. unfold thr_inv in *.
  step_cases H.
  all: autorewrite with st; norm_thr.
  all: apply (uniq_preserve _ _ _ _ _ Ht U);
    [ rewrite Heqp; cbn; intros e' He'; try discriminate He'; try (left; exact He');
      right; intros t' th' Hn' Ho'; inversion He'; subst e'; pose proof (V _ _ Hn' _ Ho'); lia
    | intros th' Hi; spawned_false Hi ].
Qed.

Lemma invC_step s t th c s' l :
  nth_error (s_thr s) t = Some th -> step_th s t th c = Some (s', l) -> invC s -> invC s'.
Proof. intros Ht H I. split; [eapply invC_valid_step | eapply invC_uniq_step]; eauto. Qed.

Lemma invC_init g progs : invC (init_g g progs).
Proof.
  split.
  - intros t th H e He. cbn in H. rewrite nth_error_map in H. destruct (nth_error progs t); inversion H; subst. discriminate.
  - intros t1 t2 th1 th2 e H1 _ O1 _. cbn in H1. rewrite nth_error_map in H1.
    destruct (nth_error progs t1); inversion H1; subst. discriminate.
Qed.

Lemma invC_reach progs s : reach progs s -> invC s.
Proof.
  apply reach_ind; [intro g; apply invC_init|].
  intros s0 t c s1 I H. apply step_inv in H. destruct H as [th [l [Ht H]]]. eapply invC_step; eauto.
Qed.

(* ---- what one step does to the entries ---- *)
Lemma step_ent_frame s t th c s' l :
  step_th s t th c = Some (s', l) ->
  forall e, owner_of (t_pc th) <> Some e -> e < length (s_ents s) -> ent s' e = ent s e.
Proof.
  intros H e Ho He. step_cases H.
  all: autorewrite with st; try reflexivity.
  all: try (rewrite ent_w_ents_app; destruct (e =? length (s_ents s)) eqn:E; [apply Nat.eqb_eq in E; lia | reflexivity]).
  all: rewrite ent_set_ent; autorewrite with st;
    destruct ((e =? e0) && (e0 <? length (s_ents s))) eqn:E; [|reflexivity];
    apply andb_prop in E; destruct E as [E _]; apply Nat.eqb_eq in E; subst e0;
    exfalso; apply Ho; reflexivity.
Qed.

Lemma step_done_mono s t th c s' l :
  step_th s t th c = Some (s', l) ->
  forall e, e < length (s_ents s) -> e_done (ent s e) = true -> e_done (ent s' e) = true.
Proof.
  intros H e He Hd. step_cases H.
  all: autorewrite with st; try exact Hd.
  all: try (rewrite ent_w_ents_app; destruct (e =? length (s_ents s)) eqn:E; [|exact Hd];
            apply Nat.eqb_eq in E; lia).
  all: rewrite ent_set_ent; autorewrite with st;
    destruct ((e =? e0) && (e0 <? length (s_ents s))) eqn:E; [|exact Hd];
    apply andb_prop in E; destruct E as [E _]; apply Nat.eqb_eq in E; subst e0; cbn [e_done]; auto.
Qed.

Lemma step_ents_len s t th c s' l :
  step_th s t th c = Some (s', l) -> length (s_ents s) <= length (s_ents s').
Proof.
  intro H. step_cases H.
  all: autorewrite with st; try rewrite upd_length; try rewrite app_length; cbn; lia.
Qed.

(* ---- the life cycle invariant ---- *)
Definition waits (p : pc) : option nat := match p with C0 e | C1 e => Some e | _ => None end.

Definition thrD (s : state) (th : thread) : Prop :=
  (forall e, owner_of (t_pc th) = Some e ->
     e_done (ent s e) = false /\ e_q (ent s e) = cur_q th /\ e_tx (ent s e) = cur_tx th) /\
  (forall e, prestore (t_pc th) = Some e -> e_stmt (ent s e) = None) /\
  (forall e st, t_pc th = P10c e st -> e_stmt (ent s e) = Some st) /\
  (forall e, failing (t_pc th) = Some e -> e_err (ent s e) = true) /\
  (forall e, succeeding (t_pc th) = Some e -> e_err (ent s e) = false) /\
  (forall e, waits (t_pc th) = Some e -> e < length (s_ents s)) /\
  (forall e, t_pc th = C1 e -> e_done (ent s e) = true) /\
  t_pc th <> Ret RNilStmt /\ ~ In RNilStmt (t_res th).

Definition stmtdone (s : state) : Prop :=
  forall e, e_done (ent s e) = true -> e_err (ent s e) = false -> e_stmt (ent s e) <> None.

Lemma prestore_owner p e : prestore p = Some e -> owner_of p = Some e.
Proof. destruct p; cbn; intro H; inversion H; reflexivity. Qed.
Lemma failing_owner p e : failing p = Some e -> owner_of p = Some e.
Proof. destruct p; cbn; intro H; inversion H; reflexivity. Qed.
Lemma succeeding_owner p e : succeeding p = Some e -> owner_of p = Some e.
Proof. destruct p; cbn; intro H; inversion H; reflexivity. Qed.

Lemma thrD_frame s t th c s' l t' th' :
  nth_error (s_thr s) t = Some th -> step_th s t th c = Some (s', l) -> invC s ->
  t' <> t -> nth_error (s_thr s) t' = Some th' -> thrD s th' -> thrD s' th'.
Proof.
  intros Ht H [V U] Hne Hn' D.
  assert (F : forall e, owner_of (t_pc th') = Some e -> ent s' e = ent s e).
  { intros e Ho. apply (step_ent_frame _ _ _ _ _ _ H).
    + intro Ho2. apply Hne. eapply (U t' t); eauto.
    + eapply V; eauto. }
  destruct D as [D1 [D2 [D3 [D4 [D5 [D6 [D7 [D8 D9]]]]]]]].
  repeat split; auto.
  - rewrite (F _ H0). apply D1, H0.
  - rewrite (F _ H0). apply D1, H0.
  - rewrite (F _ H0). apply D1, H0.
  - intros e He. rewrite (F _ (prestore_owner _ _ He)). auto.
  - intros e st He. rewrite (F e) by (rewrite He; reflexivity). auto.
  - intros e He. rewrite (F _ (failing_owner _ _ He)). auto.
  - intros e He. rewrite (F _ (succeeding_owner _ _ He)). auto.
  - intros e He. pose proof (D6 _ He). pose proof (step_ents_len _ _ _ _ _ _ H). lia.
  - intros e He. eapply step_done_mono; eauto. apply D6. rewrite He. reflexivity.
Qed.

Lemma ltb_true a b : a < b -> (a <? b) = true.
Proof. intro H. apply Nat.ltb_lt. exact H. Qed.

Lemma thrD_self s t th c s' l :
  nth_error (s_thr s) t = Some th -> step_th s t th c = Some (s', l) -> invC s ->
  thrD s th -> stmtdone s ->
  forall x, nth_error (s_thr s') t = Some x -> thrD s' x.
Proof.
  intros Ht H [V U] D SD x Hx.
  pose proof (V _ _ Ht) as Vt. cbv beta in Vt.
  destruct D as [D1 [D2 [D3 [D4 [D5 [D6 [D7 [D8 D9]]]]]]]].
  step_cases H.
  all: autorewrite with st in Hx; revert Hx; norm_thr; intro Hx;
    rewrite (nth_error_app_upd_self _ _ _ _ _ Ht) in Hx; inversion Hx; subst x; clear Hx.
  all: try rewrite Heqp in Vt; cbn [owner_of prestore failing succeeding waits] in *.
  all: unfold thrD; autorewrite with st; cbn [owner_of prestore failing succeeding waits t_res finish set_pc].
  all: try (specialize (D1 _ eq_refl); destruct D1 as [D1a [D1b D1c]]).
  all: try specialize (D2 _ eq_refl).
  all: try specialize (D3 _ _ eq_refl).
  all: try specialize (D4 _ eq_refl).
  all: try specialize (D5 _ eq_refl).
  all: try specialize (Vt _ eq_refl).
  all: repeat split.
  all: try (intros; discriminate).
  all: try (intros ? ? ?; discriminate).
  all: try assumption.
  all: intros;
    repeat match goal with
           | H : Some _ = Some _ |- _ => inversion H; subst; clear H
           | H : P10c _ _ = P10c _ _ |- _ => inversion H; subst; clear H
           | H : C1 _ = C1 _ |- _ => inversion H; subst; clear H
           end.
  all: autorewrite with st; try rewrite ent_set_ent; try rewrite ent_w_ents_app; autorewrite with st;
    rewrite ?Nat.eqb_refl; try rewrite (ltb_true _ _ Vt); cbn [andb e_done e_q e_tx e_stmt e_err].
  all: try assumption; try reflexivity; try lia.
  all: try (unfold perr; destruct (cur_evict th); discriminate).
  all: try (match goal with |- context [if ?b then _ else _] => destruct b eqn:Eb end;
            cbn [e_done e_q e_tx e_stmt e_err]; try assumption; try reflexivity;
            apply Nat.ltb_ge in Eb; lia).
  - exfalso. eapply SD; eauto.
  - intro Hin. apply in_app_or in Hin. destruct Hin as [Hin|[Hr|[]]]; [exact (D9 Hin) | apply D8; rewrite Hr; reflexivity].
Qed.

Lemma stmtdone_step s t th c s' l :
  step_th s t th c = Some (s', l) -> thrD s th -> stmtdone s -> stmtdone s'.
Proof.
  intros H D SD e.
  destruct D as [D1 [D2 [D3 [D4 [D5 [D6 [D7 [D8 D9]]]]]]]].
  step_cases H.
  all: autorewrite with st; try apply SD.
  all: try (rewrite ent_w_ents_app; destruct (e =? length (s_ents s)); [cbn; discriminate | apply SD]).
  all: rewrite ent_set_ent; autorewrite with st;
    destruct ((e =? e0) && (e0 <? length (s_ents s))) eqn:E; [|apply SD];
    apply andb_prop in E; destruct E as [E _]; apply Nat.eqb_eq in E; subst e0;
    cbn [e_done e_err e_stmt]; intros Hd He; try discriminate.
  - rewrite (D3 _ _ eq_refl). discriminate.
  - rewrite (D4 _ eq_refl) in He. discriminate.
Qed.

(* every entry id stored in the map is allocated *)
Definition mapvalid (s : state) : Prop :=
  match s_map s with Some m => Forall (fun p => snd p < length (s_ents s)) m | None => True end.

Lemma Forall_filter {A} (P : A -> Prop) f l : Forall P l -> Forall P (filter f l).
Proof. induction 1; cbn; [constructor|]. destruct (f x); [constructor|]; auto. Qed.

Lemma mapvalid_step s t th c s' l :
  step_th s t th c = Some (s', l) -> mapvalid s -> mapvalid s'.
Proof.
  intros H M. unfold mapvalid in *.
  step_cases H.
  all: autorewrite with st; try rewrite upd_length; try exact M.
  all: try (destruct (s_map s) as [m0|]; cbn [option_map]; [|exact I]).
  all: try (apply Forall_filter; exact M).
  all: try (constructor; fail).
  all: try (rewrite app_length; cbn [length]; unfold insert; constructor; [cbn; lia|];
            apply Forall_filter; eapply Forall_impl; [|exact M]; cbn; intros; lia).
  all: try exact I.
  all: discriminate.
Qed.

Lemma spawned_thrD s' th' :
  (exists st, th' = mkT (D0 st) [] []) \/ (exists e, th' = mkT (C0 e) [] [] /\ e < length (s_ents s')) ->
  thrD s' th'.
Proof.
  intros [[st ->]|[e [-> He]]]; unfold thrD; cbn; repeat split; try (intros; discriminate); auto.
  intros e0 H0. inversion H0; subst. exact He.
Qed.

Record invD (s : state) : Prop := {
  D_thr : thr_inv s (thrD s);
  D_sd : stmtdone s;
  D_mv : mapvalid s
}.

Lemma invD_step s t th c s' l :
  nth_error (s_thr s) t = Some th -> step_th s t th c = Some (s', l) -> invC s -> invD s -> invD s'.
Proof.
  intros Ht H IC [DT SD MV].
  pose proof (DT _ _ Ht) as Dth. cbv beta in Dth.
  assert (SD' : stmtdone s') by (eapply stmtdone_step; eauto).
  assert (MV' : mapvalid s') by (eapply mapvalid_step; eauto).
  split; auto.
  intros t' th' Hn'.
  destruct (Nat.eq_dec t' t) as [->|Hne].
  { exact (thrD_self _ _ _ _ _ _ Ht H IC Dth SD _ Hn'). }
  (* another goroutine: either an old one (frame) or a freshly spawned closer *)
  pose proof (step_ents_len _ _ _ _ _ _ H) as Hlen.
  revert Hn'. generalize (thrD_frame _ _ _ _ _ _ t' th' Ht H IC Hne). intro F.
  unfold mapvalid in MV.
  step_cases H.
  all: autorewrite with st; norm_thr; intro Hn';
    destruct (nth_error_app_upd _ _ _ _ _ _ _ Ht Hn') as [[-> _]|[[_ Ho]|[Hi _]]];
    [ contradiction | apply F; [exact Ho | eapply DT; exact Ho] | ].
  all: try (destruct Hi; fail).
  all: try (destruct Hi as [<-|[]]; apply spawned_thrD; left; eauto; fail).
  all: apply in_closers in Hi; destruct Hi as [p [Hp ->]]; apply spawned_thrD; right; eexists; split; [reflexivity|];
    autorewrite with st in Hlen |- *; rewrite Forall_forall in MV; specialize (MV _ Hp); lia.
Qed.

