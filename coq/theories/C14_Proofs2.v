(* C14_Proofs2.v — infrastructure for the invariant proofs: list update lemmas, the
   case analysis of one step, reachability. *)
From Verif Require Import Base C14_Model.

(* ---- lists ---- *)
Lemma upd_length {A} (l : list A) n x : length (upd l n x) = length l.
Proof. revert n; induction l as [|y l IH]; intros [|n]; cbn; auto. Qed.

Lemma nth_error_upd {A} (l : list A) n x m :
  nth_error (upd l n x) m = if m =? n then (if n <? length l then Some x else None) else nth_error l m.
Proof.
  revert n m; induction l as [|y l IH]; intros n m.
  - cbn. destruct (m =? n); destruct n, m; reflexivity.
  - destruct n as [|n], m as [|m]; cbn; auto. rewrite IH. reflexivity.
Qed.

Lemma nth_error_upd_same {A} (l : list A) n x y : nth_error l n = Some y -> nth_error (upd l n x) n = Some x.
Proof.
  intro H. rewrite nth_error_upd, Nat.eqb_refl.
  assert (n < length l) by (apply nth_error_Some; congruence).
  destruct (n <? length l) eqn:E; [reflexivity|]. apply Nat.ltb_ge in E. lia.
Qed.

Lemma nth_error_upd_other {A} (l : list A) n x m : m <> n -> nth_error (upd l n x) m = nth_error l m.
Proof. intro H. rewrite nth_error_upd. apply Nat.eqb_neq in H. rewrite H. reflexivity. Qed.

Lemma nth_upd {A} (l : list A) n x m d :
  nth m (upd l n x) d = if (m =? n) && (n <? length l) then x else nth m l d.
Proof.
  revert n m; induction l as [|y l IH]; intros n m.
  - cbn. rewrite andb_false_r. destruct n, m; reflexivity.
  - destruct n as [|n], m as [|m]; cbn; auto. rewrite IH. reflexivity.
Qed.

(* threads of the next state: the stepping goroutine is replaced, spawned ones are appended *)
Lemma nth_error_app_upd {A} (l sp : list A) t x y m z :
  nth_error l t = Some y ->
  nth_error (upd l t x ++ sp) m = Some z ->
  (m = t /\ z = x) \/ (m <> t /\ nth_error l m = Some z) \/ (In z sp /\ length l <= m).
Proof.
  intros Ht H. destruct (Nat.lt_ge_cases m (length l)) as [Hl|Hl].
  - rewrite nth_error_app1 in H by (rewrite upd_length; exact Hl).
    destruct (Nat.eq_dec m t) as [->|Hn].
    + rewrite (nth_error_upd_same _ _ _ _ Ht) in H. left. split; congruence.
    + rewrite nth_error_upd_other in H by exact Hn. right; left; auto.
  - rewrite nth_error_app2 in H by (rewrite upd_length; exact Hl).
    right; right. split; [eapply nth_error_In; eauto | exact Hl].
Qed.

Lemma nth_error_app_upd_old {A} (l sp : list A) t x m z :
  m <> t -> nth_error l m = Some z -> nth_error (upd l t x ++ sp) m = Some z.
Proof.
  intros Hn H. rewrite nth_error_app1.
  - rewrite nth_error_upd_other; auto.
  - rewrite upd_length. apply nth_error_Some. congruence.
Qed.

Lemma nth_error_app_upd_self {A} (l sp : list A) t x y :
  nth_error l t = Some y -> nth_error (upd l t x ++ sp) t = Some x.
Proof.
  intro H. rewrite nth_error_app1.
  - eapply nth_error_upd_same; eauto.
  - rewrite upd_length. apply nth_error_Some. congruence.
Qed.

(* ---- maps ---- *)
Lemma lookup_remove_key m q k : lookup (remove_key q m) k = if k =? q then None else lookup m k.
Proof.
  unfold lookup, remove_key. induction m as [|[a b] m IH]; cbn.
  - destruct (k =? q); reflexivity.
  - destruct (a =? q) eqn:E1; cbn.
    + rewrite IH. destruct (k =? q) eqn:E2; [reflexivity|].
      destruct (a =? k) eqn:E3; [|reflexivity].
      apply Nat.eqb_eq in E1, E3. subst. rewrite Nat.eqb_refl in E2. discriminate.
    + destruct (a =? k) eqn:E3.
      * apply Nat.eqb_eq in E3. subst. rewrite E1. reflexivity.
      * exact IH.
Qed.

Lemma lookup_insert m q e k : lookup (insert q e m) k = if k =? q then Some e else lookup m k.
Proof.
  unfold insert. unfold lookup at 1. cbn. rewrite (Nat.eqb_sym q k).
  destruct (k =? q) eqn:E; [reflexivity|].
  fold (lookup (remove_key q m) k). rewrite lookup_remove_key, E. reflexivity.
Qed.

Lemma lookup_In m k e : lookup m k = Some e -> In (k, e) m.
Proof.
  unfold lookup. destruct (find _ m) as [[a b]|] eqn:F; [|discriminate].
  intro H. inversion H; subst. apply find_some in F. destruct F as [F1 F2]. cbn in F2.
  apply Nat.eqb_eq in F2. subst. exact F1.
Qed.

(* ---- one step ---- *)
Lemma stepL_inv s t c s' l :
  stepL s t c = Some (s', l) ->
  exists th, nth_error (s_thr s) t = Some th /\ step_th s t th c = Some (s', l).
Proof. unfold stepL. destruct (nth_error (s_thr s) t) as [th|]; [eauto | discriminate]. Qed.

Lemma step_inv s t c s' :
  step s t c = Some s' ->
  exists th l, nth_error (s_thr s) t = Some th /\ step_th s t th c = Some (s', l).
Proof.
  unfold step. destruct (stepL s t c) as [[s1 l]|] eqn:E; [|discriminate].
  intro H. inversion H; subst. apply stepL_inv in E. destruct E as [th [E1 E2]]. eauto.
Qed.

(* case analysis of one step: one goal per successful branch of the action of the goroutine's pc *)
Ltac step_cases H :=
  unfold step_th in H;
  match type of H with context [match ?x with _ => _ end] => destruct x eqn:? end;
  match type of H with
  | ?f _ _ _ _ = _ => unfold f in H
  | ?f _ _ _ _ _ = _ => unfold f in H
  | ?f _ _ _ _ _ _ = _ => unfold f in H
  end;
  unfold goto, ret in H; cbv beta zeta in H;
  repeat (match type of H with
          | context [match ?x with _ => _ end] => destruct x eqn:?; try discriminate H
          end; cbv beta iota zeta in H);
  inversion H; subst; clear H.

(* projections of the updated states, as rewrite rules (conversion is slow at Qed) *)
Lemma s_map_set_thr s t th : s_map (set_thr s t th) = s_map s. Proof. reflexivity. Qed.
Lemma s_w_set_thr s t th : s_w (set_thr s t th) = s_w s. Proof. reflexivity. Qed.
Lemma s_r_set_thr s t th : s_r (set_thr s t th) = s_r s. Proof. reflexivity. Qed.
Lemma s_ents_set_thr s t th : s_ents (set_thr s t th) = s_ents s. Proof. reflexivity. Qed.
Lemma s_thr_set_thr s t th : s_thr (set_thr s t th) = upd (s_thr s) t th. Proof. reflexivity. Qed.
Lemma s_nstmt_set_thr s t th : s_nstmt (set_thr s t th) = s_nstmt s. Proof. reflexivity. Qed.
Lemma s_prep_set_thr s t th : s_prep (set_thr s t th) = s_prep s. Proof. reflexivity. Qed.
Lemma s_closed_set_thr s t th : s_closed (set_thr s t th) = s_closed s. Proof. reflexivity. Qed.
Lemma s_calls_set_thr s t th : s_calls (set_thr s t th) = s_calls s. Proof. reflexivity. Qed.
Lemma s_fails_set_thr s t th : s_fails (set_thr s t th) = s_fails s. Proof. reflexivity. Qed.
Lemma s_evicts_set_thr s t th : s_evicts (set_thr s t th) = s_evicts s. Proof. reflexivity. Qed.
Lemma s_upg_set_thr s t th : s_upg (set_thr s t th) = s_upg s. Proof. reflexivity. Qed.
Lemma s_cuts_set_thr s t th : s_cuts (set_thr s t th) = s_cuts s. Proof. reflexivity. Qed.
Lemma s_stolen_set_thr s t th : s_stolen (set_thr s t th) = s_stolen s. Proof. reflexivity. Qed.
Lemma s_everclosed_set_thr s t th : s_everclosed (set_thr s t th) = s_everclosed s. Proof. reflexivity. Qed.
Lemma s_guard_set_thr s t th : s_guard (set_thr s t th) = s_guard s. Proof. reflexivity. Qed.
Lemma s_map_spawn s l : s_map (spawn s l) = s_map s. Proof. reflexivity. Qed.
Lemma s_w_spawn s l : s_w (spawn s l) = s_w s. Proof. reflexivity. Qed.
Lemma s_r_spawn s l : s_r (spawn s l) = s_r s. Proof. reflexivity. Qed.
Lemma s_ents_spawn s l : s_ents (spawn s l) = s_ents s. Proof. reflexivity. Qed.
Lemma s_thr_spawn s l : s_thr (spawn s l) = s_thr s ++ l. Proof. reflexivity. Qed.
Lemma s_nstmt_spawn s l : s_nstmt (spawn s l) = s_nstmt s. Proof. reflexivity. Qed.
Lemma s_prep_spawn s l : s_prep (spawn s l) = s_prep s. Proof. reflexivity. Qed.
Lemma s_closed_spawn s l : s_closed (spawn s l) = s_closed s. Proof. reflexivity. Qed.
Lemma s_calls_spawn s l : s_calls (spawn s l) = s_calls s. Proof. reflexivity. Qed.
Lemma s_fails_spawn s l : s_fails (spawn s l) = s_fails s. Proof. reflexivity. Qed.
Lemma s_evicts_spawn s l : s_evicts (spawn s l) = s_evicts s. Proof. reflexivity. Qed.
Lemma s_upg_spawn s l : s_upg (spawn s l) = s_upg s. Proof. reflexivity. Qed.
Lemma s_cuts_spawn s l : s_cuts (spawn s l) = s_cuts s. Proof. reflexivity. Qed.
Lemma s_stolen_spawn s l : s_stolen (spawn s l) = s_stolen s. Proof. reflexivity. Qed.
Lemma s_everclosed_spawn s l : s_everclosed (spawn s l) = s_everclosed s. Proof. reflexivity. Qed.
Lemma s_guard_spawn s l : s_guard (spawn s l) = s_guard s. Proof. reflexivity. Qed.
Lemma s_map_set_ent s e en : s_map (set_ent s e en) = s_map s. Proof. reflexivity. Qed.
Lemma s_w_set_ent s e en : s_w (set_ent s e en) = s_w s. Proof. reflexivity. Qed.
Lemma s_r_set_ent s e en : s_r (set_ent s e en) = s_r s. Proof. reflexivity. Qed.
Lemma s_ents_set_ent s e en : s_ents (set_ent s e en) = upd (s_ents s) e en. Proof. reflexivity. Qed.
Lemma s_thr_set_ent s e en : s_thr (set_ent s e en) = s_thr s. Proof. reflexivity. Qed.
Lemma s_nstmt_set_ent s e en : s_nstmt (set_ent s e en) = s_nstmt s. Proof. reflexivity. Qed.
Lemma s_prep_set_ent s e en : s_prep (set_ent s e en) = s_prep s. Proof. reflexivity. Qed.
Lemma s_closed_set_ent s e en : s_closed (set_ent s e en) = s_closed s. Proof. reflexivity. Qed.
Lemma s_calls_set_ent s e en : s_calls (set_ent s e en) = s_calls s. Proof. reflexivity. Qed.
Lemma s_fails_set_ent s e en : s_fails (set_ent s e en) = s_fails s. Proof. reflexivity. Qed.
Lemma s_evicts_set_ent s e en : s_evicts (set_ent s e en) = s_evicts s. Proof. reflexivity. Qed.
Lemma s_upg_set_ent s e en : s_upg (set_ent s e en) = s_upg s. Proof. reflexivity. Qed.
Lemma s_cuts_set_ent s e en : s_cuts (set_ent s e en) = s_cuts s. Proof. reflexivity. Qed.
Lemma s_stolen_set_ent s e en : s_stolen (set_ent s e en) = s_stolen s. Proof. reflexivity. Qed.
Lemma s_everclosed_set_ent s e en : s_everclosed (set_ent s e en) = s_everclosed s. Proof. reflexivity. Qed.
Lemma s_guard_set_ent s e en : s_guard (set_ent s e en) = s_guard s. Proof. reflexivity. Qed.
Lemma s_map_w_lock s w r : s_map (w_lock s w r) = s_map s. Proof. reflexivity. Qed.
Lemma s_w_w_lock s w r : s_w (w_lock s w r) = w. Proof. reflexivity. Qed.
Lemma s_r_w_lock s w r : s_r (w_lock s w r) = r. Proof. reflexivity. Qed.
Lemma s_ents_w_lock s w r : s_ents (w_lock s w r) = s_ents s. Proof. reflexivity. Qed.
Lemma s_thr_w_lock s w r : s_thr (w_lock s w r) = s_thr s. Proof. reflexivity. Qed.
Lemma s_nstmt_w_lock s w r : s_nstmt (w_lock s w r) = s_nstmt s. Proof. reflexivity. Qed.
Lemma s_prep_w_lock s w r : s_prep (w_lock s w r) = s_prep s. Proof. reflexivity. Qed.
Lemma s_closed_w_lock s w r : s_closed (w_lock s w r) = s_closed s. Proof. reflexivity. Qed.
Lemma s_calls_w_lock s w r : s_calls (w_lock s w r) = s_calls s. Proof. reflexivity. Qed.
Lemma s_fails_w_lock s w r : s_fails (w_lock s w r) = s_fails s. Proof. reflexivity. Qed.
Lemma s_evicts_w_lock s w r : s_evicts (w_lock s w r) = s_evicts s. Proof. reflexivity. Qed.
Lemma s_upg_w_lock s w r : s_upg (w_lock s w r) = s_upg s. Proof. reflexivity. Qed.
Lemma s_cuts_w_lock s w r : s_cuts (w_lock s w r) = s_cuts s. Proof. reflexivity. Qed.
Lemma s_stolen_w_lock s w r : s_stolen (w_lock s w r) = s_stolen s. Proof. reflexivity. Qed.
Lemma s_everclosed_w_lock s w r : s_everclosed (w_lock s w r) = s_everclosed s. Proof. reflexivity. Qed.
Lemma s_guard_w_lock s w r : s_guard (w_lock s w r) = s_guard s. Proof. reflexivity. Qed.
Lemma s_map_w_map s m : s_map (w_map s m) = m. Proof. reflexivity. Qed.
Lemma s_w_w_map s m : s_w (w_map s m) = s_w s. Proof. reflexivity. Qed.
Lemma s_r_w_map s m : s_r (w_map s m) = s_r s. Proof. reflexivity. Qed.
Lemma s_ents_w_map s m : s_ents (w_map s m) = s_ents s. Proof. reflexivity. Qed.
Lemma s_thr_w_map s m : s_thr (w_map s m) = s_thr s. Proof. reflexivity. Qed.
Lemma s_nstmt_w_map s m : s_nstmt (w_map s m) = s_nstmt s. Proof. reflexivity. Qed.
Lemma s_prep_w_map s m : s_prep (w_map s m) = s_prep s. Proof. reflexivity. Qed.
Lemma s_closed_w_map s m : s_closed (w_map s m) = s_closed s. Proof. reflexivity. Qed.
Lemma s_calls_w_map s m : s_calls (w_map s m) = s_calls s. Proof. reflexivity. Qed.
Lemma s_fails_w_map s m : s_fails (w_map s m) = s_fails s. Proof. reflexivity. Qed.
Lemma s_evicts_w_map s m : s_evicts (w_map s m) = s_evicts s. Proof. reflexivity. Qed.
Lemma s_upg_w_map s m : s_upg (w_map s m) = s_upg s. Proof. reflexivity. Qed.
Lemma s_cuts_w_map s m : s_cuts (w_map s m) = s_cuts s. Proof. reflexivity. Qed.
Lemma s_stolen_w_map s m : s_stolen (w_map s m) = s_stolen s. Proof. reflexivity. Qed.
Lemma s_everclosed_w_map s m : s_everclosed (w_map s m) = s_everclosed s. Proof. reflexivity. Qed.
Lemma s_guard_w_map s m : s_guard (w_map s m) = s_guard s. Proof. reflexivity. Qed.
Lemma s_map_w_ents s l : s_map (w_ents s l) = s_map s. Proof. reflexivity. Qed.
Lemma s_w_w_ents s l : s_w (w_ents s l) = s_w s. Proof. reflexivity. Qed.
Lemma s_r_w_ents s l : s_r (w_ents s l) = s_r s. Proof. reflexivity. Qed.
Lemma s_ents_w_ents s l : s_ents (w_ents s l) = l. Proof. reflexivity. Qed.
Lemma s_thr_w_ents s l : s_thr (w_ents s l) = s_thr s. Proof. reflexivity. Qed.
Lemma s_nstmt_w_ents s l : s_nstmt (w_ents s l) = s_nstmt s. Proof. reflexivity. Qed.
Lemma s_prep_w_ents s l : s_prep (w_ents s l) = s_prep s. Proof. reflexivity. Qed.
Lemma s_closed_w_ents s l : s_closed (w_ents s l) = s_closed s. Proof. reflexivity. Qed.
Lemma s_calls_w_ents s l : s_calls (w_ents s l) = s_calls s. Proof. reflexivity. Qed.
Lemma s_fails_w_ents s l : s_fails (w_ents s l) = s_fails s. Proof. reflexivity. Qed.
Lemma s_evicts_w_ents s l : s_evicts (w_ents s l) = s_evicts s. Proof. reflexivity. Qed.
Lemma s_upg_w_ents s l : s_upg (w_ents s l) = s_upg s. Proof. reflexivity. Qed.
Lemma s_cuts_w_ents s l : s_cuts (w_ents s l) = s_cuts s. Proof. reflexivity. Qed.
Lemma s_stolen_w_ents s l : s_stolen (w_ents s l) = s_stolen s. Proof. reflexivity. Qed.
Lemma s_everclosed_w_ents s l : s_everclosed (w_ents s l) = s_everclosed s. Proof. reflexivity. Qed.
Lemma s_guard_w_ents s l : s_guard (w_ents s l) = s_guard s. Proof. reflexivity. Qed.
Lemma s_map_w_drv s n p c : s_map (w_drv s n p c) = s_map s. Proof. reflexivity. Qed.
Lemma s_w_w_drv s n p c : s_w (w_drv s n p c) = s_w s. Proof. reflexivity. Qed.
Lemma s_r_w_drv s n p c : s_r (w_drv s n p c) = s_r s. Proof. reflexivity. Qed.
Lemma s_ents_w_drv s n p c : s_ents (w_drv s n p c) = s_ents s. Proof. reflexivity. Qed.
Lemma s_thr_w_drv s n p c : s_thr (w_drv s n p c) = s_thr s. Proof. reflexivity. Qed.
Lemma s_nstmt_w_drv s n p c : s_nstmt (w_drv s n p c) = n. Proof. reflexivity. Qed.
Lemma s_prep_w_drv s n p c : s_prep (w_drv s n p c) = p. Proof. reflexivity. Qed.
Lemma s_closed_w_drv s n p c : s_closed (w_drv s n p c) = c. Proof. reflexivity. Qed.
Lemma s_calls_w_drv s n p c : s_calls (w_drv s n p c) = s_calls s. Proof. reflexivity. Qed.
Lemma s_fails_w_drv s n p c : s_fails (w_drv s n p c) = s_fails s. Proof. reflexivity. Qed.
Lemma s_evicts_w_drv s n p c : s_evicts (w_drv s n p c) = s_evicts s. Proof. reflexivity. Qed.
Lemma s_upg_w_drv s n p c : s_upg (w_drv s n p c) = s_upg s. Proof. reflexivity. Qed.
Lemma s_cuts_w_drv s n p c : s_cuts (w_drv s n p c) = s_cuts s. Proof. reflexivity. Qed.
Lemma s_stolen_w_drv s n p c : s_stolen (w_drv s n p c) = s_stolen s. Proof. reflexivity. Qed.
Lemma s_everclosed_w_drv s n p c : s_everclosed (w_drv s n p c) = s_everclosed s. Proof. reflexivity. Qed.
Lemma s_guard_w_drv s n p c : s_guard (w_drv s n p c) = s_guard s. Proof. reflexivity. Qed.
Lemma s_map_w_ghost s a b c d e f g : s_map (w_ghost s a b c d e f g) = s_map s. Proof. reflexivity. Qed.
Lemma s_w_w_ghost s a b c d e f g : s_w (w_ghost s a b c d e f g) = s_w s. Proof. reflexivity. Qed.
Lemma s_r_w_ghost s a b c d e f g : s_r (w_ghost s a b c d e f g) = s_r s. Proof. reflexivity. Qed.
Lemma s_ents_w_ghost s a b c d e f g : s_ents (w_ghost s a b c d e f g) = s_ents s. Proof. reflexivity. Qed.
Lemma s_thr_w_ghost s a b c d e f g : s_thr (w_ghost s a b c d e f g) = s_thr s. Proof. reflexivity. Qed.
Lemma s_nstmt_w_ghost s a b c d e f g : s_nstmt (w_ghost s a b c d e f g) = s_nstmt s. Proof. reflexivity. Qed.
Lemma s_prep_w_ghost s a b c d e f g : s_prep (w_ghost s a b c d e f g) = s_prep s. Proof. reflexivity. Qed.
Lemma s_closed_w_ghost s a b c d e f g : s_closed (w_ghost s a b c d e f g) = s_closed s. Proof. reflexivity. Qed.
Lemma s_calls_w_ghost s a b c d e f g : s_calls (w_ghost s a b c d e f g) = a. Proof. reflexivity. Qed.
Lemma s_fails_w_ghost s a b c d e f g : s_fails (w_ghost s a b c d e f g) = b. Proof. reflexivity. Qed.
Lemma s_evicts_w_ghost s a b c d e f g : s_evicts (w_ghost s a b c d e f g) = c. Proof. reflexivity. Qed.
Lemma s_upg_w_ghost s a b c d e f g : s_upg (w_ghost s a b c d e f g) = d. Proof. reflexivity. Qed.
Lemma s_cuts_w_ghost s a b c d e f g : s_cuts (w_ghost s a b c d e f g) = e. Proof. reflexivity. Qed.
Lemma s_stolen_w_ghost s a b c d e f g : s_stolen (w_ghost s a b c d e f g) = f. Proof. reflexivity. Qed.
Lemma s_everclosed_w_ghost s a b c d e f g : s_everclosed (w_ghost s a b c d e f g) = g. Proof. reflexivity. Qed.
Lemma s_guard_w_ghost s a b c d e f g : s_guard (w_ghost s a b c d e f g) = s_guard s. Proof. reflexivity. Qed.
Global Hint Rewrite s_map_set_thr s_w_set_thr s_r_set_thr s_ents_set_thr s_thr_set_thr s_nstmt_set_thr s_prep_set_thr s_closed_set_thr s_calls_set_thr s_fails_set_thr s_evicts_set_thr s_upg_set_thr s_cuts_set_thr s_stolen_set_thr s_everclosed_set_thr s_guard_set_thr s_map_spawn s_w_spawn s_r_spawn s_ents_spawn s_thr_spawn s_nstmt_spawn s_prep_spawn s_closed_spawn s_calls_spawn s_fails_spawn s_evicts_spawn s_upg_spawn s_cuts_spawn s_stolen_spawn s_everclosed_spawn s_guard_spawn s_map_set_ent s_w_set_ent s_r_set_ent s_ents_set_ent s_thr_set_ent s_nstmt_set_ent s_prep_set_ent s_closed_set_ent s_calls_set_ent s_fails_set_ent s_evicts_set_ent s_upg_set_ent s_cuts_set_ent s_stolen_set_ent s_everclosed_set_ent s_guard_set_ent s_map_w_lock s_w_w_lock s_r_w_lock s_ents_w_lock s_thr_w_lock s_nstmt_w_lock s_prep_w_lock s_closed_w_lock s_calls_w_lock s_fails_w_lock s_evicts_w_lock s_upg_w_lock s_cuts_w_lock s_stolen_w_lock s_everclosed_w_lock s_guard_w_lock s_map_w_map s_w_w_map s_r_w_map s_ents_w_map s_thr_w_map s_nstmt_w_map s_prep_w_map s_closed_w_map s_calls_w_map s_fails_w_map s_evicts_w_map s_upg_w_map s_cuts_w_map s_stolen_w_map s_everclosed_w_map s_guard_w_map s_map_w_ents s_w_w_ents s_r_w_ents s_ents_w_ents s_thr_w_ents s_nstmt_w_ents s_prep_w_ents s_closed_w_ents s_calls_w_ents s_fails_w_ents s_evicts_w_ents s_upg_w_ents s_cuts_w_ents s_stolen_w_ents s_everclosed_w_ents s_guard_w_ents s_map_w_drv s_w_w_drv s_r_w_drv s_ents_w_drv s_thr_w_drv s_nstmt_w_drv s_prep_w_drv s_closed_w_drv s_calls_w_drv s_fails_w_drv s_evicts_w_drv s_upg_w_drv s_cuts_w_drv s_stolen_w_drv s_everclosed_w_drv s_guard_w_drv s_map_w_ghost s_w_w_ghost s_r_w_ghost s_ents_w_ghost s_thr_w_ghost s_nstmt_w_ghost s_prep_w_ghost s_closed_w_ghost s_calls_w_ghost s_fails_w_ghost s_evicts_w_ghost s_upg_w_ghost s_cuts_w_ghost s_stolen_w_ghost s_everclosed_w_ghost s_guard_w_ghost : st.
Lemma ent_set_thr s t th e : ent (set_thr s t th) e = ent s e. Proof. reflexivity. Qed.
Lemma ent_spawn s l e : ent (spawn s l) e = ent s e. Proof. reflexivity. Qed.
Lemma ent_w_thr s l e : ent (w_thr s l) e = ent s e. Proof. reflexivity. Qed.
Lemma ent_w_lock s w r e : ent (w_lock s w r) e = ent s e. Proof. reflexivity. Qed.
Lemma ent_w_map s m e : ent (w_map s m) e = ent s e. Proof. reflexivity. Qed.
Lemma ent_w_drv s n p c e : ent (w_drv s n p c) e = ent s e. Proof. reflexivity. Qed.
Lemma ent_w_ghost s a b c d e0 f g e : ent (w_ghost s a b c d e0 f g) e = ent s e. Proof. reflexivity. Qed.
Lemma ent_set_ent s e en e' :
  ent (set_ent s e en) e' = if (e' =? e) && (e <? length (s_ents s)) then en else ent s e'.
Proof. unfold ent, set_ent. cbn. apply nth_upd. Qed.
Lemma ent_w_ents s l e : ent (w_ents s l) e = nth e l dflt_entry. Proof. reflexivity. Qed.
Lemma nth_app_one {A} (l : list A) x e d : nth e (l ++ [x]) d = if e =? length l then x else nth e l d.
Proof.
  destruct (e =? length l) eqn:E.
  - apply Nat.eqb_eq in E. subst. rewrite app_nth2, Nat.sub_diag; [reflexivity | lia].
  - apply Nat.eqb_neq in E. destruct (Nat.lt_ge_cases e (length l)).
    + apply app_nth1; assumption.
    + rewrite !nth_overflow; [reflexivity | lia | rewrite app_length; cbn; lia].
Qed.
Lemma ent_w_ents_app s0 s x e :
  ent (w_ents s0 (s_ents s ++ [x])) e = if e =? length (s_ents s) then x else ent s e.
Proof. rewrite ent_w_ents, nth_app_one. reflexivity. Qed.
Global Hint Rewrite ent_set_thr ent_spawn ent_w_thr ent_w_lock ent_w_map ent_w_drv ent_w_ghost : st.

(* goroutines of the next state *)
Lemma thr_all (P : nat -> thread -> Prop) l t x y sp :
  nth_error l t = Some y -> P t x ->
  (forall t' th', t' <> t -> nth_error l t' = Some th' -> P t' th') ->
  (forall t' th', In th' sp -> length l <= t' -> P t' th') ->
  forall t' th', nth_error (upd l t x ++ sp) t' = Some th' -> P t' th'.
Proof.
  intros Hy Hx Ho Hs t' th' H.
  destruct (nth_error_app_upd _ _ _ _ _ _ _ Hy H) as [[-> ->]|[[Hn Hm]|[Hi Hl]]]; auto.
Qed.
Lemma upd_app_nil {A} (l : list A) t x : upd l t x = upd l t x ++ [].
Proof. rewrite app_nil_r. reflexivity. Qed.
(* give every goal the shape [upd (s_thr s) t x ++ sp] *)
Ltac norm_thr :=
  lazymatch goal with
  | |- context [upd (s_thr ?s) ?t ?x ++ _] => idtac
  | |- context [upd (s_thr ?s) ?t ?x] => rewrite (upd_app_nil (s_thr s) t x)
  | _ => idtac
  end.

Lemma cur_q_set_pc th p : cur_q (set_pc th p) = cur_q th. Proof. reflexivity. Qed.
Lemma cur_tx_set_pc th p : cur_tx (set_pc th p) = cur_tx th. Proof. reflexivity. Qed.
Lemma cur_evict_set_pc th p : cur_evict (set_pc th p) = cur_evict th. Proof. reflexivity. Qed.
Lemma t_pc_set_pc th p : t_pc (set_pc th p) = p. Proof. reflexivity. Qed.
Lemma t_pc_finish th r : t_pc (finish th r) = Idle. Proof. reflexivity. Qed.
Global Hint Rewrite cur_q_set_pc cur_tx_set_pc cur_evict_set_pc t_pc_set_pc t_pc_finish : st.
Ltac simpl_st := autorewrite with st in *.

(* ---- counting goroutines ---- *)
Definition cnt (f : thread -> bool) (l : list thread) : nat := length (filter f l).
Definition b2n (b : bool) : nat := if b then 1 else 0.
Lemma cnt_app f a b : cnt f (a ++ b) = cnt f a + cnt f b.
Proof. unfold cnt. rewrite filter_app, app_length. reflexivity. Qed.
Lemma cnt_upd f l t old x : nth_error l t = Some old -> cnt f (upd l t x) + b2n (f old) = cnt f l + b2n (f x).
Proof.
  unfold cnt. revert t; induction l as [|y l IH]; intros [|t] H; cbn in *; try discriminate.
  - inversion H; subst. destruct (f old), (f x); cbn; lia.
  - specialize (IH _ H). destruct (f y); cbn; lia.
Qed.
Lemma cnt_nil f : cnt f [] = 0. Proof. reflexivity. Qed.

(* ---- reachability ---- *)
(* reachable from the initial state of either variant of the code (guard = false: as it is) *)
Definition reach (progs : list (list op)) (s : state) : Prop :=
  exists g sched, run (init_g g progs) sched = Some s.

Lemma run_app s a b : run s (a ++ b) = match run s a with Some s1 => run s1 b | None => None end.
Proof.
  revert s; induction a as [|[t c] a IH]; intro s; cbn; [reflexivity|].
  destruct (step s t c); [apply IH | reflexivity].
Qed.

(* induction principle: an invariant of [init] preserved by [step] holds of every reachable state *)
Lemma reach_ind (progs : list (list op)) (P : state -> Prop) :
  (forall g, P (init_g g progs)) ->
  (forall s t c s', P s -> step s t c = Some s' -> P s') ->
  forall s, reach progs s -> P s.
Proof.
  intros H0 Hs s [g [sched R]].
  assert (G : forall sched s0 s1, P s0 -> run s0 sched = Some s1 -> P s1).
  { clear -Hs. induction sched as [|[t c] r IH]; intros s0 s1 HP Hr; cbn in Hr.
    - inversion Hr; subst; exact HP.
    - destruct (step s0 t c) as [s2|] eqn:E; [|discriminate]. eapply IH; [|exact Hr]. eapply Hs; eauto. }
  eapply G; eauto.
Qed.

Lemma reach_step progs s t c s' : reach progs s -> step s t c = Some s' -> reach progs s'.
Proof.
  intros [g [sched R]] H. exists g, (sched ++ [(t, c)]). rewrite run_app, R. cbn. rewrite H. reflexivity.
Qed.
