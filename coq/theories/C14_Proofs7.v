(* C14_Proofs7.v — transparency of the mapping: the statement a goroutine executes was prepared
   for the text (and at the level) its operation asked for. *)
From Verif Require Import Base C14_Model C14_Count C14_Proofs2 C14_Proofs3 C14_Proofs4 C14_Proofs5 C14_Proofs6.

Definition executing (p : pc) : option nat :=
  match p with X0 st | X1 st | X1r st _ | X2 st | X2b st => Some st | _ => None end.
Definition stored (p : pc) : option (nat * nat) :=
  match p with P10 e st | P10b e st | P10c e st => Some (e, st) | _ => None end.

Definition thrT (s : state) (th : thread) : Prop :=
  (forall e st, stored (t_pc th) = Some (e, st) -> In (st, cur_q th, cur_tx th) (s_prep s)) /\
  (forall st, executing (t_pc th) = Some st -> exists b, In (st, cur_q th, b) (s_prep s)) /\
  (forall e, t_pc th = P3 e -> e < length (s_ents s) /\ e_q (ent s e) = cur_q th).

Record invT (s : state) : Prop := {
  T_ent : forall e st, e_stmt (ent s e) = Some st -> In (st, e_q (ent s e), e_tx (ent s e)) (s_prep s);
  T_thr : thr_inv s (thrT s)
}.

Lemma step_prep_mono s t th c s' l x :
  step_th s t th c = Some (s', l) -> In x (s_prep s) -> In x (s_prep s').
Proof.
  intros H Hi. step_cases H.
  all: autorewrite with st; auto.
  apply in_or_app; left; exact Hi.
Qed.

Lemma invT_ent_step s t th c s' l :
  nth_error (s_thr s) t = Some th -> step_th s t th c = Some (s', l) ->
  invD s -> invT s ->
  forall e st, e_stmt (ent s' e) = Some st -> In (st, e_q (ent s' e), e_tx (ent s' e)) (s_prep s').
Proof.
  intros Ht H [DT _ _] [TE TT] e st.
  pose proof (DT _ _ Ht) as D. cbv beta in D. destruct D as [D1 _].
  pose proof (TT _ _ Ht) as T. cbv beta in T. destruct T as [T1 _].
  pose proof (fun x => step_prep_mono _ _ _ _ _ _ x H) as PM.
  step_cases H.
  all: autorewrite with st in *; try (intro Hs; apply PM; apply TE; exact Hs).
  all: try (rewrite ent_w_ents_app; destruct (e =? length (s_ents s)); [cbn; discriminate | apply TE]).
  all: rewrite ent_set_ent; autorewrite with st;
    destruct ((e =? e0) && (e0 <? length (s_ents s))) eqn:E; [|apply TE];
    apply andb_prop in E; destruct E as [E _]; apply Nat.eqb_eq in E; subst e0;
    cbn [e_stmt e_q e_tx]; try apply TE.
  intro Hs. inversion Hs; subst st.
  destruct (D1 e) as [_ [Dq Dx]]; [try rewrite Heqp; reflexivity|]. rewrite Dq, Dx.
  eapply T1. try rewrite Heqp. reflexivity.
Qed.

Lemma thrT_frame s t th c s' l th' :
  step_th s t th c = Some (s', l) -> thrT s th' -> thrT s' th'.
Proof.
  intros H [T1 [T2 T3]]. repeat split.
  - intros e st He. eapply step_prep_mono; eauto.
  - intros st He. destruct (T2 _ He) as [b Hb]. exists b. eapply step_prep_mono; eauto.
  - destruct (T3 _ H0) as [Hl _]. pose proof (step_ents_len _ _ _ _ _ _ H). lia.
  - destruct (T3 _ H0) as [Hl Hq]. destruct (step_eq_const _ _ _ _ _ _ H e Hl) as [-> _]. exact Hq.
Qed.

Lemma thrT_self s t th c s' l :
  nth_error (s_thr s) t = Some th -> step_th s t th c = Some (s', l) ->
  invB0 s -> invE s -> invT s ->
  forall x, nth_error (s_thr s') t = Some x -> thrT s' x.
Proof.
  intros Ht H B0 [EK _] [TE TT] x Hx.
  pose proof (TT _ _ Ht) as T. cbv beta in T. destruct T as [T1 [T2 T3]].
  step_cases H.
  all: autorewrite with st in Hx; revert Hx; norm_thr; intro Hx;
    rewrite (nth_error_app_upd_self _ _ _ _ _ Ht) in Hx; inversion Hx; subst x; clear Hx.
  all: try rewrite Heqp in *; cbn [stored executing] in *.
  all: unfold thrT; autorewrite with st; cbn [stored executing t_pc set_pc finish].
  all: repeat split.
  all: try (intros; discriminate).
  all: try (intros ? ? ?; discriminate).
  all: intros;
    repeat match goal with
           | H : Some _ = Some _ |- _ => inversion H; subst; clear H
           | H : P3 _ = P3 _ |- _ => inversion H; subst; clear H
           end.
  all: autorewrite with st; try rewrite upd_length; try rewrite app_length.
  all: try (eapply T1; reflexivity); try (eapply T2; reflexivity).
  all: try (eexists; eapply T1; reflexivity).
  all: try (eapply B0; eassumption); try (apply EK; assumption).
  - destruct (T3 _ eq_refl) as [_ Hq]. exists (e_tx (ent s e)). rewrite <- Hq. apply TE. exact Heqo.
  - apply in_or_app. right. left. reflexivity.
Qed.

Lemma invT_step s t th c s' l :
  nth_error (s_thr s) t = Some th -> step_th s t th c = Some (s', l) ->
  invB0 s -> invD s -> invE s -> invT s -> invT s'.
Proof.
  intros Ht H B0 ID IE IT. split.
  - eapply invT_ent_step; eauto.
  - intros t' th' Hn'. destruct (Nat.eq_dec t' t) as [->|Hne].
    { exact (thrT_self _ _ _ _ _ _ Ht H B0 IE IT _ Hn'). }
    destruct IT as [TE TT].
    generalize (thrT_frame _ _ _ _ _ _ th' H). intro F. revert Hn'.
    step_cases H.
    all: autorewrite with st; norm_thr; intro Hn';
      destruct (nth_error_app_upd _ _ _ _ _ _ _ Ht Hn') as [[-> _]|[[_ Ho]|[Hi _]]];
      [ contradiction | apply F; eapply TT; exact Ho | ].
    all: try (destruct Hi; fail).
    all: try (destruct Hi as [<-|[]]; unfold thrT; cbn; repeat split; intros; discriminate).
    all: apply in_closers in Hi; destruct Hi as [p [Hp ->]]; unfold thrT; cbn; repeat split; intros; discriminate.
Qed.

Lemma invT_init g progs : invT (init_g g progs).
Proof.
  split.
  - intros e st H. unfold ent in H. cbn in H. destruct e; discriminate.
  - intros t th H. cbn in H. rewrite nth_error_map in H. destruct (nth_error progs t); inversion H; subst.
    unfold thrT; cbn; repeat split; intros; discriminate.
Qed.

Lemma invE_init g progs : invE (init_g g progs).
Proof. split; intros k e H; cbn in H; discriminate. Qed.

Lemma invET_reach progs s : reach progs s -> invE s /\ invT s.
Proof.
  intro Hr.
  assert (G : invB s /\ (invC s /\ invD s) /\ invE s /\ invT s).
  { revert s Hr. apply (reach_ind progs (fun s => invB s /\ (invC s /\ invD s) /\ invE s /\ invT s)).
    - intro g. split; [apply invB_init|]. split; [split; [apply invC_init|apply invD_init]|]. split; [apply invE_init|apply invT_init].
    - intros s0 t c s1 [IB [[IC ID] [IE IT]]] H.
      assert (R0 : invB s1 /\ invC s1 /\ invD s1).
      { pose proof H as H'. apply step_inv in H'. destruct H' as [th [l [Ht Hs]]].
        destruct IB as [I0 I1 I2 I3 I4].
        split; [split; [eapply invB0_step|eapply invB1_step|eapply invB2_step|eapply invB3_step|eapply invB4_step]; eauto|].
        split; [eapply invC_step | eapply invD_step]; eauto. }
      destruct R0 as [IB' [IC' ID']].
      apply step_inv in H. destruct H as [th [l [Ht Hs]]].
      split; [exact IB'|]. split; [split; assumption|].
      split; [eapply invE_step | eapply invT_step]; eauto; apply IB. }
  tauto.
Qed.

(* the statement a goroutine executes at the driver was prepared for the text of its operation *)
Lemma right_statement progs s t th st :
  reach progs s -> nth_error (s_thr s) t = Some th -> executing (t_pc th) = Some st ->
  exists b, In (st, cur_q th, b) (s_prep s).
Proof.
  intros Hr Ht He. destruct (invET_reach _ _ Hr) as [_ [_ TT]].
  pose proof (TT _ _ Ht) as T. cbv beta in T. destruct T as [_ [T2 _]]. apply T2, He.
Qed.

(* a failed entry is in the map only while its preparer is on its way to delete it *)
Lemma failed_not_cached progs s k e :
  reach progs s -> mlookup (s_map s) k = Some e -> e_err (ent s e) = true ->
  exists t th, nth_error (s_thr s) t = Some th /\ (t_pc th = P11 e \/ t_pc th = P11b e).
Proof. intros Hr. destruct (invET_reach _ _ Hr) as [[_ EF] _]. apply EF. Qed.

(* the cache maps a text to an entry of that text *)
Lemma map_key_text progs s k e :
  reach progs s -> mlookup (s_map s) k = Some e -> e_q (ent s e) = k.
Proof. intros Hr. destruct (invET_reach _ _ Hr) as [[EK _] _]. apply EK. Qed.

