(* C10_Proofs2.v — consequences at the level of whole operations (run_op), as the checker runs them. *)
From Verif Require Import Base C10_Model C10_Spec C10_Proofs.
Open Scope Z_scope.

Section Ops.
Variables (s : schema) (table : string).
Hypothesis Hwf : wf s.

(* ---- struct payloads -------------------------------------------------------------------------- *)
(* without Select/Omit a struct payload writes exactly its non-zero updatable fields, plus the
   tracked update-time fields when hooks run *)
Lemma struct_nonzero skip p f : In f s -> has_col f = true ->
  (exists k, In (f_db f, k) (assign_struct s (select_and_omit s table [] [] false true) skip false p))
  <-> updatable f = true /\ (p_zero p f = false \/ (skip = false /\ tracked_update f = true)).
Proof.
  intros Hin Hc. rewrite (assign_struct_exact s table Hwf [] [] skip false p f Hin Hc eq_refl eq_refl).
  unfold may_update, payload_part, offered, listed. cbn [existsb negb andb]. rewrite Hc, andb_false_r. cbn [andb].
  destruct (updatable f), (p_zero p f), skip, (tracked_update f); cbn; intuition congruence.
Qed.

(* Save (no Select): every updatable column but the key, unless omitted *)
Lemma save_all_fields omits p f : In f s -> has_col f = true -> local table omits = true ->
  updatable f = true -> f_pk f = false -> listed table omits f = false ->
  exists k, In (f_db f, k) (assign_struct s (select_and_omit s table [SStar] omits false true) false true p).
Proof.
  intros Hin Hc Lo U Pk O.
  apply (assign_struct_exact s table Hwf [SStar] omits false true p f Hin Hc eq_refl Lo).
  rewrite Pk. split; [reflexivity|]. unfold may_update, payload_part, listed at 2. cbn [existsb names orb].
  now rewrite Hc, U, O.
Qed.

(* tracked update-time fields: refreshed by every hook-running update unless omitted ... *)
Lemma autoupdate_struct selects omits is_save p f : In f s -> has_col f = true ->
  local table selects = true -> local table omits = true ->
  tracked_update f = true -> updatable f = true -> listed table omits f = false -> f_pk f && is_save = false ->
  In (f_db f, KNow) (assign_struct s (select_and_omit s table selects omits false true) false is_save p).
Proof.
  intros Hin Hc Ls Lo T U O Pk.
  destruct (proj2 (assign_struct_exact s table Hwf selects omits false is_save p f Hin Hc Ls Lo)) as [k H].
  { split; [exact Pk|]. unfold may_update. rewrite Hc, U, O, T. cbn. now rewrite orb_true_r. }
  destruct (assign_struct_in s table selects omits false is_save p _ _ H) as (g & Hg & Cg & E & _ & K).
  assert (g = f) by (destruct Hwf as (W1 & _); apply W1; auto). subst g.
  unfold hooked in K. rewrite T in K. cbn in K. now subst k.
Qed.

(* map payloads: the column is written in any case — with the map's value when the key loop assigned
   it, refreshed otherwise *)
Lemma autoupdate_map selects omits p f : In f s -> has_col f = true ->
  local table selects = true -> local table omits = true ->
  tracked_update f = true -> updatable f = true -> listed table omits f = false ->
  let sm := select_and_omit s table selects omits false true in
  if was_assigned (map_keys_part s sm p) (f_db f)
  then In (f_db f, KPay) (assign_map s sm false p)
  else In (f_db f, KNow) (assign_map s sm false p).
Proof.
  intros Hin Hc Ls Lo T U O sm. unfold assign_map. cbv zeta. fold sm.
  destruct (was_assigned (map_keys_part s sm p) (f_db f)) eqn:A.
  - apply in_or_app. left. unfold was_assigned in A. apply existsb_exists in A. destruct A as ([c k] & Ha & E).
    cbn in E. apply String.eqb_eq in E. subst c.
    destruct (map_keys_part_in s table Hwf selects omits p _ _ Ha) as [-> _]. exact Ha.
  - apply in_or_app. right. cbn [negb]. apply in_flat_map. exists f. split; [now apply in_col_fields|].
    unfold tracked_update in T. destruct (f_auto f); try discriminate. rewrite A. cbn [negb].
    unfold sm. rewrite (sao_get_field s table Hwf selects omits false true f Hin Hc Ls Lo). unfold denied. cbn.
    rewrite U, O. cbn. destruct (listed table selects f); now left.
Qed.

(* ... and never by the column-update methods *)
Lemma column_update_never_now_struct selects omits is_save p c k :
  In (c, k) (assign_struct s (select_and_omit s table selects omits false true) true is_save p) -> k = KPay.
Proof.
  intros H. destruct (assign_struct_in s table selects omits true is_save p _ _ H) as (f & _ & _ & _ & _ & K).
  exact K.
Qed.
Lemma column_update_never_now_map selects omits p c k :
  In (c, k) (assign_map s (select_and_omit s table selects omits false true) true p) -> k = KPay.
Proof.
  intros H. destruct (assign_map_in s table Hwf selects omits true p _ _ H) as [(f & _ & _ & _ & _ & K)|(_ & _ & K)]; [|exact K].
  destruct k; try reflexivity.
  - destruct (K eq_refl) as [X _]. discriminate X.
  - exfalso. clear K. unfold assign_map in H. cbv zeta in H. apply in_app_or in H. destruct H as [H|H]; [|contradiction].
    unfold map_keys_part in H. apply in_flat_map in H. destruct H as (e & _ & H).
    destruct (lookup_field s (fst e)) as [g|]; [destruct (has_col g)|];
      try destruct (allowed _ _); try contradiction; destruct H as [H|[]]; discriminate H.
Qed.

(* ---- whole update operations --------------------------------------------------------------------- *)
Definition is_update_op (o : op) : bool :=
  match o with OUpdatesStruct | OUpdateColumnsStruct | OUpdatesMap | OUpdateColumnsMap => true | _ => false end.

Lemma guarded_update_rows mk wh rows set x : In x (out_cells (guarded_update s mk wh rows set)) ->
  In (c_row x) rows /\ In (c_col x, c_src x) set.
Proof.
  unfold guarded_update. destruct set as [|a l]; [contradiction|].
  destruct (no_condition mk wh); [contradiction|]. apply do_update_rows.
Qed.

Lemma update_cells_permitted o selects omits ps stored mk wh x :
  is_update_op o = true ->
  In x (out_cells (run_op s table o selects omits ps stored mk wh)) ->
  (exists ks, In (c_row x, ks) stored /\ key_match mk ks = true
              /\ match wh with None => True | Some l => In (c_row x) l end)
  /\ ((exists f, In f s /\ has_col f = true /\ c_col x = f_db f /\ updatable f = true)
      \/ lookup_field s (c_col x) = None).
Proof.
  intros Ho H. destruct o; try discriminate; cbn [run_op] in H; apply guarded_update_rows in H;
    destruct H as [H1 H2]; (split; [now apply targeted_spec|]).
  - destruct (assign_struct_in s table selects omits false false _ _ _ H2) as (f & A & B & C & D & _). left; eauto.
  - destruct (assign_map_in s table Hwf selects omits false _ _ _ H2) as [(f & A & B & C & D & _)|(A & _)]; [left; eauto|now right].
  - destruct (assign_struct_in s table selects omits true false _ _ _ H2) as (f & A & B & C & D & _). left; eauto.
  - destruct (assign_map_in s table Hwf selects omits true _ _ _ H2) as [(f & A & B & C & D & _)|(A & _)]; [left; eauto|now right].
Qed.

(* ---- whole create operations ---------------------------------------------------------------------- *)
Lemma new_rows_in forced fs ps n x : In x (new_rows s forced fs ps n) ->
  exists f, In f fs /\ c_col x = f_db f /\ n <= c_row x.
Proof.
  revert n; induction ps as [|p ps IH]; intros n H; cbn in H; [contradiction|].
  apply in_app_or in H. destruct H as [H|H].
  - apply in_map_iff in H. destruct H as (f & <- & Hf). apply filter_In in Hf. exists f. cbn. repeat split; try tauto; lia.
  - destruct (IH _ H) as (f & A & B & C). exists f. repeat split; auto. lia.
Qed.

Lemma sort_fields_sub fs f : In f (sort_fields s fs) ->
  (forall g, In g fs -> In g s /\ has_col g = true) -> In f fs.
Proof.
  unfold sort_fields. intros H Hfs. apply filter_In in H. destruct H as [Hf H].
  apply in_col_fields in Hf. destruct Hf as [Hin Hc].
  apply existsb_exists in H. destruct H as (g & Hg & E). apply String.eqb_eq in E.
  destruct (Hfs g Hg) as [Gin Gc]. assert (g = f) by (destruct Hwf as (W1 & _); apply W1; auto). now subst.
Qed.

Lemma create_cells_permitted o selects omits ps stored mk wh x :
  (o = OCreate \/ o = OCreateBatch) ->
  In x (out_cells (run_op s table o selects omits ps stored mk wh)) ->
  1000 < c_row x /\ exists f, In f s /\ has_col f = true /\ c_col x = f_db f /\ creatable f = true.
Proof.
  intros Ho H. assert (H' : In x (new_rows s [] (sort_fields s (create_fields s
            (select_and_omit s table selects omits true false) ps)) ps 1001)).
  { destruct Ho as [->| ->]; cbn [run_op] in H; (destruct ps as [|p0 ps0]; [contradiction|]);
      destruct (default_placeholder_error _ (p0 :: ps0)); try contradiction;
      destruct (existsb f_pk _ && _); try contradiction; exact H. }
  destruct (new_rows_in _ _ _ _ _ H') as (f & Hf & C & R). split; [lia|].
  apply sort_fields_sub in Hf.
  - destruct (create_fields_creatable s table Hwf selects omits _ f Hf) as (A & B & D). exists f. auto.
  - intros g Hg. destruct (create_fields_creatable s table Hwf selects omits _ g Hg) as (A & B & _). auto.
Qed.

End Ops.

(* ---- a decidable check of wf, and the six schemas of the harness -------------------------------- *)

Lemma nodupb_inj {A} (key : A -> string) l : nodupb (map key l) = true ->
  forall a b, In a l -> In b l -> key a = key b -> a = b.
Proof.
  induction l as [|x l IH]; intros H a b Ha Hb E; [contradiction|].
  cbn in H. apply andb_prop in H. destruct H as [H1 H2]. apply negb_true_iff in H1.
  assert (N : forall y, In y l -> key x <> key y).
  { intros y Hy Exy. assert (existsb (String.eqb (key x)) (map key l) = true); [|congruence].
    apply existsb_exists. exists (key y). split; [now apply in_map|now apply String.eqb_eq]. }
  destruct Ha as [->|Ha], Hb as [->|Hb]; auto.
  - exfalso. apply (N b Hb E).
  - exfalso. apply (N a Ha). congruence.
Qed.

Lemma wfb_wf s : wfb s = true -> wf s.
Proof.
  unfold wfb. intros H. apply andb_prop in H. destruct H as [H H3]. apply andb_prop in H. destruct H as [H1 H2].
  pose proof (nodupb_inj f_name s H2) as N2.
  repeat split.
  - intros f g Hf Hg Cf Cg E. apply (nodupb_inj f_db (col_fields s) H1); auto; now apply in_col_fields.
  - intros f g Hf Hg E. now apply N2.
  - intros f g Hf Hg Cf E. rewrite forallb_forall in H3. specialize (H3 f Hf). rewrite forallb_forall in H3.
    specialize (H3 g Hg). rewrite Cf in H3.
    replace (String.eqb (f_name g) (f_db f)) with true in H3 by (symmetry; now apply String.eqb_eq).
    cbn in H3. apply String.eqb_eq in H3. now apply N2.
Qed.

From Verif Require Import C10_Schemas.

Lemma harness_schemas_wf : Forall wf harness_schemas.
Proof. repeat constructor; apply wfb_wf; vm_compute; reflexivity. Qed.

(* the map payload {name, updated_at} under Select(name) on M1 *)
Lemma autoupdate_map_old_refuted : exists s table selects omits p f,
  wf s /\ In f s /\ has_col f = true /\ tracked_update f = true /\ updatable f = true
  /\ listed table omits f = false
  /\ ~ exists k, In (f_db f, k) (assign_map_old s (select_and_omit s table selects omits false true) false p).
Proof.
  exists schema_t1, "t1"%string, [SName "name"%string], [],
         (0, [("name"%string, false); ("updated_at"%string, false)]),
         (mk_field "UpdatedAt" "updated_at" false false None None None false AUpdate).
  split; [apply wfb_wf; vm_compute; reflexivity|].
  split; [vm_compute; tauto|]. repeat (split; [reflexivity|]).
  intros [k H]. vm_compute in H. destruct H as [H|[]]. discriminate H.
Qed.

(* FirstOrCreate, found + Assign: only the found record (the first targeted row) changes, in updatable
   columns; FirstOrInit changes nothing *)
Lemma foc_assign_cells s table (Hwf : wf s) selects omits ps stored mk wh x :
  In x (out_cells (run_op s table OFocAssign selects omits ps stored mk wh)) ->
  In (c_row x) (firstn 1 (targeted stored mk wh))
  /\ ((exists f, In f s /\ has_col f = true /\ c_col x = f_db f /\ updatable f = true)
      \/ lookup_field s (c_col x) = None).
Proof.
  cbn [run_op]. intros H. apply do_update_rows in H. destruct H as [H1 H2]. split; [exact H1|].
  destruct (assign_map_in s table Hwf selects omits false _ _ _ H2) as [(f & A & B & C & D & _)|(A & _)];
    [left; eauto|now right].
Qed.

Lemma foi_assign_cells s table selects omits ps stored mk wh :
  out_cells (run_op s table OFoiAssign selects omits ps stored mk wh) = [].
Proof. reflexivity. Qed.

Lemma slice_match_old_refuted : exists l ks, slice_match_old l ks = true /\ ~ In (hd 0 ks) l.
Proof. exists [2; 0], [1]. split; [reflexivity|]. cbn. intros [H|[H|[]]]; discriminate. Qed.
