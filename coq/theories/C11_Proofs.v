(* C11_Proofs.v — the preload matching loop attaches exactly the reference join, for every key
   encoding [tsk] that agrees with SQL value equality on the keys present. *)
From Verif Require Import Base C11_Model.
Open Scope nat_scope.

(* ------------------------------------------------------------------ *)
(* SQL value equality *)
Lemma sql_eqb_refl_iff a b : sql_eqb a b = true -> a = b /\ a <> VNull.
Proof.
  destruct a, b; cbn; try discriminate; intro E.
  - apply Z.eqb_eq in E; subst; split; [reflexivity|discriminate].
  - apply String.eqb_eq in E; subst; split; [reflexivity|discriminate].
Qed.

Lemma tuple_eqb_eq a : forall b, tuple_eqb a b = true -> a = b /\ ~ In VNull a.
Proof.
  induction a as [|x a IH]; intros [|y b]; cbn; try discriminate.
  - intros _. split; [reflexivity | intros []].
  - intro E. apply andb_prop in E. destruct E as [E1 E2].
    apply sql_eqb_refl_iff in E1. destruct E1 as [-> Hx]. apply IH in E2. destruct E2 as [-> Hn].
    split; [reflexivity|]. intros [H|H]; [congruence | exact (Hn H)].
Qed.

Lemma tuple_eqb_refl a : ~ In VNull a -> tuple_eqb a a = true.
Proof.
  induction a as [|x a IH]; cbn; intro H; [reflexivity|].
  apply andb_true_intro; split.
  - destruct x; cbn; [exfalso; apply H; left; reflexivity | apply Z.eqb_refl | apply String.eqb_refl].
  - apply IH. intro H1. apply H. right. exact H1.
Qed.

(* key_eqv only looks at the values *)
Lemma key_eqv_vals k1 k2 k : kvals k1 = kvals k2 -> key_eqv k1 k = key_eqv k2 k.
Proof. unfold key_eqv. intros ->. reflexivity. Qed.

(* ------------------------------------------------------------------ *)
(* the Go map *)
Lemma im_find_append_same s l m :
  im_find s (im_append s l m) = Some (match im_find s m with Some v => v ++ l | None => l end).
Proof.
  induction m as [|[k v] r IH]; cbn.
  - rewrite String.eqb_refl. reflexivity.
  - destruct (String.eqb k s) eqn:E; cbn; rewrite E; [reflexivity | exact IH].
Qed.

Lemma im_find_append_other s s' l m : s' <> s -> im_find s' (im_append s l m) = im_find s' m.
Proof.
  intro N. induction m as [|[k v] r IH]; cbn.
  - destruct (String.eqb s s') eqn:E; [apply String.eqb_eq in E; congruence | reflexivity].
  - destruct (String.eqb k s) eqn:E; cbn.
    + apply String.eqb_eq in E. subst k.
      destruct (String.eqb s s') eqn:E'; [apply String.eqb_eq in E'; congruence | reflexivity].
    + destruct (String.eqb k s'); [reflexivity | exact IH].
Qed.

(* ------------------------------------------------------------------ *)
(* fold_left of [acc]: what a relation field holds after a sequence of assignments *)
Definition acc (single : bool) (l : list Z) (u : Z) : list Z := if single then [u] else l ++ [u].

Lemma fold_acc_many l : forall init, fold_left (acc false) l init = init ++ l.
Proof.
  induction l as [|x l IH]; intro init; cbn; [rewrite app_nil_r; reflexivity|].
  rewrite IH. unfold acc. rewrite <- app_assoc. reflexivity.
Qed.

Lemma fold_acc_single l : forall init, fold_left (acc true) l init = match rev l with [] => init | x :: _ => [x] end.
Proof.
  induction l as [|x l IH]; intro init; cbn; [reflexivity|].
  rewrite IH. cbn. destruct (rev l); reflexivity.
Qed.

Lemma fold_acc_norm single l :
  fold_left (acc single) l [] = if single then last1 l else l.
Proof. destruct single; [rewrite fold_acc_single | rewrite fold_acc_many]; reflexivity. Qed.

Lemma fold_acc_app single a b init :
  fold_left (acc single) (a ++ b) init = fold_left (acc single) b (fold_left (acc single) a init).
Proof. apply fold_left_app. Qed.

(* ------------------------------------------------------------------ *)
(* upd_at / assign *)
Lemma upd_at_length f : forall i o, length (upd_at i f o) = length o.
Proof. intros i o; revert i; induction o as [|x o IH]; intros [|i]; cbn; auto. Qed.

Lemma upd_at_nth f : forall i o j, j < length o ->
  nth j (upd_at i f o) [] = if Nat.eqb j i then f (nth j o []) else nth j o [].
Proof.
  intros i o; revert i; induction o as [|x o IH]; intros i j H; cbn in H; [lia|].
  destruct i as [|i], j as [|j]; cbn; try reflexivity.
  apply IH. lia.
Qed.

Lemma assign_fold single u : forall b o,
  (forall j, In j b -> j < length o) ->
  length (fold_left (assign single u) b o) = length o /\
  forall i, i < length o ->
    nth i (fold_left (assign single u) b o) [] =
    fold_left (acc single) (repeat u (count_occ Nat.eq_dec b i)) (nth i o []).
Proof.
  induction b as [|j b IH]; intros o Hb; cbn; [split; reflexivity|].
  assert (Hl : length (assign single u o j) = length o) by apply upd_at_length.
  destruct (IH (assign single u o j)) as [L N].
  { intros k Hk. rewrite Hl. apply Hb. right. exact Hk. }
  split; [congruence|]. intros i Hi. rewrite N by lia.
  unfold assign. rewrite upd_at_nth by lia.
  destruct (Nat.eq_dec j i) as [->|NE].
  - rewrite Nat.eqb_refl. cbn. destruct single; reflexivity.
  - destruct (Nat.eqb i j) eqn:E; [apply Nat.eqb_eq in E; congruence | reflexivity].
Qed.

(* ------------------------------------------------------------------ *)
Section Generic.
Variable tsk : key -> string.

(* positions of the parents whose (non-zero) key prints as s *)
Definition hit (s : string) (k : key) : bool := negb (all_zero k) && String.eqb (tsk k) s.
Fixpoint pos_from (a : nat) (s : string) (ps : list key) : list nat :=
  match ps with
  | [] => []
  | k :: r => if hit s k then a :: pos_from (S a) s r else pos_from (S a) s r
  end.

Definition merge_bucket (old : option (list nat)) (l : list nat) : option (list nat) :=
  match old, l with
  | None, [] => None
  | None, _ => Some l
  | Some v, _ => Some (v ++ l)
  end.

Lemma idmap_step_fst m vals i k :
  fst (idmap_step tsk (m, vals) (i, k)) = if all_zero k then m else im_append (tsk k) [i] m.
Proof. cbn. destruct (all_zero k); [reflexivity|]. destruct (im_find (tsk k) m); reflexivity. Qed.

Lemma fold_find s : forall ps a m vals,
  im_find s (fst (fold_left (idmap_step tsk) (combine (seq a (length ps)) ps) (m, vals)))
  = merge_bucket (im_find s m) (pos_from a s ps).
Proof.
  induction ps as [|k ps IH]; intros a m vals; cbn [length seq combine fold_left pos_from].
  - cbn [fst]. destruct (im_find s m); cbn; rewrite ?app_nil_r; reflexivity.
  - destruct (idmap_step tsk (m, vals) (a, k)) as [m' vals'] eqn:E.
    rewrite IH. pose proof (idmap_step_fst m vals a k) as F. rewrite E in F. cbn in F. subst m'.
    unfold hit. destruct (all_zero k); cbn [negb andb]; [reflexivity|].
    destruct (String.eqb (tsk k) s) eqn:Es.
    + apply String.eqb_eq in Es. subst s. rewrite im_find_append_same.
      destruct (im_find (tsk k) m); cbn; [rewrite <- app_assoc|]; reflexivity.
    + rewrite im_find_append_other; [reflexivity|]. intro H. subst s. rewrite String.eqb_refl in Es. discriminate.
Qed.

Lemma idmap_find s ps :
  im_find s (fst (identity_map tsk ps)) = match pos_from 0 s ps with [] => None | l => Some l end.
Proof. unfold identity_map, indexed. rewrite fold_find. cbn. destruct (pos_from 0 s ps); reflexivity. Qed.

Lemma pos_from_bound s : forall ps a j, In j (pos_from a s ps) -> (a <= j < a + length ps)%nat.
Proof.
  induction ps as [|k ps IH]; intros a j; cbn; [intros []|].
  destruct (hit s k); cbn; [intros [<-|H]|intro H]; try lia; apply IH in H; lia.
Qed.

Lemma pos_from_count s : forall ps a i, (a <= i)%nat ->
  count_occ Nat.eq_dec (pos_from a s ps) i =
  match nth_error ps (i - a) with Some k => if hit s k then 1%nat else 0%nat | None => 0%nat end.
Proof.
  induction ps as [|k ps IH]; intros a i H; cbn [pos_from].
  - destruct (i - a)%nat; reflexivity.
  - destruct (Nat.eq_dec a i) as [->|NE].
    + rewrite Nat.sub_diag. cbn [nth_error].
      assert (Z0 : count_occ Nat.eq_dec (pos_from (S i) s ps) i = 0%nat).
      { apply count_occ_not_In. intro Hin. apply pos_from_bound in Hin. lia. }
      destruct (hit s k); cbn [count_occ]; [destruct (Nat.eq_dec i i); [|congruence]|]; rewrite Z0; reflexivity.
    + replace (i - a)%nat with (S (i - S a)) by lia. cbn [nth_error].
      destruct (hit s k); cbn [count_occ]; [destruct (Nat.eq_dec a i); [congruence|]|]; apply IH; lia.
Qed.

(* the IN list: first occurrences (by printed key) of the non-zero parent keys *)
Definition vals_inv (m : imap) (vals : list key) : Prop :=
  forall s, im_find s m <> None <-> exists v, In v vals /\ tsk v = s.

Lemma fold_vals : forall l m vals,
  vals_inv m vals ->
  let st := fold_left (idmap_step tsk) l (m, vals) in
  vals_inv (fst st) (snd st) /\
  (forall v, In v (snd st) -> In v vals \/ (In v (map snd l) /\ all_zero v = false)).
Proof.
  induction l as [|[i k] l IH]; intros m vals Inv; cbn [fold_left].
  - split; [exact Inv | intros v H; left; exact H].
  - destruct (idmap_step tsk (m, vals) (i, k)) as [m' vals'] eqn:E.
    assert (Inv' : vals_inv m' vals' /\ (forall v, In v vals' -> In v vals \/ (v = k /\ all_zero v = false))).
    { cbn in E. destruct (all_zero k) eqn:Z.
      - inversion E; subst. split; [exact Inv | intros v H; left; exact H].
      - destruct (im_find (tsk k) m) eqn:F; inversion E; subst; clear E; split.
        + intro s. destruct (String.eqb (tsk k) s) eqn:Es.
          * apply String.eqb_eq in Es. subst s. rewrite im_find_append_same. split; [|intros _; discriminate].
            intros _. apply Inv. rewrite F. discriminate.
          * rewrite im_find_append_other; [apply Inv|]. intro H. subst s. rewrite String.eqb_refl in Es. discriminate.
        + intros v H; left; exact H.
        + intro s. destruct (String.eqb (tsk k) s) eqn:Es.
          * apply String.eqb_eq in Es. subst s. rewrite im_find_append_same. split; [|intros _; discriminate].
            intros _. exists k. split; [apply in_or_app; right; left; reflexivity | reflexivity].
          * assert (NE : s <> tsk k) by (intro H; subst s; rewrite String.eqb_refl in Es; discriminate).
            rewrite im_find_append_other by exact NE. rewrite (Inv s). split; intros [v [Hv Hs]].
            -- exists v. split; [apply in_or_app; left; exact Hv | exact Hs].
            -- apply in_app_or in Hv. destruct Hv as [Hv|[<-|[]]]; [exists v; split; assumption | congruence].
        + intros v H. apply in_app_or in H. destruct H as [H|[<-|[]]]; [left; exact H | right; split; [reflexivity | exact Z]]. }
    destruct Inv' as [I1 I2]. destruct (IH m' vals' I1) as [J1 J2]. split; [exact J1|].
    intros v H. apply J2 in H. destruct H as [H|[H Z]].
    + apply I2 in H. destruct H as [H|[-> Z]]; [left; exact H | right; split; [left; reflexivity | exact Z]].
    + right. split; [right; exact H | exact Z].
Qed.

Lemma indexed_snd {A} (l : list A) : map snd (indexed l) = l.
Proof.
  unfold indexed. generalize 0%nat. induction l as [|x l IH]; intro a; cbn; [reflexivity|]. rewrite IH. reflexivity.
Qed.

Lemma pos_from_nonempty s : forall ps a k, In k ps -> all_zero k = false -> tsk k = s -> pos_from a s ps <> [].
Proof.
  induction ps as [|k0 ps IH]; intros a k Hin Z E; [destruct Hin|]. destruct Hin as [->|H]; cbn.
  - unfold hit. rewrite Z, E, String.eqb_refl. cbn. discriminate.
  - destruct (hit s k0); [discriminate | eapply IH; eassumption].
Qed.

Lemma idmap_vals ps :
  let vals := snd (identity_map tsk ps) in
  (forall v, In v vals -> In v ps /\ all_zero v = false) /\
  (forall k, In k ps -> all_zero k = false -> exists v, In v vals /\ tsk v = tsk k).
Proof.
  cbn. unfold identity_map.
  destruct (fold_vals (indexed ps) [] []) as [I1 I2].
  { intro s. cbn. split; [congruence | intros [v [[] _]]]. }
  split.
  - intros v H. apply I2 in H. destruct H as [[]|[H Z]]. rewrite indexed_snd in H. split; assumption.
  - intros k H Z. apply I1. change (im_find (tsk k) (fst (identity_map tsk ps)) <> None). rewrite idmap_find.
    pose proof (pos_from_nonempty (tsk k) ps 0 k H Z eq_refl) as NE.
    destruct (pos_from 0 (tsk k) ps); [congruence | discriminate].
Qed.

(* ---------------- the matching loop ---------------- *)
Definition bkt (m : imap) (c : child) : list nat :=
  match im_find (tsk (c_key c)) m with Some b => b | None => [] end.

Lemma match_loop_spec single m : forall cs o,
  (forall c, In c cs -> im_find (tsk (c_key c)) m <> None /\ forall j, In j (bkt m c) -> (j < length o)%nat) ->
  exists o', match_loop tsk single m cs o = Some o' /\ length o' = length o /\
    forall i, (i < length o)%nat ->
      nth i o' [] = fold_left (acc single)
                      (flat_map (fun c => repeat (c_uid c) (count_occ Nat.eq_dec (bkt m c) i)) cs) (nth i o []).
Proof.
  induction cs as [|c cs IH]; intros o H; cbn [match_loop flat_map].
  - exists o. repeat split; reflexivity.
  - destruct (H c (or_introl eq_refl)) as [Hf Hb]. unfold bkt in Hb.
    destruct (im_find (tsk (c_key c)) m) as [b|] eqn:F; [|congruence].
    destruct (assign_fold single (c_uid c) b o Hb) as [L N].
    destruct (IH (fold_left (assign single (c_uid c)) b o)) as [o' [E [L' N']]].
    { intros c' Hc'. destruct (H c' (or_intror Hc')) as [A B]. split; [exact A | rewrite L; exact B]. }
    exists o'. split; [exact E|]. split; [congruence|].
    assert (Bc : bkt m c = b) by (unfold bkt; rewrite F; reflexivity).
    intros i Hi. rewrite N' by lia. rewrite N by lia. rewrite fold_acc_app, Bc. reflexivity.
Qed.

Lemma flat_map_indicator (P : child -> bool) cs :
  flat_map (fun c => repeat (c_uid c) (if P c then 1%nat else 0%nat)) cs = map c_uid (filter P cs).
Proof. induction cs as [|c cs IH]; cbn; [reflexivity|]. destruct (P c); cbn; rewrite IH; reflexivity. Qed.

Lemma flat_map_ext_in' {A B} (f g : A -> list B) l :
  (forall a, In a l -> f a = g a) -> flat_map f l = flat_map g l.
Proof.
  induction l as [|x l IH]; intro H; cbn; [reflexivity|].
  rewrite (H x (or_introl eq_refl)), IH; [reflexivity|]. intros a Ha. apply H. right. exact Ha.
Qed.

Lemma nth_map_error {A B} (f : A -> B) : forall l i x d, nth_error l i = Some x -> nth i (map f l) d = f x.
Proof.
  induction l as [|y l IH]; intros [|i] x d H; cbn in *; try discriminate.
  - inversion H; reflexivity.
  - apply IH; exact H.
Qed.

Lemma filter_filter {A} (f g : A -> bool) l : filter f (filter g l) = filter (fun x => g x && f x) l.
Proof. induction l as [|x l IH]; cbn; [reflexivity|]. destruct (g x); cbn; [destruct (f x)|]; rewrite IH; reflexivity. Qed.

(* ---------------- hypotheses the proof forces ---------------- *)
Definition non_null (k : key) : bool := forallb (fun p => match p with KNil => false | _ => true end) k.

Lemma key_eqv_non_null a b : key_eqv a b = true -> non_null b = true.
Proof.
  unfold key_eqv, kvals. revert b. induction a as [|x a IH]; intros [|y b]; cbn; try discriminate; [reflexivity|].
  intro E. apply andb_prop in E. destruct E as [E1 E2]. apply andb_true_intro. split; [|apply IH; exact E2].
  destruct y; try reflexivity. destruct (part_val x); discriminate.
Qed.

(* [tsk] decides value equality on the keys present: (1) parent keys that print alike are equal as
   values (so dropping the second from the IN list loses nothing), (2) a parent key and a NULL-free
   child key print alike exactly when they are equal as values. *)
Definition keys_faithful (ps cs : list key) : Prop :=
  (forall k1 k2, In k1 ps -> In k2 ps -> all_zero k1 = false -> all_zero k2 = false ->
                 tsk k1 = tsk k2 -> kvals k1 = kvals k2) /\
  (forall kp kc, In kp ps -> In kc cs -> all_zero kp = false -> non_null kc = true ->
                 (tsk kp = tsk kc <-> key_eqv kp kc = true)).

Lemma in_list_iff ps k :
  (forall k1 k2, In k1 ps -> In k2 ps -> all_zero k1 = false -> all_zero k2 = false ->
                 tsk k1 = tsk k2 -> kvals k1 = kvals k2) ->
  in_list (snd (identity_map tsk ps)) k = true <->
  exists kp, In kp ps /\ all_zero kp = false /\ key_eqv kp k = true.
Proof.
  intro H1. destruct (idmap_vals ps) as [V1 V2]. unfold in_list. rewrite existsb_exists. split.
  - intros [v [Hv E]]. destruct (V1 v Hv) as [A B]. exists v. auto.
  - intros [kp [A [B E]]]. destruct (V2 kp A B) as [v [Hv Es]]. exists v. split; [exact Hv|].
    destruct (V1 v Hv) as [A' B']. rewrite (key_eqv_vals v kp k); [exact E|]. apply H1; assumption.
Qed.

(* ---------------- main theorem, single hop ---------------- *)
Theorem preload_hop_attach h ps cs :
  keys_faithful ps (map c_key cs) ->
  preload_hop tsk h ps cs = Some (norm_single (h_single h) (attach h ps cs)).
Proof.
  intros [H1 H2]. unfold preload_hop.
  destruct (identity_map tsk ps) as [m vals] eqn:IM.
  assert (Em : m = fst (identity_map tsk ps)) by (rewrite IM; reflexivity).
  assert (Ev : vals = snd (identity_map tsk ps)) by (rewrite IM; reflexivity).
  destruct (idmap_vals ps) as [V1 V2]. rewrite <- Ev in V1, V2.
  assert (INL : forall k, in_list vals k = true <-> exists kp, In kp ps /\ all_zero kp = false /\ key_eqv kp k = true).
  { intro k. rewrite Ev. apply in_list_iff. exact H1. }
  destruct vals as [|v0 vals'] eqn:EV.
  - (* no non-zero parent key: nothing is queried, nothing attaches *)
    f_equal. unfold attach, empty_outs.
    assert (Z : forall kp, In kp ps -> all_zero kp = true).
    { intros kp Hk. destruct (all_zero kp) eqn:Z; [reflexivity|]. destruct (V2 kp Hk Z) as [v [[] _]]. }
    clear - Z. induction ps as [|kp ps IH]; cbn; [destruct (h_single h); reflexivity|].
    assert (E : filter (belongs h kp) cs = []).
    { unfold belongs. rewrite (Z kp (or_introl eq_refl)). cbn. clear. induction cs; cbn; auto. }
    rewrite E. cbn.
    assert (IH' := IH (fun k Hk => Z k (or_intror Hk))).
    destruct (h_single h); cbn in *; f_equal; exact IH'.
  - cbv iota. rewrite <- EV in *. clear EV v0 vals'.
    set (fs := fetch h vals cs).
    destruct (match_loop_spec (h_single h) m fs (empty_outs (length ps))) as [o' [E [L N]]].
    { intros c Hc. unfold fs, fetch in Hc. apply filter_In in Hc. destruct Hc as [Hc Hf].
      apply andb_prop in Hf. destruct Hf as [Hin _]. apply INL in Hin. destruct Hin as [kp [A [B Eq]]].
      assert (T : tsk kp = tsk (c_key c)).
      { apply H2; auto. apply in_map. exact Hc. eapply key_eqv_non_null; exact Eq. }
      unfold bkt. rewrite Em, idmap_find.
      pose proof (pos_from_nonempty (tsk (c_key c)) ps 0 kp A B T) as NE.
      split.
      - destruct (pos_from 0 (tsk (c_key c)) ps); [congruence | discriminate].
      - intros j Hj. unfold empty_outs. rewrite repeat_length.
        destruct (pos_from 0 (tsk (c_key c)) ps) eqn:P; [destruct Hj|]. rewrite <- P in Hj.
        apply pos_from_bound in Hj. lia. }
    rewrite E. f_equal.
    unfold empty_outs in L. rewrite repeat_length in L.
    apply nth_ext with (d := []) (d' := []).
    { rewrite L. unfold norm_single, attach. destruct (h_single h); rewrite ?map_length; reflexivity. }
    intros i Hi. rewrite L in Hi. rewrite N by (unfold empty_outs; rewrite repeat_length; exact Hi).
    assert (E0 : nth i (empty_outs (length ps)) [] = []).
    { unfold empty_outs. clear. generalize (length ps). induction i; intros [|n]; cbn; auto. }
    rewrite E0.
    destruct (nth_error ps i) as [kp|] eqn:NE; [|apply nth_error_None in NE; lia].
    assert (Hkp : In kp ps) by (eapply nth_error_In; exact NE).
    (* the bucket of a fetched child contains i exactly when parent i's key prints like the child's *)
    assert (FM : flat_map (fun c => repeat (c_uid c) (count_occ Nat.eq_dec (bkt m c) i)) fs
                 = map c_uid (filter (fun c => hit (tsk (c_key c)) kp) fs)).
    { rewrite <- flat_map_indicator. apply flat_map_ext_in'. intros c Hc. f_equal.
      unfold bkt. rewrite Em, idmap_find.
      assert (PC := pos_from_count (tsk (c_key c)) ps 0 i (Nat.le_0_l i)).
      rewrite Nat.sub_0_r, NE in PC.
      destruct (pos_from 0 (tsk (c_key c)) ps) eqn:P.
      - cbn in PC. cbn. exact PC.
      - exact PC. }
    rewrite FM. unfold fs, fetch. rewrite filter_filter.
    assert (FE : filter (fun c => in_list vals (c_key c) && child_ok h c && hit (tsk (c_key c)) kp) cs
                 = filter (belongs h kp) cs).
    { apply filter_ext_in. intros c Hc. unfold belongs, hit.
      destruct (all_zero kp) eqn:Z; cbn [negb andb]; [rewrite andb_false_r; reflexivity|].
      destruct (child_ok h c); rewrite ?andb_false_r, ?andb_true_r; [|reflexivity].
      destruct (key_eqv kp (c_key c)) eqn:Q.
      - assert (I : in_list vals (c_key c) = true) by (apply INL; exists kp; auto).
        rewrite I. cbn. apply String.eqb_eq. apply H2; auto. apply in_map; exact Hc. eapply key_eqv_non_null; exact Q.
      - destruct (in_list vals (c_key c)) eqn:I; [|reflexivity]. cbn.
        destruct (String.eqb (tsk kp) (tsk (c_key c))) eqn:S; [|reflexivity].
        apply String.eqb_eq in S. apply INL in I. destruct I as [kq [A [B Eq]]].
        apply H2 in S; auto; [congruence | apply in_map; exact Hc | eapply key_eqv_non_null; exact Eq]. }
    rewrite FE, fold_acc_norm.
    unfold norm_single, attach.
    destruct (h_single h).
    + rewrite map_map. symmetry. apply (nth_map_error (fun x => last1 (map c_uid (filter (belongs h x) cs)))). exact NE.
    + symmetry. apply (nth_map_error (fun x => map c_uid (filter (belongs h x) cs))). exact NE.
Qed.

End Generic.
