(* C07_Proofs.v — the invariant of the schema-cache protocol (C07_Model.step) and its
   preservation by every step of every goroutine.  Consequences are in C07_Proofs2/3. *)
From Verif Require Import Base C07_Model.

Definition own_of (p : pc) : option sid :=
  match p with
  | PLoad1 | PBuild => None
  | PLoad2 s | PStore s | PRel s _ | PNest s _ _ | PGuess s _ _ _ | PDelete s | PClose s _ => Some s
  | PWait o _ => o
  | PRet _ => None
  end.

Definition is_nest (f : frame) : Prop :=
  match f_pc f with PNest _ _ _ => True | _ => False end.

Fixpoint frames_ok (P : list frame -> frame -> Prop) (stk : list frame) : Prop :=
  match stk with [] => True | f :: below => P below f /\ frames_ok P below end.

Definition top_ok (stk : list frame) : Prop :=
  match stk with [] => True | f :: _ => ~ is_nest f end.

(* the frame at height d of a stack (0 = bottom) owns schema s *)
Definition owns (stk : list frame) (d : nat) (s : sid) : Prop :=
  exists f, nth_error (rev stk) d = Some f /\ own_of (f_pc f) = Some s.

Section Inv.
Variable cfg : config.

Definition mine (st : state) (g : tid) (d : nat) (t : ty) (s : sid) : Prop :=
  s < st_nsch st /\ s_ty (st_sch st s) = t /\ s_owner (st_sch st s) = g /\
  s_depth (st_sch st s) = d /\ s_closed (st_sch st s) = false.

Definition fresh_after (st : state) (t : ty) (born : nat) : Prop :=
  forall w, st_cache st t = Some w -> born < s_pub (st_sch st w).

Definition complete (st : state) (s : sid) : Prop :=
  s_err (st_sch st s) = false ->
  length (s_rel (st_sch st s)) = length (rels cfg (s_ty (st_sch st s))).

Definition good_ret (st : state) (t : ty) (r : sid) : Prop :=
  r < st_nsch st /\ s_ty (st_sch st r) = t /\ s_closed (st_sch st r) = true /\
  0 < s_pub (st_sch st r) /\ complete st r.

(* own schema published, in the cache, relation loop at field i *)
Definition in_loop (st : state) (g : tid) (d : nat) (t : ty) (s : sid) (i : nat) : Prop :=
  mine st g d t s /\ st_cache st t = Some s /\ 0 < s_pub (st_sch st s) /\
  s_err (st_sch st s) = false /\ length (s_rel (st_sch st s)) = i.

Definition unpub (st : state) (g : tid) (d : nat) (t : ty) (s : sid) : Prop :=
  mine st g d t s /\ s_pub (st_sch st s) = 0 /\ s_err (st_sch st s) = false /\
  s_rel (st_sch st s) = [].

Definition frame_inv (st : state) (g : tid) (below : list frame) (f : frame) : Prop :=
  let t := f_ty f in
  let d := length below in
  f_born f < st_clk st /\
  Forall is_nest below /\
  (forall p s, In p below -> own_of (f_pc p) = Some s -> s_pub (st_sch st s) < f_born f) /\
  match f_pc f with
  | PLoad1 | PBuild => below <> [] -> fresh_after st t (f_born f)
  | PLoad2 s | PStore s =>
      unpub st g d t s /\ (below <> [] -> fresh_after st t (f_born f))
  | PRel s i => in_loop st g d t s i /\ i <= length (rels cfg t)
  | PNest s i _ => in_loop st g d t s i /\ i < length (rels cfg t)
  | PGuess s i fs _ => in_loop st g d t s i /\ i < length (rels cfg t) /\ fs < st_nsch st
  | PDelete s =>
      mine st g d t s /\ st_cache st t = Some s /\ 0 < s_pub (st_sch st s) /\
      s_err (st_sch st s) = true
  | PClose s r =>
      mine st g d t s /\
      ((r = s /\ 0 < s_pub (st_sch st s) /\
        (s_err (st_sch st s) = false ->
           st_cache st t = Some s /\ length (s_rel (st_sch st s)) = length (rels cfg t)))
       \/ (s_pub (st_sch st s) = 0 /\ good_ret st t r))
  | PWait o w =>
      w < st_nsch st /\ s_ty (st_sch st w) = t /\ 0 < s_pub (st_sch st w) /\
      (below <> [] -> f_born f < s_pub (st_sch st w)) /\
      match o with Some s => unpub st g d t s | None => True end
  | PRet r => good_ret st t r
  end.

Definition ret_ok (st : state) (rr : ret) : Prop :=
  rt_closed rr = true /\ rt_sty rr = rt_ty rr /\
  (rt_err rr = false -> rt_nrel rr = length (rels cfg (rt_ty rr))) /\
  rt_sid rr < st_nsch st /\ s_closed (st_sch st (rt_sid rr)) = true /\
  s_ty (st_sch st (rt_sid rr)) = rt_ty rr /\ 0 < s_pub (st_sch st (rt_sid rr)) /\
  s_err (st_sch st (rt_sid rr)) = rt_err rr.

Record inv (st : state) : Prop := mk_inv {
  i_N : forall s, st_nsch st <= s -> st_sch st s = dummy_s;
  i_C : forall t s, st_cache st t = Some s ->
          s < st_nsch st /\ s_ty (st_sch st s) = t /\ 0 < s_pub (st_sch st s);
  i_D : forall s, s < st_nsch st -> s_closed (st_sch st s) = true ->
          0 < s_pub (st_sch st s) -> complete st s;
  i_G : forall s, s < st_nsch st -> 0 < s_pub (st_sch st s) -> s_err (st_sch st s) = false ->
          st_cache st (s_ty (st_sch st s)) = Some s;
  i_K : forall s, s_pub (st_sch st s) < st_clk st;
  i_L : forall s, s < st_nsch st -> s_closed (st_sch st s) = false ->
          s_owner (st_sch st s) < st_nthr st /\
          owns (t_stack (st_thr st (s_owner (st_sch st s)))) (s_depth (st_sch st s)) s;
  i_T : forall g, frames_ok (frame_inv st g) (t_stack (st_thr st g)) /\
                  top_ok (t_stack (st_thr st g)) /\
                  Forall (ret_ok st) (t_rets (st_thr st g))
}.

End Inv.

(* ------------------------------------------------------------------------------------ *)
(* basic facts *)
Lemma option_eq_dec_sid (a b : option sid) : {a = b} + {a <> b}.
Proof. decide equality. apply Nat.eq_dec. Qed.

Lemma upd_same {A} (f : nat -> A) k v : upd f k v k = v.
Proof. unfold upd. now rewrite Nat.eqb_refl. Qed.
Lemma upd_other {A} (f : nat -> A) k v x : x <> k -> upd f k v x = f x.
Proof. unfold upd. intro H. destruct (Nat.eqb_spec x k); [contradiction|reflexivity]. Qed.

Fixpoint frames_on (P : list frame -> frame -> Prop) (news kept : list frame) : Prop :=
  match news with [] => True | f :: r => P (r ++ kept) f /\ frames_on P r kept end.

Lemma frames_ok_app P news kept :
  frames_ok P (news ++ kept) <-> frames_on P news kept /\ frames_ok P kept.
Proof. induction news as [|f r IH]; cbn; [tauto|]. rewrite IH. tauto. Qed.

Lemma frames_ok_impl (P Q : list frame -> frame -> Prop) stk :
  (forall below f, (exists above, stk = above ++ f :: below) -> P below f -> Q below f) ->
  frames_ok P stk -> frames_ok Q stk.
Proof.
  induction stk as [|f r IH]; cbn; [tauto|]. intros H [H1 H2]. split.
  - apply H; [exists []; reflexivity|exact H1].
  - apply IH; [|exact H2]. intros b x [a ->] Hp. apply H; [|exact Hp]. now exists (f :: a).
Qed.

Lemma owns_kept news news' kept d s :
  d < length kept -> owns (news ++ kept) d s -> owns (news' ++ kept) d s.
Proof.
  intros Hd [f [Hn Ho]]. exists f. split; [|exact Ho].
  rewrite rev_app_distr in *. rewrite nth_error_app1 in * by (rewrite rev_length; exact Hd). exact Hn.
Qed.

Lemma owns_at news f kept s :
  own_of (f_pc f) = Some s -> owns (news ++ f :: kept) (length kept) s.
Proof.
  intro Ho. exists f. split; [|exact Ho].
  rewrite rev_app_distr. cbn [rev]. rewrite <- app_assoc. cbn [app].
  rewrite nth_error_app2 by (rewrite rev_length; lia). rewrite rev_length, Nat.sub_diag. reflexivity.
Qed.

Lemma owns_inv news f kept s :
  owns (news ++ f :: kept) (length kept) s -> own_of (f_pc f) = Some s.
Proof.
  intros [x [Hn Ho]]. revert Hn.
  rewrite rev_app_distr. cbn [rev]. rewrite <- app_assoc. cbn [app].
  rewrite nth_error_app2 by (rewrite rev_length; lia). rewrite rev_length, Nat.sub_diag. cbn.
  intro E. inversion E. subst. exact Ho.
Qed.

Section Pres.
Variable cfg : config.
Notation frame_inv := (frame_inv cfg).
Notation inv := (inv cfg).

Lemma own_mine st g below f s :
  frame_inv st g below f -> own_of (f_pc f) = Some s -> mine st g (length below) (f_ty f) s.
Proof.
  unfold frame_inv, in_loop, unpub. intros (_ & _ & _ & H) Ho.
  destruct (f_pc f); cbn in Ho; try discriminate; try (inversion Ho; subst; tauto).
Qed.

Lemma frames_own st g stk p s :
  frames_ok (frame_inv st g) stk -> In p stk -> own_of (f_pc p) = Some s ->
  s < st_nsch st /\ s_owner (st_sch st s) = g /\ s_depth (st_sch st s) < length stk.
Proof.
  induction stk as [|f r IH]; cbn; [tauto|]. intros [H1 H2] [->|Hin] Ho.
  - destruct (own_mine _ _ _ _ _ H1 Ho) as (A & _ & B & C & _). repeat split; auto. lia.
  - destruct (IH H2 Hin Ho) as (A & B & C). repeat split; auto.
Qed.

Record ext (g0 : tid) (K : nat) (st st' : state) : Prop := mk_ext {
  e_clk : st_clk st' = S (st_clk st);
  e_nsch : st_nsch st <= st_nsch st';
  e_sch : forall s, s < st_nsch st ->
     st_sch st' s = st_sch st s \/
     (s_owner (st_sch st s) = g0 /\ K <= s_depth (st_sch st s) /\ s_closed (st_sch st s) = false /\
      s_ty (st_sch st' s) = s_ty (st_sch st s) /\ s_owner (st_sch st' s) = s_owner (st_sch st s) /\
      s_depth (st_sch st' s) = s_depth (st_sch st s) /\
      (0 < s_pub (st_sch st s) -> s_pub (st_sch st' s) = s_pub (st_sch st s)));
  e_pub : forall s, s_pub (st_sch st' s) = s_pub (st_sch st s) \/ s_pub (st_sch st' s) = st_clk st;
  e_cache : forall t,
     st_cache st' t = st_cache st t \/
     (st_cache st t = None /\ exists s0, st_cache st' t = Some s0 /\ s_pub (st_sch st' s0) = st_clk st) \/
     (exists s0, st_cache st t = Some s0 /\ st_cache st' t = None /\
        s_owner (st_sch st s0) = g0 /\ K <= s_depth (st_sch st s0) /\ s_closed (st_sch st s0) = false)
}.

Lemma ext_untouched g0 K st st' s :
  ext g0 K st st' -> s < st_nsch st ->
  (s_owner (st_sch st s) <> g0 \/ s_depth (st_sch st s) < K \/ s_closed (st_sch st s) = true) ->
  st_sch st' s = st_sch st s.
Proof.
  intros E Hs H. destruct (e_sch _ _ _ _ E s Hs) as [?|(A & B & C & _)]; [assumption|].
  destruct H as [H|[H|H]]; [contradiction|lia|congruence].
Qed.

Lemma ext_pub_pos g0 K st st' s :
  ext g0 K st st' -> s < st_nsch st -> 0 < s_pub (st_sch st s) ->
  s_pub (st_sch st' s) = s_pub (st_sch st s).
Proof.
  intros E Hs H. destruct (e_sch _ _ _ _ E s Hs) as [->|(_ & _ & _ & _ & _ & _ & A)]; auto.
Qed.

Lemma mine_stable g0 K st st' g d t s :
  ext g0 K st st' -> (g <> g0 \/ d < K) -> mine st g d t s ->
  mine st' g d t s /\ st_sch st' s = st_sch st s.
Proof.
  intros E Hg (A & B & C & D & F).
  assert (U : st_sch st' s = st_sch st s).
  { apply (ext_untouched _ _ _ _ _ E A). destruct Hg; [left; congruence|right; left; lia]. }
  split; [|exact U]. unfold mine. rewrite U. repeat split; auto.
  pose proof (e_nsch _ _ _ _ E). lia.
Qed.

Lemma cache_stable g0 K st st' g d t s :
  ext g0 K st st' -> (g <> g0 \/ d < K) -> mine st g d t s ->
  st_cache st t = Some s -> st_cache st' t = Some s.
Proof.
  intros E Hg (A & B & C & D & F) Hc.
  destruct (e_cache _ _ _ _ E t) as [->|[[H _]|(s0 & H0 & _ & O & Dp & _)]]; auto; [congruence|].
  rewrite Hc in H0. inversion H0; subst s0. destruct Hg; [congruence|lia].
Qed.

Lemma fresh_stable g0 K st st' t b :
  inv st -> ext g0 K st st' -> b < st_clk st -> fresh_after st t b -> fresh_after st' t b.
Proof.
  intros I E Hb Hf w Hw.
  destruct (e_cache _ _ _ _ E t) as [H|[[_ (s0 & H0 & P)]|(s0 & _ & H0 & _)]].
  - rewrite H in Hw. destruct (i_C _ _ I _ _ Hw) as (A & _ & B).
    rewrite (ext_pub_pos _ _ _ _ _ E A B). apply Hf, Hw.
  - rewrite H0 in Hw. inversion Hw; subst. lia.
  - congruence.
Qed.

Lemma complete_eq st st' s : st_sch st' s = st_sch st s -> complete cfg st s -> complete cfg st' s.
Proof. unfold complete. intros ->. auto. Qed.

Lemma good_ret_stable g0 K st st' t r :
  ext g0 K st st' -> good_ret cfg st t r -> good_ret cfg st' t r.
Proof.
  intros E (A & B & C & D & F).
  assert (U : st_sch st' r = st_sch st r) by (apply (ext_untouched _ _ _ _ _ E A); auto).
  unfold good_ret. rewrite U. repeat split; auto.
  - pose proof (e_nsch _ _ _ _ E). lia.
  - exact (complete_eq st st' r U F).
Qed.

Lemma in_loop_stable g0 K st st' g d t s i :
  ext g0 K st st' -> (g <> g0 \/ d < K) -> in_loop st g d t s i -> in_loop st' g d t s i.
Proof.
  intros E Hg (M & C & P & Er & L). destruct (mine_stable _ _ _ _ _ _ _ _ E Hg M) as [M' U].
  unfold in_loop. split; [exact M'|]. rewrite U. split; [eapply cache_stable; eauto|auto].
Qed.

Lemma unpub_stable g0 K st st' g d t s :
  ext g0 K st st' -> (g <> g0 \/ d < K) -> unpub st g d t s -> unpub st' g d t s.
Proof.
  intros E Hg (M & P). destruct (mine_stable _ _ _ _ _ _ _ _ E Hg M) as [M' U].
  unfold unpub. rewrite U. auto.
Qed.

Lemma frames_stable g0 K st st' g stk :
  inv st -> ext g0 K st st' -> (g <> g0 \/ length stk <= K) ->
  frames_ok (frame_inv st g) stk -> frames_ok (frame_inv st' g) stk.
Proof.
  intros I E. induction stk as [|f below IH]; cbn; [tauto|]. intros Hg [Hf Hb].
  assert (Hg' : g <> g0 \/ length below < K) by (destruct Hg; [left; auto|right; lia]).
  split; [|apply IH; [destruct Hg; [left; auto|right; lia]|exact Hb]].
  destruct Hf as (B1 & B2 & B3 & B4). unfold frame_inv.
  pose proof (e_clk _ _ _ _ E) as Ck. pose proof (e_nsch _ _ _ _ E) as Ns.
  split; [lia|]. split; [exact B2|]. split.
  { intros p s Hin Ho. destruct (frames_own _ _ _ _ _ Hb Hin Ho) as (A & O & D).
    rewrite (ext_untouched _ _ _ _ _ E A); [eauto|].
    destruct Hg'; [left; congruence|right; left; lia]. }
  destruct (f_pc f) eqn:Epc.
  - intro H. eapply fresh_stable; eauto.
  - intro H. eapply fresh_stable; eauto.
  - destruct B4 as [Un F]. split; [eapply unpub_stable; eauto|]. intro H. eapply fresh_stable; eauto.
  - destruct B4 as [Un F]. split; [eapply unpub_stable; eauto|]. intro H. eapply fresh_stable; eauto.
  - destruct B4 as [Lp Hi]. split; [eapply in_loop_stable; eauto|exact Hi].
  - destruct B4 as [Lp Hi]. split; [eapply in_loop_stable; eauto|exact Hi].
  - destruct B4 as [Lp [Hi Hfs]]. split; [eapply in_loop_stable; eauto|split; [exact Hi|lia]].
  - destruct B4 as (M & C & P & Er). destruct (mine_stable _ _ _ _ _ _ _ _ E Hg' M) as [M' U].
    split; [exact M'|]. rewrite U. split; [eapply cache_stable; eauto|auto].
  - destruct B4 as (M & H). destruct (mine_stable _ _ _ _ _ _ _ _ E Hg' M) as [M' U].
    split; [exact M'|]. rewrite U. destruct H as [(R & P & H)|(P & H)].
    + left. split; [exact R|]. split; [exact P|]. intro Er. destruct (H Er) as [C L].
      split; [eapply cache_stable; eauto|exact L].
    + right. split; [exact P|]. eapply good_ret_stable; eauto.
  - destruct B4 as (A & T & P & F & O).
    rewrite (ext_pub_pos _ _ _ _ _ E A P).
    assert (T' : s_ty (st_sch st' w) = f_ty f).
    { destruct (e_sch _ _ _ _ E w A) as [->|(_ & _ & _ & X & _)]; congruence. }
    repeat split; auto; [lia|]. destruct own; [|exact O]. eapply unpub_stable; eauto.
  - eapply good_ret_stable; eauto.
Qed.

Lemma ret_ok_stable g0 K st st' rr : ext g0 K st st' -> ret_ok cfg st rr -> ret_ok cfg st' rr.
Proof.
  intros E (A & B & C & D & F & G & H & J).
  assert (U : st_sch st' (rt_sid rr) = st_sch st (rt_sid rr)) by (apply (ext_untouched _ _ _ _ _ E D); auto).
  unfold ret_ok. rewrite U. repeat split; auto. pose proof (e_nsch _ _ _ _ E). lia.
Qed.
End Pres.
