(* C03_Proofs3.v — the composed statement on the Create model: with RETURNING, reading the stored
   row back yields, column by column, the field values the in-memory record holds after Create
   (defaults, tracked times, generated keys and database defaults included). *)
From Verif Require Import Base C03_Model C03_Proofs C03_Proofs2.
Open Scope Z_scope.

(* a column description the parser can produce: supported kind, well-typed parsed default,
   tracked-time columns are integers or times *)
Definition wf_fdesc (f : fdesc) : Prop :=
  wfk (fd_kind f) = true
  /\ (forall dv, fd_defi f = Some dv -> wtb (fd_kind f) dv = true)
  /\ (tracked f = true -> match fd_kind f with KInt _ | KUint _ | KTime | KPtr KTime => True | _ => False end).

(* a field value: well typed (or a leaf under a nil embedded pointer), zero values canonical *)
Definition wf_val (k : kind) (v : goval) : Prop :=
  (v = GAbsent \/ wtb k v = true) /\ (is_zero k v = true -> norm k v = zero k).

Lemma now_val_wt : forall f now,
  match fd_kind f with KInt _ | KUint _ | KTime | KPtr KTime => True | _ => False end ->
  wtb (fd_kind f) (now_val f now) = true.
Proof.
  intros f now H. unfold now_val. destruct (fd_kind f) as [ | | | | | | |k'| | | ]; try contradiction; cbn;
    try (destruct k'; try contradiction; reflexivity).
  - destruct ((fd_ctime f =? 4) || (fd_utime f =? 4)); [reflexivity|].
    destruct ((fd_ctime f =? 3) || (fd_utime f =? 3)); reflexivity.
  - destruct ((fd_ctime f =? 4) || (fd_utime f =? 4)); [reflexivity|].
    destruct ((fd_ctime f =? 3) || (fd_utime f =? 3)); reflexivity.
  - reflexivity.
Qed.

Lemma dec_enc_norm : forall k v c,
  wfk k = true -> (v = GAbsent \/ wtb k v = true) -> enc k v = Some c -> dec k c = norm k v.
Proof.
  intros k v c Hk [Ha|Hw] He.
  - subst v. rewrite enc_absent in He. inversion He. apply dec_null.
  - rewrite (roundtrip0 k v c Hk Hw He). destruct v; try reflexivity. rewrite wtb_absent in Hw. discriminate.
Qed.

Lemma norm_zero : forall k, norm k (zero k) = zero k.
Proof.
  induction k as [w|w| | | |w| |k IH|k IH|k IH|s k IH]; try reflexivity.
  - cbn [zero]. destruct (zero k); try reflexivity. cbn in IH. cbn. exact IH.
  - cbn [zero]. destruct (zero k); try reflexivity. cbn in IH. cbn. exact IH.
Qed.
Lemma zero_not_absent : forall k, zero k <> GAbsent.
Proof. induction k; cbn; try discriminate; assumption. Qed.
Lemma norm_dec : forall k d, norm k (dec k d) = dec k d.
Proof.
  intros k d. assert (H : dec k d <> GAbsent).
  { revert d. induction k as [w|w| | | |w| |k IH|k IH|k IH|s k IH]; intros d; cbn [dec];
      try (destruct d; discriminate); try apply IH.
    destruct s; try apply IH. destruct d; try apply zero_not_absent. destruct k; discriminate. }
  destruct (dec k d); try reflexivity. contradiction.
Qed.

(* one cell: what is stored decodes to what the record holds after Create *)
Theorem cell_roundtrip_returning : forall f now incl id v c,
  wf_fdesc f -> wf_val (fd_kind f) v ->
  cell f now incl id v = Some c ->
  dec (fd_kind f) c =
  norm (fd_kind f) (if is_dbdef f then set_from_db (fd_kind f) v c else filled f now v).
Proof.
  intros f now incl id v c [Hk [Hdef Htr]] [Hv Hz] Hc. unfold cell in Hc.
  destruct (is_dbdef f) eqn:Ed.
  - (* database-default column: memory takes what RETURNING delivers *)
    unfold set_from_db. destruct c; try (rewrite norm_dec; reflexivity).
    (* NULL delivered: the field keeps its (zero) value *)
    rewrite dec_null.
    destruct (is_zero (fd_kind f) v) eqn:Ez; [symmetry; apply Hz; reflexivity|].
    cbn [negb] in Hc. destruct Hv as [Ha|Hw]; [subst v; discriminate|].
    rewrite (enc_null_nil _ _ Hw Hc) in Ez. discriminate.
  - (* ordinary column: the filled value is encoded *)
    apply dec_enc_norm; [exact Hk| |exact Hc].
    unfold filled. destruct (is_zero (fd_kind f) v); [|exact Hv].
    destruct (fd_defi f) as [dv|] eqn:E; [right; apply Hdef; reflexivity|].
    destruct (tracked f) eqn:Et; [right; apply now_val_wt; apply Htr; reflexivity | exact Hv].
Qed.

(* one record of one statement *)
Theorem record_roundtrip_returning : forall fs now incl id prio lastid r row,
  Forall wf_fdesc fs -> length r = length fs -> length incl = length fs ->
  (forall j d, (j < length fs)%nat -> wf_val (fd_kind (nth j fs d)) (nth j r GAbsent)) ->
  row_of fs now incl id r = Some row ->
  forall j d, (j < length fs)%nat ->
    nth j (read_rec fs row) GAbsent
    = norm (fd_kind (nth j fs d)) (nth j (after_rec fs now true prio row lastid r) GAbsent).
Proof.
  intros fs now incl id prio lastid r row Hfs Hr Hi Hv Hrow j d Hj.
  unfold row_of in Hrow. destruct (opt_all_spec _ _ Hrow) as [Hl Hc].
  rewrite length_map2, combine_length, Hi, Hr, !Nat.min_id in Hl.
  specialize (Hc j DNull ltac:(rewrite length_map2, combine_length, Hi, Hr, !Nat.min_id; exact Hj)).
  rewrite (nth_map2 _ _ _ _ (d, false) GAbsent None) in Hc by (try rewrite combine_length; lia).
  rewrite combine_nth in Hc by lia. cbn [fst snd] in Hc.
  unfold read_rec, after_rec.
  rewrite (nth_map2 _ _ _ _ d DNull GAbsent) by lia.
  rewrite (nth_map2 _ _ _ _ d (GAbsent, DNull) GAbsent) by (try rewrite combine_length; lia).
  rewrite combine_nth by lia. cbn [fst snd].
  eapply cell_roundtrip_returning; [|apply Hv; exact Hj|exact Hc].
  rewrite Forall_forall in Hfs. apply Hfs. apply nth_In. exact Hj.
Qed.

(* non-vacuity: a column with a parsed default and a tracked integer column are well formed, and
   the zero value of the first takes its default *)
Example wf_fdesc_instance :
  wf_fdesc (mk_fd ["DI"%string] "di"%string (KInt 64) false false true (Some (GInt 7)) None 0 0 false)
  /\ wf_fdesc (mk_fd ["CNano"%string] "c_nano"%string (KInt 64) false false false None None 4 0 false)
  /\ wf_val (KInt 64) (GInt 0)
  /\ cell (mk_fd ["DI"%string] "di"%string (KInt 64) false false true (Some (GInt 7)) None 0 0 false) 5 false 1 (GInt 0)
     = Some (DInt 7).
Proof.
  repeat split; cbn; try reflexivity; try tauto; intros; try discriminate;
    try (inversion H; reflexivity); try (right; reflexivity).
Qed.
