(* Props_C03.v — property C03: ONLY theorem statements, each closed by [exact] of a lemma from
   C03_Proofs*, followed by Print Assumptions. *)
From Verif Require Import Base C03_Model C03_Proofs C03_Proofs2 C03_Proofs3 C03_Proofs4 C03_Proofs5 C03_Proofs6.
Open Scope Z_scope.

(* codec round trip, per kind and composed structurally (pointers, Null wrappers, custom
   Scanner/Valuer, serializers): a well-typed value the driver accepts is read back unchanged,
   for every storage function that keeps values whose class agrees with the column affinity *)
Theorem c03_codec_roundtrip : forall store : aff -> dbval -> dbval,
  (forall a d, compatible a d = true -> store a d = d) ->
  forall k v d, wfk k = true -> wtb k v = true -> enc k v = Some d ->
  dec k (store (col_aff k) d) = v.
Proof. exact codec_roundtrip. Qed.
Print Assumptions c03_codec_roundtrip.

(* leaves of a nil embedded pointer are written as NULL and read back as zero values *)
Theorem c03_codec_roundtrip_absent : forall store : aff -> dbval -> dbval,
  (forall a d, compatible a d = true -> store a d = d) ->
  forall k, exists d, enc k GAbsent = Some d /\ dec k (store (col_aff k) d) = norm k GAbsent.
Proof. exact codec_roundtrip_absent. Qed.
Print Assumptions c03_codec_roundtrip_absent.

(* "representable in the column type" (in range for the width, uint64 below 2^63) is accepted *)
Theorem c03_representable_accepted : forall k v,
  wfk k = true -> wtb k v = true -> in_range k v = true ->
  exists d, enc k v = Some d.
Proof. exact representable_enc. Qed.
Print Assumptions c03_representable_accepted.

(* schema flattening: with distinct column names DBNames lists the fields in declaration order
   and every column looks up the field that declares it; embeddedPrefix preserves distinctness *)
Theorem c03_flatten_injective : forall tree,
  NoDup (map snd (fields_of tree)) ->
  dbnames tree = map (fun f => (snd f, fst f)) (fields_of tree)
  /\ NoDup (map fst (dbnames tree)).
Proof. exact flatten_injective. Qed.
Print Assumptions c03_flatten_injective.

(* several fields mapped to ONE column (an anonymously embedded struct and a field of the model, the
   same struct embedded at two depths, two `column:` tags naming one column; any declaration order):
   for EVERY struct tree the parsed schema (FieldsByDBName, the parser's left fold with replacement)
   gives the column to the field the specification names - minimal depth, first declared among
   equals ([owner_of], a right fold) - and lists every column once *)
Theorem c03_owner_shortest_first : forall tree col,
  col_lookup (dbnames tree) col = owner_of (fields_of tree) col
  /\ NoDup (map fst (dbnames tree)).
Proof. intros tree col. split; [apply owner_shortest_first | apply dbnames_nodup]. Qed.
Print Assumptions c03_owner_shortest_first.

(* ... where [owner_of] is: a field mapped to the column, strictly shallower than every such field
   declared before it and at most as deep as every one declared after it; it exists whenever some
   field maps to the column *)
Theorem c03_owner_minimal_first : forall fs col,
  (forall p, owner_of fs col = Some p ->
     exists l1 l2, fs = l1 ++ (p, col) :: l2
       /\ (forall q, In (q, col) l1 -> (length p < length q)%nat)
       /\ (forall q, In (q, col) l2 -> (length p <= length q)%nat))
  /\ (forall p, In (p, col) fs -> exists q, owner_of fs col = Some q).
Proof. intros fs col. split; [intros p; apply owner_of_spec | intros p; apply owner_of_total]. Qed.
Print Assumptions c03_owner_minimal_first.

(* a field the parsed schema gives no column of its own is never the owner of its column: the
   checker's demand that every OWNER be read back adds nothing to the per-column round trip under
   the model, and fails exactly when the schema hands a column to another field *)
Theorem c03_unowned_not_owner : forall tree p col,
  col_lookup (dbnames tree) col <> Some p -> owner_of (fields_of tree) col <> Some p.
Proof. exact unowned_not_owner. Qed.
Print Assumptions c03_unowned_not_owner.

Theorem c03_flatten_prefix : forall nm p kids,
  map snd (flatten (FEmbed nm p kids)) = map (fun c => (p ++ c)%string) (map snd (fields_of kids))
  /\ (NoDup (map snd (fields_of kids)) -> NoDup (map snd (flatten (FEmbed nm p kids)))).
Proof.
  intros nm p kids. split; [apply flatten_embed_cols|].
  intro H. rewrite flatten_embed_cols. apply prefix_nodup. exact H.
Qed.
Print Assumptions c03_flatten_prefix.

(* key back-fill, RETURNING path: for every slice and every mix of preset and zero keys, record i
   carries the key of row i (the row that stores it) *)
Theorem c03_backfill_returning : forall fs now reversed prio ph is_struct base recs after rows b' j,
  auto_idx fs 0 = Some j ->
  is_dbdef (nth j fs (mk_fd [] "" KStr false false false None None 0 0 false)) = true ->
  int_kind (fd_kind (nth j fs (mk_fd [] "" KStr false false false None None 0 0 false))) = true ->
  Forall (fun r => length r = length fs /\ exists z, nth j r GAbsent = GInt z) recs ->
  create_stmt fs now true reversed prio ph is_struct base recs = Some (after, rows, b') ->
  length after = length recs /\ length rows = length recs /\
  forall i, (i < length recs)%nat ->
    let id := nth i (assign base (map (rec_key fs) recs)) 0 in
    nth j (nth i rows []) DNull = DInt id /\ nth j (nth i after []) GAbsent = GInt id.
Proof. exact returning_backfill. Qed.
Print Assumptions c03_backfill_returning.

(* key back-fill, LastInsertId path, arithmetic in both directions: consecutive ids a..a+n-1,
   the driver reporting the last (reversed) or the first of them, all keys zero *)
Theorem c03_backfill_lastid_partial : forall reversed n a i,
  (i < n)%nat ->
  nth i (backfill_lastid reversed (if reversed then a + Z.of_nat n - 1 else a) (repeat true n)) None
  = Some (a + Z.of_nat i).
Proof. exact backfill_lastid_all_zero. Qed.
Print Assumptions c03_backfill_lastid_partial.

(* on SQLite (ids from the AUTOINCREMENT rule): correct when all keys are zero ... *)
Theorem c03_lastid_all_zero_partial : forall n base,
  keys_after_lastid true base (repeat 0 n) = assign base (repeat 0 n).
Proof. exact lastid_correct_all_zero. Qed.
Print Assumptions c03_lastid_all_zero_partial.

(* ... or all preset ... *)
Theorem c03_lastid_all_preset_partial : forall reversed keys base,
  Forall (fun k => k <> 0) keys -> keys_after_lastid reversed base keys = assign base keys.
Proof. exact lastid_correct_all_preset. Qed.
Print Assumptions c03_lastid_all_preset_partial.

(* ... and wrong for a slice mixing preset and zero keys (witness [0; 10; 0]: record 0 gets 10) *)
Theorem c03_backfill_lastid_refuted :
  exists base keys, keys_after_lastid true base keys <> assign base keys.
Proof. exact lastid_mixed_refuted. Qed.
Print Assumptions c03_backfill_lastid_refuted.

(* []map destinations without RETURNING *)
Theorem c03_backfill_maps_partial : forall n base,
  backfill_maps true (last_z (assign base (repeat 0 n)) 0) n = assign base (repeat 0 n).
Proof. exact backfill_maps_all_absent. Qed.
Print Assumptions c03_backfill_maps_partial.

Theorem c03_backfill_maps_refuted :
  exists base keys, backfill_maps true (last_z (assign base keys) 0) (length keys) <> assign base keys.
Proof. exact backfill_maps_preset_refuted. Qed.
Print Assumptions c03_backfill_maps_refuted.

(* the composed statement, RETURNING path: every stored cell decodes to the value the in-memory
   record holds after Create (parsed defaults, tracked times, generated keys, database defaults) *)
Theorem c03_cell_roundtrip : forall f now incl id v c,
  wf_fdesc f -> wf_val (fd_kind f) v ->
  cell f now incl id v = Some c ->
  dec (fd_kind f) c =
  norm (fd_kind f) (if is_dbdef f then set_from_db (fd_kind f) v c else filled f now v).
Proof. exact cell_roundtrip_returning. Qed.
Print Assumptions c03_cell_roundtrip.

Theorem c03_record_roundtrip : forall fs now incl id prio lastid r row,
  Forall wf_fdesc fs -> length r = length fs -> length incl = length fs ->
  (forall j d, (j < length fs)%nat -> wf_val (fd_kind (nth j fs d)) (nth j r GAbsent)) ->
  row_of fs now incl id r = Some row ->
  forall j d, (j < length fs)%nat ->
    nth j (read_rec fs row) GAbsent
    = norm (fd_kind (nth j fs d)) (nth j (after_rec fs now true prio row lastid r) GAbsent).
Proof. exact record_roundtrip_returning. Qed.
Print Assumptions c03_record_roundtrip.

(* the WHOLE call on the RETURNING path (about [create], the function the checker runs): Create of
   one struct per record, of a slice / slice of pointers of any length, CreateInBatches with any batch
   size - every statement of the call, whatever clock reading and AUTOINCREMENT counter it starts
   from: record i of the call is stored in row i, and reading row i back gives, column by column, the
   value record i holds in memory after the call *)
Theorem c03_create_call_roundtrip : forall fs now reversed prio ph o base recs after rows m,
  Forall wf_fdesc fs -> existsb is_dbdef fs = true -> Forall (wf_rec fs) recs ->
  match o with OpStruct | OpSlice | OpPtrSlice | OpBatches _ => True | _ => False end ->
  create fs now true reversed prio ph o base recs = Some (after, rows, m) ->
  length rows = length after /\
  forall i, (i < length after)%nat -> forall j d, (j < length fs)%nat ->
    nth j (read_rec fs (nth i rows [])) GAbsent = norm (fd_kind (nth j fs d)) (nth j (nth i after []) GAbsent).
Proof. exact create_roundtrip. Qed.
Print Assumptions c03_create_call_roundtrip.

(* ... and for model types WITHOUT any database-generated column (string key, composite key without
   auto-increment): the same for the whole call with or without RETURNING and in both LastInsertId
   directions - nothing has to be loaded back, whatever LastInsertId delivers is not written *)
Theorem c03_create_call_roundtrip_nodef : forall fs now returning reversed prio ph o base recs after rows m,
  Forall wf_fdesc fs -> existsb is_dbdef fs = false -> Forall (wf_rec fs) recs ->
  match o with OpStruct | OpSlice | OpPtrSlice | OpBatches _ => True | _ => False end ->
  create fs now returning reversed prio ph o base recs = Some (after, rows, m) ->
  length rows = length after /\
  forall i, (i < length after)%nat -> forall j d, (j < length fs)%nat ->
    nth j (read_rec fs (nth i rows [])) GAbsent = norm (fd_kind (nth j fs d)) (nth j (nth i after []) GAbsent).
Proof. exact create_roundtrip_nodef. Qed.
Print Assumptions c03_create_call_roundtrip_nodef.

(* non-vacuity *)
Example c03_roundtrip_instance :
  wfk (KPtr (KNull (KInt 8))) = true /\ wtb (KPtr (KNull (KInt 8))) (GSome (GSome (GInt (-128)))) = true
  /\ enc (KPtr (KNull (KInt 8))) (GSome (GSome (GInt (-128)))) = Some (DInt (-128)).
Proof. repeat split. Qed.

Example c03_returning_instance :
  let f := mk_fd ["ID"%string] "id"%string (KUint 64) true true true None None 0 0 false in
  let g := mk_fd ["V"%string] "v"%string KStr false false false None None 0 0 false in
  create_stmt [f; g] 0 true true "id"%string true false 7
              [[GInt 0; GStr "a"]; [GInt 10; GStr "b"]; [GInt 0; GStr "c"]]
  = Some ([[GInt 8; GStr "a"]; [GInt 10; GStr "b"]; [GInt 11; GStr "c"]],
          [[DInt 8; DText "a"]; [DInt 10; DText "b"]; [DInt 11; DText "c"]], 11).
Proof. vm_compute. reflexivity. Qed.

(* a model field declared AFTER an anonymously embedded struct takes the column over; a deeper or
   equally deep later field does not *)
Example c03_owner_instance :
  let tree := [FEmbed "Base" "" [FLeaf "ID" "id"; FLeaf "Title" "title"; FLeaf "Note" "note"];
               FLeaf "Title" "title"; FEmbed "Other" "" [FLeaf "Memo" "note"]]%string in
  dbnames tree = [("id", ["Base"; "ID"]); ("title", ["Title"]); ("note", ["Base"; "Note"])]%string
  /\ owner_of (fields_of tree) "title"%string = Some ["Title"%string].
Proof. vm_compute. split; reflexivity. Qed.

(* a whole call over two statements (CreateInBatches 2 of 3 records) satisfies the hypotheses of
   c03_create_call_roundtrip and stores / returns what the theorem says *)
Example c03_call_instance :
  let f := mk_fd ["ID"%string] "id"%string (KUint 64) true true true None None 0 0 false in
  let g := mk_fd ["V"%string] "v"%string KStr false false false None None 0 0 false in
  existsb is_dbdef [f; g] = true
  /\ create [f; g] 0 true true "id"%string true (OpBatches 2) 7
             [[GInt 0; GStr "a"]; [GInt 10; GStr "b"]; [GInt 0; GStr "c"]]
     = Some ([[GInt 8; GStr "a"]; [GInt 10; GStr "b"]; [GInt 11; GStr "c"]],
             [[DInt 8; DText "a"]; [DInt 10; DText "b"]; [DInt 11; DText "c"]], 0).
Proof. vm_compute. split; reflexivity. Qed.
