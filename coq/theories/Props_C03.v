(* Props_C03.v — property C03: ONLY theorem statements. *)
From Verif Require Import Base C03_Model C03_Proofs.
Open Scope Z_scope.

Theorem c03_absent_is_null : forall k, enc k GAbsent = Some DNull.
Proof. exact enc_absent. Qed.
Print Assumptions c03_absent_is_null.
