(* C07_Patch.v — the PROPOSED fix of the getOrParse hazard, at model level: one mutex per
   cacheStore, taken by the outermost ParseWithSpecialTableName after its first Load missed and
   released (deferred) after close(initialized); nested calls (getOrParse -> Parse) run under the
   caller's lock.  [pstep] restricts C07_Model.step accordingly.  Proved here, for every
   interleaving and any number of goroutines: every patched run is a run of the original model
   (so parse_waits / single_winner carry over), the hazard is unreachable, no deadlock.
   (harness/cmd/c07/proposed_patches/P1_schema_parse_lock.diff is the Go counterpart.) *)
From Verif Require Import Base C07_Model C07_Proofs C07_Proofs2 C07_Proofs4 C07_Proofs5 C07_Proofs6.

Record pstate := mk_p { p_st : state; p_lock : option tid }.

Definition holds (ps : pstate) (g : tid) : bool :=
  match p_lock ps with Some h => Nat.eqb h g | None => false end.

Definition pstep (cfg : config) (ps : pstate) (g : tid) : option pstate :=
  let st := p_st ps in
  let lift := match step cfg st g with Some st' => Some (mk_p st' (p_lock ps)) | None => None end in
  match t_stack (st_thr st g) with
  | [f] =>
      match f_pc f with
      | PBuild =>
          if holds ps g then lift
          else match p_lock ps with
               | None => if Nat.ltb g (st_nthr st) then Some (mk_p st (Some g)) else None
               | Some _ => None          (* mu.Lock() blocks *)
               end
      | PRet _ =>
          match step cfg st g with
          | Some st' => Some (mk_p st' (if holds ps g then None else p_lock ps))   (* deferred Unlock *)
          | None => None
          end
      | _ => lift
      end
  | _ => lift
  end.

Fixpoint prun (cfg : config) (ps : pstate) (sched : list tid) : option pstate :=
  match sched with
  | [] => Some ps
  | g :: r => match pstep cfg ps g with Some ps' => prun cfg ps' r | None => None end
  end.

Definition pinitial (progs : list (list ty)) : pstate := mk_p (initial progs) None.
Definition penabled cfg ps g := match pstep cfg ps g with Some _ => true | None => false end.
Definition psome_enabled cfg ps := any_below (st_nthr (p_st ps)) (penabled cfg ps).

Ltac sf st Hs U :=
  repeat match goal with
    | |- context [match st_cache st ?t with _ => _ end] => destruct (st_cache st t)
    | |- context [match nth_error ?l ?i with _ => _ end] => destruct (nth_error l i)
    | |- context [if s_closed ?r then _ else _] => destruct (s_closed r) eqn:?
    | |- context [match ?o with Some _ => _ | None => _ end] => destruct o
    | |- context [if ?b then _ else _] => destruct b
    end; try discriminate;
  let H := fresh "H" in
  intro H; inversion H; subst; cbn; rewrite ?upd_same; unfold set_top; rewrite ?Hs; cbn;
  repeat split; auto; try discriminate; try (intros; apply U; auto; fail).

Section Patch.
Variable cfg : config.
Notation inv := (inv cfg).

(* a patched step is a lock operation or a step of the original model *)
Lemma pstep_proj ps g ps' :
  pstep cfg ps g = Some ps' ->
  (p_st ps' = p_st ps /\ p_lock ps = None /\ p_lock ps' = Some g /\ g < st_nthr (p_st ps) /\
   exists f, t_stack (st_thr (p_st ps) g) = [f] /\ f_pc f = PBuild)
  \/ (step cfg (p_st ps) g = Some (p_st ps') /\
      (p_lock ps' = p_lock ps \/
       (p_lock ps = Some g /\ p_lock ps' = None /\
        exists f r, t_stack (st_thr (p_st ps) g) = [f] /\ f_pc f = PRet r))).
Proof.
  unfold pstep, holds.
  destruct (t_stack (st_thr (p_st ps) g)) as [|f [|p rest]] eqn:Hs;
    try (destruct (step cfg (p_st ps) g); [|discriminate]; intro HH; inversion HH; subst; cbn; right; auto; fail).
  destruct (f_pc f) eqn:Epc;
    try (destruct (step cfg (p_st ps) g); [|discriminate]; intro HH; inversion HH; subst; cbn; right; auto; fail).
  - destruct (p_lock ps) as [h|] eqn:El.
    + destruct (Nat.eqb_spec h g); [|discriminate].
      destruct (step cfg (p_st ps) g); [|discriminate]. intro HH; inversion HH; subst; cbn; right; auto.
    + destruct (Nat.ltb_spec g (st_nthr (p_st ps))); [|discriminate].
      intro HH; inversion HH; subst; cbn. left. repeat split; auto. now exists f.
  - destruct (step cfg (p_st ps) g); [|discriminate]. intro HH; inversion HH; subst; cbn. right.
    split; [reflexivity|]. destruct (p_lock ps) as [h|]; [|now left].
    destruct (Nat.eqb_spec h g); [subst; right|now left]. repeat split; auto. now exists f, r.
Qed.

Lemma prun_run sched : forall ps ps', prun cfg ps sched = Some ps' ->
  exists sched', run cfg (p_st ps) sched' = Some (p_st ps').
Proof.
  induction sched as [|g r IH]; cbn; intros ps ps' H.
  - inversion H; subst. now exists [].
  - destruct (pstep cfg ps g) as [ps1|] eqn:E; [|discriminate].
    destruct (IH _ _ H) as (s' & Hs').
    destruct (pstep_proj _ _ _ E) as [(Eq & _)|(St & _)].
    + exists s'. now rewrite <- Eq.
    + exists (g :: s'). cbn. now rewrite St.
Qed.

(* what an original step does to schema ownership / closedness and to the stack *)
Lemma step_facts st g st' :
  step cfg st g = Some st' ->
  st_nthr st' = st_nthr st /\
  (forall s, s < st_nsch st -> s_owner (st_sch st' s) = s_owner (st_sch st s) /\
                               (s_closed (st_sch st s) = true -> s_closed (st_sch st' s) = true)) /\
  (st_nsch st' = st_nsch st \/
   (st_nsch st' = S (st_nsch st) /\ s_owner (st_sch st' (st_nsch st)) = g /\
    exists f below, t_stack (st_thr st g) = f :: below /\ f_pc f = PBuild)) /\
  (forall g', g' <> g -> st_thr st' g' = st_thr st g') /\
  (t_stack (st_thr st' g) = [] -> exists f r, t_stack (st_thr st g) = [f] /\ f_pc f = PRet r).
Proof.
  unfold step. destruct (Nat.ltb_spec g (st_nthr st)) as [Hg|]; [|discriminate]. cbn [negb].
  assert (U : forall s0 (r' : srec) s, s_owner r' = s_owner (st_sch st s0) ->
            (s_closed (st_sch st s0) = true -> s_closed r' = true) ->
            s_owner (upd (st_sch st) s0 r' s) = s_owner (st_sch st s) /\
            (s_closed (st_sch st s) = true -> s_closed (upd (st_sch st) s0 r' s) = true)).
  { intros s0 r' s Ho Hc. unfold upd. destruct (Nat.eqb_spec s s0); [subst; auto|auto]. }
  assert (O : forall (th : thread) g', g' <> g -> upd (st_thr st) g th g' = st_thr st g')
    by (intros; now apply upd_other).
  destruct (t_stack (st_thr st g)) as [|f below] eqn:Hs.
  { destruct (t_todo (st_thr st g)); [discriminate|]. intro H; inversion H; subst; cbn.
    rewrite upd_same. cbn. repeat split; auto. discriminate. }
  destruct (f_pc f) eqn:Epc; [sf st Hs U|idtac|sf st Hs U|sf st Hs U|sf st Hs U|sf st Hs U|sf st Hs U|sf st Hs U|sf st Hs U|sf st Hs U|idtac].
  - (* PBuild *)
    intro H; inversion H; subst; cbn. unfold set_top. rewrite Hs. cbn.
    split; [reflexivity|]. split.
    { intros x Hx. rewrite upd_other by lia. auto. }
    split; [right; split; [reflexivity|]; split; [rewrite ?upd_same; reflexivity|now exists f, below]|].
    split; [exact (O _)|rewrite upd_same; discriminate].
  - (* PRet *)
    intro H; inversion H; subst; clear H. unfold deliver. rewrite Hs. destruct below as [|p rest].
    + cbn. rewrite upd_same. cbn. repeat split; auto. intros _. now exists f, r.
    + destruct (f_pc p); cbn; rewrite ?Hs; try (repeat split; auto; discriminate).
      destruct (s_err (st_sch st r)); cbn; rewrite upd_same; cbn; repeat split; auto; try discriminate;
        intros; apply U; auto.
Qed.

(* the lock invariant: every unfinished schema belongs to the lock holder, who is at work *)
Definition Q (ps : pstate) : Prop :=
  (forall s, s < st_nsch (p_st ps) -> s_closed (st_sch (p_st ps) s) = false ->
     p_lock ps = Some (s_owner (st_sch (p_st ps) s))) /\
  (forall h, p_lock ps = Some h -> h < st_nthr (p_st ps) /\ t_stack (st_thr (p_st ps) h) <> []).

Lemma own_locked ps g f below s :
  inv (p_st ps) -> Q ps -> t_stack (st_thr (p_st ps) g) = f :: below ->
  own_of (f_pc f) = Some s -> p_lock ps = Some g.
Proof.
  intros I [Q1 _] Hs Ho. destruct (top_frame cfg _ _ _ _ I Hs) as (Hf & _ & _).
  destruct (own_mine cfg _ _ _ _ _ Hf Ho) as (A & _ & B & _ & C). rewrite (Q1 s A C). now rewrite B.
Qed.

Lemma Q_step ps g ps' : inv (p_st ps) -> Q ps -> pstep cfg ps g = Some ps' -> Q ps'.
Proof.
  intros I [Q1 Q3] H. destruct (pstep_proj _ _ _ H) as [(Eq & Ln & Ls & Hg & f & Hs & Epc)|(St & Hl)].
  - unfold Q. rewrite Eq. split.
    + intros s A C. specialize (Q1 s A C). congruence.
    + intros h Eh. rewrite Ls in Eh. inversion Eh; subst. split; [exact Hg|]. rewrite Hs. discriminate.
  - pose proof (step_inv cfg _ _ _ I St) as I'.
    destruct (step_facts _ _ _ St) as (Fn & Fs & Fa & Fo & Fe).
    assert (Q1' : forall s, s < st_nsch (p_st ps') -> s_closed (st_sch (p_st ps') s) = false ->
                  p_lock ps = Some (s_owner (st_sch (p_st ps') s))).
    { intros s A C. destruct (Nat.lt_ge_cases s (st_nsch (p_st ps))) as [Lt|Ge].
      - destruct (Fs s Lt) as [Eo Ec]. rewrite Eo. apply Q1; [exact Lt|].
        destruct (s_closed (st_sch (p_st ps) s)) eqn:X; [rewrite (Ec eq_refl) in C; discriminate|reflexivity].
      - destruct Fa as [En|(En & Eo & f & below & Hs & Epc)]; [lia|].
        assert (s = st_nsch (p_st ps)) by lia. subst s.
        (* the builder holds the lock: by the guard at depth 1, by its parent frame otherwise *)
        assert (Lg : p_lock ps = Some g).
        { destruct below as [|p rest].
          - unfold pstep in H. rewrite Hs, Epc in H. unfold holds in H.
            destruct (p_lock ps) as [h|]; [destruct (Nat.eqb_spec h g); [subst; reflexivity|discriminate]|].
            destruct (Nat.ltb (g) (st_nthr (p_st ps))); [|discriminate]. exfalso.
            assert (E1 : p_st ps' = p_st ps) by (inversion H; reflexivity). rewrite E1 in En. lia.
          - destruct (top_frame cfg _ _ _ _ I Hs) as ((_ & Bn & _) & (Hp & _) & _).
            inversion Bn as [|? ? Np _]; subst. unfold is_nest in Np. destruct (f_pc p) eqn:Epp; try contradiction.
            destruct (own_mine cfg _ _ _ _ _ Hp ltac:(rewrite Epp; reflexivity)) as (A1 & _ & B1 & _ & C1).
            rewrite (Q1 _ A1 C1). now rewrite B1. }
        now rewrite Eo. }
    destruct Hl as [El|(El & En & f & r & Hs & Epc)].
    + split.
      * intros s A C. rewrite El. now apply Q1'.
      * intros h Eh. rewrite El in Eh. destruct (Q3 h Eh) as [A B]. rewrite Fn. split; [exact A|].
        destruct (Nat.eq_dec h g) as [->|Ne]; [|now rewrite (Fo _ Ne)].
        intro E0. destruct (Fe E0) as (f & r & Hs & Epc).
        (* g returned from its outermost call while holding the lock: pstep releases it *)
        unfold pstep in H. rewrite Hs, Epc, St in H. unfold holds in H. rewrite Eh, Nat.eqb_refl in H.
        assert (Ln : p_lock ps' = None) by (inversion H; reflexivity). congruence.
    + split; [|intros h Eh; congruence].
      intros s A C. exfalso. specialize (Q1' s A C). rewrite El in Q1'. inversion Q1' as [Eo].
      destruct (i_L _ _ I' s A C) as [_ W]. rewrite <- Eo in W.
      assert (E0 : t_stack (st_thr (p_st ps') g) = []).
      { unfold step in St. destruct (Nat.ltb g (st_nthr (p_st ps))); [|discriminate]. cbn in St.
        rewrite Hs, Epc in St. unfold deliver in St. rewrite Hs in St. inversion St. cbn. now rewrite upd_same. }
      rewrite E0 in W. apply owns_lt in W. cbn in W. lia.
Qed.

Lemma prun_inv sched : forall ps ps', inv (p_st ps) -> Q ps -> prun cfg ps sched = Some ps' ->
  inv (p_st ps') /\ Q ps'.
Proof.
  induction sched as [|g r IH]; cbn; intros ps ps' I Hq H; [inversion H; subst; auto|].
  destruct (pstep cfg ps g) as [ps1|] eqn:E; [|discriminate].
  apply (IH ps1 ps'); [|eapply Q_step; eauto|exact H].
  destruct (pstep_proj _ _ _ E) as [(Eq & _)|(St & _)]; [now rewrite Eq|eapply step_inv; eauto].
Qed.

Lemma Q_initial progs : Q (pinitial progs).
Proof. split; cbn; [intros; lia|discriminate]. Qed.

(* ---- the hazard is gone -------------------------------------------------------------- *)
Lemma phazard sched : forall ps ps', inv (p_st ps) -> Q ps -> hazard (p_st ps) = false ->
  prun cfg ps sched = Some ps' -> hazard (p_st ps') = false.
Proof.
  induction sched as [|g r IH]; cbn; intros ps ps' I Hq Hz H; [inversion H; subst; exact Hz|].
  destruct (pstep cfg ps g) as [ps1|] eqn:E; [|discriminate].
  destruct (pstep_proj _ _ _ E) as [(Eq & _)|(St & _)].
  - apply (IH ps1 ps'); [now rewrite Eq|eapply Q_step; eauto|now rewrite Eq|exact H].
  - apply (IH ps1 ps'); [eapply step_inv; eauto|eapply Q_step; eauto| |exact H].
    apply (hazard_step cfg _ _ _ True I St Hz). intros f below s i fs ok Hs Epc Hc Ho.
    assert (Lg : p_lock ps = Some g) by (eapply own_locked; eauto; rewrite Epc; reflexivity).
    destruct (top_frame cfg _ _ _ _ I Hs) as ((_ & _ & _ & F) & _ & _). rewrite Epc in F.
    destruct F as (_ & _ & Hfs). destruct Hq as [Q1 _]. rewrite (Q1 fs Hfs Hc) in Lg. congruence.
Qed.

(* ---- no deadlock with the lock ------------------------------------------------------- *)
Lemma pstep_of_step ps g :
  (p_lock ps = Some g \/ p_lock ps = None) -> enabled cfg (p_st ps) g = true -> penabled cfg ps g = true.
Proof.
  unfold enabled, penabled, pstep, holds. intros Hl.
  destruct (step cfg (p_st ps) g) as [st'|] eqn:St; [intros _|discriminate].
  assert (Hg : Nat.ltb g (st_nthr (p_st ps)) = true).
  { unfold step in St. destruct (Nat.ltb g (st_nthr (p_st ps))); [reflexivity|discriminate]. }
  destruct (t_stack (st_thr (p_st ps) g)) as [|f [|p rest]]; try reflexivity.
  destruct (f_pc f); try reflexivity.
  destruct Hl as [-> | ->]; [now rewrite Nat.eqb_refl|now rewrite Hg].
Qed.

Theorem pno_deadlock ps : inv (p_st ps) -> Q ps ->
  all_finished (p_st ps) = true \/ psome_enabled cfg ps = true.
Proof.
  intros I [Q1 Q3]. destruct (all_finished (p_st ps)) eqn:Ef; [now left|right].
  assert (Nb : forall g f below w, blocked (p_st ps) g f below w ->
               p_lock ps = Some g -> False).
  { intros g f below w B Lg. pose proof B as (Hs & (o & Epc) & Ecl).
    destruct (top_frame cfg _ _ _ _ I Hs) as ((_ & _ & _ & F) & _ & _). rewrite Epc in F.
    destruct F as (W1 & _).
    assert (Eo : s_owner (st_sch (p_st ps) w) = g) by (specialize (Q1 w W1 Ecl); congruence).
    destruct (blocked_next cfg _ _ _ _ _ I B) as (_ & _ & Hb & Hn). rewrite Eo in Hn.
    destruct (Hn _ _ _ B) as [Ne Lt]. specialize (Hb Ne). lia. }
  destruct (p_lock ps) as [h|] eqn:El.
  - destruct (Q3 h eq_refl) as [Hh Hne].
    assert (Nf : finished_t (st_thr (p_st ps) h) = false).
    { unfold finished_t. destruct (t_stack (st_thr (p_st ps) h)); [contradiction|reflexivity]. }
    destruct (enabled_or_blocked cfg _ _ I Hh Nf) as [En|(f & below & w & B)].
    + unfold psome_enabled. apply any_below_true with (k := h); [exact Hh|].
      apply pstep_of_step; [left; exact El|exact En].
    + exfalso. apply (Nb _ _ _ _ B). reflexivity.
  - apply all_below_false in Ef. destruct Ef as (g & Hg & Nf).
    destruct (enabled_or_blocked cfg _ _ I Hg Nf) as [En|(f & below & w & B)].
    + unfold psome_enabled. apply any_below_true with (k := g); [exact Hg|].
      apply pstep_of_step; [right; exact El|exact En].
    + exfalso. destruct B as (Hs & (o & Epc) & Ecl).
      destruct (top_frame cfg _ _ _ _ I Hs) as ((_ & _ & _ & F) & _ & _). rewrite Epc in F.
      destruct F as (W1 & _). specialize (Q1 w W1 Ecl). congruence.
Qed.
End Patch.
