(* Props_C05.v — property C05: ONLY theorem statements, each closed by [exact] of a lemma
   from C05_Proofs*, followed by Print Assumptions.

   [run_op dfault hfault pipes db0] is the model C05_Check evaluates: the operation is the
   sequence of pipelines (BEGIN; body; COMMIT|ROLLBACK) recorded in its fault-free run; dfault /
   hfault are ARBITRARY sets of failing driver-operation / hook-invocation indices; bodies are
   arbitrary event lists. The database is the list of statements (identified by their position
   in the fault-free sequence) whose effect is durable. *)
From Verif Require Import Base C05_Model C05_Check C05_Proofs C05_Proofs2 C05_Proofs3.

(* ALL OR NOTHING, one pipeline (Create, Create of a slice, CreateInBatches, Updates, Delete, Save
   of an existing or a key-less record): either no event failed, Error is nil and every statement
   of the operation is durable, or Error is set and the database is exactly as it was — for
   every body, every set of failing driver operations (BEGIN, any statement, COMMIT, ROLLBACK)
   and every set of failing hooks *)
Theorem c05_all_or_nothing_partial : forall dfault hfault b db0,
  let s := run_op dfault hfault [b] db0 in
  (s_err s = [] /\ s_db s = db0 ++ seq 0 (nstmts b)) \/ (s_err s <> [] /\ s_db s = db0).
Proof. exact single_pipeline_all_or_nothing. Qed.
Print Assumptions c05_all_or_nothing_partial.

(* ... and the statement is FALSE for an operation made of two pipelines (what Save does for a
   preset key that matches no row; witness replayed on gorm: corpus/C05, a known finding) *)
Theorem c05_all_or_nothing_refuted :
  exists pipes k, let s := run_op (fault_at (Some k)) (fault_at None) pipes [] in
    s_err s <> [] /\ s_db s <> [] /\ s_db s <> seq 0 (total_stmts pipes) /\ s_open s = 0%Z.
Proof. exact two_pipelines_witness. Qed.
Print Assumptions c05_all_or_nothing_refuted.

(* the general statement, any number of pipelines: exactly the pipelines before the first
   failing one are durable; Error is nil iff all of them committed; Error is the accumulation
   of the failed events; no transaction stays open *)
Theorem c05_operation : forall dfault hfault pipes db0,
  let s := run_op dfault hfault pipes db0 in
  s_open s = 0%Z
  /\ s_err s = map ev_errk (filter ev_failed (rev (s_out s)))
  /\ s_db s = db0 ++ seq 0 (total_stmts (firstn (s_commits s) pipes))
  /\ (s_commits s <= length pipes)%nat
  /\ (s_err s = [] -> s_commits s = length pipes)
  /\ (s_err s <> [] -> (s_commits s < length pipes)%nat).
Proof. exact op_spec. Qed.
Print Assumptions c05_operation.

(* THE FAILURE IS REPORTED: Error is non-nil iff some event failed, and errors.Is finds the error
   of the last failed event (the injected fault / the hook's error) *)
Theorem c05_error_reported : forall dfault hfault pipes db0,
  let s := run_op dfault hfault pipes db0 in
  let failed := filter ev_failed (rev (s_out s)) in
  (failed = [] -> s_err s = []) /\
  (failed <> [] -> s_err s <> [] /\ last (s_err s) XNil = ev_errk (last failed EMark)).
Proof. exact error_reported. Qed.
Print Assumptions c05_error_reported.

(* THE IMPLICIT TRANSACTION IS ALWAYS FINISHED *)
Theorem c05_tx_closed : forall dfault hfault pipes db0, s_open (run_op dfault hfault pipes db0) = 0%Z.
Proof. exact tx_closed. Qed.
Print Assumptions c05_tx_closed.

(* THE GUARD DISCIPLINE: once Error is set no further driver operation is issued by the body *)
Theorem c05_no_statement_after_failure : forall dfault hfault b s, s_err s <> [] ->
  s_nops (fold_left (step dfault hfault) b s) = s_nops s /\ s_work (fold_left (step dfault hfault) b s) = s_work s.
Proof. exact body_silent. Qed.
Print Assumptions c05_no_statement_after_failure.

(* the checker's specification half holds on the model's own output (one pipeline) *)
Theorem c05_spec_holds : forall dfault hfault b db0 free df hf,
  let s := run_op dfault hfault [b] db0 in
  spec_holds (mk_case free df hf false (rev (s_out s)) (last (s_err s) XNil) false
                      (match_of s db0 [b]) 0%Z (s_open s) false) = true.
Proof. exact spec_holds_model. Qed.
Print Assumptions c05_spec_holds.

(* REFUSED BEFORE IT STARTED.  [run_op_pre dfault hfault pre pipes db0] is the same operation called on a
   handle that already carries the errors [pre] (a scope that vetoes the write with AddError, an error
   added to the handle, a value gorm refuses before the first callback) - C05_Check evaluates it on every
   case of kind "pre".  BeginTransaction's guard (db.Error == nil) keeps the implicit transaction from
   being opened at all, every callback body is guarded out, CommitOrRollbackTransaction finds nothing to
   finish: for ANY pipelines and ANY armed faults there is no driver operation (no BEGIN, no statement),
   no hook invocation, the database is exactly as it was, no transaction is open, and the result's Error
   is the error the handle carried *)
Theorem c05_failed_before_start : forall dfault hfault pre pipes db0, pre <> [] ->
  let s := run_op_pre dfault hfault pre pipes db0 in
  s_out s = [] /\ s_nops s = 0%nat /\ s_nhooks s = 0%nat /\ s_db s = db0 /\ s_commits s = 0%nat
  /\ s_open s = 0%Z /\ s_err s = pre.
Proof. exact failed_before_start. Qed.
Print Assumptions c05_failed_before_start.

(* ... and the checker's specification half for such a case holds on the model's own output *)
Theorem c05_pre_spec_holds : forall dfault hfault pipes db0 free df hf,
  let s := run_op_pre dfault hfault [XPre] pipes db0 in
  spec_holds (mk_case free df hf false (rev (s_out s)) (last (s_err s) XNil) false
                      (match_of s db0 pipes) 0%Z (s_open s) true) = true.
Proof. exact pre_spec_holds_model. Qed.
Print Assumptions c05_pre_spec_holds.

(* non-vacuity: a body with hooks and statements, a failing third driver operation *)
Example c05_instance :
  let s := run_op (fault_at (Some 2%nat)) (fault_at None)
             [[EMark; EHook false; EOp DStmt false; EOp DStmt false; EMark; EHook false; EOp DStmt false]] [7%nat] in
  s_err s = [XFault] /\ s_db s = [7%nat] /\ s_open s = 0%Z
  /\ rev (s_out s) = [EOp DBegin false; EHook false; EOp DStmt false; EOp DStmt true; EOp DRollback false].
Proof. vm_compute. repeat split. Qed.
