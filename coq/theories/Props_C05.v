(* Props_C05.v — property C05: ONLY theorem statements. *)
From Verif Require Import Base C05_Model C05_Check C05_Proofs.

Theorem c05_no_pipeline_no_change : forall df hf db, s_db (run_op df hf [] db) = db.
Proof. exact run_op_nil. Qed.
Print Assumptions c05_no_pipeline_no_change.
