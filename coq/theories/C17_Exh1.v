(* C17_Exh1.v — bounded-exhaustive check, pipeline shape of Row/Raw (one built-in), three user names *)
From Verif Require Import Base C17_Model C17_Check C17_Known C17_Proofs3.
Open Scope string_scope.
Open Scope list_scope.

Definition alpha_row : alphabet := mk_alphabet ["gorm:row"] ["u1"; "u2"; "u3"].

Lemma exh_row_count : count_ext 3 alpha_row (builtin_steps (a_builtins alpha_row)) = 152593%N.
Proof. vm_compute. reflexivity. Qed.

Lemma exh_row : all_ok 3 alpha_row (builtin_steps (a_builtins alpha_row)) = true.
Proof. rewrite <- all_ok_inc_eq. vm_compute. reflexivity. Qed.
