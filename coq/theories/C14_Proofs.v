(* C14_Proofs.v — refutation witnesses (schedules found by reading prepare_stmt.go, replayed on
   the real gorm by the corpus of the harness) and elementary facts about [run]. *)
From Verif Require Import Base C14_Model.

Definition tau (t n : nat) : list (nat * choice) := repeat (t, CNone) n.
(* an Exec/Query that finds nothing cached: start, RLock, miss, Lock, publish, call Prepare,
   Prepare returns ok, Lock, store, close(prepared), call the driver *)
Definition prep_ok (t : nat) := tau t 6 ++ [(t, CPrepOk)] ++ tau t 4.

(* W1: goroutine 0 executes text 0 (statement 0 in flight); goroutine 1 resets; the closer
   (goroutine 4) closes statement 0; goroutine 2 caches statement 1 for the same text and is
   done; goroutine 0's execution returns ErrBadConn: delete(Stmts, query) removes goroutine
   2's entry; the final Close (goroutine 3) finds an empty map: statement 1 is never closed. *)
Definition w1_progs := [[OExec 0 false true]; [OReset]; [OExec 0 false true]; [OClose]].
Definition w1_sched := prep_ok 0 ++ tau 1 4 ++ tau 4 2 ++ prep_ok 2 ++ [(2, CExecOk)] ++ tau 2 2
   ++ [(0, CExecBad)] ++ tau 0 4 ++ tau 5 1 ++ tau 3 4.

(* W2: same with a failed Prepare of goroutine 0 instead of ErrBadConn *)
Definition w2_sched := tau 0 6 ++ tau 1 4 ++ prep_ok 2 ++ [(2, CExecOk)] ++ tau 2 2
   ++ [(0, CPrepFail)] ++ tau 0 4 ++ tau 4 2 ++ tau 3 4.

(* W3: no Close, no driver fault: Reset's closer closes the statement between the moment
   goroutine 0 obtained it and the moment it executes it *)
Definition w3_progs := [[OExec 0 false true]; [OReset]].
Definition w3_sched := tau 0 6 ++ [(0, CPrepOk)] ++ tau 0 3 ++ tau 1 4 ++ tau 2 2 ++ tau 0 2.

(* W4: no Reset at all: a Tx-level entry is replaced by a pool-level one (upgrade), then the
   Tx-level Prepare fails and deletes the pool-level entry *)
Definition w4_progs := [[OExec 0 true true]; [OExec 0 false true]; [OClose]].
Definition w4_sched := tau 0 6 ++ prep_ok 1 ++ [(1, CExecOk)] ++ tau 1 2 ++ [(0, CPrepFail)] ++ tau 0 4 ++ tau 2 4.

(* W5: QueryRow after Close: the ErrInvalidDB of prepare is swallowed *)
Definition w5_progs := [[OClose]; [OExec 0 false false]].
Definition w5_sched := tau 0 4 ++ tau 1 6.

Definition results (s : state) : list (list result) := map t_res (s_thr s).
Definition no_faults (sched : list (nat * choice)) : Prop :=
  forall t c, In (t, c) sched -> c = CNone \/ c = CPrepOk \/ c = CExecOk.
Definition has_close (progs : list (list op)) : Prop := exists p, In p progs /\ In OClose p.

(* a boolean test evaluated on the end state of a schedule *)
Lemma run_witness_g : forall g progs sched (P : state -> bool),
  match run (init_g g progs) sched with Some s => P s | None => false end = true ->
  exists s, run (init_g g progs) sched = Some s /\ P s = true.
Proof. intros g progs sched P H. destruct (run (init_g g progs) sched) as [s|]; [eauto | discriminate]. Qed.
Lemma run_witness : forall progs sched (P : state -> bool),
  match run (init progs) sched with Some s => P s | None => false end = true ->
  exists s, run (init progs) sched = Some s /\ P s = true.
Proof. intros progs sched. apply (run_witness_g false). Qed.

Definition nl_eqb := list_eqb Nat.eqb.
Lemma nl_eqb_eq : forall a b, nl_eqb a b = true -> a = b.
Proof. intros a b H. apply (list_eqb_spec Nat.eqb); [intros; apply Nat.eqb_eq | exact H]. Qed.
Definition map_is_nil (s : state) := match s_map s with None => true | Some _ => false end.
Lemma map_is_nil_eq : forall s, map_is_nil s = true -> s_map s = None.
Proof. unfold map_is_nil. intros s H. destruct (s_map s); [discriminate | reflexivity]. Qed.
Definition res_code (r : result) : nat :=
  match r with ROk => 0 | RErrPrep => 1 | RErrInvalid => 2 | RErrClosed => 3 | RErrBad => 4
             | RErrOther => 5 | RPanic => 6 | RNilStmt => 7 end.
Lemma res_code_inj : forall a b, res_code a = res_code b -> a = b.
Proof. intros [] []; cbn; intro H; try reflexivity; discriminate. Qed.
Definition res_eqb (a b : list (list result)) := list_eqb nl_eqb (map (map res_code) a) (map (map res_code) b).
Lemma map_res_code_inj : forall x y, map res_code x = map res_code y -> x = y.
Proof.
  induction x as [|r x IHx]; intros [|r' y] H1; try discriminate; [reflexivity|].
  cbn in H1. inversion H1 as [[Ha Hb]]. f_equal; [apply res_code_inj, Ha | apply IHx, Hb].
Qed.
Lemma res_eqb_eq : forall a b, res_eqb a b = true -> a = b.
Proof.
  unfold res_eqb. intros a b H.
  apply (list_eqb_spec nl_eqb) in H.
  2:{ intros x y; split; [apply nl_eqb_eq | intros ->]. apply (list_eqb_spec Nat.eqb); [intros; apply Nat.eqb_eq | reflexivity]. }
  revert b H. induction a as [|x a IH]; intros [|y b] H; try discriminate; [reflexivity|].
  cbn in H. inversion H as [[H1 H2]]. f_equal; [apply map_res_code_inj, H1|apply IH, H2].
Qed.

Lemma closed_eventually_refuted_w1 :
  exists s, run (init w1_progs) w1_sched = Some s /\ all_done s = true /\ s_map s = None
            /\ leaked s = [1] /\ s_stolen s = true.
Proof.
  destruct (run_witness w1_progs w1_sched
    (fun s => all_done s && map_is_nil s && nl_eqb (leaked s) [1] && s_stolen s)) as [s [R H]];
    [vm_compute; reflexivity|].
  exists s. apply andb_prop in H; destruct H as [H H4]. apply andb_prop in H; destruct H as [H H3].
  apply andb_prop in H; destruct H as [H1 H2].
  repeat split; auto using map_is_nil_eq, nl_eqb_eq.
Qed.

Lemma closed_eventually_refuted_w2 :
  exists s, run (init w1_progs) w2_sched = Some s /\ all_done s = true /\ s_map s = None
            /\ leaked s = [0] /\ s_stolen s = true.
Proof.
  destruct (run_witness w1_progs w2_sched
    (fun s => all_done s && map_is_nil s && nl_eqb (leaked s) [0] && s_stolen s)) as [s [R H]];
    [vm_compute; reflexivity|].
  exists s. apply andb_prop in H; destruct H as [H H4]. apply andb_prop in H; destruct H as [H H3].
  apply andb_prop in H; destruct H as [H1 H2].
  repeat split; auto using map_is_nil_eq, nl_eqb_eq.
Qed.

Lemma closed_eventually_refuted_w4 :
  exists s, run (init w4_progs) w4_sched = Some s /\ all_done s = true /\ s_map s = None
            /\ leaked s = [0] /\ s_stolen s = true /\ ~ In OReset (List.concat w4_progs).
Proof.
  destruct (run_witness w4_progs w4_sched
    (fun s => all_done s && map_is_nil s && nl_eqb (leaked s) [0] && s_stolen s)) as [s [R H]];
    [vm_compute; reflexivity|].
  exists s. apply andb_prop in H; destruct H as [H H4]. apply andb_prop in H; destruct H as [H H3].
  apply andb_prop in H; destruct H as [H1 H2].
  repeat split; auto using map_is_nil_eq, nl_eqb_eq.
  cbn. intros [E|[E|[E|[]]]]; discriminate.
Qed.

Lemma no_faults_w3 : no_faults w3_sched.
Proof.
  intros t c H. cbv in H.
  repeat (destruct H as [H|H]; [inversion H; subst; auto|]). destruct H.
Qed.

Lemma transparent_refuted_w3 : forall g,
  exists s, run (init_g g w3_progs) w3_sched = Some s /\ all_done s = true
            /\ no_faults w3_sched /\ ~ has_close w3_progs
            /\ results s = [[RErrClosed]; [ROk]; []].
Proof.
  intro g.
  destruct (run_witness_g g w3_progs w3_sched
    (fun s => all_done s && res_eqb (results s) [[RErrClosed]; [ROk]; []])) as [s [R H]];
    [destruct g; vm_compute; reflexivity|].
  exists s. apply andb_prop in H; destruct H as [H1 H2].
  split; [exact R|]. split; [exact H1|]. split; [exact no_faults_w3|]. split; [|apply res_eqb_eq, H2].
  intros [p [Hp Hc]]. cbn in Hp. destruct Hp as [<-|[<-|[]]]; cbn in Hc;
    repeat (destruct Hc as [Hc|Hc]; [discriminate|]); destruct Hc.
Qed.

Lemma clean_error_refuted_w5 : forall g,
  exists s, run (init_g g w5_progs) w5_sched = Some s /\ all_done s = true
            /\ results s = [[ROk]; [RPanic]].
Proof.
  intro g.
  destruct (run_witness_g g w5_progs w5_sched
    (fun s => all_done s && res_eqb (results s) [[ROk]; [RPanic]])) as [s [R H]];
    [destruct g; vm_compute; reflexivity|].
  exists s. apply andb_prop in H; destruct H as [H1 H2].
  repeat split; auto using res_eqb_eq.
Qed.
