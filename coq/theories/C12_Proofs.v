(* C12_Proofs.v — has one / has many (and polymorphic has many): every operation of association
   mode changes each owner's stored link set as the finite-set reading says, keeps the in-memory
   field equal (as a set) to the links, and removes only links unless Unscoped. *)
From Verif Require Import Base C12_Model.
Open Scope Z_scope.

(* ---------------- memz ---------------- *)
Lemma memz_In x l : memz x l = true <-> In x l.
Proof.
  unfold memz. rewrite existsb_exists. split.
  - intros [y [H E]]. apply Z.eqb_eq in E. subst. exact H.
  - intro H. exists x. split; [exact H | apply Z.eqb_refl].
Qed.
Lemma memz_false x l : memz x l = false <-> ~ In x l.
Proof. rewrite <- memz_In. destruct (memz x l); split; intro H; try reflexivity; try discriminate; congruence. Qed.
Lemma memz_app x a b : memz x (a ++ b) = memz x a || memz x b.
Proof. unfold memz. apply existsb_app. Qed.

(* ---------------- the foreign-key table as a partial function ---------------- *)
Definition fkt := list (Z * option Z).
Fixpoint look (r : fkt) (t : Z) : option (option Z) :=
  match r with [] => None | (t', f) :: r' => if t' =? t then Some f else look r' t end.

Lemma look_In r : forall t f, look r t = Some f -> In (t, f) r.
Proof.
  induction r as [|[t' f'] r IH]; intros t f; cbn; [discriminate|].
  destruct (t' =? t) eqn:E.
  - apply Z.eqb_eq in E. subst. intro H. inversion H. left. reflexivity.
  - intro H. right. apply IH. exact H.
Qed.

Lemma In_look r : NoDup (map fst r) -> forall t f, In (t, f) r -> look r t = Some f.
Proof.
  induction r as [|[t' f'] r IH]; intros ND t f H; [destruct H|]. cbn in *. inversion ND; subst.
  destruct H as [H|H].
  - inversion H; subst. rewrite Z.eqb_refl. reflexivity.
  - destruct (t' =? t) eqn:E; [|apply IH; assumption].
    apply Z.eqb_eq in E. subst. exfalso. apply H2. apply in_map_iff. exists (t, f). split; [reflexivity | exact H].
Qed.

Lemma look_none r t : look r t = None <-> ~ In t (map fst r).
Proof.
  induction r as [|[t' f'] r IH]; cbn; [split; [intros _ [] | reflexivity]|].
  destruct (t' =? t) eqn:E.
  - apply Z.eqb_eq in E. subst. split; [discriminate | intro H; exfalso; apply H; left; reflexivity].
  - apply Z.eqb_neq in E. rewrite IH. split; intro H; [intros [A|A]; [congruence | exact (H A)] | intro A; apply H; right; exact A].
Qed.

Lemma look_upsert t o r t' : look (upsert t o r) t' = if t' =? t then Some (Some o) else look r t'.
Proof.
  induction r as [|[a f] r IH]; cbn.
  - rewrite (Z.eqb_sym t t'). reflexivity.
  - destruct (a =? t) eqn:E; cbn.
    + apply Z.eqb_eq in E. subst a. rewrite (Z.eqb_sym t t'). destruct (t' =? t); reflexivity.
    + destruct (a =? t') eqn:E'; [|exact IH].
      apply Z.eqb_eq in E'. subst a. rewrite E. reflexivity.
Qed.

Lemma fst_upsert t o r : forall x, In x (map fst (upsert t o r)) <-> x = t \/ In x (map fst r).
Proof.
  induction r as [|[a f] r IH]; intro x; cbn; [intuition congruence|].
  destruct (a =? t) eqn:E; cbn.
  - apply Z.eqb_eq in E. subst. intuition congruence.
  - rewrite IH. intuition congruence.
Qed.

Lemma nodup_upsert t o r : NoDup (map fst r) -> NoDup (map fst (upsert t o r)).
Proof.
  induction r as [|[a f] r IH]; cbn; intro ND.
  - constructor; [intros [] | constructor].
  - inversion ND; subst. destruct (a =? t) eqn:E; cbn.
    + constructor; assumption.
    + constructor; [|apply IH; assumption]. rewrite fst_upsert. intros [H|H]; [|contradiction].
      subst. rewrite Z.eqb_refl in E. discriminate.
Qed.

Lemma fst_null P r : map fst (null_where P r) = map fst r.
Proof. unfold null_where. rewrite map_map. apply map_ext. intro p. destruct (P p); reflexivity. Qed.

Lemma look_null P r t :
  look (null_where P r) t = match look r t with Some f => if P (t, f) then Some None else Some f | None => None end.
Proof.
  induction r as [|[a f] r IH]; cbn; [reflexivity|].
  destruct (P (a, f)) eqn:EP; cbn; destruct (a =? t) eqn:E; try exact IH.
  - apply Z.eqb_eq in E. subst. rewrite EP. reflexivity.
  - apply Z.eqb_eq in E. subst. rewrite EP. reflexivity.
Qed.

Lemma fst_delete (P : Z * option Z -> bool) r x : In x (map fst (delete_where P r)) -> In x (map fst r).
Proof.
  unfold delete_where. rewrite !in_map_iff. intros [p [E H]]. apply filter_In in H. exists p. tauto.
Qed.

Lemma nodup_delete (P : Z * option Z -> bool) r : NoDup (map fst r) -> NoDup (map fst (delete_where P r)).
Proof.
  induction r as [|p r IH]; cbn; intro ND; [constructor|]. inversion ND; subst.
  unfold delete_where in *. cbn. destruct (P p); cbn; [apply IH; assumption|]. constructor; [|apply IH; assumption].
  intro H. apply H1. eapply (fst_delete P). exact H.
Qed.

Lemma look_delete P r t : NoDup (map fst r) ->
  look (delete_where P r) t = match look r t with Some f => if P (t, f) then None else Some f | None => None end.
Proof.
  unfold delete_where. induction r as [|[a f] r IH]; cbn; intro ND; [reflexivity|]. inversion ND; subst.
  destruct (P (a, f)) eqn:EP; cbn; destruct (a =? t) eqn:E.
  - apply Z.eqb_eq in E. subst. rewrite EP.
    rewrite IH by assumption. assert (L : look r t = None) by (apply look_none; assumption). rewrite L. reflexivity.
  - apply IH; assumption.
  - apply Z.eqb_eq in E. subst. rewrite EP. reflexivity.
  - apply IH; assumption.
Qed.

Lemma look_fold_upsert o m : forall r t,
  look (fold_left (fun r t => upsert t o r) m r) t = if memz t m then Some (Some o) else look r t.
Proof.
  induction m as [|x m IH]; intros r t; cbn; [reflexivity|].
  rewrite IH, look_upsert. fold (memz t m). destruct (memz t m); cbn; [rewrite orb_true_r; reflexivity|].
  rewrite orb_false_r. reflexivity.
Qed.

Lemma nodup_fold_upsert o m : forall r, NoDup (map fst r) -> NoDup (map fst (fold_left (fun r t => upsert t o r) m r)).
Proof. induction m as [|x m IH]; intros r ND; cbn; [exact ND|]. apply IH, nodup_upsert, ND. Qed.

Lemma fst_fold_upsert o m : forall r x, In x (map fst r) -> In x (map fst (fold_left (fun r t => upsert t o r) m r)).
Proof. induction m as [|y m IH]; intros r x H; cbn; [exact H|]. apply IH. apply fst_upsert. right. exact H. Qed.

(* ---------------- links of the has-kinds ---------------- *)
Definition is_has (k : kind) : Prop := k = KHasOne \/ k = KHasMany.

Lemma links_has k s o t : is_has k -> NoDup (map fst (rows s)) ->
  (In t (links k s o) <-> look (rows s) t = Some (Some o)).
Proof.
  intros Hk ND.
  assert (E : links k s o = map fst (filter (fun p => match snd p with Some o' => o' =? o | None => false end) (rows s)))
    by (destruct Hk; subst; reflexivity).
  rewrite E, in_map_iff. split.
  - intros [[t' f] [E1 H]]. cbn in E1. subst t'. apply filter_In in H. destruct H as [H F]. cbn in F.
    destruct f as [o'|]; [|discriminate]. apply Z.eqb_eq in F. subst. apply In_look; assumption.
  - intro L. exists (t, Some o). split; [reflexivity|]. apply filter_In. split; [apply look_In; exact L | cbn; apply Z.eqb_refl].
Qed.

(* ---------------- the save loop ---------------- *)
Definition rows_only (s s' : st) : Prop := joins s' = joins s /\ tgt s' = tgt s.

Lemma save_owner_has k o m s : is_has k ->
  save_owner k o m s = mk_st (fold_left (fun r t => upsert t o r) m (rows s)) (joins s) (tgt s) (mem s).
Proof. intros [->| ->]; reflexivity. Qed.

(* after the loop: a target held by exactly one new field belongs to that owner; a target held by
   none is untouched *)
Lemma save_loop_has k clear : is_has k -> forall os vs ms s,
  length vs = length os -> length ms = length os ->
  let r := save_loop k clear os vs ms s in
  fst r = map (fun mv => new_field k clear (fst mv) (snd mv)) (combine ms vs) /\
  joins (snd r) = joins s /\ tgt (snd r) = tgt s /\
  (NoDup (map fst (rows s)) -> NoDup (map fst (rows (snd r)))) /\
  (forall x, In x (map fst (rows s)) -> In x (map fst (rows (snd r)))) /\
  (forall t, (forall m, In m (fst r) -> ~ In t m) -> look (rows (snd r)) t = look (rows s) t) /\
  (forall i o m t, nth_error os i = Some o -> nth_error (fst r) i = Some m -> In t m ->
     (forall j m', (j > i)%nat -> nth_error (fst r) j = Some m' -> ~ In t m') ->
     look (rows (snd r)) t = Some (Some o)).
Proof.
  intro Hk. induction os as [|o os IH]; intros vs ms s Lv Lm.
  - destruct vs, ms; try discriminate. cbn. repeat split; auto. intros i o m t H. destruct i; discriminate.
  - destruct vs as [|v vs]; [discriminate|]. destruct ms as [|m ms]; [discriminate|].
    cbn in Lv, Lm. injection Lv as Lv. injection Lm as Lm.
    cbn [save_loop].
    set (m' := new_field k clear m v). set (s1 := save_owner k o m' s).
    specialize (IH vs ms s1 Lv Lm). cbn zeta in IH.
    destruct (save_loop k clear os vs ms s1) as [rest s2] eqn:ES. cbn [fst snd] in *.
    destruct IH as [I1 [I2 [I3 [I4 [I5 [I6 I7]]]]]].
    assert (R1 : rows s1 = fold_left (fun r t => upsert t o r) m' (rows s)) by (unfold s1; rewrite save_owner_has by exact Hk; reflexivity).
    assert (J1 : joins s1 = joins s) by (unfold s1; rewrite save_owner_has by exact Hk; reflexivity).
    assert (T1 : tgt s1 = tgt s) by (unfold s1; rewrite save_owner_has by exact Hk; reflexivity).
    cbn zeta. cbn [fst snd combine map].
    split; [f_equal; exact I1|]. split; [congruence|]. split; [congruence|].
    split; [intro ND; apply I4; rewrite R1; apply nodup_fold_upsert, ND|].
    split; [intros x Hx; apply I5; rewrite R1; apply fst_fold_upsert, Hx|].
    split.
    + intros t Hn. rewrite I6.
      * rewrite R1, look_fold_upsert.
        assert (N : memz t m' = false) by (apply memz_false, Hn; left; reflexivity). rewrite N. reflexivity.
      * intros x Hx. apply Hn. right. exact Hx.
    + intros i o' mm t Ho Hm Ht Hlater. destruct i as [|i]; cbn in Ho, Hm.
      * inversion Ho; inversion Hm; subst o' mm.
        rewrite I6.
        -- rewrite R1, look_fold_upsert. assert (Y : memz t m' = true) by (apply memz_In, Ht). rewrite Y. reflexivity.
        -- intros x Hx. apply In_nth_error in Hx. destruct Hx as [j Hj].
           apply (Hlater (S j) x); [lia | exact Hj].
      * apply (I7 i o' mm t Ho Hm Ht). intros j x Hj Hx. apply (Hlater (S j) x); [lia | exact Hx].
Qed.

(* ---------------- well-formed states of a has-one / has-many handle ---------------- *)
Definition LK (s : st) (o t : Z) : Prop := look (rows s) t = Some (Some o).

Record wf_has (os : list Z) (s : st) : Prop := {
  wf_nd : NoDup (map fst (rows s));
  wf_os : NoDup os;
  wf_len : length (mem s) = length os;
  (* the in-memory field of every owner holds exactly its links *)
  wf_mem : forall i o m, nth_error os i = Some o -> nth_error (mem s) i = Some m ->
                         forall t, In t m <-> LK s o t
}.

Definition disjoint_lists (vs : list (list Z)) : Prop :=
  forall i j vi vj t, i <> j -> nth_error vs i = Some vi -> nth_error vs j = Some vj -> In t vi -> ~ In t vj.
(* no target passed for owner i is currently linked to another owner j of the same handle *)
Definition no_steal (os : list Z) (s : st) (vs : list (list Z)) : Prop :=
  forall i j o vi t, i <> j -> nth_error vs i = Some vi -> nth_error os j = Some o -> In t vi -> ~ LK s o t.

Definition op_ok_has (k : kind) (os : list Z) (s : st) (o : op) : Prop :=
  match o with
  | OAppend vs => length vs = length os /\ disjoint_lists vs /\
                  (k = KHasMany -> no_steal os s vs) /\ (k = KHasOne -> Forall (fun v => length v = 1%nat) vs)
  | OReplace vs => length vs = length os /\ disjoint_lists vs /\
                   (k = KHasOne -> Forall (fun v => length v = 1%nat) vs)
  | _ => True
  end.

Lemma NoDup_nth_inj {A} (l : list A) i j x : NoDup l -> nth_error l i = Some x -> nth_error l j = Some x -> i = j.
Proof.
  intros ND Hi Hj. apply (proj1 (NoDup_nth_error l) ND); [apply nth_error_Some; congruence | congruence].
Qed.

Lemma in_os_In os f : in_os os f = true <-> exists o, f = Some o /\ In o os.
Proof.
  destruct f as [o|]; cbn; [rewrite memz_In|]; split.
  - intro H. exists o. auto.
  - intros [o' [E H]]. inversion E. subst. exact H.
  - discriminate.
  - intros [o' [E _]]. discriminate.
Qed.

Lemma nth_error_combine {A B} (l1 : list A) (l2 : list B) i a b :
  nth_error l1 i = Some a -> nth_error l2 i = Some b -> nth_error (combine l1 l2) i = Some (a, b).
Proof.
  revert l2 i. induction l1 as [|x l1 IH]; intros [|y l2] [|i]; cbn; try discriminate.
  - intros H1 H2. inversion H1; inversion H2. reflexivity.
  - apply IH.
Qed.

Lemma nth_error_ex {A} (l : list A) i : (i < length l)%nat -> exists x, nth_error l i = Some x.
Proof. intro H. destruct (nth_error l i) eqn:E; [eauto | apply nth_error_None in E; lia]. Qed.

(* what save_assoc does to the foreign keys when the new fields are pairwise disjoint *)
Lemma save_assoc_has k clear os vs s : is_has k ->
  length vs = length os -> length (mem s) = length os -> NoDup os ->
  let ms' := map (fun mv => new_field k clear (fst mv) (snd mv)) (combine (mem s) vs) in
  disjoint_lists ms' ->
  let s1 := save_assoc k clear os vs s in
  mem s1 = ms' /\ joins s1 = joins s /\ tgt s1 = tgt s /\
  (NoDup (map fst (rows s)) -> NoDup (map fst (rows s1))) /\
  (forall x, In x (map fst (rows s)) -> In x (map fst (rows s1))) /\
  (forall i o m, nth_error os i = Some o -> nth_error ms' i = Some m -> forall t,
     LK s1 o t <-> In t m \/ ((forall j mj, nth_error ms' j = Some mj -> ~ In t mj) /\ LK s o t)).
Proof.
  intros Hk Lv Lm ND ms' DJ s1.
  pose proof (save_loop_has k clear Hk os vs (mem s) s Lv Lm) as H. cbn zeta in H.
  unfold s1, save_assoc. destruct (save_loop k clear os vs (mem s) s) as [ms2 s2] eqn:ES. cbn [fst snd] in H.
  destruct H as [I1 [I2 [I3 [I4 [I5 [I6 I7]]]]]]. cbn [mem joins tgt rows].
  fold ms' in I1. subst ms2.
  repeat split; auto.
  - (* -> *)
    unfold LK. cbn [rows]. intro L.
    destruct (existsb (memz t) ms') eqn:EX.
    + apply existsb_exists in EX. destruct EX as [mj [Hin Hmem]]. apply memz_In in Hmem.
      apply In_nth_error in Hin. destruct Hin as [j Hj].
      assert (Lj : (j < length os)%nat).
      { assert (Q : (j < length ms')%nat) by (apply nth_error_Some; congruence).
        unfold ms' in Q. rewrite map_length, combine_length in Q. lia. }
      destruct (nth_error_ex os j Lj) as [oj Hoj].
      assert (LJ : look (rows s2) t = Some (Some oj)).
      { apply (I7 j oj mj t Hoj Hj Hmem). intros j' m' Hgt Hj' Hin'. apply (DJ j j' mj m' t); auto; lia. }
      rewrite L in LJ. inversion LJ; subst oj.
      assert (i = j) by (eapply NoDup_nth_inj; eauto). subst j. left. congruence.
    + right. assert (NN : forall j mj, nth_error ms' j = Some mj -> ~ In t mj).
      { intros j mj Hj Hin. apply nth_error_In in Hj.
        assert (existsb (memz t) ms' = true) by (apply existsb_exists; exists mj; split; [exact Hj | apply memz_In, Hin]). congruence. }
      split; [exact NN|]. rewrite <- L. symmetry. apply I6. intros mm Hmm Hin. apply In_nth_error in Hmm. destruct Hmm as [j Hj]. exact (NN j mm Hj Hin).
  - (* <- *)
    unfold LK. cbn [rows]. intros [Hin | [NN L]].
    + apply (I7 i o m t H H0 Hin). intros j m' Hgt Hj Hin'. apply (DJ i j m m' t); auto; lia.
    + rewrite <- L. apply I6. intros mm Hmm Hin. apply In_nth_error in Hmm. destruct Hmm as [j Hj]. exact (NN j mm Hj Hin).
Qed.
