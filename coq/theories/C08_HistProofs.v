(* C08_HistProofs.v — proofs about the history model of C08_Hist.v *)
From Verif Require Import Base C08_Hist.
Open Scope Z_scope.

Lemma erase_app a b : erase (a ++ b) = erase a ++ erase b.
Proof. unfold erase. rewrite filter_app, map_app. reflexivity. Qed.

Lemma erase_cons r s : erase (r :: s) = if live r then (hid r, hval r) :: erase s else erase s.
Proof. unfold erase. cbn [filter]. destruct (live r); reflexivity. Qed.

Lemma pholds_pair p r : pholds p (hid r, hval r) = rholds p r.
Proof. reflexivity. Qed.

Lemma count_cons {A} (f : A -> bool) x l : count f (x :: l) = (if f x then 1 else 0) + count f l.
Proof. unfold count. cbn [filter]. destruct (f x); cbn [length]; lia. Qed.

(* counting the live rows that satisfy p = counting in the erased table *)
Lemma count_erase p s :
  count (fun r => live r && rholds p r) s = count (pholds p) (erase s).
Proof.
  induction s as [|r s IH]; [reflexivity|].
  rewrite count_cons, erase_cons, IH. destruct (live r) eqn:El; cbn [andb].
  - rewrite count_cons. reflexivity.
  - reflexivity.
Qed.

Lemma find_erase p s :
  map hid (filter (fun r => live r && rholds p r) s) = map fst (filter (pholds p) (erase s)).
Proof.
  induction s as [|r s IH]; [reflexivity|].
  rewrite erase_cons. cbn [filter]. destruct (live r) eqn:El; cbn [andb].
  - cbn [filter]. rewrite pholds_pair.
    destruct (rholds p r); cbn [map]; rewrite IH; reflexivity.
  - exact IH.
Qed.

Lemma erase_delete p t s :
  erase (map (fun r => if live r && rholds p r then mk_hrow (hid r) (hval r) (Some t) else r) s)
  = filter (fun r => negb (pholds p r)) (erase s).
Proof.
  induction s as [|r s IH]; [reflexivity|].
  cbn [map]. rewrite !erase_cons, IH. destruct (live r) eqn:El; cbn [andb].
  - cbn [filter]. rewrite pholds_pair.
    destruct (rholds p r); cbn [live hdel negb]; [reflexivity|]. rewrite El. reflexivity.
  - rewrite El. reflexivity.
Qed.

Lemma erase_udelete p s :
  erase (filter (fun r => negb (rholds p r)) s) = filter (fun r => negb (pholds p r)) (erase s).
Proof.
  induction s as [|r s IH]; [reflexivity|].
  cbn [filter]. rewrite erase_cons. destruct (rholds p r) eqn:Eh; cbn [negb].
  - rewrite IH. destruct (live r); [|reflexivity]. cbn [filter]. rewrite pholds_pair. rewrite Eh. reflexivity.
  - rewrite erase_cons, IH. destruct (live r); [|reflexivity]. cbn [filter]. rewrite pholds_pair. rewrite Eh. reflexivity.
Qed.

Lemma erase_update p v s :
  erase (map (fun r => if live r && rholds p r then mk_hrow (hid r) v (hdel r) else r) s)
  = map (fun r => if pholds p r then (fst r, v) else r) (erase s).
Proof.
  induction s as [|r s IH]; [reflexivity|].
  cbn [map]. rewrite !erase_cons, IH. destruct (live r) eqn:El; cbn [andb].
  - cbn [map]. rewrite pholds_pair.
    destruct (rholds p r); [|rewrite El; reflexivity].
    replace (live {| hid := hid r; hval := v; hdel := hdel r |}) with (live r) by reflexivity.
    rewrite El. reflexivity.
  - rewrite El. reflexivity.
Qed.

Lemma erase_uupdate p v s :
  erase (map (fun r => if rholds p r then mk_hrow (hid r) v (hdel r) else r) s)
  = map (fun r => if pholds p r then (fst r, v) else r) (erase s).
Proof.
  induction s as [|r s IH]; [reflexivity|].
  cbn [map]. rewrite !erase_cons, IH. destruct (rholds p r) eqn:Eh.
  - replace (live {| hid := hid r; hval := v; hdel := hdel r |}) with (live r) by reflexivity.
    destruct (live r); [|reflexivity].
    cbn [map]. rewrite pholds_pair. rewrite Eh. reflexivity.
  - destruct (live r); [|reflexivity].
    cbn [map]. rewrite pholds_pair. rewrite Eh. reflexivity.
Qed.

(* one step: the visible part of the new table is the plain step on the visible part of the old
   one; a scoped step also observes exactly what the plain step observes *)
Lemma step_sim s o :
  erase (fst (hstep s o)) = fst (pstep (erase s) o) /\
  (is_scoped o = true -> snd (hstep s o) = snd (pstep (erase s) o)).
Proof.
  destruct o as [i v|p t|p|p v|p v|p|p]; cbn [hstep pstep fst snd is_scoped].
  - split; [|reflexivity]. rewrite erase_app. reflexivity.
  - split; [apply erase_delete|]. intros _. rewrite count_erase. reflexivity.
  - split; [apply erase_udelete|discriminate].
  - split; [apply erase_update|]. intros _. rewrite count_erase. reflexivity.
  - split; [apply erase_uupdate|discriminate].
  - split; [reflexivity|]. intros _. apply find_erase.
  - split; [reflexivity|discriminate].
Qed.

Lemma hrun_cons s o r :
  hrun s (o :: r) = (fst (hrun (fst (hstep s o)) r), snd (hstep s o) :: snd (hrun (fst (hstep s o)) r)).
Proof. cbn [hrun]. destruct (hstep s o) as [s1 ob]. cbn [fst snd]. destruct (hrun s1 r). reflexivity. Qed.
Lemma prun_cons s o r :
  prun s (o :: r) = (fst (prun (fst (pstep s o)) r), snd (pstep s o) :: snd (prun (fst (pstep s o)) r)).
Proof. cbn [prun]. destruct (pstep s o) as [s1 ob]. cbn [fst snd]. destruct (prun s1 r). reflexivity. Qed.

(* every history: what a caller who never says Unscoped can see - the rows, and the result of each
   of his operations - is what the same history does to a table that never held the marked rows and
   on which Delete removes rows *)
Theorem run_sim : forall ops s,
  erase (fst (hrun s ops)) = fst (prun (erase s) ops) /\
  scoped_obs ops (snd (hrun s ops)) = scoped_obs ops (snd (prun (erase s) ops)).
Proof.
  induction ops as [|o r IH]; intros s; [split; reflexivity|].
  rewrite hrun_cons, prun_cons. cbn [fst snd scoped_obs].
  destruct (step_sim s o) as [He Ho]. rewrite <- He.
  destruct (IH (fst (hstep s o))) as [IH1 IH2]. split; [exact IH1|].
  rewrite IH2. destruct (is_scoped o) eqn:Es; [rewrite (Ho eq_refl)|]; reflexivity.
Qed.

(* a scoped step leaves every marked row exactly as it was (value and stamp) *)
Lemma marked_untouched s o r :
  is_scoped o = true -> In r s -> live r = false -> In r (fst (hstep s o)).
Proof.
  intros Hs Hin Hl. destruct o as [i v|p t|p|p v|p v|p|p]; try discriminate; cbn [hstep fst].
  - apply in_or_app. left. exact Hin.
  - apply in_map_iff. exists r. rewrite Hl. split; [reflexivity|exact Hin].
  - apply in_map_iff. exists r. rewrite Hl. split; [reflexivity|exact Hin].
  - exact Hin.
Qed.

(* a scoped step never removes a row: Delete marks *)
Lemma scoped_keeps_rows s o :
  is_scoped o = true ->
  map hid (fst (hstep s o)) = map hid s ++ match o with OCreate i _ => [i] | _ => [] end.
Proof.
  intros Hs. destruct o as [i v|p t|p|p v|p v|p|p]; try discriminate; cbn [hstep fst]; rewrite ?app_nil_r.
  - rewrite map_app. reflexivity.
  - rewrite map_map. apply map_ext. intros r. destruct (live r && rholds p r); reflexivity.
  - rewrite map_map. apply map_ext. intros r. destruct (live r && rholds p r); reflexivity.
  - reflexivity.
Qed.

(* deleting again changes nothing, not even the stamp *)
Lemma delete_idem s p t t' :
  fst (hstep (fst (hstep s (ODelete p t))) (ODelete p t')) = fst (hstep s (ODelete p t)).
Proof.
  cbn [hstep fst]. rewrite map_map. apply map_ext. intros r.
  destruct (live r && rholds p r) eqn:E; cbn [live hdel andb]; [reflexivity|]. rewrite E. reflexivity.
Qed.

(* Unscoped delete removes the rows physically, marked or not *)
Lemma udelete_removes s p r : In r (fst (hstep s (OUDelete p))) -> rholds p r = false.
Proof.
  cbn [hstep fst]. intros H. apply filter_In in H. destruct H as [_ H]. apply negb_true_iff in H. exact H.
Qed.

(* Unscoped read sees marked rows again *)
Lemma ufind_sees_marked s p r : In r s -> rholds p r = true -> In (hid r) (snd (hstep s (OUFind p))).
Proof.
  intros Hin Hh. cbn [hstep snd]. apply in_map. apply filter_In. split; assumption.
Qed.

(* ---- writes that name their records through the Model / Delete value (HKeys) ---- *)

(* a scoped write through a slice of records changes only LIVE rows, and - unless no record of the
   slice has a key - only rows whose key one of the records carries and that satisfy the caller's
   own condition *)
Lemma keys_update_scope s l q v r :
  In r s -> In r (fst (hstep s (OUpdate (HAnd (HKeys l) q) v))) \/
            (live r = true /\ rholds q r = true /\ (named_keys l = [] \/ In (hid r) (named_keys l))).
Proof.
  intros Hin. destruct (live r && rholds (HAnd (HKeys l) q) r) eqn:E.
  - right. apply andb_prop in E. destruct E as [El Eh]. unfold rholds in Eh. cbn [holds] in Eh.
    apply andb_prop in Eh. destruct Eh as [Ek Eq]. repeat split; [exact El|exact Eq|].
    destruct (named_keys l) as [|k ks] eqn:En; [left; reflexivity|right].
    apply existsb_exists in Ek. destruct Ek as [x [Hx Hxe]]. apply Z.eqb_eq in Hxe. subst x. exact Hx.
  - left. cbn [hstep fst]. apply in_map_iff. exists r. rewrite E. split; [reflexivity|exact Hin].
Qed.

Lemma keys_delete_scope s l q t r :
  In r s -> In r (fst (hstep s (ODelete (HAnd (HKeys l) q) t))) \/
            (live r = true /\ rholds q r = true /\ (named_keys l = [] \/ In (hid r) (named_keys l))).
Proof.
  intros Hin. destruct (live r && rholds (HAnd (HKeys l) q) r) eqn:E.
  - right. apply andb_prop in E. destruct E as [El Eh]. unfold rholds in Eh. cbn [holds] in Eh.
    apply andb_prop in Eh. destruct Eh as [Ek Eq]. repeat split; [exact El|exact Eq|].
    destruct (named_keys l) as [|k ks] eqn:En; [left; reflexivity|right].
    apply existsb_exists in Ek. destruct Ek as [x [Hx Hxe]]. apply Z.eqb_eq in Hxe. subst x. exact Hx.
  - left. cbn [hstep fst]. apply in_map_iff. exists r. rewrite E. split; [reflexivity|exact Hin].
Qed.

(* a write that names only marked records changes nothing at all and reports 0 rows *)
Lemma keys_of_marked_noop s l q v t :
  named_keys l <> [] ->
  (forall r, In r s -> In (hid r) (named_keys l) -> live r = false) ->
  hstep s (OUpdate (HAnd (HKeys l) q) v) = (s, [0]) /\ hstep s (ODelete (HAnd (HKeys l) q) t) = (s, [0]).
Proof.
  intros Hne Hm.
  assert (Hf : forall r, In r s -> live r && rholds (HAnd (HKeys l) q) r = false).
  { intros r Hin. destruct (live r) eqn:El; [|reflexivity]. cbn [andb]. unfold rholds. cbn [holds].
    destruct (named_keys l) as [|k ks] eqn:En; [congruence|].
    destruct (existsb (Z.eqb (hid r)) (k :: ks)) eqn:Ee; [|reflexivity].
    apply existsb_exists in Ee. destruct Ee as [x [Hx Hxe]]. apply Z.eqb_eq in Hxe. subst x.
    rewrite (Hm r Hin Hx) in El. discriminate. }
  assert (Hc : count (fun r => live r && rholds (HAnd (HKeys l) q) r) s = 0).
  { unfold count. replace (filter _ s) with (@nil hrow); [reflexivity|].
    clear -Hf. induction s as [|r s IH]; [reflexivity|]. cbn [filter].
    rewrite (Hf r (or_introl eq_refl)). apply IH. intros x Hx. apply Hf. right. exact Hx. }
  cbn [hstep]. rewrite Hc. split; f_equal.
  - clear -Hf. induction s as [|r s IH]; [reflexivity|]. cbn [map].
    rewrite (Hf r (or_introl eq_refl)). f_equal. apply IH. intros x Hx. apply Hf. right. exact Hx.
  - clear -Hf. induction s as [|r s IH]; [reflexivity|]. cbn [map].
    rewrite (Hf r (or_introl eq_refl)). f_equal. apply IH. intros x Hx. apply Hf. right. exact Hx.
Qed.
