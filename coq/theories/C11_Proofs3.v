(* C11_Proofs3.v — string / decimal lemmas used for the current encoding (C11_Proofs5), and, as a
   historical note, the sufficient condition under which the PREVIOUS utils.ToStringKey (before fix
   5d340d3) was faithful to value equality: no '_' in string parts, no string "nil", no by-value
   integer 0, same column types (each clause had a failing witness, C11_Proofs2). *)
From Coq Require Import DecimalString DecimalZ.
From Verif Require Import Base C11_Model C11_Proofs.
Open Scope nat_scope.

(* ---------------- strings without the separator ---------------- *)
Fixpoint has_us (s : string) : bool :=
  match s with EmptyString => false | String a r => Ascii.eqb a "_" || has_us r end.

Lemma has_us_app a b : has_us (a ++ b)%string = has_us a || has_us b.
Proof. induction a as [|c a IH]; cbn; [reflexivity|]. rewrite IH, orb_assoc. reflexivity. Qed.

(* x ++ "_" ++ r = y ++ "_" ++ r' with no '_' in x, y *)
Lemma split_us : forall x y r r',
  has_us x = false -> has_us y = false ->
  (x ++ String "_" r)%string = (y ++ String "_" r')%string -> x = y /\ r = r'.
Proof.
  induction x as [|a x IH]; intros [|b y] r r' Hx Hy E; cbn in *.
  - inversion E. split; reflexivity.
  - inversion E; subst. rewrite Ascii.eqb_refl in Hy. discriminate.
  - inversion E; subst. rewrite Ascii.eqb_refl in Hx. discriminate.
  - inversion E; subst. apply orb_false_elim in Hx. apply orb_false_elim in Hy.
    destruct (IH y r r' (proj2 Hx) (proj2 Hy) H1) as [-> ->]. split; reflexivity.
Qed.

Lemma no_us_not_split : forall x y r, has_us x = false -> x <> (y ++ String "_" r)%string.
Proof.
  intros x y r H E. subst x. rewrite has_us_app in H. cbn in H. rewrite orb_true_r in H. discriminate.
Qed.

Lemma concat_cons2 sep x y l : String.concat sep (x :: y :: l) = (x ++ sep ++ String.concat sep (y :: l))%string.
Proof. reflexivity. Qed.

Lemma join_inj : forall l1 l2,
  length l1 = length l2 ->
  Forall (fun s => has_us s = false) l1 -> Forall (fun s => has_us s = false) l2 ->
  String.concat "_" l1 = String.concat "_" l2 -> l1 = l2.
Proof.
  induction l1 as [|x l1 IH]; intros [|y l2] L F1 F2 E; cbn in L; try discriminate; [reflexivity|].
  inversion F1 as [|? ? Hx F1']; inversion F2 as [|? ? Hy F2']; subst.
  destruct l1 as [|x' l1], l2 as [|y' l2]; cbn in L; try discriminate.
  - cbn in E. subst. reflexivity.
  - rewrite !concat_cons2 in E. cbn [append] in E.
    destruct (split_us x y _ _ Hx Hy E) as [-> E']. f_equal. apply IH; auto.
Qed.

(* ---------------- decimal printing ---------------- *)
Definition okchar (a : ascii) : bool :=
  existsb (Ascii.eqb a) ["0";"1";"2";"3";"4";"5";"6";"7";"8";"9";"-"]%char.
Fixpoint allok (s : string) : bool :=
  match s with EmptyString => true | String a r => okchar a && allok r end.

Lemma uint_allok d : allok (NilEmpty.string_of_uint d) = true.
Proof. induction d; cbn; auto. Qed.

Lemma dec_allok z : allok (dec z) = true.
Proof.
  unfold dec. destruct (Z.to_int z) as [d|d]; cbn; [apply uint_allok|]. apply uint_allok.
Qed.

Lemma allok_no_us s : allok s = true -> has_us s = false.
Proof.
  induction s as [|a s IH]; cbn; [reflexivity|]. intro H. apply andb_prop in H. destruct H as [Ha Hs].
  rewrite (IH Hs), orb_false_r.
  destruct (Ascii.eqb a "_") eqn:E; [|reflexivity]. apply Ascii.eqb_eq in E. subst a. discriminate.
Qed.

Lemma dec_not_nil z : dec z <> "nil"%string.
Proof. intro E. pose proof (dec_allok z) as H. rewrite E in H. discriminate. Qed.

Lemma dec_inj z z' : dec z = dec z' -> z = z'.
Proof.
  unfold dec. intro E. apply to_int_inj.
  pose proof (NilEmpty.isi (Z.to_int z)) as A. pose proof (NilEmpty.isi (Z.to_int z')) as B.
  rewrite E in A. congruence.
Qed.

(* ---------------- the sufficient condition ---------------- *)
Definition clean_part (p : keypart) : bool :=
  match p with
  | KStr s | KPStr s => negb (has_us s) && negb (String.eqb s "nil")
  | KInt z => negb (Z.eqb z 0)
  | KUint _ | KPInt _ | KNil => true
  end.
Definition clean_key (k : key) : bool := forallb clean_part k.

(* same column type (or NULL on one side) *)
Definition sort_ok (p q : keypart) : bool :=
  match part_val p, part_val q with
  | VInt _, VInt _ | VText _, VText _ => true
  | VNull, _ | _, VNull => true
  | _, _ => false
  end.
Definition compat (k1 k2 : key) : Prop := Forall2 (fun p q => sort_ok p q = true) k1 k2.

Lemma clean_no_us p : clean_part p = true -> has_us (part_str_prev p) = false.
Proof.
  destruct p; cbn; intro H; try (apply allok_no_us, dec_allok); try reflexivity.
  - apply andb_prop in H. destruct H as [H _]. destruct (has_us s); [discriminate | reflexivity].
  - apply andb_prop in H. destruct H as [H _]. destruct (has_us s); [discriminate | reflexivity].
  - destruct (Z.eqb z 0); [discriminate|]. apply allok_no_us, dec_allok.
Qed.

Lemma clean_str_not_nil s : negb (has_us s) && negb (String.eqb s "nil") = true -> s <> "nil"%string.
Proof.
  intros H E. apply andb_prop in H. destruct H as [_ H]. subst s. discriminate.
Qed.

(* printing decides the value, part by part *)
Lemma part_str_val p q :
  clean_part p = true -> clean_part q = true -> sort_ok p q = true ->
  part_str_prev p = part_str_prev q -> part_val p = part_val q.
Proof.
  intros Cp Cq S E.
  destruct p as [s|s|n|z|z|], q as [s'|s'|n'|z'|z'|]; cbn in *; try discriminate; try reflexivity;
    try (subst; reflexivity);
    try (exfalso; eapply clean_str_not_nil; eassumption);
    try (exfalso; symmetry in E; eapply clean_str_not_nil; eassumption);
    try (destruct (Z.eqb z 0); [discriminate|]);
    try (destruct (Z.eqb z' 0); [discriminate|]);
    try (apply dec_inj in E; subst; try rewrite (N2Z.inj _ _ E); reflexivity);
    try (exfalso; eapply dec_not_nil; eassumption);
    try (exfalso; symmetry in E; eapply dec_not_nil; eassumption).
Qed.

Lemma part_val_str p q :
  clean_part p = true -> clean_part q = true ->
  part_val p = part_val q -> part_str_prev p = part_str_prev q.
Proof.
  intros Cp Cq E.
  destruct p as [s|s|n|z|z|], q as [s'|s'|n'|z'|z'|]; cbn in *; try discriminate; try reflexivity;
    inversion E; subst; try reflexivity;
    try (destruct (Z.eqb z 0); [discriminate|]);
    try (destruct (Z.eqb z' 0); [discriminate|]);
    try (destruct (Z.eqb (Z.of_N n) 0); [discriminate|]);
    try (destruct (Z.eqb (Z.of_N n') 0); [discriminate|]);
    try reflexivity.
Qed.

Lemma clean_key_forall k : clean_key k = true -> Forall (fun s => has_us s = false) (map part_str_prev k).
Proof.
  unfold clean_key. rewrite forallb_forall. intro H. apply Forall_forall. intros s Hs.
  apply in_map_iff in Hs. destruct Hs as [p [<- Hp]]. apply clean_no_us, H, Hp.
Qed.

Lemma compat_length k1 k2 : compat k1 k2 -> length k1 = length k2.
Proof. induction 1; cbn; auto. Qed.

Lemma tsk_vals k1 k2 :
  clean_key k1 = true -> clean_key k2 = true -> compat k1 k2 ->
  to_string_key_prev k1 = to_string_key_prev k2 -> kvals k1 = kvals k2.
Proof.
  intros C1 C2 Cm E. unfold to_string_key_prev in E.
  apply join_inj in E; [| rewrite !map_length; apply compat_length; exact Cm | apply clean_key_forall; exact C1 | apply clean_key_forall; exact C2].
  unfold clean_key in *. clear - C1 C2 Cm E. induction Cm as [|p q k1 k2 S Cm IH]; cbn in *; [reflexivity|].
  apply andb_prop in C1. apply andb_prop in C2. destruct C1 as [Cp C1], C2 as [Cq C2]. inversion E.
  f_equal; [apply part_str_val; assumption | apply IH; assumption].
Qed.

Lemma vals_tsk k1 k2 :
  clean_key k1 = true -> clean_key k2 = true ->
  kvals k1 = kvals k2 -> to_string_key_prev k1 = to_string_key_prev k2.
Proof.
  intros C1 C2 E. unfold to_string_key_prev. f_equal. unfold clean_key, kvals in *.
  revert k2 C2 E. induction k1 as [|p k1 IH]; intros [|q k2] C2 E; cbn in *; try discriminate; [reflexivity|].
  apply andb_prop in C1. apply andb_prop in C2. destruct C1 as [Cp C1], C2 as [Cq C2]. inversion E.
  f_equal; [apply part_val_str; assumption | apply IH; assumption].
Qed.

Lemma non_null_vals k : non_null k = true -> ~ In VNull (kvals k).
Proof.
  unfold non_null, kvals. induction k as [|p k IH]; cbn; [intros _ []|].
  intro H. apply andb_prop in H. destruct H as [Hp Hk]. intros [E|E]; [destruct p; discriminate | exact (IH Hk E)].
Qed.

Theorem faithful_when ps cs :
  (forall k, In k ps \/ In k cs -> clean_key k = true) ->
  (forall k1 k2, In k1 ps -> In k2 ps \/ In k2 cs -> compat k1 k2) ->
  keys_faithful to_string_key_prev ps cs.
Proof.
  intros Cl Cm. split.
  - intros k1 k2 H1 H2 _ _ E. apply tsk_vals; auto.
  - intros kp kc Hp Hc _ NN. split.
    + intro E. assert (V : kvals kp = kvals kc) by (apply tsk_vals; auto).
      unfold key_eqv. rewrite V. apply tuple_eqb_refl, non_null_vals, NN.
    + intro E. unfold key_eqv in E. apply tuple_eqb_eq in E. destruct E as [E _]. apply vals_tsk; auto.
Qed.

(* non-vacuity: separators-free composite string keys, a NULL foreign key, a duplicate parent *)
Example faithful_instance :
  let ps := [[KStr "a"; KStr "b"]; [KStr "a"; KStr "c"]; [KStr "a"; KStr "b"]] in
  let cs := [[KPStr "a"; KPStr "b"]; [KNil; KPStr "c"]; [KPStr "x y"; KPStr "c"]] in
  keys_faithful to_string_key_prev ps cs.
Proof.
  cbn zeta. apply faithful_when.
  - intros k H. repeat (destruct H as [H|H]; [subst k; reflexivity|]); try destruct H as [H|H];
      repeat (destruct H as [H|H]; [subst k; reflexivity|]); destruct H.
  - intros k1 k2 H1 H2.
    repeat (destruct H1 as [H1|H1]; [subst k1|]); try destruct H1;
    (destruct H2 as [H2|H2]; repeat (destruct H2 as [H2|H2]; [subst k2|]); try destruct H2);
    repeat constructor.
Qed.
