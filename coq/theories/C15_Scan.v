(* C15_Scan.v — the destination dispatch of scan.go Scan: what each destination kind holds and
   what RowsAffected reports after the rows [rs] of one statement were consumed.  The loops of Scan
   (`for initialized || rows.Next()`) are folds over the rows, one step function per destination
   kind; the single-record branches (`if initialized || rows.Next()`) look at the head only.
   No proofs here (C15_ScanProofs.v). *)
From Verif Require Import Base C15_Model.
Open Scope Z_scope.

Inductive dkind :=
| DStructSlice                (* *[]T: reflect.Append per row, after SetLen(0) / MakeSlice *)
| DPtrSlice                   (* *[]*T *)
| DArray (n : nat)            (* *[n]T: zeroed first, slot RowsAffected-1 written when it exists *)
| DStruct                     (* *T: the first row *)
| DMap                        (* map / *map: the first row *)
| DMapSlice                   (* *[]map: one map appended per row *)
| DPrim.                      (* *int64 and the other listed primitives: rows.Scan(dest) per row *)

(* the destination while rows are consumed: the records it holds, and RowsAffected *)
Record sstate := { s_dest : list row; s_ra : Z }.

(* what Scan does to the destination before the first row: RowsAffected := 0; a slice is emptied
   (SetLen(0) or a fresh MakeSlice), an array zeroed; a slice of maps, a map, a struct, a
   primitive are left as they are until a row arrives *)
Definition scan_init (k : dkind) (pre : list row) : sstate :=
  match k with
  | DStructSlice | DPtrSlice | DArray _ => {| s_dest := []; s_ra := 0 |}
  | DMapSlice | DStruct | DMap | DPrim => {| s_dest := pre; s_ra := 0 |}
  end.

(* one iteration of the loop of the looping kinds *)
Definition scan_step (k : dkind) (s : sstate) (r : row) : sstate :=
  let ra := s_ra s + 1 in
  match k with
  | DStructSlice | DPtrSlice | DMapSlice => {| s_dest := s_dest s ++ [r]; s_ra := ra |}
  | DArray n => {| s_dest := if ra <=? Z.of_nat n then s_dest s ++ [r] else s_dest s; s_ra := ra |}
  | DPrim => {| s_dest := [r]; s_ra := ra |}                    (* the value is overwritten *)
  | DStruct | DMap => s                                         (* (no loop) *)
  end.

Definition scan (k : dkind) (pre rs : list row) : sstate :=
  match k with
  | DStruct | DMap =>
    match rs with
    | [] => scan_init k pre
    | r :: _ => {| s_dest := [r]; s_ra := 1 |}
    end
  | _ => fold_left (scan_step k) rs (scan_init k pre)
  end.

(* ErrRecordNotFound: raised by Scan itself iff the statement asked for it and no row arrived *)
Definition scan_not_found (raise : bool) (s : sstate) : bool := raise && (s_ra s =? 0).

(* the rows a destination of kind [k] with fresh content reports for the statement's rows [rs]:
   the property's "report the same rows", per kind *)
Definition reported (k : dkind) (rs : list row) : list row :=
  match k with
  | DStructSlice | DPtrSlice | DMapSlice => rs
  | DArray n => firstn n rs
  | DStruct | DMap => firstn 1 rs
  | DPrim => match rev rs with [] => [] | r :: _ => [r] end
  end.
Definition reported_ra (k : dkind) (rs : list row) : Z :=
  match k with
  | DStruct | DMap => match rs with [] => 0 | _ => 1 end
  | _ => Z.of_nat (length rs)
  end.
