(* C11_Proofs4.v — many-to-many: the join-table hop of callbacks/preload.go attaches to each
   parent exactly the targets linked to it by a join row (by value), each once. *)
From Verif Require Import Base C11_Model C11_Proofs C11_Proofs2.
Open Scope nat_scope.

Section M2M.
Variable tsk : key -> string.

Definition is_some {A} (o : option A) : bool := match o with Some _ => true | None => false end.
Definition oget (o : option (list nat)) : list nat := match o with Some l => l | None => [] end.

(* buckets built by "convert join identity map to relation identity map" *)
Definition jb (jm : imap) (s : string) (l : list jrow) : list nat :=
  flat_map (fun j => if String.eqb (tsk (snd j)) s then oget (im_find (tsk (fst j)) jm) else []) l.
Definition touched (jm : imap) (s : string) (l : list jrow) : bool :=
  existsb (fun j => String.eqb (tsk (snd j)) s && is_some (im_find (tsk (fst j)) jm)) l.

Lemma join_fold jm s : forall l m0,
  im_find s (fold_left (join_step tsk jm) l m0) =
  if touched jm s l || is_some (im_find s m0) then Some (oget (im_find s m0) ++ jb jm s l) else None.
Proof.
  induction l as [|j l IH]; intro m0; cbn [fold_left touched jb existsb flat_map].
  - cbn. destruct (im_find s m0); cbn; rewrite ?app_nil_r; reflexivity.
  - rewrite IH. fold (touched jm s l). fold (jb jm s l). unfold join_step.
    destruct (im_find (tsk (fst j)) jm) as [res|] eqn:F; cbn [is_some oget].
    + destruct (String.eqb (tsk (snd j)) s) eqn:Es; cbn [andb orb].
      * apply String.eqb_eq in Es. subst s. rewrite im_find_append_same. cbn [is_some]. rewrite orb_true_r.
        destruct (im_find (tsk (snd j)) m0); cbn [oget]; rewrite <- ?app_assoc; reflexivity.
      * rewrite im_find_append_other; [reflexivity|]. intro H. subst s. rewrite String.eqb_refl in Es. discriminate.
    + rewrite andb_false_r. cbn [orb]. destruct (String.eqb (tsk (snd j)) s); reflexivity.
Qed.

Lemma count_occ_app' (l1 l2 : list nat) i :
  count_occ Nat.eq_dec (l1 ++ l2) i = count_occ Nat.eq_dec l1 i + count_occ Nat.eq_dec l2 i.
Proof. apply count_occ_app. Qed.

Lemma count_flat_map {A} (f : A -> list nat) i : forall l,
  count_occ Nat.eq_dec (flat_map f l) i = list_sum (map (fun x => count_occ Nat.eq_dec (f x) i) l).
Proof. unfold list_sum. induction l as [|x l IH]; cbn; [reflexivity|]. rewrite count_occ_app, IH. reflexivity. Qed.

Lemma list_sum_indicator {A} (P : A -> bool) : forall l,
  list_sum (map (fun x => if P x then 1 else 0) l) = length (filter P l).
Proof. unfold list_sum. induction l as [|x l IH]; cbn; [reflexivity|]. destruct (P x); cbn; rewrite IH; reflexivity. Qed.

Lemma map_ext_in' {A B} (f g : A -> B) l : (forall a, In a l -> f a = g a) -> map f l = map g l.
Proof. apply map_ext_in. Qed.

Lemma filter_length_le1 {A} (P : A -> bool) l :
  length (filter P l) <= 1 -> length (filter P l) = if existsb P l then 1 else 0.
Proof.
  induction l as [|x l IH]; cbn; [reflexivity|]. destruct (P x) eqn:E; cbn.
  - intro H. destruct (filter P l); [reflexivity | cbn in H; lia].
  - exact IH.
Qed.

(* at most one join row links a given parent value with a given target value (the join table's
   primary key covers all its columns) *)
Definition join_rows_unique (ps : list key) (js : list jrow) (cs : list child) : Prop :=
  forall kp c, In kp ps -> In c cs ->
    length (filter (fun j => key_eqv kp (fst j) && key_eqv (snd j) (c_key c)) js) <= 1.

Lemma linked_nonzero js kp c :
  (forall j, In j js -> all_zero (snd j) = false) ->
  linked true js kp c = existsb (fun j => key_eqv kp (fst j) && key_eqv (snd j) (c_key c)) js.
Proof.
  intro Z. unfold linked. induction js as [|j js IH]; cbn; [reflexivity|].
  rewrite (Z j (or_introl eq_refl)). cbn. f_equal. apply IH. intros j' H. apply Z. right. exact H.
Qed.

Theorem preload_m2m_attach h ps js cs :
  keys_faithful tsk ps (map fst js) ->
  keys_faithful tsk (map snd js) (map c_key cs) ->
  (forall j, In j js -> all_zero (snd j) = false) ->
  join_rows_unique ps js cs ->
  preload_m2m tsk h ps js cs = Some (attach_m2m h ps js cs).
Proof.
  intros [A1 A2] [B1 B2] Z U. unfold preload_m2m.
  destruct (identity_map tsk ps) as [jm jvals] eqn:IM.
  assert (Em : jm = fst (identity_map tsk ps)) by (rewrite IM; reflexivity).
  assert (Ev : jvals = snd (identity_map tsk ps)) by (rewrite IM; reflexivity).
  destruct (idmap_vals tsk ps) as [V1 V2]. rewrite <- Ev in V1, V2.
  assert (INL : forall k, in_list jvals k = true <-> exists kp, In kp ps /\ all_zero kp = false /\ key_eqv kp k = true).
  { intro k. rewrite Ev. apply in_list_iff. exact A1. }
  destruct jvals as [|v0 jvals'] eqn:EV.
  - f_equal. unfold attach_m2m, empty_outs.
    assert (Z0 : forall kp, In kp ps -> all_zero kp = true).
    { intros kp Hk. destruct (all_zero kp) eqn:Zk; [reflexivity|]. destruct (V2 kp Hk Zk) as [v [[] _]]. }
    clear - Z0. induction ps as [|kp ps IH]; cbn; [reflexivity|].
    assert (E : filter (belongs_m2m h js kp) cs = []).
    { unfold belongs_m2m. rewrite (Z0 kp (or_introl eq_refl)). cbn. clear. induction cs; cbn; auto. }
    rewrite E. cbn. f_equal. apply IH. intros k Hk. apply Z0. right. exact Hk.
  - cbv iota. rewrite <- EV in *. clear EV v0 jvals'.
    set (jrows := filter (fun j => in_list jvals (fst j)) js).
    set (m := fold_left (join_step tsk jm) jrows []).
    set (fvals := snd (identity_map tsk (map snd jrows))).
    assert (JR : forall j, In j jrows <-> In j js /\ exists kp, In kp ps /\ all_zero kp = false /\ key_eqv kp (fst j) = true).
    { intro j. unfold jrows. rewrite filter_In, INL. reflexivity. }
    assert (JS : forall j, In j jrows -> In j js) by (intros j Hj; apply JR in Hj; tauto).
    (* lookups in jm *)
    assert (JM : forall s, im_find s jm = match pos_from tsk 0 s ps with [] => None | l => Some l end).
    { intro s. rewrite Em. apply idmap_find. }
    assert (JMsome : forall j, In j jrows -> is_some (im_find (tsk (fst j)) jm) = true).
    { intros j Hj. apply JR in Hj. destruct Hj as [Hj [kp [P1 [P2 P3]]]].
      assert (T : tsk kp = tsk (fst j)).
      { assert (Q1 : In (fst j) (map fst js)) by (apply in_map; exact Hj).
        assert (Q2 : non_null (fst j) = true) by (eapply key_eqv_non_null; exact P3).
        apply (proj2 (A2 _ _ P1 Q1 P2 Q2)). exact P3. }
      rewrite JM. pose proof (pos_from_nonempty tsk (tsk (fst j)) ps 0 kp P1 P2 T) as NE.
      destruct (pos_from tsk 0 (tsk (fst j)) ps); [congruence | reflexivity]. }
    (* the second IN list *)
    assert (PI : parents_injective tsk (map snd jrows)).
    { intros k1 k2 H1 H2. apply B1; apply in_map_iff; [apply in_map_iff in H1; destruct H1 as [j [<- Hj]] | apply in_map_iff in H2; destruct H2 as [j [<- Hj]]];
        exists j; split; auto. }
    assert (FE : (match fvals with [] => [] | _ => fetch h fvals cs end) = fetch h fvals cs).
    { destruct fvals; [|reflexivity]. unfold fetch. cbn. clear. induction cs; cbn; auto. }
    rewrite FE.
    assert (FI : forall k, in_list fvals k = true <-> exists j, In j jrows /\ key_eqv (snd j) k = true).
    { intro k. unfold fvals. rewrite (in_list_iff tsk (map snd jrows) k PI). split.
      - intros [kr [H1 [H2 H3]]]. apply in_map_iff in H1. destruct H1 as [j [<- Hj]]. exists j. auto.
      - intros [j [Hj E]]. exists (snd j). split; [apply in_map; exact Hj|]. split; [apply Z, JS, Hj | exact E]. }
    set (fs := fetch h fvals cs).
    assert (FS : forall c, In c fs -> In c cs /\ child_ok h c = true /\ exists j, In j jrows /\ key_eqv (snd j) (c_key c) = true).
    { intros c Hc. unfold fs, fetch in Hc. apply filter_In in Hc. destruct Hc as [Hc Hf].
      apply andb_prop in Hf. destruct Hf as [Hin Ok]. apply FI in Hin. auto. }
    assert (MF : forall s, im_find s m = if touched jm s jrows then Some (jb jm s jrows) else None).
    { intro s. unfold m. rewrite join_fold. cbn. rewrite orb_false_r. reflexivity. }
    destruct (match_loop_spec tsk false m fs (empty_outs (length ps))) as [o' [E [L N]]].
    { intros c Hc. destruct (FS c Hc) as [Hcs [Ok [j [Hj Ej]]]].
      assert (T : tsk (snd j) = tsk (c_key c)).
      { assert (P1 : In (snd j) (map snd js)) by (apply in_map, JS, Hj).
        assert (P2 : In (c_key c) (map c_key cs)) by (apply in_map; exact Hcs).
        assert (P3 : all_zero (snd j) = false) by (apply Z, JS, Hj).
        assert (P4 : non_null (c_key c) = true) by (eapply key_eqv_non_null; exact Ej).
        apply (proj2 (B2 _ _ P1 P2 P3 P4)). exact Ej. }
      assert (TT : touched jm (tsk (c_key c)) jrows = true).
      { unfold touched. apply existsb_exists. exists j. split; [exact Hj|]. rewrite T, String.eqb_refl, (JMsome j Hj). reflexivity. }
      split.
      - rewrite MF, TT. discriminate.
      - unfold bkt. rewrite MF, TT. intros i Hi. unfold jb in Hi. apply in_flat_map in Hi.
        destruct Hi as [j' [Hj' Hi]]. destruct (String.eqb (tsk (snd j')) (tsk (c_key c))); [|destruct Hi].
        rewrite JM in Hi. unfold empty_outs. rewrite repeat_length.
        destruct (pos_from tsk 0 (tsk (fst j')) ps) eqn:P; [destruct Hi|]. rewrite <- P in Hi.
        apply pos_from_bound in Hi. lia. }
    rewrite E. f_equal.
    unfold empty_outs in L. rewrite repeat_length in L.
    apply nth_ext with (d := []) (d' := []).
    { rewrite L. unfold attach_m2m. rewrite map_length. reflexivity. }
    intros i Hi. rewrite L in Hi. rewrite N by (unfold empty_outs; rewrite repeat_length; exact Hi).
    assert (E0 : nth i (empty_outs (length ps)) [] = []).
    { unfold empty_outs. clear. generalize (length ps). induction i; intros [|n]; cbn; auto. }
    rewrite E0, fold_acc_many. cbn [app].
    destruct (nth_error ps i) as [kp|] eqn:NE; [|apply nth_error_None in NE; lia].
    assert (Hkp : In kp ps) by (eapply nth_error_In; exact NE).
    unfold attach_m2m. rewrite (nth_map_error (fun x => map c_uid (filter (belongs_m2m h js x) cs)) ps i kp [] NE).
    (* multiplicity of parent i in the bucket of a fetched child *)
    assert (CNT : forall c, In c fs ->
              count_occ Nat.eq_dec (bkt tsk m c) i =
              if negb (all_zero kp) && existsb (fun j => key_eqv kp (fst j) && key_eqv (snd j) (c_key c)) js then 1 else 0).
    { intros c Hc. destruct (FS c Hc) as [Hcs [Ok [j0 [Hj0 Ej0]]]].
      assert (NNc : non_null (c_key c) = true) by (eapply key_eqv_non_null; exact Ej0).
      assert (TT : touched jm (tsk (c_key c)) jrows = true).
      { unfold touched. apply existsb_exists. exists j0. split; [exact Hj0|].
        assert (T : tsk (snd j0) = tsk (c_key c)).
        { assert (P1 : In (snd j0) (map snd js)) by (apply in_map, JS, Hj0).
          assert (P2 : In (c_key c) (map c_key cs)) by (apply in_map; exact Hcs).
          assert (P3 : all_zero (snd j0) = false) by (apply Z, JS, Hj0).
          apply (proj2 (B2 _ _ P1 P2 P3 NNc)). exact Ej0. }
        rewrite T, String.eqb_refl, (JMsome j0 Hj0). reflexivity. }
      unfold bkt. rewrite MF, TT. unfold jb. rewrite count_flat_map.
      (* each join row contributes 1 exactly when it links parent i and c by value *)
      assert (EQ : map (fun j => count_occ Nat.eq_dec
                       (if String.eqb (tsk (snd j)) (tsk (c_key c)) then oget (im_find (tsk (fst j)) jm) else []) i) jrows
                 = map (fun j => if negb (all_zero kp) && key_eqv kp (fst j) && key_eqv (snd j) (c_key c) then 1 else 0) jrows).
      { apply map_ext_in. intros j Hj. pose proof (JS j Hj) as Hjs.
        assert (NNl : non_null (fst j) = true).
        { apply JR in Hj. destruct Hj as [_ [kq [_ [_ Q]]]]. eapply key_eqv_non_null; exact Q. }
        assert (R : String.eqb (tsk (snd j)) (tsk (c_key c)) = key_eqv (snd j) (c_key c)).
        { apply bool_iff_eq. rewrite String.eqb_eq.
          apply B2; [apply in_map; exact Hjs | apply in_map; exact Hcs | apply Z; exact Hjs | exact NNc]. }
        rewrite R. destruct (key_eqv (snd j) (c_key c)); [|rewrite andb_false_r; reflexivity].
        rewrite andb_true_r, JM.
        pose proof (pos_from_count tsk (tsk (fst j)) ps 0 i (Nat.le_0_l i)) as PC. rewrite Nat.sub_0_r, NE in PC.
        assert (HT : hit tsk (tsk (fst j)) kp = negb (all_zero kp) && key_eqv kp (fst j)).
        { unfold hit. destruct (all_zero kp) eqn:Zk; cbn [negb andb]; [reflexivity|].
          apply bool_iff_eq. rewrite String.eqb_eq. apply A2; [exact Hkp | apply in_map; exact Hjs | exact Zk | exact NNl]. }
        rewrite HT in PC.
        destruct (pos_from tsk 0 (tsk (fst j)) ps) eqn:P; cbn [oget]; [cbn in PC; rewrite <- PC; reflexivity | exact PC]. }
      rewrite EQ, list_sum_indicator.
      (* rows outside jrows never link a non-zero parent *)
      assert (FJ : filter (fun j => negb (all_zero kp) && key_eqv kp (fst j) && key_eqv (snd j) (c_key c)) jrows
                 = filter (fun j => negb (all_zero kp) && key_eqv kp (fst j) && key_eqv (snd j) (c_key c)) js).
      { unfold jrows. rewrite filter_filter. apply filter_ext_in. intros j Hj.
        destruct (in_list jvals (fst j)) eqn:I; [reflexivity|]. cbn.
        destruct (all_zero kp) eqn:Zk; cbn; [reflexivity|].
        destruct (key_eqv kp (fst j)) eqn:Q; [|reflexivity].
        assert (in_list jvals (fst j) = true) by (apply INL; exists kp; auto). congruence. }
      rewrite FJ. destruct (all_zero kp) eqn:Zk; cbn [negb andb].
      - clear. induction js; cbn; auto.
      - apply filter_length_le1. apply U; assumption. }
    assert (FM : flat_map (fun c => repeat (c_uid c) (count_occ Nat.eq_dec (bkt tsk m c) i)) fs
               = map c_uid (filter (fun c => negb (all_zero kp) && existsb (fun j => key_eqv kp (fst j) && key_eqv (snd j) (c_key c)) js) fs)).
    { rewrite <- flat_map_indicator. apply flat_map_ext_in'. intros c Hc. rewrite (CNT c Hc). reflexivity. }
    rewrite FM. unfold fs, fetch. rewrite filter_filter. f_equal. apply filter_ext_in. intros c Hc.
    unfold belongs_m2m. rewrite (linked_nonzero js kp c Z). destruct (all_zero kp) eqn:Zk; cbn [negb andb]; [rewrite andb_false_r; reflexivity|].
    destruct (child_ok h c); rewrite ?andb_false_r, ?andb_true_r; [|reflexivity].
    destruct (existsb (fun j => key_eqv kp (fst j) && key_eqv (snd j) (c_key c)) js) eqn:X; rewrite ?andb_false_r, ?andb_true_r; [|reflexivity].
    apply FI. apply existsb_exists in X. destruct X as [j [Hj Q]]. apply andb_prop in Q. destruct Q as [Q1 Q2].
    exists j. split; [|exact Q2]. apply JR. split; [exact Hj|]. exists kp. auto.
Qed.

End M2M.
