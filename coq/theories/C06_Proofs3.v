(* C06_Proofs3.v — the list side: the normalisation of Where.Build (idempotent, stable under
   append), equivalence of statements modulo that normalisation, and the congruence of every
   chain method, finisher and of the renderer with respect to it. *)
From Verif Require Import Base C06_Model.
Open Scope Z_scope.

(* ---- fields ---- *)
Lemma field_eqb_spec a b : field_eqb a b = true <-> a = b.
Proof. destruct a, b; cbn; split; intro H; try reflexivity; try discriminate. Qed.
Lemma field_eqb_refl a : field_eqb a a = true.
Proof. apply field_eqb_spec. reflexivity. Qed.
Lemma field_eqb_neq a b : a <> b -> field_eqb a b = false.
Proof. intro N. destruct (field_eqb a b) eqn:E; auto. apply field_eqb_spec in E. contradiction. Qed.

Definition excl (f : field) : bool := match f with FJoins | FScopes => true | _ => false end.

(* ---- wnorm ---- *)
Definition all_or (l : list cell) : bool := forallb is_or l.

Lemma first_non_or_none l : forall i, first_non_or l i = None <-> all_or l = true.
Proof.
  induction l as [|x l IH]; intro i; cbn; [tauto|].
  destruct (is_or x); cbn; [apply IH | split; discriminate].
Qed.

Lemma first_non_or_shift l : forall i k, first_non_or l i = Some k -> first_non_or l 0 = Some (k - i)%nat /\ (i <= k)%nat.
Proof.
  induction l as [|x l IH]; intros i k E; cbn in *; [discriminate|].
  destruct (is_or x).
  - destruct (IH _ _ E) as (E0 & L0). destruct (first_non_or l 1) as [k1|] eqn:E1.
    + destruct (IH _ _ E1) as (E1' & L1). rewrite E0 in E1'. inversion E1'. split; [f_equal; lia | lia].
    + apply first_non_or_none in E1. apply (first_non_or_none l 0) in E1. congruence.
  - inversion E; subst. split; [f_equal; lia | lia].
Qed.

Lemma wnorm_all_or l : all_or l = true -> wnorm l = l.
Proof. intro H. unfold wnorm. apply (first_non_or_none l 0%nat) in H. rewrite H. reflexivity. Qed.

Lemma first_non_or_lt l : forall i k, first_non_or l i = Some k -> (k < i + length l)%nat /\ is_or (nth (k - i) l 0) = false.
Proof.
  induction l as [|x l IH]; intros i k E; cbn in *; [discriminate|].
  destruct (is_or x) eqn:Ex.
  - destruct (IH _ _ E) as (L & N). destruct (first_non_or_shift _ _ _ E) as (_ & Li). split; [lia|].
    replace (k - i)%nat with (S (k - S i)) by lia. exact N.
  - inversion E; subst. rewrite Nat.sub_diag. split; [lia | exact Ex].
Qed.

(* a list with a non-Or member normalises to a list headed by a non-Or member *)
Lemma wnorm_head l : all_or l = false -> exists x r, wnorm l = x :: r /\ is_or x = false.
Proof.
  intro H. unfold wnorm. destruct (first_non_or l 0) as [k|] eqn:E.
  - destruct (first_non_or_lt _ _ _ E) as (L & N). rewrite Nat.sub_0_r in N. cbn in L.
    destruct k as [|j].
    + destruct l as [|x r]; [cbn in L; lia|]. exists x, r. auto.
    + destruct l as [|x r]; [cbn in L; lia|]. cbn [upd_nth].
      eexists _, _. split; [reflexivity | exact N].
  - apply first_non_or_none in E. congruence.
Qed.

Lemma wnorm_head_id x r : is_or x = false -> wnorm (x :: r) = x :: r.
Proof. intro H. unfold wnorm. cbn. rewrite H. reflexivity. Qed.

Lemma all_or_wnorm l : all_or (wnorm l) = all_or l.
Proof.
  destruct (all_or l) eqn:E.
  - rewrite wnorm_all_or by exact E. exact E.
  - destruct (wnorm_head l E) as (x & r & Ew & N). rewrite Ew. cbn. rewrite N. reflexivity.
Qed.

Lemma wnorm_idem l : wnorm (wnorm l) = wnorm l.
Proof.
  destruct (all_or l) eqn:E.
  - rewrite (wnorm_all_or l E). apply wnorm_all_or, E.
  - destruct (wnorm_head l E) as (x & r & Ew & N). rewrite Ew. apply wnorm_head_id, N.
Qed.

Lemma first_non_or_app l xs : forall i k, first_non_or l i = Some k -> first_non_or (l ++ xs) i = Some k.
Proof.
  induction l as [|x l IH]; intros i k E; cbn in *; [discriminate|].
  destruct (is_or x); auto.
Qed.

Lemma upd_nth_app {A} (l xs : list A) i v : (i < length l)%nat -> upd_nth (l ++ xs) i v = upd_nth l i v ++ xs.
Proof.
  revert i; induction l as [|x l IH]; intros [|i] H; cbn in *; try lia; auto. f_equal. apply IH. lia.
Qed.

Lemma upd_nth_length' {A} (l : list A) i v : length (upd_nth l i v) = length l.
Proof. revert i; induction l as [|x l IH]; intros [|i]; cbn; auto. Qed.

Lemma wnorm_app l xs : all_or l = false -> wnorm (l ++ xs) = wnorm l ++ xs.
Proof.
  intro H. unfold wnorm. destruct (first_non_or l 0) as [k|] eqn:E.
  - rewrite (first_non_or_app _ xs _ _ E). destruct (first_non_or_lt _ _ _ E) as (L & _). cbn in L.
    destruct k as [|j]; auto.
    assert (L0 : (0 < length l)%nat) by lia.
    rewrite !app_nth1 by lia. rewrite upd_nth_app by lia.
    rewrite upd_nth_app by (rewrite upd_nth_length'; lia). reflexivity.
  - apply first_non_or_none in E. congruence.
Qed.

(* stable under append: statements that differ by the swap keep differing by the swap only *)
Lemma wnorm_cong_app a b xs : wnorm a = wnorm b -> wnorm (a ++ xs) = wnorm (b ++ xs).
Proof.
  intro H. destruct (all_or a) eqn:Ea; destruct (all_or b) eqn:Eb.
  - rewrite !wnorm_all_or in H by auto. subst. reflexivity.
  - rewrite (wnorm_all_or a Ea) in H. destruct (wnorm_head b Eb) as (x & r & E & N).
    rewrite E in H. subst a. cbn in Ea. rewrite N in Ea. discriminate.
  - rewrite (wnorm_all_or b Eb) in H. destruct (wnorm_head a Ea) as (x & r & E & N).
    rewrite E in H. subst b. cbn in Eb. rewrite N in Eb. discriminate.
  - rewrite !wnorm_app by auto. rewrite H. reflexivity.
Qed.

(* ---- equivalence of statements ---- *)
Definition fnorm (f : field) (o : option (list cell)) : option (list cell) :=
  match f with
  | FWhere | FHaving => option_map wnorm o
  | FJoins | FScopes => Some (pcopy o)
  | _ => o
  end.
Definition peq (a b : pstmt) : Prop := pk a = pk b /\ forall f, fnorm f (pl a f) = fnorm f (pl b f).

Lemma peq_refl a : peq a a.
Proof. split; auto. Qed.
Lemma peq_sym a b : peq a b -> peq b a.
Proof. intros (K & H). split; auto. Qed.
Lemma peq_trans a b c : peq a b -> peq b c -> peq a c.
Proof. intros (K1 & H1) (K2 & H2). split; [congruence | intro f; rewrite H1; apply H2]. Qed.

Lemma fnorm_idem f o : fnorm f (fnorm f o) = fnorm f o.
Proof. destruct f, o; cbn; auto; rewrite wnorm_idem; auto. Qed.

Lemma peq_pnorm a : peq (pnorm a) a.
Proof.
  split; auto. intro f. unfold pnorm. cbn [pl].
  destruct f; auto; destruct (pl a _); cbn; auto; rewrite wnorm_idem; auto.
Qed.

Lemma peq_pcopy a b f : peq a b -> excl f = true -> pcopy (pl a f) = pcopy (pl b f).
Proof. intros (_ & H) E. specialize (H f). destruct f; try discriminate; cbn in H; congruence. Qed.
Lemma peq_plain a b f : peq a b -> excl f = false -> f <> FWhere -> f <> FHaving -> pl a f = pl b f.
Proof. intros (_ & H) E N1 N2. specialize (H f). destruct f; try discriminate; try congruence; exact H. Qed.
Lemma peq_wn a b f : peq a b -> f = FWhere \/ f = FHaving -> option_map wnorm (pl a f) = option_map wnorm (pl b f).
Proof. intros (_ & H) [-> | ->]; [apply (H FWhere) | apply (H FHaving)]. Qed.

Lemma peq_pset a b f va vb : peq a b -> fnorm f va = fnorm f vb -> peq (pset a f va) (pset b f vb).
Proof.
  intros (K & H) E. split; auto. intro g. unfold pset. cbn [pl].
  destruct (field_eqb g f) eqn:Eg; auto. apply field_eqb_spec in Eg. subst. exact E.
Qed.
Lemma peq_scal a b g : peq a b -> peq (p_scal a g) (p_scal b g).
Proof. intros (K & H). split; auto. unfold p_scal. cbn. congruence. Qed.
Lemma peq_mk a b k : peq a b -> peq (mk_p (pl a) k) (mk_p (pl b) k).
Proof. intros (K & H). split; auto. Qed.

Lemma option_wnorm_app oa ob xs :
  option_map wnorm oa = option_map wnorm ob ->
  wnorm (pcopy oa ++ xs) = wnorm (pcopy ob ++ xs).
Proof.
  destruct oa, ob; cbn; intro H; try discriminate; auto. inversion H. apply wnorm_cong_app; auto.
Qed.

Lemma p_where_peq a b xs : peq a b -> peq (p_where a xs) (p_where b xs).
Proof.
  intro H. unfold p_where. assert (W := peq_wn _ _ FWhere H (or_introl eq_refl)).
  destruct (pl a FWhere) as [oa|], (pl b FWhere) as [ob|]; try discriminate.
  - apply peq_pset; auto. cbn. f_equal. inversion W. apply wnorm_cong_app; auto.
  - apply peq_pset; auto.
Qed.
Lemma p_order_peq a b xs re : peq a b -> peq (p_order a xs re) (p_order b xs re).
Proof.
  intro H. unfold p_order. rewrite (peq_plain _ _ FOrder H) by (auto; discriminate).
  destruct (pl b FOrder); [destruct re|]; apply peq_pset; auto.
Qed.
Lemma p_limit_peq a b nl no : peq a b -> peq (p_limit a nl no) (p_limit b nl no).
Proof. intros (K & H). split; auto. unfold p_limit. cbn. rewrite K. reflexivity. Qed.
Lemma p_group_peq a b c hv : peq a b -> peq (p_group a c hv) (p_group b c hv).
Proof.
  intro H. unfold p_group. destruct H as (K & Hf). rewrite K. destruct (k_grpp (pk b)).
  - apply peq_pset; [apply peq_pset; [split; auto|]|].
    + cbn. rewrite (peq_plain a b FGroup (conj K Hf)) by (auto; discriminate). reflexivity.
    + cbn. f_equal. apply option_wnorm_app. apply (Hf FHaving).
  - apply peq_mk. apply peq_pset; [apply peq_pset; [split; auto|]|]; auto.
Qed.
Lemma p_ret_peq a b c : peq a b -> peq (p_ret a c) (p_ret b c).
Proof.
  intro H. unfold p_ret. destruct H as (K & Hf). rewrite K.
  rewrite (peq_plain a b FRet (conj K Hf)) by (auto; discriminate).
  apply peq_mk. apply peq_pset; [split; auto | reflexivity].
Qed.

Lemma pcopy_papp o xs : pcopy (papp o xs) = pcopy o ++ xs.
Proof. destruct o, xs; cbn; auto. Qed.

Lemma p_op_peq a b o : peq a b -> peq (p_op a o) (p_op b o).
Proof.
  intro H. destruct o; cbn [p_op];
    try (apply peq_scal; exact H); try (apply peq_pset; [exact H | reflexivity]).
  - destruct xs; auto. apply p_where_peq, H.
  - apply p_where_peq, H.
  - apply p_where_peq, H.
  - apply p_group_peq, H.
  - apply p_group_peq, H.
  - apply p_order_peq, H.
  - apply p_order_peq, H.
  - apply p_limit_peq, H.
  - apply p_limit_peq, H.
  - destruct args; [apply peq_scal, H | apply peq_pset; [apply peq_scal, H | reflexivity]].
  - destruct xs; apply peq_pset; auto.
  - apply peq_pset; auto. cbn. rewrite !pcopy_papp. rewrite (peq_pcopy _ _ FJoins H); auto.
  - apply peq_pset; auto. cbn. rewrite !pcopy_papp. rewrite (peq_pcopy _ _ FScopes H); auto.
  - apply p_ret_peq, H.
Qed.

Lemma fold_p_where_peq xs : forall a b, peq a b ->
  peq (fold_left (fun q x => p_where q [x]) xs a) (fold_left (fun q x => p_where q [x]) xs b).
Proof. induction xs as [|x r IH]; intros a b H; cbn; auto. apply IH, p_where_peq, H. Qed.

Lemma p_prefin_peq a b f : peq a b -> peq (p_prefin a f) (p_prefin b f).
Proof.
  intro H. unfold p_prefin.
  set (a1 := match f with FFirst => _ | FTake => _ | _ => a end).
  set (b1 := match f with FFirst => _ | FTake => _ | _ => b end).
  assert (H1 : peq a1 b1).
  { unfold a1, b1. destruct f; auto; [apply p_order_peq, p_limit_peq, H | apply p_limit_peq, H]. }
  clearbody a1 b1.
  rewrite (peq_pcopy _ _ FScopes H1) by auto.
  set (a2 := fold_left _ _ (pset a1 FScopes None)). set (b2 := fold_left _ _ (pset b1 FScopes None)).
  assert (H2 : peq a2 b2) by (apply fold_p_where_peq, peq_pset; auto).
  clearbody a2 b2. destruct (is_query f); auto.
  rewrite (peq_pcopy _ _ FJoins H2) by auto.
  rewrite (peq_plain _ _ FFromj H2) by (auto; discriminate).
  apply peq_pset; auto.
Qed.

Lemma p_fin_peq a b f : peq a b -> peq (p_fin a f) (p_fin b f).
Proof.
  intro H. unfold p_fin. assert (H3 := p_prefin_peq _ _ f H).
  destruct (is_query f); auto.
  apply peq_pset; auto. cbn.
  rewrite (peq_plain _ _ FFromj H3) by (auto; discriminate).
  rewrite (peq_pcopy _ _ FJoins H3) by auto. reflexivity.
Qed.

Lemma p_pop_peq a b x : peq a b -> peq (p_pop a x) (p_pop b x).
Proof. destruct x; [apply p_op_peq | apply p_fin_peq]. Qed.

Lemma fold_p_pop_app chain x p : fold_left p_pop (chain ++ [x]) p = p_pop (fold_left p_pop chain p) x.
Proof. rewrite fold_left_app. reflexivity. Qed.

(* ---- the renderer reads the statement only through the normalised fields ---- *)
Lemma render_ext a b fi :
  pk a = pk b -> (forall f, excl f = false -> pl a f = pl b f) -> render a fi = render b fi.
Proof.
  intros K H.
  assert (G : forall f, excl f = false -> pget a f = pget b f) by (intros f E; unfold pget; rewrite H; auto).
  destruct fi; cbn [render]; unfold r_query, r_update, r_delete, r_where, r_vars_where, r_ret, r_table, has_target;
    rewrite ?K, ?(G FSel), ?(G FOmit), ?(G FFromj), ?(G FWhere), ?(G FGroup), ?(G FHaving), ?(G FRet),
            ?(H FWhere), ?(H FOrder) by reflexivity; reflexivity.
Qed.

Lemma render_peq a b fi : peq a b -> render (pnorm a) fi = render (pnorm b) fi.
Proof.
  intros (K & H). apply render_ext; auto.
  intros f E. unfold pnorm. cbn [pl]. specialize (H f). destruct f; try discriminate; exact H.
Qed.

Lemma split_last_app {A} (l : list A) x : split_last (l ++ [x]) = Some (l, x).
Proof. unfold split_last. rewrite rev_app_distr. cbn. rewrite rev_involutive. reflexivity. Qed.
