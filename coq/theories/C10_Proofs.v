(* C10_Proofs.v — SelectAndOmitColumns read as "the last item that names the field wins, denied
   permission wins over everything", and its consequences for the write sets. *)
From Verif Require Import Base C10_Model C10_Spec.
Open Scope Z_scope.

(* ---- well-formed schemas: what Go and the naming strategy guarantee -------------------------- *)
Definition wf (s : schema) : Prop :=
  (forall f g, In f s -> In g s -> has_col f = true -> has_col g = true -> f_db f = f_db g -> f = g)
  /\ (forall f g, In f s -> In g s -> f_name f = f_name g -> f = g)
  /\ (forall f g, In f s -> In g s -> has_col f = true -> f_name g = f_db f -> g = f).


Lemma eqb_sym' a b : String.eqb a b = String.eqb b a.
Proof. apply String.eqb_sym. Qed.

Lemma find_some_ex {A} (p : A -> bool) l x : In x l -> p x = true ->
  exists y, find p l = Some y /\ In y l /\ p y = true.
Proof.
  induction l as [|a l IH]; intros Hin Hp; [contradiction|]. cbn.
  destruct (p a) eqn:E.
  - exists a. split; [reflexivity|]. split; [now left|exact E].
  - destruct Hin as [->|Hin]; [congruence|]. destruct (IH Hin Hp) as (y & H1 & H2 & H3).
    exists y. split; [exact H1|]. split; [now right|exact H3].
Qed.

Lemma in_col_fields s f : In f (col_fields s) <-> In f s /\ has_col f = true.
Proof. unfold col_fields. apply filter_In. Qed.

(* ---- sel_get through the three layers ------------------------------------------------------- *)
Lemma sel_get_set_all names v m k :
  sel_get (set_all names v m) k = if existsb (String.eqb k) names then Some v else sel_get m k.
Proof.
  unfold set_all. revert m; induction names as [|d r IH]; intros m; cbn; [reflexivity|].
  rewrite IH. cbn. rewrite (eqb_sym' k d). destruct (String.eqb d k); cbn; [|reflexivity].
  now destruct (existsb _ r).
Qed.

Definition pushes (s : schema) (table k : string) (it : sitem) : bool :=
  match it with
  | SStar => existsb (String.eqb k) (dbnames s)
  | SName n => match lookup_field s n with
               | Some g => if has_col g then String.eqb (f_db g) k else String.eqb n k
               | None => String.eqb n k
               end
  | STab tbl col => if String.eqb tbl table then String.eqb col k
                    else String.eqb (tbl ++ "." ++ col)%string k
  | STabStar tbl => if String.eqb tbl table then existsb (String.eqb k) (dbnames s)
                    else String.eqb (tbl ++ ".*")%string k
  end.

Lemma process_get s table res m nr it k :
  sel_get (fst (process s table res (m, nr) it)) k
  = if pushes s table k it then Some res else sel_get m k.
Proof.
  destruct it as [|n|tbl col|tbl]; cbn [process pushes].
  - cbn [fst]. apply sel_get_set_all.
  - destruct (lookup_field s n) as [g|]; [destruct (has_col g)|]; cbn; reflexivity.
  - destruct (String.eqb tbl table); cbn; reflexivity.
  - destruct (String.eqb tbl table); cbn [fst]; [apply sel_get_set_all|cbn; reflexivity].
Qed.

Lemma fold_process_get s table res items : forall st k,
  sel_get (fst (fold_left (process s table res) items st)) k
  = if existsb (pushes s table k) items then Some res else sel_get (fst st) k.
Proof.
  induction items as [|it items IH]; intros [m nr] k; cbn [fold_left existsb]; [reflexivity|].
  rewrite IH. destruct (process s table res (m, nr) it) as [m1 nr1] eqn:E.
  pose proof (process_get s table res m nr it k) as P. rewrite E in P. cbn [fst] in *. rewrite P.
  destruct (pushes s table k it); cbn; [|reflexivity]. now destruct (existsb _ items).
Qed.

Definition denied (rc ru : bool) (f : field) : bool :=
  (rc && negb (creatable f)) || (ru && negb (updatable f)).
Definition pname (f : field) : string := if has_col f then f_db f else f_name f.

Lemma perm_pass_get s rc ru : forall m k,
  sel_get (perm_pass s rc ru m) k
  = if existsb (fun g => denied rc ru g && String.eqb (pname g) k) s then Some false else sel_get m k.
Proof.
  unfold perm_pass. induction s as [|g s IH]; intros m k; cbn [fold_left existsb]; [reflexivity|].
  rewrite IH. unfold denied at 2. fold (pname g).
  destruct (rc && negb (creatable g)) eqn:E1; cbn [orb andb].
  - cbn. destruct (String.eqb (pname g) k); cbn; [now destruct (existsb _ s)|reflexivity].
  - destruct (ru && negb (updatable g)) eqn:E2; cbn [andb].
    + cbn. destruct (String.eqb (pname g) k); cbn; [now destruct (existsb _ s)|reflexivity].
    + reflexivity.
Qed.

Lemma sao_get s table selects omits rc ru k :
  sel_get (fst (select_and_omit s table selects omits rc ru)) k
  = if existsb (fun g => denied rc ru g && String.eqb (pname g) k) s then Some false
    else if existsb (pushes s table k) omits then Some false
    else if existsb (pushes s table k) selects then Some true else None.
Proof.
  unfold select_and_omit. cbn [fst]. rewrite perm_pass_get, !fold_process_get. reflexivity.
Qed.

(* ---- under wf: an item pushes the field's column iff it names the field --------------------- *)
Section WF.
Variables (s : schema) (table : string).
Hypothesis Hwf : wf s.

Lemma lookup_by_col f : In f s -> has_col f = true -> lookup_field s (f_db f) = Some f.
Proof.
  intros Hin Hc. unfold lookup_field.
  destruct (find_some_ex (fun g => String.eqb (f_db g) (f_db f)) (col_fields s) f) as (y & H1 & H2 & H3).
  { apply in_col_fields; auto. } { apply String.eqb_refl. }
  rewrite H1. f_equal. apply in_col_fields in H2. destruct H2 as [H2 H2'].
  apply String.eqb_eq in H3. destruct Hwf as (W1 & _). apply W1; auto.
Qed.

Lemma lookup_by_name f : In f s -> lookup_field s (f_name f) = Some f.
Proof.
  intros Hin. unfold lookup_field. destruct Hwf as (W1 & W2 & W3).
  destruct (find _ (col_fields s)) as [g|] eqn:E.
  - apply find_some in E. destruct E as [E1 E2]. apply in_col_fields in E1. destruct E1 as [E1 E1'].
    apply String.eqb_eq in E2. f_equal. symmetry. apply (W3 g f); auto.
  - destruct (find_some_ex (fun g => String.eqb (f_name g) (f_name f)) s f Hin (String.eqb_refl _))
      as (y & H1 & H2 & H3).
    rewrite H1. f_equal. apply String.eqb_eq in H3. apply W2; auto.
Qed.

Lemma lookup_sound n g : lookup_field s n = Some g ->
  In g s /\ ((has_col g = true /\ f_db g = n) \/ f_name g = n).
Proof.
  unfold lookup_field. destruct (find _ (col_fields s)) as [y|] eqn:E.
  - intros H; inversion H; subst y. apply find_some in E. destruct E as [E1 E2].
    apply in_col_fields in E1. apply String.eqb_eq in E2. tauto.
  - intros H. apply find_some in H. destruct H as [H1 H2]. apply String.eqb_eq in H2. tauto.
Qed.

Lemma in_dbnames f : In f s -> has_col f = true -> existsb (String.eqb (f_db f)) (dbnames s) = true.
Proof.
  intros Hin Hc. apply existsb_exists. exists (f_db f). split; [|apply String.eqb_refl].
  unfold dbnames. apply in_map. now apply in_col_fields.
Qed.

Lemma pushes_names f it : In f s -> has_col f = true -> local table [it] = true ->
  pushes s table (f_db f) it = names table f it.
Proof.
  intros Hin Hc Hl. destruct Hwf as (W1 & W2 & W3).
  destruct it as [|n|tbl col|tbl]; cbn [pushes names].
  - now apply in_dbnames.
  - destruct (lookup_field s n) as [g|] eqn:L.
    + destruct (lookup_sound _ _ L) as [Hg Hn]. destruct (has_col g) eqn:Cg.
      * destruct (String.eqb (f_db g) (f_db f)) eqn:E.
        -- apply String.eqb_eq in E. assert (g = f) by (apply W1; auto). subst g.
           symmetry. apply orb_true_iff. destruct Hn as [[_ Hn]|Hn]; [right|left]; subst n; apply String.eqb_refl.
        -- symmetry. apply orb_false_iff. split; apply String.eqb_neq; intros ->.
           ++ rewrite (lookup_by_name f Hin) in L. inversion L; subst g. now rewrite String.eqb_refl in E.
           ++ rewrite (lookup_by_col f Hin Hc) in L. inversion L; subst g. now rewrite String.eqb_refl in E.
      * assert (Hne : n <> f_db f).
        { intros ->. rewrite (lookup_by_col f Hin Hc) in L. inversion L; subst g. congruence. }
        rewrite (proj2 (String.eqb_neq _ _) Hne), orb_false_r.
        symmetry. apply String.eqb_neq. intros ->.
        rewrite (lookup_by_name f Hin) in L. inversion L; subst g. congruence.
    + assert (Hne : n <> f_db f).
      { intros ->. rewrite (lookup_by_col f Hin Hc) in L. discriminate. }
      rewrite (proj2 (String.eqb_neq _ _) Hne), orb_false_r.
      symmetry. apply String.eqb_neq. intros ->. rewrite (lookup_by_name f Hin) in L. discriminate.
  - cbn in Hl. rewrite andb_true_r in Hl. rewrite Hl. reflexivity.
  - cbn in Hl. rewrite andb_true_r in Hl. rewrite Hl. now apply in_dbnames.
Qed.

Lemma pushes_listed f items : In f s -> has_col f = true -> local table items = true ->
  existsb (pushes s table (f_db f)) items = listed table items f.
Proof.
  intros Hin Hc. unfold listed. induction items as [|it items IH]; intros Hl; cbn; [reflexivity|].
  cbn in Hl. apply andb_prop in Hl. destruct Hl as [H1 H2].
  rewrite IH by exact H2. f_equal. apply pushes_names; auto. cbn. now rewrite H1.
Qed.

Lemma denied_field rc ru f : In f s -> has_col f = true ->
  existsb (fun g => denied rc ru g && String.eqb (pname g) (f_db f)) s = denied rc ru f.
Proof.
  intros Hin Hc. destruct Hwf as (W1 & W2 & W3).
  destruct (denied rc ru f) eqn:D.
  - apply existsb_exists. exists f. split; [exact Hin|]. rewrite D. unfold pname. rewrite Hc. apply String.eqb_refl.
  - destruct (existsb _ s) eqn:E; [|reflexivity]. apply existsb_exists in E. destruct E as (g & Hg & E).
    apply andb_prop in E. destruct E as [E1 E2]. apply String.eqb_eq in E2. unfold pname in E2.
    destruct (has_col g) eqn:Cg.
    + assert (g = f) by (apply W1; auto). subst g. congruence.
    + assert (g = f) by (apply (W3 f g); auto). subst g. congruence.
Qed.

(* the select map, read declaratively, for a field that has a column *)
Lemma sao_get_field selects omits rc ru f :
  In f s -> has_col f = true -> local table selects = true -> local table omits = true ->
  sel_get (fst (select_and_omit s table selects omits rc ru)) (f_db f)
  = if denied rc ru f then Some false
    else if listed table omits f then Some false
    else if listed table selects f then Some true else None.
Proof.
  intros Hin Hc Ls Lo. rewrite sao_get, denied_field, !pushes_listed; auto.
Qed.

Lemma fold_nr res f items : forall st, existsb (names table f) items = false ->
  snd (fold_left (process s table res) items st) = snd st.
Proof.
  induction items as [|it items IH]; intros [m nr] H; cbn [fold_left]; [reflexivity|].
  cbn in H. apply orb_false_iff in H. destruct H as [H1 H2]. rewrite IH by exact H2.
  destruct it as [|n|tbl col|tbl]; cbn in *; try discriminate.
  - destruct (lookup_field s n) as [g|]; [destruct (has_col g)|]; reflexivity.
  - destruct (String.eqb tbl table); reflexivity.
  - destruct (String.eqb tbl table); reflexivity.
Qed.

Lemma sao_restricted selects omits rc ru f :
  listed table selects f = false -> listed table omits f = false ->
  snd (select_and_omit s table selects omits rc ru) = match selects with [] => false | _ => true end.
Proof.
  intros Hs Ho. unfold select_and_omit. cbn [snd].
  rewrite (fold_nr false f omits _ Ho), (fold_nr true f selects _ Hs). reflexivity.
Qed.

(* ---- ConvertToAssignments, struct payload: exactly the declarative write set ------------------ *)
Definition hooked (skip : bool) (f : field) : bool := negb skip && tracked_update f.

Lemma assign_struct_in selects omits skip is_save p c k :
  In (c, k) (assign_struct s (select_and_omit s table selects omits false true) skip is_save p) ->
  exists f, In f s /\ has_col f = true /\ c = f_db f /\ updatable f = true
            /\ k = (if hooked skip f then KNow else KPay).
Proof.
  unfold assign_struct. intros H. apply in_flat_map in H. destruct H as (f & Hf & H).
  apply in_col_fields in Hf. destruct Hf as [Hin Hc]. exists f.
  destruct (f_pk f && is_save); [contradiction|].
  unfold hooked, tracked_update.
  destruct (match sel_get _ (f_db f) with Some v => v | None => _ end); [|contradiction].
  destruct (_ && updatable f) eqn:E; [|contradiction].
  apply andb_prop in E. destruct E as [_ E]. destruct H as [H|[]]. inversion H; subst.
  repeat split; auto.
Qed.

Definition struct_body (sm : sel_map * bool) (skip is_save : bool) (p : payload) (f : field) : list assignment :=
  if f_pk f && is_save then []
  else
    let ok := sel_get (fst sm) (f_db f) in
    let hk := negb skip && match f_auto f with AUpdate => true | _ => false end in
    if match ok with Some v => v | None => negb (snd sm) || hk end
    then
      let is_zero := if hk then false else p_zero p f in
      if (match ok with Some _ => true | None => false end || negb is_zero) && updatable f
      then [(f_db f, if hk then KNow else KPay)] else []
    else [].

Lemma assign_struct_unfold sm skip is_save p :
  assign_struct s sm skip is_save p = flat_map (struct_body sm skip is_save p) (col_fields s).
Proof. reflexivity. Qed.

Lemma struct_body_shape sm skip is_save p f :
  struct_body sm skip is_save p f = [] \/ exists k, struct_body sm skip is_save p f = [(f_db f, k)].
Proof.
  unfold struct_body. destruct (f_pk f && is_save); [now left|]. cbv zeta.
  destruct (match sel_get _ _ with Some v => v | None => _ end); [|now left].
  destruct (_ && updatable f); [right; eexists; reflexivity|now left].
Qed.

Theorem assign_struct_exact selects omits skip is_save p f :
  In f s -> has_col f = true -> local table selects = true -> local table omits = true ->
  (exists k, In (f_db f, k) (assign_struct s (select_and_omit s table selects omits false true) skip is_save p))
  <-> (f_pk f && is_save = false
       /\ may_update table ShStruct (negb skip) selects omits p f = true).
Proof.
  intros Hin Hc Ls Lo.
  pose proof (sao_get_field selects omits false true f Hin Hc Ls Lo) as G.
  unfold denied in G. cbn [andb orb] in G.
  set (sm := select_and_omit s table selects omits false true) in *.
  assert (Cond :
    (f_pk f && is_save = false /\ may_update table ShStruct (negb skip) selects omits p f = true)
    <-> struct_body sm skip is_save p f <> []).
  { unfold struct_body. cbv zeta. rewrite G. unfold may_update, payload_part, offered. rewrite Hc.
    fold (tracked_update f).
    destruct (f_pk f && is_save); [split; [intros [X _]; discriminate X|intros X; now contradiction X]|].
    destruct (updatable f) eqn:U; cbn [negb andb orb].
    2:{ split; [intros [_ X]; discriminate X|intros X; now contradiction X]. }
    destruct (listed table omits f) eqn:O; cbn [negb andb].
    { split; [intros [_ X]; discriminate X|intros X; now contradiction X]. }
    destruct (listed table selects f) eqn:S.
    - destruct selects as [|i l]; [discriminate S|]. cbn. split; [intros _; discriminate|auto].
    - unfold sm. rewrite (sao_restricted selects omits false true f S O).
      destruct selects as [|i l]; destruct (negb skip && tracked_update f); destruct (p_zero p f);
        cbn; (split; [intros HH; first [discriminate | destruct HH as [_ HH]; discriminate HH]
                     |intros HH; first [now contradiction HH | split; reflexivity]]). }
  rewrite Cond, assign_struct_unfold. split.
  - intros (k & H). apply in_flat_map in H. destruct H as (g & Hg & H).
    apply in_col_fields in Hg. destruct Hg as [Hg Cg].
    destruct (struct_body_shape sm skip is_save p g) as [E|[k' E]]; rewrite E in H; [contradiction|].
    destruct H as [H|[]]. inversion H.
    assert (g = f) by (destruct Hwf as (W1 & _); apply W1; auto). subst g. rewrite E. discriminate.
  - intros X. destruct (struct_body_shape sm skip is_save p f) as [E|[k E]]; [congruence|].
    exists k. apply in_flat_map. exists f. split; [now apply in_col_fields|]. rewrite E. now left.
Qed.

(* ---- map payload ----------------------------------------------------------------------------------- *)
Lemma allowed_updatable selects omits f :
  In f s -> has_col f = true ->
  sel_get (fst (select_and_omit s table selects omits false true)) (f_db f) <> Some false ->
  updatable f = true.
Proof.
  intros Hin Hc H. rewrite sao_get, denied_field in H by auto. unfold denied in H. cbn in H.
  destruct (updatable f); [reflexivity|]. now contradiction H.
Qed.

Lemma map_keys_part_in selects omits p c k :
  In (c, k) (map_keys_part s (select_and_omit s table selects omits false true) p) ->
  k = KPay /\ ((exists f, In f s /\ has_col f = true /\ c = f_db f /\ updatable f = true)
               \/ (lookup_field s c = None /\ map_has p c = true)).
Proof.
  unfold map_keys_part. intros H. apply in_flat_map in H. destruct H as (e & He & H).
  destruct (lookup_field s (fst e)) as [f|] eqn:L.
  - destruct (lookup_sound _ _ L) as [Hin _]. destruct (has_col f) eqn:Hc; [|contradiction].
    destruct (allowed _ (f_db f)) eqn:A; [|contradiction]. destruct H as [H|[]]. inversion H; subst.
    split; [reflexivity|]. left. exists f. split; [exact Hin|]. split; [exact Hc|]. split; [reflexivity|].
    apply (allowed_updatable selects omits); auto. unfold allowed in A. intros X. rewrite X in A. discriminate.
  - destruct (allowed _ (fst e)); [|contradiction]. destruct H as [H|[]]. inversion H; subst.
    split; [reflexivity|]. right. split; [exact L|].
    apply existsb_exists. exists e. split; [exact He|apply String.eqb_refl].
Qed.

Lemma assign_map_in selects omits skip p c k :
  In (c, k) (assign_map s (select_and_omit s table selects omits false true) skip p) ->
  (exists f, In f s /\ has_col f = true /\ c = f_db f /\ updatable f = true
             /\ (k = KNow -> skip = false /\ tracked_update f = true
                             /\ was_assigned (map_keys_part s (select_and_omit s table selects omits false true) p) (f_db f) = false))
  \/ (lookup_field s c = None /\ map_has p c = true /\ k = KPay).
Proof.
  unfold assign_map. cbv zeta. intros H. apply in_app_or in H. destruct H as [H|H].
  - destruct (map_keys_part_in _ _ _ _ _ H) as [-> [(f & A & B & C & D)|(A & B)]].
    + left. exists f. repeat (split; [assumption|]). intros X; discriminate X.
    + right. auto.
  - destruct skip; [contradiction|]. apply in_flat_map in H. destruct H as (f & Hf & H).
    apply in_col_fields in Hf. destruct Hf as [Hin Hc].
    destruct (f_auto f) eqn:Au; try contradiction.
    destruct (negb (was_assigned _ (f_db f))) eqn:M; [|contradiction]. apply negb_true_iff in M.
    assert (U : sel_get (fst (select_and_omit s table selects omits false true)) (f_db f) <> Some false
                -> updatable f = true) by (apply allowed_updatable; auto).
    destruct (sel_get _ (f_db f)) as [[|]|] eqn:G; try contradiction;
      destruct H as [H|[]]; inversion H; subst; left; exists f;
      (split; [exact Hin|]; split; [exact Hc|]; split; [reflexivity|];
       split; [apply U; discriminate|]; intros _; split; [reflexivity|];
       split; [unfold tracked_update; now rewrite Au|exact M]).
Qed.

(* every given key that names an updatable column is written, zero value or not, when no
   Select/Omit is in the way *)
Lemma assign_map_all_keys skip p e f :
  In e (snd p) -> lookup_field s (fst e) = Some f -> has_col f = true -> updatable f = true ->
  In (f_db f, KPay) (assign_map s (select_and_omit s table [] [] false true) skip p).
Proof.
  intros He L Hc U. destruct (lookup_sound _ _ L) as [Hin _].
  unfold assign_map. cbv zeta. apply in_or_app. left. unfold map_keys_part. apply in_flat_map. exists e. split; [exact He|].
  rewrite L, Hc. unfold allowed.
  rewrite (sao_get_field [] [] false true f Hin Hc eq_refl eq_refl). unfold denied. cbn. rewrite U. cbn.
  now left.
Qed.

(* ---- creates ------------------------------------------------------------------------------------------ *)
Lemma allowed_creatable selects omits ru f :
  In f s -> has_col f = true ->
  sel_get (fst (select_and_omit s table selects omits true ru)) (f_db f) <> Some false ->
  creatable f = true.
Proof.
  intros Hin Hc H. rewrite sao_get, denied_field in H by auto. unfold denied in H. cbn in H.
  destruct (creatable f); [reflexivity|]. now contradiction H.
Qed.

Lemma create_fields_creatable selects omits ps f :
  In f (create_fields s (select_and_omit s table selects omits true false) ps) ->
  In f s /\ has_col f = true /\ creatable f = true.
Proof.
  unfold create_fields. intros H. apply in_app_or in H. destruct H as [H|H]; apply filter_In in H;
    destruct H as [Hf H]; apply in_col_fields in Hf; destruct Hf as [Hin Hc]; repeat split; auto.
  - destruct (db_default f); [discriminate|]. apply (allowed_creatable selects omits false); auto.
    destruct (sel_get _ (f_db f)) as [[|]|]; try discriminate; intros X; discriminate X.
  - apply andb_prop in H. destruct H as [H _]. apply andb_prop in H. destruct H as [_ H].
    apply (allowed_creatable selects omits false); auto. unfold allowed in H.
    destruct (sel_get _ (f_db f)) as [[|]|]; try discriminate; intros X; discriminate X.
Qed.

Lemma update_all_both selects omits inserted forced p c k :
  (forall f, In f inserted -> In f s /\ has_col f = true) ->
  In (c, k) (update_all_set s (select_and_omit s table selects omits true true) inserted forced p) ->
  exists f, In f inserted /\ c = f_db f /\ creatable f = true /\ updatable f = true /\ f_pk f = false.
Proof.
  intros Hi H. unfold update_all_set in H. apply in_flat_map in H. destruct H as (f & Hf & H).
  destruct (Hi f Hf) as [Hin Hc].
  destruct (allowed _ (f_db f) && negb (db_default f) && _) eqn:E; [|contradiction].
  apply andb_prop in E. destruct E as [E _]. apply andb_prop in E. destruct E as [E1 E2].
  destruct H as [H|[]]. inversion H; subst. exists f. repeat split; auto.
  - apply (allowed_creatable selects omits true); auto. unfold allowed in E1.
    destruct (sel_get _ (f_db f)) as [[|]|]; try discriminate; intros X; discriminate X.
  - assert (G : sel_get (fst (select_and_omit s table selects omits true true)) (f_db f) <> Some false).
    { unfold allowed in E1. destruct (sel_get _ (f_db f)) as [[|]|]; try discriminate; intros X; discriminate X. }
    rewrite sao_get, denied_field in G by auto. unfold denied in G. cbn in G.
    destruct (creatable f), (updatable f); cbn in G; auto; now contradiction G.
  - apply negb_true_iff in E2. unfold db_default in E2. now apply orb_false_elim in E2.
Qed.

End WF.

(* a slice model with a keyed element (in any position) restricts to the elements' non-zero keys *)
Lemma slice_match_spec l ks : key_match (MSlice l) ks = true -> (exists k, In k l /\ k <> 0) ->
  In (hd 0 ks) l /\ hd 0 ks <> 0.
Proof.
  cbn [key_match]. intros H (k0 & Hk0 & Nz). apply orb_prop in H. destruct H as [H|H].
  - apply negb_true_iff in H. assert (X : existsb (fun k => negb (k =? 0)) l = true); [|congruence].
    apply existsb_exists. exists k0. split; [exact Hk0|]. apply negb_true_iff. now apply Z.eqb_neq.
  - apply existsb_exists in H. destruct H as (k & Hk & E). apply andb_prop in E. destruct E as [E1 E2].
    apply negb_true_iff, Z.eqb_neq in E1. apply Z.eqb_eq in E2. subst k. auto.
Qed.

(* ---- rows ------------------------------------------------------------------------------------------------ *)
Lemma targeted_spec stored mk wh id : In id (targeted stored mk wh) <->
  exists ks, In (id, ks) stored /\ key_match mk ks = true
             /\ match wh with None => True | Some l => In id l end.
Proof.
  unfold targeted. rewrite in_map_iff. split.
  - intros ([i ks] & E & H). cbn in E. subst i. apply filter_In in H. destruct H as [H1 H2].
    apply andb_prop in H2. destruct H2 as [H2 H3]. cbn in *. exists ks. repeat split; auto.
    destruct wh as [l|]; [|exact I]. unfold mem_z in H3. apply existsb_exists in H3.
    destruct H3 as (x & Hx & E). apply Z.eqb_eq in E. now subst.
  - intros (ks & H1 & H2 & H3). exists (id, ks). split; [reflexivity|]. apply filter_In. split; [exact H1|].
    cbn. rewrite H2. cbn. destruct wh as [l|]; [|reflexivity]. unfold mem_z. apply existsb_exists. exists id.
    split; [exact H3|apply Z.eqb_refl].
Qed.

(* key_match: every non-zero member of the model value's key equals the row's member *)
Lemma key_match_spec mk ks : key_match (MStruct mk) ks = true ->
  forall m k, In (m, k) (combine mk ks) -> m = 0 \/ k = m.
Proof.
  unfold key_match, struct_match. rewrite forallb_forall. intros H m k Hin. specialize (H _ Hin). cbn in H.
  apply orb_prop in H. destruct H as [H|H]; apply Z.eqb_eq in H; auto.
Qed.

Lemma cells_for_rows rows set x : In x (cells_for rows set) ->
  In (c_row x) rows /\ In (c_col x, c_src x) set.
Proof.
  unfold cells_for. intros H. apply in_flat_map in H. destruct H as (r & Hr & H).
  apply in_map_iff in H. destruct H as (a & <- & Ha). cbn. split; [exact Hr|]. now destruct a.
Qed.

Lemma canon_in s set a : In a (canon s set) -> In a set.
Proof.
  unfold canon. intros H. apply in_app_or in H. destruct H as [H|H]; [|apply filter_In in H; tauto].
  apply in_flat_map in H. destruct H as (f & _ & H).
  match type of H with In _ (match ?x with _ => _ end) => destruct x as [b|] eqn:E end; [|contradiction].
  destruct H as [<-|[]]. apply find_some in E. tauto.
Qed.

Lemma do_update_rows s rows set x : In x (out_cells (do_update s rows set)) ->
  In (c_row x) rows /\ In (c_col x, c_src x) set.
Proof.
  unfold do_update. destruct (_ && _); cbn; [contradiction|]. intros H.
  apply cells_for_rows in H. destruct H as [H1 H2]. split; [exact H1|]. now apply canon_in in H2.
Qed.
