(* C11_Check.v — correspondence checker for C11.
   model_agrees: the model of preload / Association().Find / Joins (with utils.ToStringKey as it is
   on the tree) predicts what gorm attached.
   spec_holds: the property, evaluated on what gorm attached, against the reference join computed
   from the dumped tables by VALUE equality (never through string keys). *)
From Verif Require Export Base C11_Model C11_Scan.
Open Scope Z_scope.

Fixpoint insz (x : Z) (l : list Z) : list Z :=
  match l with [] => [x] | y :: r => if x <=? y then x :: l else y :: insz x r end.
Definition sortz (l : list Z) : list Z := fold_right insz [] l.
Definition outs_eqb (a b : outs) : bool := list_eqb zlist_eqb a b.
Definition sort_outs (o : outs) : outs := map sortz o.

Inductive mode := MPreload | MJoins | MAssocFind.

(* compact input syntax of the generated cases files *)
Definition vt (s : string) : sqlval := VText s.
Arguments vt s%string.
Fixpoint split_comma (s acc : string) : list string :=
  match s with
  | EmptyString => [acc]
  | String a r => if Ascii.eqb a ","%char then acc :: split_comma r EmptyString
                  else split_comma r (acc ++ String a EmptyString)%string
  end.
Definition cols (s : string) : list string := split_comma s EmptyString.
Arguments cols s%string.

Record case := mk_case {
  c_mode : mode;
  c_m2m : bool;
  c_hop : hop;
  c_parents : list key;        (* referenced keys of the parents, in result order *)
  c_children : list child;     (* dump of the child table (raw SELECT, rowid order) *)
  c_joins : list jrow;         (* dump of the join table (many2many) *)
  o_att : outs;                (* observed: per parent position the sorted uids attached
                                  (MAssocFind: one list, the sorted uids Find returned) *)
  o_err : Z;                   (* 0 = no error, 1 = "failed to assign association", 2 = other *)
  (* nested path "A.B" (MPreload only): second hop *)
  c_nested : bool;
  c_hop2 : hop;
  c_children2 : list child;
  o_att2 : list (Z * list Z);  (* per distinct level-1 row uid: sorted uids attached to it *)
  (* whole rows, column for column *)
  c_cols : list string;            (* columns of the related model (schema.DBNames order) *)
  c_rows : list (Z * list sqlval); (* uid |-> the stored row (raw SELECT), for the uids the attached records carry *)
  c_jcols : list string;           (* many2many Association().Find: every column of the join table ... *)
  c_jrows : list (list sqlval);    (* ... and every join row (same order as c_joins) *)
  c_alias : string;                (* Joins: alias of the joined relation *)
  o_recs : list (Z * list sqlval)  (* observed: uid |-> what an attached / returned record holds per column *)
}.

Definition tsk := to_string_key.

Fixpoint index_of (u : Z) (l : list Z) (i : nat) : option nat :=
  match l with [] => None | x :: r => if x =? u then Some i else index_of u r (S i) end.
Definition find_child (u : Z) (cs : list child) : option child :=
  find (fun c => c_uid c =? u) cs.

Definition err_of (o : option outs) : Z := match o with Some _ => 0 | None => 1 end.

(* a stored / scanned value against what a Go field holds (NULL reads as the zero value of a field that
   is not a pointer) *)
Definition mem_eqb (stored held : sqlval) : bool :=
  match stored, held with
  | VNull, VNull => true
  | VNull, VInt z => z =? 0
  | VNull, VText s => String.eqb s ""
  | VInt a, VInt b => a =? b
  | VText a, VText b => String.eqb a b
  | _, _ => false
  end.
Definition rec_same (m o : Z * list sqlval) : bool :=
  (fst m =? fst o) && list_eqb mem_eqb (snd m) (snd o).
Definition recs_agree (m o : stored) : bool :=
  forallb (fun x => existsb (rec_same x) o) m && forallb (fun y => existsb (fun x => rec_same x y) m) o.

(* the records the model of SELECT list + Scan hands out for the uids the model attaches (C11_Scan) *)
Definition model_recs (c : case) : stored :=
  let h := c_hop c in
  match c_mode c with
  | MPreload =>
    match (if c_m2m c then preload_m2m tsk h (c_parents c) (c_joins c) (c_children c)
           else preload_hop tsk h (c_parents c) (c_children c)) with
    | Some o => plain_recs (c_cols c) (c_rows c) (List.concat o)
    | None => []
    end
  | MJoins => joins_recs (c_alias c) (c_cols c) (c_rows c) (List.concat (joins_model h (c_parents c) (c_children c)))
  | MAssocFind =>
    if c_m2m c
    then find_m2m_recs tsk (names_model true false true) h (c_parents c) (c_joins c) (c_jcols c) (c_jrows c)
                       (c_children c) (c_cols c) (c_rows c)
    else plain_recs (c_cols c) (c_rows c) (assoc_find tsk h (c_parents c) (c_children c))
  end.

Definition model_agrees_att (c : case) : bool :=
  let h := c_hop c in
  match c_mode c with
  | MPreload =>
    let r := if c_m2m c then preload_m2m tsk h (c_parents c) (c_joins c) (c_children c)
             else preload_hop tsk h (c_parents c) (c_children c) in
    (o_err c =? err_of r)
    && match r with
       | Some o => outs_eqb (o_att c) (sort_outs o)
       | None => true
       end
    && (negb (c_nested c) ||
        match preload_nested tsk h (c_hop2 c) (c_parents c) (c_children c) (c_children2 c) with
        | (Some _, f, Some o2) =>
            forallb (fun ul => match index_of (fst ul) f 0 with
                               | Some i => zlist_eqb (snd ul) (sortz (nth i o2 []))
                               | None => false
                               end) (o_att2 c)
        | (_, _, None) => o_err c =? 1
        | _ => true
        end)
  | MJoins => (o_err c =? 0) && outs_eqb (o_att c) (sort_outs (joins_model h (c_parents c) (c_children c)))
  | MAssocFind =>
    (o_err c =? 0)
    && outs_eqb (o_att c)
         [sortz (if c_m2m c then assoc_find_m2m tsk h (c_parents c) (c_joins c) (c_children c)
                 else assoc_find tsk h (c_parents c) (c_children c))]
  end.

Definition model_agrees (c : case) : bool :=
  model_agrees_att c && ((negb (o_err c =? 0)) || recs_agree (model_recs c) (o_recs c)).

(* ---- the property on the observed output ---- *)
Definition single_ok (obs cands : list Z) : bool :=
  match obs, cands with
  | [], [] => true
  | [x], _ :: _ => existsb (Z.eqb x) cands
  | _, _ => false
  end.

Definition per_parent_ok (single : bool) (obs ref : outs) : bool :=
  (length obs =? length ref)%nat
  && forallb (fun p => if single then single_ok (fst p) (snd p) else zlist_eqb (fst p) (sortz (snd p)))
             (combine obs ref).

(* the attached record IS the stored row: it holds, column for column, what the row with its uid stores
   (a NULL column reads as the zero value of a Go field that is not a pointer) *)
Definition rows_ok (c : case) : bool :=
  forallb (fun r => match lookup_row (fst r) (c_rows c) with
                    | Some vs => list_eqb mem_eqb vs (snd r) && (length vs =? length (c_cols c))%nat
                    | None => false
                    end) (o_recs c).

Definition spec_holds (c : case) : bool :=
  let h := c_hop c in
  let ref := match c_mode c with
             | MJoins => attach_sql h (c_parents c) (c_children c)
             | _ => if c_m2m c then attach_m2m h (c_parents c) (c_joins c) (c_children c)
                    else attach h (c_parents c) (c_children c)
             end in
  (o_err c =? 0)
  && rows_ok c
  && match c_mode c with
     | MPreload | MJoins =>
       per_parent_ok (h_single h) (o_att c) ref
       && (negb (c_nested c) ||
           forallb (fun ul =>
                      match find_child (fst ul) (c_children c) with
                      | Some c1 =>
                        let r2 := map c_uid (filter (belongs (c_hop2 c) (c_key2 c1)) (c_children2 c)) in
                        if h_single (c_hop2 c) then single_ok (snd ul) r2 else zlist_eqb (snd ul) (sortz r2)
                      | None => false
                      end) (o_att2 c))
     | MAssocFind =>
       (* exactly the children that belong to one of the owners, each once *)
       let want := map c_uid (filter (fun ch => existsb (fun kp =>
                       if c_m2m c then belongs_m2m_find h (c_joins c) kp ch else belongs h kp ch) (c_parents c))
                     (c_children c)) in
       outs_eqb (o_att c) [sortz want]
     end.

Definition check_case (c : case) : N := code_of (model_agrees c) (spec_holds c).
