(* C19_Model.v — DryRun / ToSQL: what an operation sends to the driver and what it exposes.
   Modelled code (as it is in /repo now):
     callbacks.go             processor.Execute (runs the callbacks, keeps Statement.SQL/Vars only in DryRun)
     callbacks/transaction.go BeginTransaction, CommitOrRollbackTransaction
     callbacks/create.go      Create   (build; `isDryRun := !db.DryRun && db.Error == nil; if !isDryRun { return }`)
     callbacks/query.go       Query    (build; `if !db.DryRun && db.Error == nil`)
     callbacks/update.go      Update   (build unless nothing to set; checkMissingWhereConditions; guard)
     callbacks/delete.go      Delete   (build; checkMissingWhereConditions; guard)
     callbacks/raw.go         RawExec  (`if db.Error == nil && !db.DryRun`)
     callbacks/row.go         RowQuery (build; `if db.DryRun || db.Error != nil { return }`)
     gorm.go                  Session{DryRun}, ToSQL = Session{DryRun: true, SkipDefaultTransaction: true}
     finisher_api.go          Save (update, then create when nothing was updated `&& !updateTx.DryRun`),
                              Rows / Row (ErrDryRunModeUnsupported after building)
   The statement builders are parameters: they are functions of the operation only, never of the
   configuration (that nothing but the executors above reads DryRun is a fact regenerated from the
   source, FactsOK_C19).  The database is an oracle answering each driver call.  No proofs here. *)
From Verif Require Import Base C01_Model.

Inductive ev :=
| EBegin | ECommit | ERollback
| EStmt (query : bool) (sql : string) (vars : list scalar).   (* QueryContext / ExecContext *)

Inductive opk := OpCreate | OpQuery | OpUpdate | OpDelete | OpRaw | OpRow.

(* what the builder of an operation produces *)
Record built := mk_built {
  b_sql : string; b_vars : list scalar;
  b_err : bool;      (* building added an error (ErrMissingWhereClause, invalid value, ...) *)
  b_ret : bool;      (* the statement has a RETURNING clause the dialect supports: QueryContext *)
  b_empty : bool     (* Update with nothing to set: the callback returns before building *)
}.

Record cfg := mk_cfg { c_dry : bool; c_skip : bool }.   (* DryRun, SkipDefaultTransaction *)

(* answer of the database to one driver call *)
Record dres := mk_dres { d_err : bool; d_rows : Z }.
Definition ok_res : dres := mk_dres false 1.

Record rst := mk_rst {
  r_err : bool; r_sql : string; r_vars : list scalar;
  r_started : bool;                 (* gorm:started_transaction *)
  r_ra : Z;                         (* RowsAffected *)
  r_log : list ev;                  (* driver calls so far *)
  r_or : list dres                  (* answers still to come *)
}.
Definition rst0 (orc : list dres) : rst := mk_rst false "" [] false 0 [] orc.

Definition call (e : ev) (s : rst) : rst * dres :=
  let d := match r_or s with d :: _ => d | [] => ok_res end in
  (mk_rst (r_err s) (r_sql s) (r_vars s) (r_started s) (r_ra s) (r_log s ++ [e]) (tl (r_or s)), d).
Definition set_err (s : rst) : rst :=
  mk_rst true (r_sql s) (r_vars s) (r_started s) (r_ra s) (r_log s) (r_or s).
Definition set_started (b : bool) (s : rst) : rst :=
  mk_rst (r_err s) (r_sql s) (r_vars s) b (r_ra s) (r_log s) (r_or s).
Definition set_stmt (b : built) (s : rst) : rst :=
  mk_rst (r_err s || b_err b) (b_sql b) (b_vars b) (r_started s) (r_ra s) (r_log s) (r_or s).
Definition set_ra (n : Z) (s : rst) : rst :=
  mk_rst (r_err s) (r_sql s) (r_vars s) (r_started s) n (r_log s) (r_or s).
Definition clear_stmt (s : rst) : rst :=
  mk_rst (r_err s) "" [] (r_started s) (r_ra s) (r_log s) (r_or s).

(* ConnPool.ExecContext / QueryContext with Statement.SQL / Vars *)
Definition send (query : bool) (s : rst) : rst :=
  let (s1, d) := call (EStmt query (r_sql s) (r_vars s)) s in
  if d_err d then set_err s1 else set_ra (d_rows d) s1.

Definition begin_cb (c : cfg) (s : rst) : rst :=
  if negb (c_skip c) && negb (r_err s) then
    let (s1, d) := call EBegin s in
    if d_err d then set_err s1 else set_started true s1
  else s.
Definition commit_cb (c : cfg) (s : rst) : rst :=
  if negb (c_skip c) && r_started s then
    set_started false (fst (call (if r_err s then ERollback else ECommit) s))
  else s.

Definition sql_empty (s : rst) : bool := String.eqb (r_sql s) "".

Definition main_cb (c : cfg) (k : opk) (b : built) (s : rst) : rst :=
  match k with
  | OpCreate =>
    if r_err s then s else
    let s1 := if sql_empty s then set_stmt b s else s in
    if c_dry c || r_err s1 then s1 else send (b_ret b) s1
  | OpQuery =>
    if r_err s then s else
    let s1 := if sql_empty s then set_stmt b s else s in
    if negb (c_dry c) && negb (r_err s1) then send true s1 else s1
  | OpUpdate =>
    if r_err s then s else
    if sql_empty s && b_empty b then s else
    let s1 := if sql_empty s then set_stmt b s else s in
    if negb (c_dry c) && negb (r_err s1) then send (b_ret b) s1 else s1
  | OpDelete =>
    if r_err s then s else
    let s1 := if sql_empty s then set_stmt b s else s in
    if negb (c_dry c) && negb (r_err s1) then send (b_ret b) s1 else s1
  | OpRaw =>      (* db.Exec built Statement.SQL before Execute *)
    let s1 := set_stmt b s in
    if negb (r_err s1) && negb (c_dry c) then send false s1 else s1
  | OpRow =>
    if r_err s then s else
    let s1 := if sql_empty s then set_stmt b s else s in
    if c_dry c || r_err s1 then s1 else send true s1
  end.

Definition has_tx_callbacks (k : opk) : bool :=
  match k with OpCreate | OpUpdate | OpDelete => true | _ => false end.

(* processor.Execute *)
Definition execute (c : cfg) (k : opk) (b : built) (s0 : rst) : rst :=
  let s1 := if has_tx_callbacks k then begin_cb c s0 else s0 in
  let s2 := main_cb c k b s1 in
  let s3 := if has_tx_callbacks k then commit_cb c s2 else s2 in
  if c_dry c then s3 else clear_stmt s3.

(* Rows()/Row()/Scan in DryRun: ErrDryRunModeUnsupported after the statement was built *)
Definition rows_finisher (c : cfg) (b : built) (s0 : rst) : rst :=
  let s1 := execute c OpRow b s0 in
  if c_dry c && negb (r_err s1) then set_err s1 else s1.

(* Save on a record with a primary key: update all fields, insert when nothing was updated *)
Definition save (c : cfg) (bu bc : built) (s0 : rst) : rst :=
  let s1 := execute c OpUpdate bu s0 in
  if negb (r_err s1) && (r_ra s1 =? 0)%Z && negb (c_dry c)
  then execute c OpCreate bc (clear_stmt s1)
  else s1.

(* CreateInBatches (also Create with CreateBatchSize): one Create per batch, each on its own
   statement, stopping at the first error; more than one batch is wrapped in db.Transaction unless
   SkipDefaultTransaction (inside it the batches find a *sql.Tx as ConnPool: no nested begin) *)
Fixpoint run_batches (c : cfg) (bs : list built) (s : rst) : rst :=
  match bs with
  | [] => s
  | b :: r => if r_err s then s else run_batches c r (execute c OpCreate b (clear_stmt s))
  end.
Definition create_in_batches (c : cfg) (bs : list built) (s0 : rst) : rst :=
  if c_skip c || (length bs <=? 1)%nat then clear_stmt (run_batches c bs s0)
  else
    let (s1, d) := call EBegin s0 in
    if d_err d then set_err s1 else
    let s2 := run_batches (mk_cfg (c_dry c) true) bs s1 in
    clear_stmt (fst (call (if r_err s2 then ERollback else ECommit) s2)).

(* statements gorm derives from the operation's handle through Session{NewDB: true} (a hook running a
   statement on the tx it is handed, the deletes of selected associations, Preload queries): each has its
   own Statement; the derived handle inherits DryRun and the connection of the operation *)
Definition nested_send (c : cfg) (b : built) (s : rst) : rst :=
  if c_dry c || r_err s then s else
  let s1 := send (b_ret b) (set_stmt b s) in
  mk_rst (r_err s1) (r_sql s) (r_vars s) (r_started s1) (r_ra s) (r_log s1) (r_or s1).
Definition run_nested (c : cfg) (bs : list built) (s : rst) : rst :=
  fold_left (fun acc b => nested_send c b acc) bs s.
Definition execute_nested (c : cfg) (k : opk) (b : built) (before after : list built) (s0 : rst) : rst :=
  let s1 := if has_tx_callbacks k then begin_cb c s0 else s0 in
  let s2 := run_nested c before s1 in
  let s3 := main_cb c k b s2 in
  let s4 := run_nested c after s3 in
  let s5 := if has_tx_callbacks k then commit_cb c s4 else s4 in
  if c_dry c then s5 else clear_stmt s5.

(* tx := db.Begin(); operation on tx; tx.Rollback(): inside, the ConnPool is a *sql.Tx (no default
   transaction); the handle Begin returns inherits DryRun *)
Definition manual_tx (c : cfg) (k : opk) (b : built) (s0 : rst) : rst :=
  let (s1, d) := call EBegin s0 in
  if d_err d then set_err s1 else
  let s2 := execute (mk_cfg (c_dry c) true) k b s1 in
  let s3 := fst (call ERollback s2) in
  mk_rst (r_err s2) (r_sql s2) (r_vars s2) false (r_ra s2) (r_log s3) (r_or s3).

(* observables *)
Definition is_tx_event (e : ev) : bool := match e with EBegin | ECommit | ERollback => true | _ => false end.
Fixpoint first_stmt (l : list ev) : option (string * list scalar) :=
  match l with
  | [] => None
  | EStmt _ q v :: _ => Some (q, v)
  | _ :: r => first_stmt r
  end.
Definition shown (s : rst) : string * list scalar := (r_sql s, r_vars s).

Definition dry_cfg (skip : bool) : cfg := mk_cfg true skip.
Definition real_cfg (skip : bool) : cfg := mk_cfg false skip.
Definition tosql_cfg : cfg := mk_cfg true true.
