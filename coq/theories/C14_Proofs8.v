(* C14_Proofs8.v — "every statement the cache prepared is eventually closed", partial version:
   as long as no delete-by-text removed somebody else's entry (ghost flag [s_stolen]), every
   successfully prepared pool-level statement is closed, or about to be closed by a spawned
   goroutine, or carried by an entry that is in the current map or has a live closer. *)
From Verif Require Import Base C14_Model C14_Count C14_Proofs2 C14_Proofs3 C14_Proofs4 C14_Proofs5 C14_Proofs6 C14_Proofs7.

Definition inmap (s : state) (e : nat) : Prop := exists k, mlookup (s_map s) k = Some e.
Definition has_thr (s : state) (P : pc -> Prop) : Prop :=
  exists t th, nth_error (s_thr s) t = Some th /\ P (t_pc th).
Definition covered (s : state) (e : nat) : Prop := inmap s e \/ has_thr s (fun p => waits p = Some e).
Definition closing (s : state) (st : nat) : Prop :=
  memb st (s_closed s) = true \/ has_thr s (fun p => p = D0 st).

Lemma has_thr_other s t th c s' l (P : pc -> Prop) t1 th1 :
  nth_error (s_thr s) t = Some th -> step_th s t th c = Some (s', l) ->
  t1 <> t -> nth_error (s_thr s) t1 = Some th1 -> P (t_pc th1) -> has_thr s' P.
Proof.
  intros Ht H Hne Hn Hp. exists t1, th1. split; [|exact Hp].
  rewrite (step_thr_other _ _ _ _ _ _ t1 Ht H Hne); [exact Hn|]. apply nth_error_Some. congruence.
Qed.

Lemma step_closed_mono s t th c s' l st :
  step_th s t th c = Some (s', l) -> memb st (s_closed s) = true -> memb st (s_closed s') = true.
Proof.
  intros H Hm. step_cases H.
  all: autorewrite with st; auto.
  all: unfold memb in *; rewrite existsb_app, Hm; reflexivity.
Qed.

Lemma step_stolen_mono s t th c s' l :
  step_th s t th c = Some (s', l) -> s_stolen s' = false -> s_stolen s = false.
Proof.
  intros H. step_cases H.
  all: autorewrite with st; auto.
  all: intro Hs; discriminate.
Qed.

Lemma memb_app_r x l : memb x (l ++ [x]) = true.
Proof. unfold memb. rewrite existsb_app. cbn. rewrite Nat.eqb_refl. apply orb_true_iff. right. reflexivity. Qed.

(* what happens to a closer that steps *)
Lemma step_waits_self s t th c s' l e :
  nth_error (s_thr s) t = Some th -> step_th s t th c = Some (s', l) -> waits (t_pc th) = Some e ->
  has_thr s' (fun p => waits p = Some e) \/
  (t_pc th = C1 e /\ match e_stmt (ent s e) with Some st => memb st (s_closed s') = true | None => True end).
Proof.
  intros Ht H Hw. unfold step_th in H. destruct (t_pc th) eqn:Ep; cbn in Hw; try discriminate; inversion Hw; subst e0.
  - unfold a_C0, goto in H. destruct (is_tau c); [|discriminate]. destruct (e_done (ent s e)); [|discriminate].
    inversion H; subst. left. exists t, (set_pc th (C1 e)). autorewrite with st. split; [|reflexivity].
    eapply nth_error_upd_same; eauto.
  - right. split; [reflexivity|]. unfold a_C1, goto in H. destruct (is_tau c); [|discriminate].
    destruct (e_stmt (ent s e)) as [st|]; [|exact I].
    inversion H; subst. autorewrite with st. apply memb_app_r.
Qed.

Lemma In_nth_error_app {A} (l1 l2 : list A) x : In x l2 -> exists i, nth_error (l1 ++ l2) i = Some x.
Proof.
  intro H. apply In_nth_error in H. destruct H as [i Hi]. exists (length l1 + i).
  rewrite nth_error_app2 by lia. replace (length l1 + i - length l1) with i by lia. exact Hi.
Qed.

Lemma option_eqb_some a st : option_eqb Nat.eqb a (Some st) = true -> a = Some st.
Proof. destruct a as [x|]; cbn; [|discriminate]. intro H. apply Nat.eqb_eq in H. subst. reflexivity. Qed.

(* what happens to an entry of the map *)
Lemma step_inmap s t th c s' l e k :
  nth_error (s_thr s) t = Some th -> step_th s t th c = Some (s', l) -> s_stolen s' = false ->
  mlookup (s_map s) k = Some e ->
  mlookup (s_map s') k = Some e
  \/ has_thr s' (fun p => waits p = Some e)
  \/ e_tx (ent s e) = true
  \/ failing (t_pc th) = Some e
  \/ (exists st, e_stmt (ent s e) = Some st /\ has_thr s' (fun p => p = D0 st)).
Proof.
  intros Ht H Hs Hk. step_cases H.
  all: autorewrite with st in *; auto.
  all: try discriminate Hs.
  - (* upgrade *)
    destruct (k =? cur_q th) eqn:E.
    + apply Nat.eqb_eq in E. subst k. rewrite Heqo in Hk. inversion Hk; subst n.
      apply servable_false in Heqb0. right; right; left. tauto.
    + left. rewrite (mlookup_insert_hit _ _ _ _ _ Heqo), E. exact Hk.
  - left. rewrite mlookup_insert_some. destruct (k =? cur_q th) eqn:E; [|exact Hk].
    apply Nat.eqb_eq in E. subst k. rewrite Heqo in Hk. discriminate.
  - match goal with X : (n =? _) = true |- _ => apply Nat.eqb_eq in X; subst n end.
    destruct (k =? cur_q th) eqn:E.
    + apply Nat.eqb_eq in E. subst k. rewrite Heqo in Hk. inversion Hk; subst. right; right; right; left. reflexivity.
    + left. rewrite mlookup_remove, E. exact Hk.
  - left. rewrite mlookup_remove. destruct (k =? cur_q th) eqn:E; [|exact Hk].
    apply Nat.eqb_eq in E. subst k. rewrite Heqo in Hk. discriminate.
  - match goal with X : option_eqb Nat.eqb _ _ = true |- _ => apply option_eqb_some in X; rename X into Hst end.
    destruct (k =? cur_q th) eqn:E.
    + apply Nat.eqb_eq in E. subst k. rewrite Heqo in Hk. inversion Hk; subst n.
      right; right; right; right. exists s0. split; [exact Hst|].
      unfold has_thr. autorewrite with st.
      destruct (In_nth_error_app (upd (s_thr s) t (set_pc th (Ret RErrBad))) [mkT (D0 s0) [] []] (mkT (D0 s0) [] [])) as [i Hi]; [left; reflexivity|].
      exists i, (mkT (D0 s0) [] []). split; [exact Hi|reflexivity].
    + left. rewrite mlookup_remove, E. exact Hk.
  - left. rewrite mlookup_remove. destruct (k =? cur_q th) eqn:E; [|exact Hk].
    apply Nat.eqb_eq in E. subst k. rewrite Heqo in Hk. discriminate.
  - right; left. apply lookup_In in Hk. unfold has_thr. autorewrite with st.
    destruct (In_nth_error_app (upd (s_thr s) t (set_pc th (Ret ROk))) (map closer_of l0) (closer_of (k, e))) as [i Hi];
      [apply in_map; exact Hk|].
    exists i, (closer_of (k, e)). split; [exact Hi|reflexivity].
  - right; left. apply lookup_In in Hk. unfold has_thr. autorewrite with st.
    destruct (In_nth_error_app (upd (s_thr s) t (set_pc th (Ret ROk))) (map closer_of l0) (closer_of (k, e))) as [i Hi];
      [apply in_map; exact Hk|].
    exists i, (closer_of (k, e)). split; [exact Hi|reflexivity].
Qed.

Lemma covered_step s t th c s' l e :
  nth_error (s_thr s) t = Some th -> step_th s t th c = Some (s', l) -> invD s ->
  s_stolen s' = false -> covered s e ->
  covered s' e \/ e_tx (ent s e) = true \/ e_err (ent s e) = true
  \/ (exists st, e_stmt (ent s e) = Some st /\ closing s' st).
Proof.
  intros Ht H [DT SD _] Hs [[k Hk]|[t1 [th1 [Hn1 Hw1]]]].
  - destruct (step_inmap _ _ _ _ _ _ e k Ht H Hs Hk) as [A|[A|[A|[A|[st [A1 A2]]]]]].
    + left; left; exists k; exact A.
    + left; right; exact A.
    + right; left; exact A.
    + right; right; left. pose proof (DT _ _ Ht) as D. cbv beta in D. destruct D as [_ [_ [_ [D4 _]]]]. apply D4, A.
    + right; right; right. exists st. split; [exact A1|right; exact A2].
  - destruct (Nat.eq_dec t1 t) as [->|Hne].
    + rewrite Ht in Hn1. inversion Hn1; subst th1.
      destruct (step_waits_self _ _ _ _ _ _ _ Ht H Hw1) as [A|[Hp A]].
      * left; right; exact A.
      * pose proof (DT _ _ Ht) as D. cbv beta in D. destruct D as [_ [_ [_ [_ [_ [_ [D7 _]]]]]]].
        specialize (D7 _ Hp).
        destruct (e_stmt (ent s e)) as [st|] eqn:Es.
        -- right; right; right. exists st. split; [reflexivity|left; exact A].
        -- right; right; left. destruct (e_err (ent s e)) eqn:Ee; [reflexivity|]. exfalso. eapply SD; eauto.
    + left; right. exact (has_thr_other _ _ _ _ _ _ _ t1 th1 Ht H Hne Hn1 Hw1).
Qed.

(* an entry keeps the statement it carries *)
Lemma step_stmt_stable s t th c s' l e st :
  nth_error (s_thr s) t = Some th -> step_th s t th c = Some (s', l) -> invD s ->
  e_stmt (ent s e) = Some st -> e_stmt (ent s' e) = Some st.
Proof.
  intros Ht H [DT _ _] Hs.
  pose proof (DT _ _ Ht) as D. cbv beta in D. destruct D as [_ [D2 _]].
  assert (Hl : e < length (s_ents s)).
  { destruct (Nat.lt_ge_cases e (length (s_ents s))) as [|Hge]; [assumption|].
    unfold ent in Hs. rewrite nth_overflow in Hs by exact Hge. discriminate. }
  step_cases H.
  all: autorewrite with st; auto.
  all: try (rewrite ent_w_ents_app; destruct (e =? length (s_ents s)) eqn:E; [apply Nat.eqb_eq in E; lia|exact Hs]).
  all: rewrite ent_set_ent; autorewrite with st;
    destruct ((e =? e0) && (e0 <? length (s_ents s))) eqn:E; [|exact Hs];
    apply andb_prop in E; destruct E as [E _]; apply Nat.eqb_eq in E; subst e0; cbn [e_stmt]; try exact Hs.
  rewrite (D2 e) in Hs by reflexivity. discriminate.
Qed.

(* ---- helper facts about one step ---- *)
Definition stmt_noerr (s : state) : Prop :=
  forall e st, e_stmt (ent s e) = Some st -> e_err (ent s e) = false.

Lemma stmt_noerr_step s t th c s' l :
  nth_error (s_thr s) t = Some th -> step_th s t th c = Some (s', l) -> invD s ->
  stmt_noerr s -> stmt_noerr s'.
Proof.
  intros Ht H [DT _ _] SN e st.
  pose proof (DT _ _ Ht) as D. cbv beta in D. destruct D as [_ [D2 [_ [_ [D5 _]]]]].
  step_cases H.
  all: autorewrite with st; try apply SN.
  all: try (rewrite ent_w_ents_app; destruct (e =? length (s_ents s)); [cbn; discriminate | apply SN]).
  all: rewrite ent_set_ent; autorewrite with st;
    destruct ((e =? e0) && (e0 <? length (s_ents s))) eqn:E; [|apply SN];
    apply andb_prop in E; destruct E as [E _]; apply Nat.eqb_eq in E; subst e0;
    cbn [e_stmt e_err]; try apply SN.
  - rewrite (D2 e) by reflexivity. discriminate.
  - intros _. apply D5. reflexivity.
Qed.

Lemma step_thr_cases s t th c s' l t' th' :
  nth_error (s_thr s) t = Some th -> step_th s t th c = Some (s', l) ->
  nth_error (s_thr s') t' = Some th' ->
  t' = t \/ (t' <> t /\ nth_error (s_thr s) t' = Some th') \/ (exists e, t_pc th' = C0 e) \/ (exists st, t_pc th' = D0 st).
Proof.
  intros Ht H. step_cases H.
  all: autorewrite with st; norm_thr; intro Hn';
    destruct (nth_error_app_upd _ _ _ _ _ _ _ Ht Hn') as [[-> _]|[[Hne Ho]|[Hi _]]]; auto.
  all: try (destruct Hi; fail).
  all: try (destruct Hi as [<-|[]]; right; right; right; eexists; reflexivity).
  all: apply in_closers in Hi; destruct Hi as [p [_ ->]]; right; right; left; eexists; reflexivity.
Qed.

(* how the stepping goroutine can come to stand before / inside the driver's Prepare *)
Lemma step_new_p9 s t th c s' l x e :
  nth_error (s_thr s) t = Some th -> step_th s t th c = Some (s', l) ->
  nth_error (s_thr s') t = Some x -> (t_pc x = P9 e \/ t_pc x = P9w e) ->
  cur_tx x = cur_tx th /\
  ((t_pc th = P9 e /\ t_pc x = P9w e) \/ (t_pc th = P6 /\ mlookup (s_map s') (cur_q th) = Some e)).
Proof.
  intros Ht H Hx Hp. step_cases H.
  all: autorewrite with st in Hx; revert Hx; norm_thr; intro Hx;
    rewrite (nth_error_app_upd_self _ _ _ _ _ Ht) in Hx; inversion Hx; subst x; clear Hx.
  all: cbn [t_pc set_pc finish] in Hp; destruct Hp as [Hp|Hp]; try discriminate Hp; inversion Hp; subst.
  all: split; [reflexivity|]; autorewrite with st.
  all: try (left; split; reflexivity).
  - right. split; [reflexivity|]. rewrite (mlookup_insert_hit _ _ _ _ _ Heqo), Nat.eqb_refl. reflexivity.
  - right. split; [reflexivity|]. rewrite mlookup_insert_some, Nat.eqb_refl. reflexivity.
Qed.

Lemma step_prep_new s t th c s' l x :
  nth_error (s_thr s) t = Some th -> step_th s t th c = Some (s', l) -> In x (s_prep s') ->
  In x (s_prep s) \/
  (exists e, t_pc th = P9w e /\ x = (s_nstmt s, cur_q th, cur_tx th)
             /\ nth_error (s_thr s') t = Some (set_pc th (P10 e (s_nstmt s)))).
Proof.
  intros Ht H. step_cases H.
  all: autorewrite with st; auto.
  intro Hi. apply in_app_or in Hi. destruct Hi as [Hi|[<-|[]]]; [left; exact Hi|].
  right. exists e. repeat split. eapply nth_error_upd_same; eauto.
Qed.

Lemma closing_step s t th c s' l st :
  nth_error (s_thr s) t = Some th -> step_th s t th c = Some (s', l) -> closing s st -> closing s' st.
Proof.
  intros Ht H [Hm|[t1 [th1 [Hn1 Hp1]]]].
  - left. eapply step_closed_mono; eauto.
  - destruct (Nat.eq_dec t1 t) as [->|Hne].
    + rewrite Ht in Hn1. inversion Hn1; subst th1. left.
      unfold step_th in H. rewrite Hp1 in H. unfold a_D0 in H. destruct (is_tau c); [|discriminate].
      inversion H; subst. autorewrite with st. apply memb_app_r.
    + right. exact (has_thr_other _ _ _ _ _ _ _ t1 th1 Ht H Hne Hn1 Hp1).
Qed.

Definition carries (s : state) (e st : nat) : Prop :=
  e_stmt (ent s e) = Some st \/ has_thr s (fun p => p = P10 e st \/ p = P10b e st).

Lemma carries_step s t th c s' l e st :
  nth_error (s_thr s) t = Some th -> step_th s t th c = Some (s', l) -> invC s -> invD s ->
  carries s e st -> carries s' e st.
Proof.
  intros Ht H [V _] ID [Hs|[t1 [th1 [Hn1 Hp1]]]].
  - left. eapply step_stmt_stable; eauto.
  - destruct (Nat.eq_dec t1 t) as [->|Hne].
    + rewrite Ht in Hn1. inversion Hn1; subst th1.
      assert (Hl : e < length (s_ents s)) by (eapply (V _ _ Ht); destruct Hp1 as [->| ->]; reflexivity).
      unfold step_th in H. destruct Hp1 as [Hp1|Hp1]; rewrite Hp1 in H.
      * unfold a_P10 in H. destruct (is_tau c); [|discriminate]. destruct (lock_free s); [|discriminate].
        inversion H; subst. right. exists t, (set_pc th (P10b e st)). autorewrite with st.
        split; [eapply nth_error_upd_same; eauto | right; reflexivity].
      * unfold a_P10b in H. destruct (is_tau c); [|discriminate]. cbv zeta in H.
        inversion H; subst. left. autorewrite with st. rewrite ent_set_ent. autorewrite with st.
        rewrite Nat.eqb_refl, (ltb_true _ _ Hl). reflexivity.
    + right. exact (has_thr_other _ _ _ _ _ _ _ t1 th1 Ht H Hne Hn1 Hp1).
Qed.

(* ---- the invariant ---- *)
Definition safe (s : state) (st : nat) : Prop :=
  closing s st \/ exists e, carries s e st /\ e_tx (ent s e) = false /\ covered s e.

Record invL (s : state) : Prop := {
  L_prog : forall t th e, nth_error (s_thr s) t = Some th -> (t_pc th = P9 e \/ t_pc th = P9w e) ->
           cur_tx th = false -> covered s e;
  L_stmt : forall st q, In (st, q, false) (s_prep s) -> safe s st
}.

(* an in-progress or statement-carrying pool entry that was covered stays covered, or its
   statement is being closed *)
Lemma covered_keep s t th c s' l e :
  nth_error (s_thr s) t = Some th -> step_th s t th c = Some (s', l) -> invD s ->
  s_stolen s' = false -> covered s e ->
  e_tx (ent s e) = false -> e_err (ent s e) = false ->
  covered s' e \/ exists st, e_stmt (ent s e) = Some st /\ closing s' st.
Proof.
  intros Ht H ID Hs Hc Htx Herr.
  destruct (covered_step _ _ _ _ _ _ e Ht H ID Hs Hc) as [A|[A|[A|A]]]; auto; congruence.
Qed.

Lemma invL_step s t th c s' l :
  nth_error (s_thr s) t = Some th -> step_th s t th c = Some (s', l) ->
  invC s -> invD s -> stmt_noerr s -> s_stolen s' = false -> invL s -> invL s'.
Proof.
  intros Ht H IC ID SN Hs [LP LS].
  pose proof ID as [DT SD _]. pose proof IC as [V _].
  split.
  - (* in-progress pool entries *)
    intros t' th' e Hn' Hp' Htx'.
    destruct (step_thr_cases _ _ _ _ _ _ _ _ Ht H Hn') as [->|[[Hne Ho]|[[e1 Hc1]|[st1 Hd1]]]].
    + destruct (step_new_p9 _ _ _ _ _ _ _ e Ht H Hn' Hp') as [Hx [[Hp Hpx]|[Hp Hm]]].
      * pose proof (DT _ _ Ht) as D. cbv beta in D. destruct D as [D1 [D2 [_ [_ [D5 _]]]]].
        destruct (D1 e) as [_ [_ Dtx]]; [rewrite Hp; reflexivity|].
        assert (Hcov : covered s e) by (eapply LP; eauto; congruence).
        destruct (covered_keep _ _ _ _ _ _ e Ht H ID Hs Hcov) as [A|[st [A _]]]; auto.
        -- congruence.
        -- apply D5. rewrite Hp. reflexivity.
        -- rewrite (D2 e) in A by (rewrite Hp; reflexivity). discriminate.
      * left. exists (cur_q th). exact Hm.
    + pose proof (DT _ _ Ho) as D. cbv beta in D. destruct D as [D1 [D2 [_ [_ [D5 _]]]]].
      assert (Hown : owner_of (t_pc th') = Some e) by (destruct Hp' as [-> | ->]; reflexivity).
      destruct (D1 e Hown) as [_ [_ Dtx]].
      assert (Hcov : covered s e) by (eapply LP; eauto).
      destruct (covered_keep _ _ _ _ _ _ e Ht H ID Hs Hcov) as [A|[st [A _]]]; auto.
      * congruence.
      * apply D5. destruct Hp' as [-> | ->]; reflexivity.
      * rewrite (D2 e) in A by (destruct Hp' as [-> | ->]; reflexivity). discriminate.
    + destruct Hp' as [Hp'|Hp']; rewrite Hp' in Hc1; discriminate.
    + destruct Hp' as [Hp'|Hp']; rewrite Hp' in Hd1; discriminate.
  - (* statements *)
    intros st q Hi.
    destruct (step_prep_new _ _ _ _ _ _ _ Ht H Hi) as [Hold|[e [Hp [Hx Hnew]]]].
    + destruct (LS _ _ Hold) as [Hcl|[e [Hca [Htx Hcov]]]].
      * left. eapply closing_step; eauto.
      * assert (Hl : e < length (s_ents s)).
        { destruct Hca as [Hst|[t1 [th1 [Hn1 Hp1]]]].
          - destruct (Nat.lt_ge_cases e (length (s_ents s))) as [|Hge]; [assumption|].
            unfold ent in Hst. rewrite nth_overflow in Hst by exact Hge. discriminate.
          - eapply (V _ _ Hn1). destruct Hp1 as [-> | ->]; reflexivity. }
        assert (Herr : e_err (ent s e) = false).
        { destruct Hca as [Hst|[t1 [th1 [Hn1 Hp1]]]]; [eapply SN; eauto|].
          pose proof (DT _ _ Hn1) as D. cbv beta in D. destruct D as [_ [_ [_ [_ [D5 _]]]]].
          apply D5. destruct Hp1 as [-> | ->]; reflexivity. }
        destruct (covered_keep _ _ _ _ _ _ e Ht H ID Hs Hcov Htx Herr) as [A|[st' [A1 A2]]].
        -- right. exists e. split; [eapply carries_step; eauto|]. split; [|exact A].
           destruct (step_eq_const _ _ _ _ _ _ H e Hl) as [_ ->]. exact Htx.
        -- destruct Hca as [Hst|[t1 [th1 [Hn1 Hp1]]]].
           ++ left. rewrite Hst in A1. inversion A1; subst. exact A2.
           ++ exfalso. pose proof (DT _ _ Hn1) as D. cbv beta in D. destruct D as [_ [D2 _]].
              rewrite (D2 e) in A1 by (destruct Hp1 as [-> | ->]; reflexivity). discriminate.
    + (* the statement just prepared *)
      inversion Hx; subst st q. clear Hx.
      pose proof (DT _ _ Ht) as D. cbv beta in D. destruct D as [D1 [D2 [_ [_ [D5 _]]]]].
      destruct (D1 e) as [_ [_ Dtx]]; [rewrite Hp; reflexivity|].
      assert (Hl : e < length (s_ents s)) by (eapply (V _ _ Ht); rewrite Hp; reflexivity).
      assert (Htx : cur_tx th = false) by congruence.
      assert (Hcov : covered s e) by (eapply LP; eauto).
      right. exists e. split; [|split].
      * right. exists t, (set_pc th (P10 e (s_nstmt s))). split; [exact Hnew|left; reflexivity].
      * destruct (step_eq_const _ _ _ _ _ _ H e Hl) as [_ ->]. congruence.
      * destruct (covered_keep _ _ _ _ _ _ e Ht H ID Hs Hcov) as [A|[st [A _]]]; auto.
        -- congruence.
        -- apply D5. rewrite Hp. reflexivity.
        -- rewrite (D2 e) in A by (rewrite Hp; reflexivity). discriminate.
Qed.

Lemma invL_init g progs : invL (init_g g progs).
Proof.
  split.
  - intros t th e H Hp. cbn in H. rewrite nth_error_map in H. destruct (nth_error progs t); inversion H; subst.
    cbn in Hp. destruct Hp; discriminate.
  - intros st q H. destruct H.
Qed.

Lemma stmt_noerr_init g progs : stmt_noerr (init_g g progs).
Proof. intros e st H. unfold ent in H. cbn in H. destruct e; discriminate. Qed.

Lemma invL_reach progs s : reach progs s -> s_stolen s = false -> invL s.
Proof.
  intro Hr.
  assert (G : (invC s /\ invD s) /\ stmt_noerr s /\ (s_stolen s = false -> invL s)).
  { revert s Hr. apply (reach_ind progs (fun s => (invC s /\ invD s) /\ stmt_noerr s /\ (s_stolen s = false -> invL s))).
    - intro g. split; [split; [apply invC_init|apply invD_init]|]. split; [apply stmt_noerr_init|]. intros _. apply invL_init.
    - intros s0 t c s1 [[IC ID] [SN IL]] H. apply step_inv in H. destruct H as [th [l [Ht Hs]]].
      split; [split; [eapply invC_step|eapply invD_step]; eauto|].
      split; [eapply stmt_noerr_step; eauto|].
      intro Hst. eapply invL_step; eauto. apply IL. eapply step_stolen_mono; eauto. }
  tauto.
Qed.

(* Safety form of "every statement the cache prepared is eventually closed", PARTIAL: as long as
   no delete-by-text removed an entry that was not the deleter's own, every successfully prepared
   pool-level statement is closed, or a spawned goroutine is about to close it, or an entry carries
   it that is in the current map or has a live closer. *)
Lemma closed_eventually_partial progs s st q :
  reach progs s -> s_stolen s = false -> In (st, q, false) (s_prep s) -> safe s st.
Proof. intros Hr Hs. destruct (invL_reach _ _ Hr Hs) as [_ LS]. apply LS. Qed.

Lemma all_done_no_thr s (P : pc -> Prop) : all_done s = true -> ~ P Idle -> ~ has_thr s P.
Proof.
  intros Hd Hn [t [th [Ht Hp]]]. unfold all_done in Hd. rewrite forallb_forall in Hd.
  specialize (Hd th (nth_error_In _ _ Ht)). unfold thread_done in Hd.
  destruct (t_pc th); try discriminate. exact (Hn Hp).
Qed.

(* at quiescence: every pool-level statement still open is cached in the current map *)
Lemma quiescent_open_is_cached progs s st :
  reach progs s -> s_stolen s = false -> all_done s = true -> In st (leaked s) ->
  exists k e, mlookup (s_map s) k = Some e /\ e_stmt (ent s e) = Some st.
Proof.
  intros Hr Hs Hd Hi. unfold leaked in Hi. apply in_map_iff in Hi. destruct Hi as [[[st' q] b] [E Hf]].
  cbn in E. subst st'. apply filter_In in Hf. destruct Hf as [Hin Hc]. cbn in Hc.
  apply andb_prop in Hc. destruct Hc as [Hb Hc]. destruct b; [discriminate|].
  apply negb_true_iff in Hc.
  destruct (closed_eventually_partial _ _ _ _ Hr Hs Hin) as [[Hm|Hth]|[e [Hca [_ Hcov]]]].
  - congruence.
  - exfalso. eapply all_done_no_thr; eauto. discriminate.
  - destruct Hca as [Hst|Hth]; [|exfalso; eapply all_done_no_thr; eauto; intros [?|?]; discriminate].
    destruct Hcov as [[k Hk]|Hth]; [eauto|].
    exfalso. eapply all_done_no_thr; eauto. discriminate.
Qed.

(* ... hence after a final Close (nil map) nothing is left open *)
Lemma leak_free_partial progs s :
  reach progs s -> s_stolen s = false -> all_done s = true -> s_map s = None -> leaked s = [].
Proof.
  intros Hr Hs Hd Hm. destruct (leaked s) as [|st r] eqn:E; [reflexivity|].
  destruct (quiescent_open_is_cached progs s st Hr Hs Hd) as [k [e [Hk _]]]; [rewrite E; left; reflexivity|].
  rewrite Hm in Hk. discriminate.
Qed.

(* theft needs a driver fault: schedules in which every Prepare and every execution succeeds
   never set the flag *)
Definition fault_free (s : state) : Prop :=
  s_stolen s = false /\ s_fails s = [] /\ s_evicts s = [] /\
  thr_inv s (fun th => match t_pc th with
                       | P11 _ | P11b _ | P11c _ | X2 _ | X2b _ => False
                       | X1r _ o => o = CExecOk
                       | Ret r => r <> RErrBad /\ r <> RErrOther
                       | _ => True end).

