(* Where_Sem.v — Kleene evaluation of the trees of Where_Render. *)
From Verif Require Import Base Sem Where_Model Where_Proofs Where_Render.

Local Arguments wrap_of : simpl never.

(* ---------- Kleene algebra ---------- *)
Lemma tv_and_assoc a b c : tv_and a (tv_and b c) = tv_and (tv_and a b) c.
Proof. destruct a, b, c; reflexivity. Qed.
Lemma tv_or_assoc a b c : tv_or a (tv_or b c) = tv_or (tv_or a b) c.
Proof. destruct a, b, c; reflexivity. Qed.
Lemma tv_and_TT_r a : tv_and a TT = a.
Proof. destruct a; reflexivity. Qed.
Lemma tv_and_TT_l a : tv_and TT a = a.
Proof. destruct a; reflexivity. Qed.
Lemma tv_or_TF_r a : tv_or a TF = a.
Proof. destruct a; reflexivity. Qed.
Lemma tv_or_TF_l a : tv_or TF a = a.
Proof. destruct a; reflexivity. Qed.
Lemma tv_not_not a : tv_not (tv_not a) = a.
Proof. destruct a; reflexivity. Qed.
Lemma tv_and_comm a b : tv_and a b = tv_and b a.
Proof. destruct a, b; reflexivity. Qed.

(* ---------- evaluation of printed trees ---------- *)
Lemma evT_cons v f t : evT v (f :: t) = tv_and (evF v f) (evT v t).
Proof. reflexivity. Qed.
Lemma evE_cons v t e : evE v (t :: e) = tv_or (evT v t) (evE v e).
Proof. reflexivity. Qed.
Lemma evT_single v f : evT v [f] = evF v f.
Proof. unfold evT. cbn. apply tv_and_TT_r. Qed.
Lemma evE_single v t : evE v [t] = evT v t.
Proof. unfold evE. cbn. apply tv_or_TF_r. Qed.
Lemma evT_snoc v t f : evT v (t ++ [f]) = tv_and (evT v t) (evF v f).
Proof.
  induction t as [|g t IH]; [cbn [app]; rewrite evT_single; unfold evT; cbn; destruct (evF v f); reflexivity|].
  cbn [app]. rewrite !evT_cons, IH. apply tv_and_assoc.
Qed.
Lemma evF_par v e : evF v (FPar e) = evE v e.
Proof. reflexivity. Qed.

Lemma evF_theF v e : is_singleF e = true -> evF v (theF e) = evE v e.
Proof.
  destruct e as [|[|f [|? ?]] [|? ?]]; try discriminate. intros _. cbn [theF].
  rewrite evE_single, evT_single. reflexivity.
Qed.

(* the value of an expression: the Kleene value of its tree *)
Definition dx (v : nat -> tv) (e : expr) : tv := evE v (toE e).

Lemma evF_item v e : closedx e = true -> evF v (itemF e) = dx v e.
Proof.
  unfold closedx, itemF, dx. destruct (wrap_of e); [reflexivity|]. cbn. apply evF_theF.
Qed.

(* an AND-joined list read with SQL precedence: [acc] is the value of the current AND group *)
Fixpoint pe (l : list (bool * tv)) (acc : tv) : tv :=
  match l with
  | [] => acc
  | (true, x) :: r => tv_or acc (pe r x)
  | (false, x) :: r => pe r (tv_and acc x)
  end.

Fixpoint allclosed (l : list expr) : bool :=
  match l with [] => true | e :: r => closedx e && allclosed r end.

Lemma evE_grpE v : forall r cur, allclosed r = true ->
  evE v (grpE r cur) = pe (map (fun e => (is_single_or e, dx v e)) r) (evT v cur).
Proof.
  induction r as [|e r IH]; intros cur Hc.
  - cbn. apply evE_single.
  - cbn [allclosed] in Hc. apply andb_prop in Hc. destruct Hc as [Hce Hcr].
    cbn [grpE map pe]. destruct (is_single_or e).
    + rewrite evE_cons, IH by exact Hcr. rewrite evT_single, evF_item by exact Hce. reflexivity.
    + rewrite IH by exact Hcr. rewrite evT_snoc, evF_item by exact Hce. reflexivity.
Qed.

(* value of a list of expressions joined as Where.Build / AndConditions.Build join them *)
Definition val_list (v : nat -> tv) (l : list expr) : tv :=
  match l with
  | [] => TT
  | e :: r => pe (map (fun e => (is_single_or e, dx v e)) r) (dx v e)
  end.

Lemma evE_toE_list v l : allclosed l = true -> l <> [] -> evE v (toE_list l) = val_list v l.
Proof.
  destruct l as [|e [|e2 r]]; intros Hc Hne; [congruence|reflexivity|].
  cbn [toE_list val_list]. cbn [allclosed] in Hc. apply andb_prop in Hc. destruct Hc as [Hce Hcr].
  rewrite evE_grpE by exact Hcr. rewrite evT_single, evF_item by exact Hce. reflexivity.
Qed.

Lemma oksL_allclosed l : oksL l = true -> allclosed l = true.
Proof.
  induction l as [|e r IH]; [reflexivity|]. cbn. intros H.
  apply andb_prop in H. destruct H as [H Hr]. apply andb_prop in H. destruct H as [_ Hc].
  rewrite Hc, (IH Hr). reflexivity.
Qed.

Lemma dx_and v l : oksL l = true -> gt1 l = true -> dx v (XAnd l) = val_list v l.
Proof.
  intros Hok Hg. unfold dx. rewrite toE_and. destruct l as [|e [|e2 r]]; try discriminate.
  rewrite evE_single, evT_single, evF_par.
  change (grpE (e2 :: r) [itemF e]) with (toE_list (e :: e2 :: r)).
  apply evE_toE_list; [apply oksL_allclosed, Hok|discriminate].
Qed.
Lemma dx_and_single v e : dx v (XAnd [e]) = dx v e.
Proof. reflexivity. Qed.
Lemma dx_or_single v e : dx v (XOr [e]) = dx v e.
Proof. reflexivity. Qed.

(* no OR alternative in the list: plain conjunction *)
Lemma pe_no_or l acc : forallb (fun p => negb (fst p)) l = true ->
  pe l acc = fold_left (fun a p => tv_and a (snd p)) l acc.
Proof.
  revert acc; induction l as [|[b x] r IH]; intros acc H; [reflexivity|].
  cbn in H. apply andb_prop in H. destruct H as [Hb Hr]. destruct b; [discriminate|].
  cbn. apply IH, Hr.
Qed.
Lemma fold_and_app (l1 l2 : list (bool * tv)) acc :
  fold_left (fun a p => tv_and a (snd p)) (l1 ++ l2) acc
  = fold_left (fun a p => tv_and a (snd p)) l2 (fold_left (fun a p => tv_and a (snd p)) l1 acc).
Proof. apply fold_left_app. Qed.

(* ------------------------------------------------------------------ *)
(* C08: the soft-delete filter is a conjunct of whatever the user supplied *)

Lemma dx_atom v a na : dx v (XAtom a na) = v a.
Proof. unfold dx. cbn. destruct (v a); reflexivity. Qed.

Lemma val_list_snoc_no_or v l a :
  existsb is_single_or l = false -> is_single_or a = false ->
  val_list v (l ++ [a]) = tv_and (val_list v l) (dx v a).
Proof.
  intros Hl Ha. destruct l as [|e r]; [cbn [app val_list map pe]; rewrite tv_and_TT_l; reflexivity|].
  cbn [existsb] in Hl. apply orb_false_elim in Hl. destruct Hl as [_ Hr].
  cbn [app val_list]. rewrite map_app. cbn [map]. rewrite Ha.
  assert (Hno : forallb (fun p : bool * tv => negb (fst p)) (map (fun e0 => (is_single_or e0, dx v e0)) r) = true).
  { clear -Hr. induction r as [|x r IH]; [reflexivity|]. cbn in *. apply orb_false_elim in Hr.
    destruct Hr as [-> Hr]. cbn. apply IH, Hr. }
  rewrite !pe_no_or.
  - rewrite fold_left_app. reflexivity.
  - exact Hno.
  - rewrite forallb_app, Hno. reflexivity.
Qed.

Lemma existsb_single_or_false_forall l : existsb is_single_or l = false ->
  forall x, In x l -> is_single_or x = false.
Proof.
  induction l as [|e r IH]; intros H x []; cbn in H; apply orb_false_elim in H; destruct H; subst; auto.
Qed.

Lemma ok_list_single_or_multi e r : ok_list (e :: r) = true -> r <> [] -> oksL (e :: r) = true.
Proof. destruct r; [congruence|]. intros H _. exact H. Qed.

Lemma oksL_in l : oksL l = true -> forall x, In x l -> okx x = true.
Proof.
  induction l as [|e r IH]; intros H x []; subst; cbn in H; apply andb_prop in H; destruct H as [H Hr].
  - apply andb_prop in H. tauto.
  - apply IH; assumption.
Qed.

Lemma soft_delete_filter_conjunct v live nlive exprs E :
  ok_where (soft_delete_exprs live nlive exprs) = true ->
  parse (where_tokens (soft_delete_exprs live nlive exprs)) = Some E ->
  evE v E = tv_and (val_list v exprs) (v live).
Proof.
  intros Hok Hp. rewrite (where_parses _ Hok) in Hp. inversion Hp; subst; clear Hp.
  unfold toE_where, ok_where, where_exprs_built in *.
  set (sd := soft_delete_exprs live nlive exprs) in *.
  pose proof (soft_delete_no_toplevel_or live nlive exprs) as Hno. fold sd in Hno.
  pose proof (soft_delete_no_swap live nlive exprs) as Hsw. fold sd in Hsw.
  assert (Hlone : match sd with [XAnd l] => l | _ => sd end = sd).
  { unfold sd, soft_delete_exprs. destruct (if existsb is_single_or exprs then _ else _) as [|g [|g2 r]]; cbn [app]; try reflexivity; destruct g; reflexivity. }
  rewrite Hlone, Hsw in *.
  (* the user's part, grouped *)
  unfold sd, soft_delete_exprs in *.
  set (grouped := if existsb is_single_or exprs then olist (mk_and exprs) else exprs) in *.
  assert (Hg_no : existsb is_single_or grouped = false).
  { rewrite existsb_app in Hno. apply orb_false_elim in Hno. tauto. }
  assert (Hclosed : allclosed (grouped ++ [XAtom live nlive]) = true /\
                    (forall x, In x grouped -> okx x = true)).
  { destruct grouped as [|g r] eqn:Eg.
    - split; [reflexivity|intros x []].
    - cbn [app] in Hok. assert (Hoks : oksL (g :: r ++ [XAtom live nlive]) = true).
      { apply ok_list_single_or_multi; [exact Hok|destruct r; discriminate]. }
      split; [apply oksL_allclosed, Hoks|].
      intros x Hx. apply (oksL_in (g :: r ++ [XAtom live nlive]) Hoks).
      change (g :: r ++ [XAtom live nlive]) with ((g :: r) ++ [XAtom live nlive]).
      apply in_or_app; left; exact Hx. }
  destruct Hclosed as [Hcl Hokg].
  rewrite evE_toE_list by (exact Hcl || (destruct grouped; discriminate)).
  rewrite val_list_snoc_no_or by (exact Hg_no || reflexivity).
  rewrite dx_atom. f_equal.
  (* value of the grouped list = value of the user's list *)
  unfold grouped in *. destruct (existsb is_single_or exprs) eqn:Eor; [|reflexivity].
  destruct exprs as [|e [|e2 r]]; [discriminate| |].
  - cbn [mk_and olist]. destruct (is_or e) eqn:Eo; [reflexivity|].
    destruct e; discriminate.
  - cbn [mk_and olist]. change (val_list v [XAnd (e :: e2 :: r)]) with (dx v (XAnd (e :: e2 :: r))).
    assert (Hx : okx (XAnd (e :: e2 :: r)) = true) by (apply Hokg; left; reflexivity).
    rewrite okx_and in Hx. apply dx_and; [exact Hx|reflexivity].
Qed.
