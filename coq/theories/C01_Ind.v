(* C01_Ind.v — induction principle for [val] with [Forall] premises for list arguments (generated once). *)
From Verif Require Import Base C01_Model.

Section ValInd.
Variable P : val -> Prop.
Hypothesis H_VS : forall (s : scalar), P (VS s).
Hypothesis H_VDrv : forall (s : scalar), P (VDrv s).
Hypothesis H_VList : forall (k : lkind) (l : list val), Forall P l -> P (VList k l).
Hypothesis H_VNamed : forall (n : string) (x : val), P x -> P (VNamed n x).
Hypothesis H_VNameSrc : forall (l : list val), Forall P l -> P (VNameSrc l).
Hypothesis H_VGormValuer : forall (b : bool) (x : val), P x -> P (VGormValuer b x).
Hypothesis H_VCol : forall (t : string) (n : string) (a : string) (r : bool), P (VCol t n a r).
Hypothesis H_VTable : forall (n : string) (a : string) (r : bool), P (VTable n a r).
Hypothesis H_VQStr : forall (s : string), P (VQStr s).
Hypothesis H_VText : forall (s : string), P (VText s).
Hypothesis H_VExpr : forall (w : bool) (s : string) (l : list val), Forall P l -> P (VExpr w s l).
Hypothesis H_VNamedExpr : forall (s : string) (l : list val), Forall P l -> P (VNamedExpr s l).
Hypothesis H_VCmp : forall (o : cmpop) (c : val) (x : val), P c -> P x -> P (VCmp o c x).
Hypothesis H_VIn : forall (c : val) (l : list val), P c -> Forall P l -> P (VIn c l).
Hypothesis H_VAnd : forall (l : list val), Forall P l -> P (VAnd l).
Hypothesis H_VOr : forall (l : list val), Forall P l -> P (VOr l).
Hypothesis H_VNot : forall (l : list val), Forall P l -> P (VNot l).
Hypothesis H_VWhere : forall (l : list val), Forall P l -> P (VWhere l).
Hypothesis H_VSeq : forall (s : string) (l : list val), Forall P l -> P (VSeq s l).
Hypothesis H_VSubN : forall (t : tinfo) (q : val) (l : list val), P q -> Forall P l -> P (VSubN t q l).
Hypothesis H_VRawSub : forall (s : string) (l : list val), Forall P l -> P (VRawSub s l).
Hypothesis H_VSub : forall (t : tinfo) (l : list val), Forall P l -> P (VSub t l).
Hypothesis H_KCond : forall (k : ckind) (q : val) (l : list val), P q -> Forall P l -> P (KCond k q l).
Hypothesis H_KHaving : forall (q : val) (l : list val), P q -> Forall P l -> P (KHaving q l).
Hypothesis H_KSelect : forall (s : string) (l : list val), Forall P l -> P (KSelect s l).
Hypothesis H_KSelectCols : forall (c : list string), P (KSelectCols c).
Hypothesis H_KTable : forall (n : string) (a : string) (l : list val), Forall P l -> P (KTable n a l).
Hypothesis H_KJoins : forall (s : string) (l : list val), Forall P l -> P (KJoins s l).
Hypothesis H_KGroup : forall (s : string), P (KGroup s).
Hypothesis H_KOrder : forall (s : string), P (KOrder s).
Hypothesis H_KOrderExpr : forall (x : val), P x -> P (KOrderExpr x).
Hypothesis H_KLimit : forall (n : Z), P (KLimit n).
Hypothesis H_KOffset : forall (n : Z), P (KOffset n).
Hypothesis H_KDistinct : P (KDistinct).
Hypothesis H_KClauses : forall (l : list val), Forall P l -> P (KClauses l).
Hypothesis H_VMapCond : forall (l : list val), Forall P l -> P (VMapCond l).
Hypothesis H_VStructCond : forall (l : list val), Forall P l -> P (VStructCond l).
Hypothesis H_VField : forall (n : string) (z : bool) (x : val), P x -> P (VField n z x).
Hypothesis H_VOnConflict : forall (c : list val) (d : bool) (s : list val) (w : list val), Forall P c -> Forall P s -> Forall P w -> P (VOnConflict c d s w).

Fixpoint val_ind' (v : val) : P v :=
  let fl := fix fl (l : list val) : Forall P l :=
    match l with [] => Forall_nil P | x :: r => Forall_cons x (val_ind' x) (fl r) end in
  match v with
  | VS s => H_VS s 
  | VDrv s => H_VDrv s 
  | VList k l => H_VList k l (fl l)
  | VNamed n x => H_VNamed n x (val_ind' x)
  | VNameSrc l => H_VNameSrc l (fl l)
  | VGormValuer b x => H_VGormValuer b x (val_ind' x)
  | VCol t n a r => H_VCol t n a r 
  | VTable n a r => H_VTable n a r 
  | VQStr s => H_VQStr s 
  | VText s => H_VText s 
  | VExpr w s l => H_VExpr w s l (fl l)
  | VNamedExpr s l => H_VNamedExpr s l (fl l)
  | VCmp o c x => H_VCmp o c x (val_ind' c) (val_ind' x)
  | VIn c l => H_VIn c l (val_ind' c) (fl l)
  | VAnd l => H_VAnd l (fl l)
  | VOr l => H_VOr l (fl l)
  | VNot l => H_VNot l (fl l)
  | VWhere l => H_VWhere l (fl l)
  | VSeq s l => H_VSeq s l (fl l)
  | VSubN t q l => H_VSubN t q l (val_ind' q) (fl l)
  | VRawSub s l => H_VRawSub s l (fl l)
  | VSub t l => H_VSub t l (fl l)
  | KCond k q l => H_KCond k q l (val_ind' q) (fl l)
  | KHaving q l => H_KHaving q l (val_ind' q) (fl l)
  | KSelect s l => H_KSelect s l (fl l)
  | KSelectCols c => H_KSelectCols c 
  | KTable n a l => H_KTable n a l (fl l)
  | KJoins s l => H_KJoins s l (fl l)
  | KGroup s => H_KGroup s 
  | KOrder s => H_KOrder s 
  | KOrderExpr x => H_KOrderExpr x (val_ind' x)
  | KLimit n => H_KLimit n 
  | KOffset n => H_KOffset n 
  | KDistinct  => H_KDistinct  
  | KClauses l => H_KClauses l (fl l)
  | VMapCond l => H_VMapCond l (fl l)
  | VStructCond l => H_VStructCond l (fl l)
  | VField n z x => H_VField n z x (val_ind' x)
  | VOnConflict c d s w => H_VOnConflict c d s w (fl c) (fl s) (fl w)
  end.
End ValInd.
