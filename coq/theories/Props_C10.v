(* Props_C10.v — placeholder while the pipeline is being assembled *)
From Verif Require Import Base C10_Model.
Theorem c10_placeholder : forall f, f_dash f = Some DDash -> has_col f = false.
Proof. intros f H. unfold has_col. now rewrite H. Qed.
Print Assumptions c10_placeholder.
