(* Props_C10.v — property C10: ONLY theorem statements, each closed by [exact] of a lemma from
   C10_Proofs / C10_Proofs2, followed by Print Assumptions.
   [wf s]: distinct columns, distinct field names, no field name equal to another field's column
   (what Go and the naming strategy give; [wfb] decides it, see c10_harness_schemas_wf).
   [local table items]: "tbl.col" / "tbl.*" items use the statement's own table.
   sm = select_and_omit s table selects omits req_create req_update is Statement.SelectAndOmitColumns. *)
From Verif Require Import Base C10_Model C10_Spec C10_Schemas C10_Proofs C10_Proofs2 C10_Proofs3 C10_Proofs4.
Open Scope Z_scope.

(* the select map, read declaratively: denied permission wins, then Omit, then Select *)
Theorem c10_select_map_reading : forall s table, wf s -> forall selects omits rc ru f,
  In f s -> has_col f = true -> local table selects = true -> local table omits = true ->
  sel_get (fst (select_and_omit s table selects omits rc ru)) (f_db f)
  = if denied rc ru f then Some false
    else if listed table omits f then Some false
    else if listed table selects f then Some true else None.
Proof. exact sao_get_field. Qed.
Print Assumptions c10_select_map_reading.

(* no column without update permission is ever in an UPDATE set (struct payload, Save, column updates) *)
Theorem c10_no_forbidden_update_struct : forall s table selects omits skip is_save p c k,
  In (c, k) (assign_struct s (select_and_omit s table selects omits false true) skip is_save p) ->
  exists f, In f s /\ has_col f = true /\ c = f_db f /\ updatable f = true
            /\ k = (if hooked skip f then KNow else KPay).
Proof. exact assign_struct_in. Qed.
Print Assumptions c10_no_forbidden_update_struct.

(* ... nor with a map payload (Update, Updates(map), UpdateColumn(s)): every assignment is an
   updatable column of the schema, or a key that names no field at all (raw column, outside the domain) *)
Theorem c10_no_forbidden_update_map : forall s table, wf s -> forall selects omits skip p c k,
  In (c, k) (assign_map s (select_and_omit s table selects omits false true) skip p) ->
  (exists f, In f s /\ has_col f = true /\ c = f_db f /\ updatable f = true
             /\ (k = KNow -> skip = false /\ tracked_update f = true
                             /\ was_assigned (map_keys_part s (select_and_omit s table selects omits false true) p) (f_db f) = false))
  \/ (lookup_field s c = None /\ map_has p c = true /\ k = KPay).
Proof. exact assign_map_in. Qed.
Print Assumptions c10_no_forbidden_update_map.

(* no column without create permission is in an INSERT (struct, slice) ... *)
Theorem c10_no_forbidden_create : forall s table, wf s -> forall selects omits ps f,
  In f (create_fields s (select_and_omit s table selects omits true false) ps) ->
  In f s /\ has_col f = true /\ creatable f = true.
Proof. exact create_fields_creatable. Qed.
Print Assumptions c10_no_forbidden_create.

(* ... and OnConflict{UpdateAll} only updates columns with create AND update permission, never the key *)
Theorem c10_no_forbidden_upsert : forall s table, wf s -> forall selects omits inserted forced p c k,
  (forall f, In f inserted -> In f s /\ has_col f = true) ->
  In (c, k) (update_all_set s (select_and_omit s table selects omits true true) inserted forced p) ->
  exists f, In f inserted /\ c = f_db f /\ creatable f = true /\ updatable f = true /\ f_pk f = false.
Proof. exact update_all_both. Qed.
Print Assumptions c10_no_forbidden_upsert.

(* Select/Omit exactness: the SET list of a struct payload (Updates, UpdateColumns, Save) holds
   column f iff the declarative reading says so: permitted, not omitted, and (listed by Select, or
   no Select and non-zero, or a tracked update-time field while hooks run) *)
Theorem c10_select_omit_exact : forall s table, wf s -> forall selects omits skip is_save p f,
  In f s -> has_col f = true -> local table selects = true -> local table omits = true ->
  (exists k, In (f_db f, k) (assign_struct s (select_and_omit s table selects omits false true) skip is_save p))
  <-> (f_pk f && is_save = false /\ may_update table ShStruct (negb skip) selects omits p f = true).
Proof. exact assign_struct_exact. Qed.
Print Assumptions c10_select_omit_exact.

(* Updates with a struct writes its non-zero fields (no Select/Omit) *)
Theorem c10_struct_nonzero : forall s table, wf s -> forall skip p f, In f s -> has_col f = true ->
  (exists k, In (f_db f, k) (assign_struct s (select_and_omit s table [] [] false true) skip false p))
  <-> updatable f = true /\ (p_zero p f = false \/ (skip = false /\ tracked_update f = true)).
Proof. exact struct_nonzero. Qed.
Print Assumptions c10_struct_nonzero.

(* Updates with a map / Update write every given key, zero values included *)
Theorem c10_map_all_keys : forall s table, wf s -> forall skip p e f,
  In e (snd p) -> lookup_field s (fst e) = Some f -> has_col f = true -> updatable f = true ->
  In (f_db f, KPay) (assign_map s (select_and_omit s table [] [] false true) skip p).
Proof. exact assign_map_all_keys. Qed.
Print Assumptions c10_map_all_keys.

(* Save writes all fields (modulo permission tags and Omit; the key identifies the row) *)
Theorem c10_save_all_fields : forall s table, wf s -> forall omits p f,
  In f s -> has_col f = true -> local table omits = true ->
  updatable f = true -> f_pk f = false -> listed table omits f = false ->
  exists k, In (f_db f, k) (assign_struct s (select_and_omit s table [SStar] omits false true) false true p).
Proof. exact save_all_fields. Qed.
Print Assumptions c10_save_all_fields.

(* tracked update-time fields are refreshed by every hook-running update unless omitted ... *)
Theorem c10_autoupdate_struct : forall s table, wf s -> forall selects omits is_save p f,
  In f s -> has_col f = true -> local table selects = true -> local table omits = true ->
  tracked_update f = true -> updatable f = true -> listed table omits f = false -> f_pk f && is_save = false ->
  In (f_db f, KNow) (assign_struct s (select_and_omit s table selects omits false true) false is_save p).
Proof. exact autoupdate_struct. Qed.
Print Assumptions c10_autoupdate_struct.

(* ... and with a map payload: the column is always written — with the map's value when the key loop
   assigned it (key given, selected, permitted), refreshed (NowFunc) otherwise.  Total since /repo
   commit cef6815. *)
Theorem c10_autoupdate_map : forall s table, wf s -> forall selects omits p f,
  In f s -> has_col f = true -> local table selects = true -> local table omits = true ->
  tracked_update f = true -> updatable f = true -> listed table omits f = false ->
  let sm := select_and_omit s table selects omits false true in
  if was_assigned (map_keys_part s sm p) (f_db f)
  then In (f_db f, KPay) (assign_map s sm false p)
  else In (f_db f, KNow) (assign_map s sm false p).
Proof. exact autoupdate_map. Qed.
Print Assumptions c10_autoupdate_map.

(* ... and never by UpdateColumn / UpdateColumns *)
Theorem c10_column_update_never_refreshes_struct : forall s table selects omits is_save p c k,
  In (c, k) (assign_struct s (select_and_omit s table selects omits false true) true is_save p) -> k = KPay.
Proof. exact column_update_never_now_struct. Qed.
Print Assumptions c10_column_update_never_refreshes_struct.

Theorem c10_column_update_never_refreshes_map : forall s table, wf s -> forall selects omits p c k,
  In (c, k) (assign_map s (select_and_omit s table selects omits false true) true p) -> k = KPay.
Proof. exact column_update_never_now_map. Qed.
Print Assumptions c10_column_update_never_refreshes_map.

(* whole operations as the checker runs them: an update touches only rows that are stored, match EVERY
   non-zero member of the model value's (possibly composite) primary key ([key_match], see
   c10_key_match) and the chain condition, and only updatable columns of the schema *)
Theorem c10_update_cells : forall s table, wf s -> forall o selects omits ps stored mk wh x,
  is_update_op o = true ->
  In x (out_cells (run_op s table o selects omits ps stored mk wh)) ->
  (exists ks, In (c_row x, ks) stored /\ key_match mk ks = true
              /\ match wh with None => True | Some l => In (c_row x) l end)
  /\ ((exists f, In f s /\ has_col f = true /\ c_col x = f_db f /\ updatable f = true)
      \/ lookup_field s (c_col x) = None).
Proof. exact update_cells_permitted. Qed.
Print Assumptions c10_update_cells.

(* FirstOrCreate with Assign on a found record changes only that record (the first row the chain's
   conditions select), whatever Model the caller put on the chain; FirstOrInit changes nothing *)
Theorem c10_first_or_create_assign_cells : forall s table, wf s -> forall selects omits ps stored mk wh x,
  In x (out_cells (run_op s table OFocAssign selects omits ps stored mk wh)) ->
  In (c_row x) (firstn 1 (targeted stored mk wh))
  /\ ((exists f, In f s /\ has_col f = true /\ c_col x = f_db f /\ updatable f = true)
      \/ lookup_field s (c_col x) = None).
Proof. exact foc_assign_cells. Qed.
Print Assumptions c10_first_or_create_assign_cells.

Theorem c10_first_or_init_no_cells : forall s table selects omits ps stored mk wh,
  out_cells (run_op s table OFoiAssign selects omits ps stored mk wh) = [].
Proof. exact foi_assign_cells. Qed.
Print Assumptions c10_first_or_init_no_cells.

Theorem c10_key_match : forall mk ks, key_match (MStruct mk) ks = true ->
  forall m k, In (m, k) (combine mk ks) -> m = 0 \/ k = m.
Proof. exact key_match_spec. Qed.
Print Assumptions c10_key_match.

(* a slice model value with a keyed element, in ANY position, restricts the update to the elements'
   non-zero keys.  Total since /repo commit 049875c. *)
Theorem c10_slice_model : forall l ks, key_match (MSlice l) ks = true -> (exists k, In k l /\ k <> 0) ->
  In (hd 0 ks) l /\ hd 0 ks <> 0.
Proof. exact slice_match_spec. Qed.
Print Assumptions c10_slice_model.

(* RECORD of the fixed finding slice-model-last-keyless: the scan as it was before 049875c
   ([slice_match_old], not evaluated by the checker) let Model(&[]U{{ID:2},{}}) reach a row with key 1 *)
Theorem c10_slice_model_old_refuted : exists l ks, slice_match_old l ks = true /\ ~ In (hd 0 ks) l.
Proof. exact slice_match_old_refuted. Qed.
Print Assumptions c10_slice_model_old_refuted.

Theorem c10_create_cells : forall s table, wf s -> forall o selects omits ps stored mk wh x,
  (o = OCreate \/ o = OCreateBatch) ->
  In x (out_cells (run_op s table o selects omits ps stored mk wh)) ->
  1000 < c_row x /\ exists f, In f s /\ has_col f = true /\ c_col x = f_db f /\ creatable f = true.
Proof. exact create_cells_permitted. Qed.
Print Assumptions c10_create_cells.

(* RECORD of the fixed finding map-tracked-key-unselected: with the refresh test as it was before
   commit cef6815 ([assign_map_old], not evaluated by the checker) Select("name").Updates(map{name,
   updated_at}) on M1 neither wrote nor refreshed updated_at (corpus/C10, replayed on gorm every run) *)
Theorem c10_autoupdate_map_old_refuted : exists s table selects omits p f,
  wf s /\ In f s /\ has_col f = true /\ tracked_update f = true /\ updatable f = true
  /\ listed table omits f = false
  /\ ~ exists k, In (f_db f, k) (assign_map_old s (select_and_omit s table selects omits false true) false p).
Proof. exact autoupdate_map_old_refuted. Qed.
Print Assumptions c10_autoupdate_map_old_refuted.

(* ---- round 7 ---------------------------------------------------------------------------------------------------
   [run_case] is what the checker evaluates: [run_op] plus the value's own struct type [vs] and the map updates made
   EARLIER through the same handle.  Handle reuse: for every history of earlier updates (any length, any payloads)
   the update runs as on a fresh handle, because the SET clause the Update callback derives never outlives the
   callback ([update_callback], [handle_set]). *)
Theorem c10_handle_reuse : forall s table o selects omits ps stored mk wh vs earlier,
  run_case s table o selects omits ps stored mk wh vs earlier
  = run_case s table o selects omits ps stored mk wh vs [].
Proof. exact run_case_reuse. Qed.
Print Assumptions c10_handle_reuse.

(* ... and with a value of the model's own type that is [run_op], the subject of the theorems above *)
Theorem c10_run_case_is_run_op : forall s table o selects omits ps stored mk wh earlier,
  run_case s table o selects omits ps stored mk wh None earlier
  = run_op s table o selects omits ps stored mk wh.
Proof. exact run_case_plain. Qed.
Print Assumptions c10_run_case_is_run_op.

(* Updates / UpdateColumns with a struct of ANOTHER type [us] than the model [s] (ConvertToAssignments,
   isDiffSchema): the general loop [assign_patch] is the same-type loop when the types coincide ... *)
Theorem c10_patch_same_type : forall s, wf s -> forall sm skip p,
  assign_patch s s sm skip p = assign_struct s sm skip false p.
Proof. exact assign_patch_same. Qed.
Print Assumptions c10_patch_same_type.

(* ... no column is written whose tag denies update in the VALUE's type or in the MODEL's type ... *)
Theorem c10_no_forbidden_update_patch : forall s table, wf s -> forall us selects omits skip p c k,
  In (c, k) (assign_patch s us (select_and_omit s table selects omits false true) skip p) ->
  exists f g, In f s /\ has_col f = true /\ lookup_field us (f_db f) = Some g /\ has_col g = true
              /\ c = f_db g /\ updatable g = true
              /\ (f_db g = f_db f -> updatable f = true)
              /\ k = (if hooked skip g then KNow else KPay).
Proof. exact assign_patch_in. Qed.
Print Assumptions c10_no_forbidden_update_patch.

(* ... and exactly: the model's column f (value field g) is in the SET list iff both types permit the update, no
   Omit names it, and it is listed by Select / (without Select) non-zero in the value / a tracked update-time field
   while hooks run.  The last hypothesis (a value field reached through a model column carries that column) is
   decided per case by [patch_dom]. *)
Theorem c10_patch_exact : forall s table, wf s -> forall us selects omits skip p f g,
  In f s -> has_col f = true -> local table selects = true -> local table omits = true ->
  lookup_field us (f_db f) = Some g -> has_col g = true -> f_db g = f_db f ->
  (forall f' g', In f' s -> has_col f' = true -> lookup_field us (f_db f') = Some g' -> f_db g' = f_db f') ->
  (exists k, In (f_db f, k) (assign_patch s us (select_and_omit s table selects omits false true) skip p))
  <-> updatable f && updatable g && negb (listed table omits f)
      && (match selects with [] => negb (p_zero p g) | _ => listed table selects f end
          || (negb skip && tracked_update g)) = true.
Proof. exact assign_patch_exact. Qed.
Print Assumptions c10_patch_exact.

(* whole cases as the checker runs them, after any history of earlier updates through the handle *)
Theorem c10_patch_cells : forall s table, wf s -> forall us o skip selects omits ps stored mk wh earlier x,
  is_struct_update o = Some skip ->
  In x (out_cells (run_case s table o selects omits ps stored mk wh (Some us) earlier)) ->
  (exists ks, In (c_row x, ks) stored /\ key_match mk ks = true
              /\ match wh with None => True | Some l => In (c_row x) l end)
  /\ exists f g, In f s /\ has_col f = true /\ lookup_field us (f_db f) = Some g /\ has_col g = true
                 /\ c_col x = f_db g /\ updatable g = true /\ (f_db g = f_db f -> updatable f = true)
                 /\ c_src x = (if hooked skip g then KNow else KPay).
Proof. exact patch_cells. Qed.
Print Assumptions c10_patch_cells.

(* ---- round 7, TASK B: the WHOLE executable specification, for struct updates -------------------------------------
   [spec_case] is the predicate the checker evaluates on what gorm wrote.  For Updates(struct) and
   UpdateColumns(struct) (value of the model's type, any history of earlier updates through the handle) it holds of
   the model's own output, all clauses at once: the changed rows are exactly the stored rows matching the model
   value's key and the chain condition; every cell is a permitted, selected, non-omitted column with the right value
   source; every column the property demands is written in every targeted row; a refusal only without any
   condition or when one key value would be written into several rows.  For every well-formed schema, Select /
   Omit list with own-table qualifiers, payload, stored rows, model key (struct or slice) and Where. *)
Theorem c10_struct_update_meets_spec : forall s table, wf s ->
  forall o skip selects omits ps stored mk wh earlier,
  is_struct_update o = Some skip -> local table selects = true -> local table omits = true ->
  let m := run_case s table o selects omits ps stored mk wh None earlier in
  spec_case s table o selects omits ps stored mk wh None (out_cells m) (out_err m) = true.
Proof. exact struct_update_meets_spec. Qed.
Print Assumptions c10_struct_update_meets_spec.

(* the model's key test (ConvertToAssignments' WHERE clauses) is the specification's reading of "the model
   value's primary key", for struct and slice model values *)
Theorem c10_key_match_is_spec : forall mk ks, key_match mk ks = mkey_ok mk ks.
Proof. exact key_match_mkey_ok. Qed.
Print Assumptions c10_key_match_is_spec.

(* the hypotheses are met by the six model types of the harness *)
Theorem c10_harness_schemas_wf : Forall wf harness_schemas.
Proof. exact harness_schemas_wf. Qed.
Print Assumptions c10_harness_schemas_wf.
