(* C19_Check.v — correspondence checker for C19.  [model_agrees]: the pipeline model, given the
   statement the dry run exposed and the answers the database gave, predicts the driver calls of
   both runs.  [spec_holds]: the property on what was observed. *)
From Verif Require Export Base C01_Model C19_Model C19_Tx.

Definition scalars_eqb := list_eqb scalar_eqb.
Definition ev_eqb (a b : ev) : bool :=
  match a, b with
  | EBegin, EBegin | ECommit, ECommit | ERollback, ERollback => true
  | EStmt q s v, EStmt q' s' v' => Bool.eqb q q' && String.eqb s s' && scalars_eqb v v'
  | _, _ => false
  end.
Definition evs_eqb := list_eqb ev_eqb.

Inductive mode := MConfig | MSession | MToSQL.   (* how DryRun was switched on *)
Inductive finisher :=
| FPlain | FRows | FSave | FBatch      (* Execute once / Rows-Scan / Save with a key / CreateInBatches *)
| FRow                                 (* Row(): the row processor, no error in DryRun *)
| FNested (nb na : nat)                (* nb derived statements before the main one, na after it *)
| FManualTx                            (* Begin(); operation; Rollback() *)
| FScript (encl : bool) (steps : list tstep).
   (* a transaction script (C19_Tx): Transaction blocks at any depth, SavePoint / RollbackTo, operations;
      encl: on a handle between Begin() and Rollback(); each TOp carries the statement that operation
      exposed in the dry run *)

Record case := mk_case {
  c_kind : opk; c_fin : finisher; c_mode : mode; c_skip : bool;
  c_ret : bool;                        (* RETURNING supported and present: the write goes through QueryContext *)
  c_orc : list dres;                   (* what the database answered during the real run, call by call *)
  c_dorc : list dres;                  (* ... and during the dry run (only Begin/Commit can be asked) *)
  (* observed, DryRun *)
  o_dry_log : list ev; o_dry_sql : string; o_dry_vars : list scalar; o_dry_err : bool;
  o_tosql : string;                    (* what DB.ToSQL returned (ToSQL mode) *)
  o_explained : string;                (* the dialector's Explain of the statement the dry handle exposes *)
  (* observed, real run from an identical handle on the same data *)
  o_real_log : list ev; o_real_err : bool;
  o_dry_shown : list (string * list scalar)   (* scripts: Statement.SQL / Vars of every operation of the dry run *)
}.

Definition dry_of (c : case) : cfg :=
  match c_mode c with MToSQL => tosql_cfg | _ => dry_cfg (c_skip c) end.
Definition built_of (c : case) : built :=
  mk_built (o_dry_sql c) (o_dry_vars c)
           (o_dry_err c && match c_fin c with FRows => false | _ => true end) (c_ret c) false.
(* the statements of the batches, as observed in the real run *)
Fixpoint stmts_of (l : list ev) : list built :=
  match l with
  | [] => []
  | EStmt q s v :: r => mk_built s v false q false :: stmts_of r
  | _ :: r => stmts_of r
  end.
(* the second statement of a Save (insert on conflict), as observed *)
Fixpoint second_stmt (l : list ev) (seen : bool) : built :=
  match l with
  | [] => mk_built "" [] false true false
  | EStmt q s v :: r => if seen then mk_built s v false q false else second_stmt r true
  | _ :: r => second_stmt r seen
  end.

Definition run_model (cf : cfg) (c : case) (orc : list dres) : rst :=
  match c_fin c with
  | FPlain => execute cf (c_kind c) (built_of c) (rst0 orc)
  | FRows => rows_finisher cf (built_of c) (rst0 orc)
  | FSave => save cf (built_of c) (second_stmt (o_real_log c) false) (rst0 orc)
  | FBatch => create_in_batches cf (stmts_of (o_real_log c)) (rst0 orc)
  | FRow => execute cf OpRow (built_of c) (rst0 orc)
  | FNested nb na =>
    let st := stmts_of (o_real_log c) in
    execute_nested cf (c_kind c) (built_of c) (firstn nb st) (firstn na (skipn (S nb) st)) (rst0 orc)
  | FManualTx => manual_tx cf (c_kind c) (built_of c) (rst0 orc)
  | FScript encl steps => ts (run_script cf encl steps (rst0 orc))
  end.

Definition stmt_eqb (a b : string * list scalar) : bool :=
  String.eqb (fst a) (fst b) && scalars_eqb (snd a) (snd b).
Definition script_shown (cf : cfg) (c : case) (orc : list dres) : list (string * list scalar) :=
  match c_fin c with
  | FScript encl steps => tshown (run_script cf encl steps (rst0 orc))
  | _ => []
  end.
Fixpoint is_prefix (a b : list (string * list scalar)) : bool :=
  match a, b with
  | [], _ => true
  | x :: a', y :: b' => stmt_eqb x y && is_prefix a' b'
  | _ :: _, [] => false
  end.

Definition model_agrees (c : case) : bool :=
  let d := run_model (dry_of c) c (c_dorc c) in
  let r := run_model (real_cfg (c_skip c)) c (c_orc c) in
  evs_eqb (r_log d) (o_dry_log c)
  && Bool.eqb (r_err d) (o_dry_err c)
  && evs_eqb (r_log r) (o_real_log c)
  && Bool.eqb (r_err r) (o_real_err c)
  && list_eqb stmt_eqb (script_shown (dry_of c) c (c_dorc c)) (o_dry_shown c).

(* ---- the property on the observed runs ---- *)
Definition o_real_begin_failed (c : case) : bool :=
  match o_real_log c, c_orc c with EBegin :: _, d :: _ => d_err d | _, _ => false end.

(* the main statement of the real run: the first one, after the nb derived statements that precede it *)
Fixpoint nth_stmt (l : list ev) (n : nat) : option (string * list scalar) :=
  match l with
  | [] => None
  | EStmt _ q v :: r => match n with O => Some (q, v) | S n' => nth_stmt r n' end
  | _ :: r => nth_stmt r n
  end.
Definition main_stmt (c : case) : option (string * list scalar) :=
  nth_stmt (o_real_log c) (match c_fin c with FNested nb _ => nb | _ => O end).

Definition spec_holds (c : case) : bool :=
  (* no prepare, exec or query in DryRun; nothing at all for ToSQL *)
  forallb is_tx_event (o_dry_log c)
  && match c_mode c with MToSQL => match o_dry_log c with [] => true | _ => false end | _ => true end
  (* what ToSQL returns is the exposed statement, explained - whatever error the finisher reported *)
  && match c_mode c with MToSQL => String.eqb (o_tosql c) (o_explained c) | _ => true end
  (* the exposed statement is the first statement the real run sends *)
  && match c_fin c, main_stmt c with
     | FBatch, _ => true           (* several statements, none of them "the" main statement *)
     | FScript _ _, _ =>
       (* savepoint control apart, the real run sends the statements the operations of the dry run
          exposed, in order: all of them, or a first part when it stopped with an error *)
       let m := main_stmts (o_real_log c) in
       is_prefix m (o_dry_shown c) && (o_real_err c || (length m =? length (o_dry_shown c))%nat)
     | _, Some (s, v) => String.eqb s (o_dry_sql c) && scalars_eqb v (o_dry_vars c)
     (* the real run sent nothing (refused, or nothing to do): then the dry run must not have shown,
        without an error, a statement "that would be sent" *)
     | _, None => o_dry_err c || String.eqb (o_dry_sql c) "" || o_real_begin_failed c
     end.

Definition check_case (c : case) : N := code_of (model_agrees c) (spec_holds c).
