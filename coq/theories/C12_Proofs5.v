(* C12_Proofs5.v — generic lifting of a per-operation refinement to histories, and many2many. *)
From Verif Require Import Base C12_Model C12_Proofs C12_Proofs2 C12_Proofs3.
Open Scope Z_scope.

Section Lift.
Variables (k : kind) (os : list Z) (wf : st -> Prop) (ok : st -> op -> Prop).
Hypothesis ok_len : forall s o, ok s o ->
  match o with OAppend vs | OReplace vs => length vs = length os | _ => True end.
Hypothesis step : forall u o s, wf s -> ok s o ->
  let s' := assoc_step k os s (u, o) in
  wf s' /\ (forall i ow, nth_error os i = Some ow ->
              seteq (links k s' ow) (spec_owner k o (links k s ow) (values_of os o i))).

Fixpoint hist_ok_g (s : st) (ops : list (bool * op)) : Prop :=
  match ops with
  | [] => True
  | uo :: r => ok s (snd uo) /\ hist_ok_g (assoc_step k os s uo) r
  end.

Theorem lift_history : forall ops s A,
  wf s -> hist_ok_g s ops -> length A = length os ->
  (forall i o, nth_error os i = Some o -> seteq (links k s o) (nth i A [])) ->
  let s' := final k os s ops in
  wf s' /\ (forall i o, nth_error os i = Some o -> seteq (links k s' o) (nth i (spec_run k ops A) [])).
Proof.
  induction ops as [|[u o] ops IH]; intros s A W OK LA EQ; cbn [final spec_run fold_left].
  - split; assumption.
  - destruct OK as [OK1 OK2]. cbn [snd] in OK1.
    destruct (step u o s W OK1) as [W' K'].
    assert (LV : length (op_values o (length A)) = length A).
    { apply op_values_length. rewrite LA. apply (ok_len s o OK1). }
    apply IH; auto.
    + rewrite spec_step_length; assumption.
    + intros i ow Ho t. rewrite (K' i ow Ho t).
      assert (Hi : (i < length A)%nat) by (rewrite LA; apply nth_error_Some; congruence).
      cbn [snd]. rewrite (spec_step_nth k o A i LV Hi). unfold values_of. rewrite LA.
      apply spec_owner_ext. apply EQ. exact Ho.
Qed.
End Lift.

(* ================= many2many ================= *)
Lemma memp_In p l : memp p l = true <-> In p l.
Proof.
  unfold memp. rewrite existsb_exists. destruct p as [a b]. split.
  - intros [[c d] [H E]]. cbn in E. apply andb_prop in E. destruct E as [E1 E2].
    apply Z.eqb_eq in E1, E2. subst. exact H.
  - intro H. exists (a, b). split; [exact H | cbn; rewrite !Z.eqb_refl; reflexivity].
Qed.

Lemma add_join_In p l q : In q (add_join p l) <-> q = p \/ In q l.
Proof.
  unfold add_join. destruct (memp p l) eqn:E.
  - apply memp_In in E. split; [auto | intros [->|H]; auto].
  - rewrite in_app_iff. cbn. intuition congruence.
Qed.

Lemma fold_join_In o m : forall l q,
  In q (fold_left (fun j t => add_join (o, t) j) m l) <-> (fst q = o /\ In (snd q) m) \/ In q l.
Proof.
  induction m as [|x m IH]; intros l q; cbn [fold_left].
  - cbn. tauto.
  - rewrite IH, add_join_In. destruct q as [a b]. cbn. split.
    + intros [[H1 H2] | [H | H]]; auto. inversion H; subst. auto.
    + intros [[H1 [H2|H2]] | H]; subst; auto.
Qed.

Lemma add_z_In t l x : In x (add_z t l) <-> x = t \/ In x l.
Proof.
  unfold add_z. destruct (memz t l) eqn:E.
  - apply memz_In in E. split; [auto | intros [->|H]; auto].
  - rewrite in_app_iff. cbn. intuition congruence.
Qed.
Lemma add_zs_In m : forall l x, In x (add_zs m l) <-> In x m \/ In x l.
Proof.
  unfold add_zs. induction m as [|y m IH]; intros l x; cbn [fold_left]; [cbn; tauto|].
  rewrite IH, add_z_In. cbn. intuition congruence.
Qed.

Lemma delete_where_In {A} (P : A -> bool) l x : In x (delete_where P l) <-> In x l /\ P x = false.
Proof. unfold delete_where. rewrite filter_In, Bool.negb_true_iff. reflexivity. Qed.

Definition LJ (s : st) (o t : Z) : Prop := In (o, t) (joins s).

Lemma links_m2m s o t : In t (links KM2M s o) <-> LJ s o t.
Proof.
  cbn [links]. rewrite in_map_iff. split.
  - intros [[a b] [E H]]. cbn in E. subst b. apply filter_In in H. destruct H as [H F]. cbn in F. apply Z.eqb_eq in F. subst. exact H.
  - intro H. exists (o, t). split; [reflexivity|]. apply filter_In. split; [exact H | cbn; apply Z.eqb_refl].
Qed.

Record wf_m2m (os : list Z) (s : st) : Prop := {
  wm_os : NoDup os;
  wm_len : length (mem s) = length os;
  wm_mem : forall i o m, nth_error os i = Some o -> nth_error (mem s) i = Some m -> forall t, In t m <-> LJ s o t;
  wm_tgt : forall o t, In o os -> LJ s o t -> In t (tgt s)      (* every link of the handle points at a record *)
}.

Definition op_ok_m2m (os : list Z) (s : st) (o : op) : Prop :=
  match o with
  | OAppend vs => length vs = length os
  | OReplace vs => length vs = length os /\
      (* slice handles: no owner is linked to a target that is passed for ANOTHER owner only
         (c12_refuted_m2m_slice_replace); vacuous for a struct handle *)
      (forall i o v t, nth_error os i = Some o -> nth_error vs i = Some v ->
                       LJ s o t -> In t (List.concat vs) -> In t v)
  | _ => True
  end.

Lemma save_loop_m2m clear : forall os vs ms s,
  length vs = length os -> length ms = length os ->
  let r := save_loop KM2M clear os vs ms s in
  fst r = map (fun mv => new_field KM2M clear (fst mv) (snd mv)) (combine ms vs) /\
  rows (snd r) = rows s /\
  (forall q, In q (joins (snd r)) <-> In q (joins s) \/ exists i o m, nth_error os i = Some o /\ nth_error (fst r) i = Some m /\ fst q = o /\ In (snd q) m) /\
  (forall x, In x (tgt (snd r)) <-> In x (tgt s) \/ exists m, In m (fst r) /\ In x m).
Proof.
  induction os as [|o os IH]; intros vs ms s Lv Lm.
  - destruct vs, ms; try discriminate. cbn. repeat split; auto.
    + intros [H | [i [o [m [H _]]]]]; [exact H | destruct i; discriminate].
    + intros [H | [m [[] _]]]. exact H.
  - destruct vs as [|v vs]; [discriminate|]. destruct ms as [|m ms]; [discriminate|].
    cbn in Lv, Lm. injection Lv as Lv. injection Lm as Lm. cbn [save_loop].
    set (m' := new_field KM2M clear m v). set (s1 := save_owner KM2M o m' s).
    specialize (IH vs ms s1 Lv Lm). cbn zeta in IH.
    destruct (save_loop KM2M clear os vs ms s1) as [rest s2] eqn:ES. cbn [fst snd] in *.
    destruct IH as [I1 [I2 [I3 I4]]]. cbn zeta. cbn [fst snd combine map].
    split; [f_equal; exact I1|]. split; [rewrite I2; reflexivity|]. split.
    + intro q. rewrite I3. unfold s1. cbn [save_owner joins]. rewrite fold_join_In. split.
      * intros [[[H1 H2] | H] | [i [o' [mm [H1 [H2 [H3 H4]]]]]]]; auto.
        -- right. exists 0%nat, o, m'. auto.
        -- right. exists (S i), o', mm. auto.
      * intros [H | [i [o' [mm [H1 [H2 [H3 H4]]]]]]]; auto.
        destruct i as [|i]; cbn in H1, H2.
        -- inversion H1; inversion H2; subst. auto.
        -- right. exists i, o', mm. auto.
    + intro x. rewrite I4. unfold s1. cbn [save_owner tgt]. rewrite add_zs_In. split.
      * intros [[H | H] | [mm [H1 H2]]]; auto; right; [exists m' | exists mm]; cbn; auto.
      * intros [H | [mm [[<- | H1] H2]]]; auto. right. exists mm. auto.
Qed.

Section M2MStep.
Variable os : list Z.

Lemma save_assoc_m2m clear vs s : length vs = length os -> length (mem s) = length os -> NoDup os ->
  let ms' := map (fun mv => new_field KM2M clear (fst mv) (snd mv)) (combine (mem s) vs) in
  let s1 := save_assoc KM2M clear os vs s in
  mem s1 = ms' /\ rows s1 = rows s /\
  (forall i o m, nth_error os i = Some o -> nth_error ms' i = Some m -> forall t, LJ s1 o t <-> LJ s o t \/ In t m) /\
  (forall o t, ~ In o os -> (LJ s1 o t <-> LJ s o t)) /\
  (forall x, In x (tgt s1) <-> In x (tgt s) \/ exists m, In m ms' /\ In x m).
Proof.
  intros Lv Lm ND ms' s1.
  pose proof (save_loop_m2m clear os vs (mem s) s Lv Lm) as H. cbn zeta in H.
  unfold s1, save_assoc. destruct (save_loop KM2M clear os vs (mem s) s) as [ms2 s2] eqn:ES. cbn [fst snd] in H.
  destruct H as [I1 [I2 [I3 I4]]]. fold ms' in I1. subst ms2. cbn [mem rows joins tgt].
  split; [reflexivity|]. split; [exact I2|]. split; [|split; [|exact I4]].
  - intros i o m Ho Hm t. unfold LJ. cbn [joins]. rewrite I3. cbn [fst snd]. split.
    + intros [H | [j [o' [mm [H1 [H2 [H3 H4]]]]]]]; auto. subst o'.
      assert (j = i) by (eapply NoDup_nth_inj; eauto). subst j. right. congruence.
    + intros [H | H]; auto. right. exists i, o, m. auto.
  - intros o t NI. unfold LJ. cbn [joins]. rewrite I3. cbn [fst snd]. split; auto.
    intros [H | [j [o' [mm [H1 [H2 [H3 H4]]]]]]]; auto. subst o'. exfalso. apply NI. eapply nth_error_In; eauto.
Qed.

Theorem m2m_step u o s : wf_m2m os s -> op_ok_m2m os s o ->
  let s' := assoc_step KM2M os s (u, o) in
  wf_m2m os s' /\
  (forall i ow, nth_error os i = Some ow ->
     seteq (links KM2M s' ow) (spec_owner KM2M o (links KM2M s ow) (values_of os o i))) /\
  (forall x, In x (tgt s) -> In x (tgt s')).
Proof.
  intros W OK s'. destruct W as [NO LE ME TG].
  assert (MEMOS : forall ow, In ow os -> memz ow os = true) by (intros; apply memz_In; assumption).
  destruct o as [vs|vs|ts| |]; cbn [assoc_step do_append] in s'.
  5:{ split; [constructor; assumption|]. split; [intros i ow Ho t; reflexivity | intros x Hx; exact Hx]. }
  - (* Append *)
    cbn in OK. rename OK into Lv.
    pose proof (save_assoc_m2m false vs s Lv LE NO) as SA. cbn zeta in SA. fold s' in SA.
    destruct SA as [M1 [R1 [L1 [O1 T1]]]].
    assert (NTH : forall i m v, nth_error (mem s) i = Some m -> nth_error vs i = Some v ->
              nth_error (map (fun mv => new_field KM2M false (fst mv) (snd mv)) (combine (mem s) vs)) i = Some (m ++ v))
      by (intros i m v Hm Hv; rewrite (nth_error_map_combine _ _ _ i m v Hm Hv); reflexivity).
    assert (K : forall i ow v, nth_error os i = Some ow -> nth_error vs i = Some v -> forall t, LJ s' ow t <-> LJ s ow t \/ In t v).
    { intros i ow v Ho Hv t. destruct (nth_error_ex (mem s) i) as [m Hm]; [rewrite LE; apply nth_error_Some; congruence|].
      rewrite (L1 i ow (m ++ v) Ho (NTH i m v Hm Hv) t), in_app_iff, (ME i ow m Ho Hm t). tauto. }
    split; [|split].
    + constructor; auto.
      * rewrite M1, map_length, combine_length. lia.
      * intros i ow m Ho Hm t. rewrite M1 in Hm.
        destruct (nth_error_ex (mem s) i) as [m0 Hm0]; [rewrite LE; apply nth_error_Some; congruence|].
        destruct (nth_error_ex vs i) as [v Hv]; [rewrite Lv; apply nth_error_Some; congruence|].
        rewrite (NTH i m0 v Hm0 Hv) in Hm. inversion Hm; subst m.
        rewrite (K i ow v Ho Hv t), in_app_iff, (ME i ow m0 Ho Hm0 t). reflexivity.
      * intros ow t Hin L. apply In_nth_error in Hin. destruct Hin as [i Ho].
        destruct (nth_error_ex (mem s) i) as [m0 Hm0]; [rewrite LE; apply nth_error_Some; congruence|].
        destruct (nth_error_ex vs i) as [v Hv]; [rewrite Lv; apply nth_error_Some; congruence|].
        apply (K i ow v Ho Hv t) in L. apply T1. destruct L as [L|L].
        -- left. eapply TG; eauto. eapply nth_error_In; eauto.
        -- right. exists (m0 ++ v). split; [eapply nth_error_In; apply (NTH i m0 v Hm0 Hv) | apply in_or_app; auto].
    + intros i ow Ho t. rewrite links_m2m.
      destruct (nth_error_ex vs i) as [v Hv]; [rewrite Lv; apply nth_error_Some; congruence|].
      rewrite (K i ow v Ho Hv t). unfold values_of. cbn [op_values spec_owner single_valued]. rewrite (nth_error_nth vs i [] Hv).
      unfold union. rewrite in_app_iff, links_m2m. reflexivity.
    + intros x Hx. apply T1. auto.
  - (* Replace *)
    destruct OK as [Lv RO].
    pose proof (save_assoc_m2m true vs s Lv LE NO) as SA. cbn zeta in SA.
    set (s1 := save_assoc KM2M true os vs s) in *. destruct SA as [M1 [R1 [L1 [O1 T1]]]].
    assert (MS : map (fun mv => new_field KM2M true (fst mv) (snd mv)) (combine (mem s) vs) = vs)
      by (apply map_snd_combine; [congruence | intros; reflexivity]).
    rewrite MS in *.
    set (P := fun j : Z * Z => memz (fst j) os && negb (memz (snd j) (List.concat vs))).
    assert (E : s' = mk_st (rows s1) (delete_where P (joins s1)) (tgt s1) (mem s1)) by reflexivity.
    assert (K : forall i ow v, nth_error os i = Some ow -> nth_error vs i = Some v -> forall t, LJ s' ow t <-> In t v).
    { intros i ow v Ho Hv t. unfold LJ. rewrite E. cbn [joins]. rewrite delete_where_In. unfold P. cbn [fst snd].
      rewrite (MEMOS ow) by (eapply nth_error_In; eauto). cbn [andb]. rewrite Bool.negb_false_iff, memz_In.
      fold (LJ s1 ow t). rewrite (L1 i ow v Ho Hv t). split.
      - intros [[H|H] C]; [eapply RO; eauto | exact H].
      - intro H. split; [right; exact H|]. apply In_concat_nth. eauto. }
    split; [|split].
    + constructor; auto.
      * rewrite E. cbn [mem]. rewrite M1. congruence.
      * intros i ow m Ho Hm t. rewrite E in Hm. cbn [mem] in Hm. rewrite M1 in Hm. symmetry. apply (K i ow m Ho Hm t).
      * intros ow t Hin L. apply In_nth_error in Hin. destruct Hin as [i Ho].
        destruct (nth_error_ex vs i) as [v Hv]; [rewrite Lv; apply nth_error_Some; congruence|].
        apply (K i ow v Ho Hv t) in L. rewrite E. cbn [tgt]. apply T1. right. exists v. split; [eapply nth_error_In; eauto | exact L].
    + intros i ow Ho t. rewrite links_m2m.
      destruct (nth_error_ex vs i) as [v Hv]; [rewrite Lv; apply nth_error_Some; congruence|].
      rewrite (K i ow v Ho Hv t). unfold values_of. cbn [op_values spec_owner]. rewrite (nth_error_nth vs i [] Hv). reflexivity.
    + intros x Hx. rewrite E. cbn [tgt]. apply T1. auto.
  - (* Delete *)
    set (P := fun j : Z * Z => memz (fst j) os && memz (snd j) ts).
    assert (E : s' = mk_st (rows s) (delete_where P (joins s)) (tgt s) (map (filter (fun t => negb (memz t ts))) (mem s))) by reflexivity.
    assert (K : forall i ow, nth_error os i = Some ow -> forall t, LJ s' ow t <-> LJ s ow t /\ ~ In t ts).
    { intros i ow Ho t. unfold LJ. rewrite E. cbn [joins]. rewrite delete_where_In. unfold P. cbn [fst snd].
      rewrite (MEMOS ow) by (eapply nth_error_In; eauto). cbn [andb]. rewrite memz_false. reflexivity. }
    split; [|split].
    + constructor; auto.
      * rewrite E. cbn [mem]. rewrite map_length. exact LE.
      * intros i ow m Ho Hm t. rewrite (K i ow Ho t). rewrite E in Hm. cbn [mem] in Hm. rewrite nth_error_map in Hm.
        destruct (nth_error (mem s) i) as [m0|] eqn:E0; [|discriminate]. inversion Hm; subst m.
        rewrite filter_In, (ME i ow m0 Ho E0 t), Bool.negb_true_iff, memz_false. reflexivity.
      * intros ow t Hin L. apply In_nth_error in Hin. destruct Hin as [i Ho]. apply (K i ow Ho t) in L.
        rewrite E. cbn [tgt]. eapply TG; [eapply nth_error_In; eauto | exact (proj1 L)].
    + intros i ow Ho t. rewrite links_m2m, (K i ow Ho t). cbn [spec_owner]. unfold minus.
      rewrite filter_In, links_m2m, Bool.negb_true_iff, memz_false. reflexivity.
    + intros x Hx. rewrite E. exact Hx.
  - (* Clear *)
    set (P := fun j : Z * Z => memz (fst j) os && negb (memz (snd j) (List.concat (@nil (list Z))))).
    assert (E : s' = mk_st (rows s) (delete_where P (joins s)) (tgt s) (map (fun _ => []) (mem s))) by reflexivity.
    assert (K : forall i ow, nth_error os i = Some ow -> forall t, ~ LJ s' ow t).
    { intros i ow Ho t. unfold LJ. rewrite E. cbn [joins]. rewrite delete_where_In. unfold P. cbn [fst snd].
      rewrite (MEMOS ow) by (eapply nth_error_In; eauto). cbn. intros [_ F]. discriminate. }
    split; [|split].
    + constructor; auto.
      * rewrite E. cbn [mem]. rewrite map_length. exact LE.
      * intros i ow m Ho Hm t. rewrite E in Hm. cbn [mem] in Hm. rewrite nth_error_map in Hm.
        destruct (nth_error (mem s) i); [|discriminate]. inversion Hm; subst m.
        split; [intros [] | intro L; exact (K i ow Ho t L)].
      * intros ow t Hin L. apply In_nth_error in Hin. destruct Hin as [i Ho]. exfalso. exact (K i ow Ho t L).
    + intros i ow Ho t. rewrite links_m2m. cbn [spec_owner]. split; [intro L; exact (K i ow Ho t L) | intros []].
    + intros x Hx. rewrite E. exact Hx.
Qed.

Lemma ok_len_m2m s o : op_ok_m2m os s o ->
  match o with OAppend vs | OReplace vs => length vs = length os | _ => True end.
Proof. destruct o; cbn; tauto. Qed.

Theorem m2m_history : forall ops s A,
  wf_m2m os s -> hist_ok_g KM2M os (op_ok_m2m os) s ops -> length A = length os ->
  (forall i o, nth_error os i = Some o -> seteq (links KM2M s o) (nth i A [])) ->
  let s' := final KM2M os s ops in
  wf_m2m os s' /\ (forall i o, nth_error os i = Some o -> seteq (links KM2M s' o) (nth i (spec_run KM2M ops A) [])).
Proof.
  apply (lift_history KM2M os (wf_m2m os) (op_ok_m2m os) ok_len_m2m).
  intros u o s W OK. destruct (m2m_step u o s W OK) as [A [B _]]. split; assumption.
Qed.

(* targets always survive, Unscoped or not *)
Theorem m2m_targets_survive : forall ops s,
  wf_m2m os s -> hist_ok_g KM2M os (op_ok_m2m os) s ops ->
  forall x, In x (tgt s) -> In x (tgt (final KM2M os s ops)).
Proof.
  induction ops as [|[u o] ops IH]; intros s W OK x Hx; cbn [final fold_left]; [exact Hx|].
  destruct OK as [OK1 OK2]. cbn [snd] in OK1. destruct (m2m_step u o s W OK1) as [W' [_ S']].
  apply IH; auto.
Qed.

(* Count and Find report exactly the stored links (one row per owner-target pair) *)
Theorem m2m_find s : wf_m2m os s ->
  find_ids KM2M os s = List.concat (map (links KM2M s) os) /\
  count_ids KM2M os s = Z.of_nat (length (List.concat (map (links KM2M s) os))).
Proof.
  intro W.
  assert (E : find_ids KM2M os s = List.concat (map (links KM2M s) os)).
  { unfold find_ids. rewrite flat_map_concat_map. f_equal. apply map_ext_in. intros o Ho.
    assert (F : forall l, (forall t, In t l -> target_exists KM2M s t = true) -> filter (target_exists KM2M s) l = l).
    { induction l as [|x l IHl]; intro H; cbn [filter]; [reflexivity|]. rewrite (H x (or_introl eq_refl)). f_equal. apply IHl. intros t Ht. apply H. right. exact Ht. }
    apply F. intros t Ht. apply links_m2m in Ht. cbn [target_exists]. apply memz_In. eapply (wm_tgt _ _ W); eauto. }
  split; [exact E | unfold count_ids; rewrite E; reflexivity].
Qed.

End M2MStep.
