(* C14_Check.v — correspondence checker for C14.
   A case = the programs of the goroutines, the coarse schedule the harness recorded (the
   visible events in their real-time order: operation start/end, Prepare call/return with its
   outcome, driver execution call/return with its outcome) and the final observations.
   [model_agrees]: the recorded trace is a trace of the model (search over all fine-grained
   interleavings of the internal steps, by [vm_compute]; this validates the model, it is not
   the proof) and the number of leaked statements is one the model can end with.
   [spec_holds]: the property's clauses evaluated on what gorm did. *)
From Verif Require Export Base C14_Model C14_Plumb C14_Count C14_Quiet.

(* ---- decidable equalities ------------------------------------------------------------ *)
Definition choice_code (c : choice) : nat :=
  match c with CNone => 0 | CPrepOk => 1 | CPrepFail => 2 | CExecOk => 3 | CExecErr => 4 | CExecBad => 5 end.
Definition choice_eqb (a b : choice) := choice_code a =? choice_code b.
Definition result_code (r : result) : nat :=
  match r with ROk => 0 | RErrPrep => 1 | RErrInvalid => 2 | RErrClosed => 3 | RErrBad => 4
             | RErrOther => 5 | RPanic => 6 | RNilStmt => 7 end.
Definition result_eqb (a b : result) := result_code a =? result_code b.

Definition vev_eqb (a b : vev) : bool :=
  match a, b with
  | VStart t, VStart u => t =? u
  | VPrepCall t q x, VPrepCall u p y => (t =? u) && (q =? p) && Bool.eqb x y
  | VPrepRet t o, VPrepRet u p => (t =? u) && Bool.eqb o p
  | VExecCall t, VExecCall u => t =? u
  | VExecRet t o, VExecRet u p => (t =? u) && choice_eqb o p
  | VEnd t r, VEnd u p => (t =? u) && result_eqb r p
  | _, _ => false
  end.

(* ---- injective encoding of the non-ghost part of a state (for de-duplication) --------- *)
Definition enc_pc (p : pc) : list nat :=
  match p with
  | Idle => [0] | P0 => [1] | P1 => [2] | P3 e => [3; e] | P5 => [4] | P6 => [5]
  | P9 e => [6; e] | P9w e => [7; e] | P10 e s => [8; e; s] | P10b e s => [9; e; s]
  | P10c e s => [10; e; s] | P11 e => [11; e] | P11b e => [12; e] | P11c e => [13; e]
  | X0 s => [14; s] | X1 s => [15; s] | X1r s o => [16; s; choice_code o] | X2 s => [17; s]
  | X2b s => [18; s] | R0 => [19] | R1 => [20] | K0 => [21] | K1 => [22]
  | C0 e => [23; e] | C1 e => [24; e] | D0 s => [25; s] | Ret r => [26; result_code r]
  end.
Definition enc_op (o : op) : list nat :=
  match o with OExec q tx ev => [0; q; b2n tx; b2n ev] | OReset => [1] | OClose => [2] end.
Definition enc_list {A} (f : A -> list nat) (l : list A) : list nat :=
  length l :: flat_map (fun x => let k := f x in length k :: k) l.
Definition enc_thread (th : thread) : list nat :=
  enc_pc (t_pc th) ++ enc_list enc_op (t_ops th) ++ enc_list (fun r => [result_code r]) (t_res th).
Definition enc_entry (e : entry) : list nat :=
  [e_q e; b2n (e_tx e); match e_stmt e with Some s => S s | None => 0 end; b2n (e_err e); b2n (e_done e)].
Definition enc_state (s : state) : list nat :=
  match s_map s with None => [0] | Some m => 1 :: enc_list (fun p => [fst p; snd p]) m end
  ++ [match s_w s with None => 0 | Some t => S t end; s_r s; s_nstmt s]
  ++ enc_list enc_entry (s_ents s) ++ enc_list enc_thread (s_thr s)
  ++ enc_list (fun p => [fst (fst p); snd (fst p); b2n (snd p)]) (s_prep s)
  ++ enc_list (fun x => [x]) (s_closed s).

Definition key := list nat.
Definition keq : key -> key -> bool := list_eqb Nat.eqb.

(* [mask]: a case whose input matches a known finding is evaluated twice: once strictly (mask 0,
   reported under the finding's signature) and once with exactly the finding's outcome tolerated, so
   that a known finding cannot hide a failure of another clause on the same input.
   bit 0: "sql: statement is closed" without a Close (close-races-use);
   bit 1: the panic of a QueryRow whose prepare failed (row-swallows-error);
   bit 2: a goroutine blocked BETWEEN two operations, in the Commit of its transaction, while another
          goroutine's execution is with the driver (commit-waits-for-execution: the cache closed a
          statement the transaction was using; database/sql finishes that Close inside Tx.Commit and
          needs the connections the statement was prepared on);
   bit 3: a pool-level use blocked at the call of the statement it was handed while another goroutine's
          execution is with the driver, a Close having started (close-queues-use: Close's closer is inside
          Stmt.Close, which waits for that execution; the use queues behind it and then gets the clean
          error);
   bit 4: a pool-level query/row blocked AFTER the driver answered its execution, while another
          goroutine's execution is with the driver (rows-close-waits-for-execution: the cache closed the
          statement while it was being executed; database/sql finishes that Close when the last user
          lets go, here in Rows.Close of the query, and needs the connections the statement was
          prepared on). *)
Definition tol_closed (mask : nat) : bool := Nat.odd mask.
Definition tol_rowpanic (mask : nat) : bool := Nat.odd (Nat.div2 mask).
Definition tol_commit (mask : nat) : bool := Nat.odd (Nat.div2 (Nat.div2 mask)).
Definition tol_queue (mask : nat) : bool := Nat.odd (Nat.div2 (Nat.div2 (Nat.div2 mask))).
Definition tol_rows (mask : nat) : bool := Nat.odd (Nat.div2 (Nat.div2 (Nat.div2 (Nat.div2 mask)))).


(* ---- exploration ---------------------------------------------------------------------- *)
(* visited set: a trie over the encoded states *)
Inductive trie := Node (present : bool) (children : list (nat * trie)).
Definition tempty := Node false [].
(* [tadd k t] = (was k already present, t with k) *)
Fixpoint tadd (k : key) (t : trie) : bool * trie :=
  match t with
  | Node p ch =>
    match k with
    | [] => (p, Node true ch)
    | x :: r =>
      let fix go (l : list (nat * trie)) : bool * list (nat * trie) :=
        match l with
        | [] => (false, [(x, snd (tadd r tempty))])
        | (y, c) :: l' =>
          if x =? y then let '(f, c') := tadd r c in (f, (y, c') :: l')
          else let '(f, l'') := go l' in (f, (y, c) :: l'')
        end in
      let '(f, ch') := go ch in (f, Node p ch')
    end
  end.

Definition enc_qstate (q : qstate) : list nat :=
  enc_list (fun p => [fst p; snd p]) (q_pend q) ++ enc_state (q_s q).

(* Partial-order reduction of the search (the search only; the theorems quantify over all schedules).
   Two kinds of closer steps are invisible and commute with every step of every other goroutine:
   passing `<-s.prepared` once the channel is closed (C0 -> C1; also C1 with no statement -> done), and
   the closing step of a closer that is inside Stmt.Close with no execution of its statement in flight
   (while it is pending nobody can start one, so delaying it only delays).  The CALL of Stmt.Close is
   observable only by a pool-level use of that very statement (X0): it commutes with everything when no
   goroutine holds or can still fetch the statement (no entry in the map carries it; nobody is at P3 of
   an entry carrying it, at P10/P10b/P10c with it, or at X0 with it).  When such a step is enabled the
   search takes it alone.  A CALL of Stmt.Close that a concurrent use can overtake, and every step of
   the program goroutines, still branch. *)
Definition may_use (s : state) (st : nat) (th : thread) : bool :=
  match t_pc th with
  | P3 e => option_eqb Nat.eqb (e_stmt (ent s e)) (Some st)
  | P10 _ st' | P10b _ st' | P10c _ st' | X0 st' => st' =? st
  | _ => false
  end.
Definition no_user (s : state) (st : nat) : bool :=
  negb (existsb (may_use s st) (s_thr s)) &&
  match s_map s with
  | Some m => negb (existsb (fun p => option_eqb Nat.eqb (e_stmt (ent s (snd p))) (Some st)) m)
  | None => true
  end.
Definition eager_closer (q : qstate) (t : nat) : bool :=
  match nth_error (s_thr (q_s q)) t with
  | Some th =>
    match pend_of q t with
    | Some st => negb (in_flight (q_s q) st)
    | None =>
      match t_pc th with
      | C0 e => e_done (ent (q_s q) e)
      | C1 e => match e_stmt (ent (q_s q) e) with None => true | Some st => no_user (q_s q) st end
      | D0 st => no_user (q_s q) st
      | _ => false
      end
    end
  | None => false
  end.
Definition all_tau_succs (q : qstate) : list qstate :=
  flat_map (fun t => match stepQ q t CNone with Some (q', None) => [q'] | _ => [] end)
           (seq 0 (length (s_thr (q_s q)))).
Definition tau_succs (q : qstate) : list qstate :=
  match find (eager_closer q) (seq 0 (length (s_thr (q_s q)))) with
  | Some t => match stepQ q t CNone with Some (q', None) => [q'] | _ => all_tau_succs q end
  | None => all_tau_succs q
  end.

(* accumulator: work list, visited set, visited states *)
Definition add_new (acc : list qstate * trie * list qstate) (x : qstate) :=
  let '(todo, seen, all) := acc in
  let '(found, seen') := tadd (enc_qstate x) seen in
  if found then acc else (x :: todo, seen', x :: all).

(* all states reachable by internal steps; [fuel] bounds the number of expansions *)
Fixpoint closure (fuel : nat) (todo : list qstate) (seen : trie) (all : list qstate) : option (list qstate) :=
  match todo with
  | [] => Some all
  | s :: rest =>
    match fuel with
    | 0 => None
    | S f => let '(todo', seen', all') := fold_left add_new (tau_succs s) (rest, seen, all) in
             closure f todo' seen' all'
    end
  end.

Definition close_set (fuel : nat) (l : list qstate) : option (list qstate) :=
  let '(todo, seen, all) := fold_left add_new l ([], tempty, []) in
  closure fuel todo seen all.

Definition ev_tid_choice (e : vev) : nat * choice :=
  match e with
  | VStart t | VPrepCall t _ _ | VExecCall t | VEnd t _ => (t, CNone)
  | VPrepRet t ok => (t, if ok then CPrepOk else CPrepFail)
  | VExecRet t o => (t, o)
  end.
Definition fire (e : vev) (q : qstate) : list qstate :=
  let '(t, c) := ev_tid_choice e in
  match stepQ q t c with
  | Some (q', Some e') => if vev_eqb e e' then [q'] else []
  | _ => []
  end.

(* a quiet point (pos, stuck): when [pos] events had been recorded the harness found every goroutine
   of the programs parked (waiting to be started, finished, inside a driver call it holds) or
   blocked, the blocked ones being [stuck] (ascending).  The model states compatible with it: no
   program goroutine can move on its own, and the blocked ones are exactly those. *)
Definition quiet_at (qs : list (nat * list nat)) (pos : nat) : option (list nat) :=
  match find (fun p => fst p =? pos) qs with Some p => Some (snd p) | None => None end.
(* second evaluation of a commit-waits-for-execution / rows-close-waits-for-execution case: the
   goroutines blocked between two operations (the model has no Commit) resp. after the answer of their
   execution (the model has no Rows.Close) are not compared *)
Definition post_exec (p : pc) : bool := match p with X1r _ _ | Ret _ => true | _ => false end.
Definition excused (mask : nat) (q : qstate) (t : nat) : bool :=
  (tol_commit mask && is_idle (t_pc (thr (q_s q) t))) || (tol_rows mask && post_exec (t_pc (thr (q_s q) t))).
Definition at_quiet (mask n : nat) (qs : list (nat * list nat)) (pos : nat) (cl : list qstate) : list qstate :=
  match quiet_at qs pos with
  | Some stuck =>
    filter (fun q =>
              let ex := filter (excused mask q) stuck in
              quiet_on (filter (fun t => negb (memb t ex)) (seq 0 n)) q &&
              list_eqb Nat.eqb (stuck_on (seq 0 n) q) (filter (fun t => negb (excused mask q t)) stuck)) cl
  | None => cl
  end.

(* the model states compatible with the recorded trace; None = exploration bound hit *)
Fixpoint follow (fuel : nat) (mask n : nat) (qs : list (nat * list nat)) (pos : nat) (tr : list vev)
         (cur : list qstate) : option (list qstate) :=
  match close_set fuel cur with
  | None => None
  | Some cl0 =>
    let cl := at_quiet mask n qs pos cl0 in
    match tr with
    | [] => Some cl
    | e :: r => match flat_map (fire e) cl with
                | [] => Some []
                | nxt => follow fuel mask n qs (S pos) r nxt
                end
    end
  end.

Definition explore_fuel : nat := 400 * 200.

(* ---- cases ------------------------------------------------------------------------------ *)
Record case := mk_case {
  c_guard : bool;         (* which variant of the code ran: false = prepare_stmt.go as it is *)
  c_progs : list (list op);
  c_trace : list vev;
  o_hang : bool;          (* some goroutine did not finish within the time limit *)
  o_leaked : nat;         (* pool-level statements handed out by the cache, still open at quiescence *)
  o_openstmts : nat;      (* driver statements open at quiescence (recording driver) *)
  o_wrongrows : nat;      (* operations that returned no error but other rows than without the cache *)
  o_races : nat;          (* data races the Go race detector reported while the case ran *)
  c_plumb : list plumb;   (* session-plumbing observations (C14_Plumb.v); [] for schedule cases *)
  c_mask : nat;           (* known-finding outcomes tolerated in this evaluation (0 = none) *)
  c_quiet : list (nat * list nat)
                          (* quiet points: (number of events recorded so far, goroutines found blocked) *)
}.

Definition model_agrees (c : case) : bool :=
  negb (o_hang c) && (o_wrongrows c =? 0) && (o_races c =? 0) && forallb plumb_model_agrees (c_plumb c) &&
  match follow explore_fuel (c_mask c) (length (c_progs c)) (c_quiet c) 0 (c_trace c) [initQ (c_guard c) (c_progs c)] with
  | Some fin => existsb (fun q => all_done (q_s q) && (length (leaked (q_s q)) =? o_leaked c)) fin
  | None => false
  end.

(* ---- the property, on the observed trace -------------------------------------------------- *)
(* per-goroutine window of the operation in progress *)
Record win := mkW {
  w_idx : nat;              (* operations completed *)
  w_active : bool;
  w_fails : list nat;       (* texts whose Prepare failed since this operation started *)
  w_ownfail : bool;         (* this operation's own Prepare failed *)
  w_exec : choice           (* outcome of this operation's driver execution (CNone: none yet) *)
}.
Record acc := mkA {
  a_win : list win;
  a_closecalled : bool;     (* some Close has started *)
  a_calls : list (nat * bool);
  a_fails : list nat;
  a_evicts : list nat;
  a_cuts : nat;
  a_ok : bool
}.
Definition dflt_win := mkW 0 false [] false CNone.
Definition cur_op (progs : list (list op)) (w : list win) (t : nat) : option op :=
  nth_error (nth t progs []) (w_idx (nth t w dflt_win)).

Definition result_allowed (mask : nat) (o : op) (w : win) (closecalled : bool) (r : result) : bool :=
  match o with
  | OReset | OClose => result_eqb r ROk
  | OExec q tx ev =>
    match r with
    | ROk => negb (w_ownfail w) && choice_eqb (w_exec w) CExecOk
    | RErrPrep => memb q (w_fails w) && choice_eqb (w_exec w) CNone
    | RErrBad => choice_eqb (w_exec w) CExecBad
    | RErrOther => choice_eqb (w_exec w) CExecErr
    | RErrInvalid => closecalled && choice_eqb (w_exec w) CNone && negb (w_ownfail w)
    (* the tolerated known finding concerns pool-level use only: inside a transaction
       Tx.StmtContext re-prepares a closed statement, the model never yields this result there *)
    | RErrClosed => (closecalled || (tol_closed mask && negb tx)) && choice_eqb (w_exec w) CNone && negb (w_ownfail w)
    | RPanic => tol_rowpanic mask && negb ev && choice_eqb (w_exec w) CNone && (memb q (w_fails w) || closecalled)
    | RNilStmt => false
    end
  end.

Definition spec_step (mask : nat) (progs : list (list op)) (a : acc) (e : vev) : acc :=
  let w := a_win a in
  let bad := mkA w (a_closecalled a) (a_calls a) (a_fails a) (a_evicts a) (a_cuts a) false in
  match e with
  | VStart t =>
    match cur_op progs w t with
    | Some o =>
      let wt := nth t w dflt_win in
      mkA (upd w t (mkW (w_idx wt) true [] false CNone))
          (a_closecalled a || match o with OClose => true | _ => false end)
          (a_calls a) (a_fails a) (a_evicts a) (a_cuts a) (a_ok a && negb (w_active wt))
    | None => bad
    end
  | VPrepCall t q tx =>
    match cur_op progs w t with
    | Some (OExec q' tx' _) =>
      mkA w (a_closecalled a) (a_calls a ++ [(q, tx)]) (a_fails a) (a_evicts a) (a_cuts a)
          (a_ok a && (q =? q') && Bool.eqb tx tx' && w_active (nth t w dflt_win))
    | _ => bad
    end
  | VPrepRet t ok =>
    match cur_op progs w t with
    | Some (OExec q _ _) =>
      if ok then a
      else
        let w1 := map (fun x => if w_active x then mkW (w_idx x) true (q :: w_fails x) (w_ownfail x) (w_exec x) else x) w in
        let wt := nth t w1 dflt_win in
        mkA (upd w1 t (mkW (w_idx wt) (w_active wt) (w_fails wt) true (w_exec wt)))
            (a_closecalled a) (a_calls a) (a_fails a ++ [q]) (a_evicts a) (a_cuts a) (a_ok a)
    | _ => bad
    end
  | VExecCall t => a
  | VExecRet t o =>
    match cur_op progs w t with
    | Some (OExec q _ ev) =>
      let wt := nth t w dflt_win in
      mkA (upd w t (mkW (w_idx wt) (w_active wt) (w_fails wt) (w_ownfail wt) o))
          (a_closecalled a) (a_calls a) (a_fails a)
          (if ev then match o with CExecBad => a_evicts a ++ [q] | _ => a_evicts a end else a_evicts a)
          (a_cuts a) (a_ok a)
    | _ => bad
    end
  | VEnd t r =>
    match cur_op progs w t with
    | Some o =>
      let wt := nth t w dflt_win in
      mkA (upd w t (mkW (S (w_idx wt)) false [] false CNone))
          (a_closecalled a) (a_calls a) (a_fails a) (a_evicts a)
          (match o with OExec _ _ _ => a_cuts a | _ => S (a_cuts a) end)
          (a_ok a && w_active wt && result_allowed mask o wt (a_closecalled a) r
           && (negb (w_ownfail wt) || result_eqb r RErrPrep || (tol_rowpanic mask && result_eqb r RPanic)))
    | None => bad
    end
  end.

Definition spec_fold (mask : nat) (progs : list (list op)) (tr : list vev) : acc :=
  fold_left (spec_step mask progs) tr
            (mkA (map (fun _ => dflt_win) progs) false [] [] [] 0 true).

(* "no goroutine deadlocks", whatever the order in which the driver completes its calls: at a quiet
   point a goroutine of the programs may be blocked only in a query/exec/row of a text for which
   ANOTHER goroutine's Prepare call is with the driver at that moment (it waits for that single
   preparation).  Reset and Close never wait; nobody waits for an execution -- except, in the second
   evaluation of a case that matches known finding close-races-use or close-queues-use (a Reset /
   eviction / Close closes a statement that is in use), a pool-level use while an execution by another
   goroutine is with the driver (it queues behind the Stmt.Close that waits for that execution). *)
Record qacc := mkQA {
  qa_idx : list nat;            (* operations completed, per goroutine *)
  qa_prep : list (option nat);  (* text of the Prepare call that is with the driver *)
  qa_exec : list bool;          (* an execution is with the driver *)
  qa_active : list bool;        (* inside an operation *)
  qa_ans : list bool            (* the driver answered this operation's execution *)
}.
Definition qa_step (a : qacc) (e : vev) : qacc :=
  match e with
  | VStart t => mkQA (qa_idx a) (qa_prep a) (qa_exec a) (upd (qa_active a) t true) (upd (qa_ans a) t false)
  | VPrepCall t q _ => mkQA (qa_idx a) (upd (qa_prep a) t (Some q)) (qa_exec a) (qa_active a) (qa_ans a)
  | VPrepRet t _ => mkQA (qa_idx a) (upd (qa_prep a) t None) (qa_exec a) (qa_active a) (qa_ans a)
  | VExecCall t => mkQA (qa_idx a) (qa_prep a) (upd (qa_exec a) t true) (qa_active a) (qa_ans a)
  | VExecRet t _ => mkQA (qa_idx a) (qa_prep a) (upd (qa_exec a) t false) (qa_active a) (upd (qa_ans a) t true)
  | VEnd t _ => mkQA (upd (qa_idx a) t (S (nth t (qa_idx a) 0))) (qa_prep a) (qa_exec a) (upd (qa_active a) t false) (qa_ans a)
  end.
Definition qa_op (progs : list (list op)) (a : qacc) (t : nat) : option op :=
  nth_error (nth t progs []) (nth t (qa_idx a) 0).
Definition foreign_exec (progs : list (list op)) (a : qacc) (t : nat) : bool :=
  existsb (fun u => negb (u =? t) && nth u (qa_exec a) false) (seq 0 (length progs)).
Definition stuck_justified (mask : nat) (progs : list (list op)) (a : qacc) (t : nat) : bool :=
  if nth t (qa_active a) false then
    match qa_op progs a t with
    | Some (OExec q tx _) =>
      existsb (fun u => negb (u =? t) && option_eqb Nat.eqb (nth u (qa_prep a) None) (Some q))
              (seq 0 (length progs))
      || ((tol_closed mask || tol_queue mask) && negb tx && negb (nth t (qa_ans a) false) && foreign_exec progs a t)
      || (tol_rows mask && negb tx && nth t (qa_ans a) false && foreign_exec progs a t)
    | _ => false
    end
  else
    (* between two operations: only the tolerated Commit of a transaction (the operation just
       finished was inside one) *)
    tol_commit mask && foreign_exec progs a t &&
    match nth t (qa_idx a) 0 with
    | S i => match nth_error (nth t progs []) i with Some (OExec _ true _) => true | _ => false end
    | 0 => false
    end.
Fixpoint quiet_ok (mask : nat) (progs : list (list op)) (qs : list (nat * list nat)) (pos : nat)
         (tr : list vev) (a : qacc) : bool :=
  match quiet_at qs pos with
  | Some stuck => forallb (stuck_justified mask progs a) stuck
  | None => true
  end &&
  match tr with
  | [] => true
  | e :: r => quiet_ok mask progs qs (S pos) r (qa_step a e)
  end.
Definition no_undue_wait (c : case) : bool :=
  quiet_ok (c_mask c) (c_progs c) (c_quiet c) 0 (c_trace c)
           (mkQA (map (fun _ => 0) (c_progs c)) (map (fun _ => None) (c_progs c)) (map (fun _ => false) (c_progs c))
                 (map (fun _ => false) (c_progs c)) (map (fun _ => false) (c_progs c))).

Definition spec_holds (c : case) : bool :=
  let a := spec_fold (c_mask c) (c_progs c) (c_trace c) in
  negb (o_hang c)
  && a_ok a
  && list_eqb Nat.eqb (map w_idx (a_win a)) (map (fun p => length p) (c_progs c))
  && count_ok (a_calls a) (a_fails a) (a_evicts a) (a_cuts a)
  && (o_wrongrows c =? 0)
  && (o_leaked c =? 0) && (o_openstmts c =? 0)
  && (o_races c =? 0) && forallb plumb_spec (c_plumb c)
  && no_undue_wait c.

Definition check_case (c : case) : N := code_of (model_agrees c) (spec_holds c).
