(* C14_Proofs6.v — consequences of the life-cycle invariants: no nil statement leaves the cache,
   a failed preparation is reported to every waiter and is not cached, the statement a
   goroutine executes was prepared for the text it asked for. *)
From Verif Require Import Base C14_Model C14_Count C14_Proofs2 C14_Proofs3 C14_Proofs4 C14_Proofs5.

Lemma invD_init g progs : invD (init_g g progs).
Proof.
  split.
  - intros t th H. cbn in H. rewrite nth_error_map in H. destruct (nth_error progs t); inversion H; subst.
    unfold thrD; cbn; repeat split; try (intros; discriminate); auto.
  - intros e. unfold ent. cbn. destruct e; cbn; discriminate.
  - unfold mapvalid. cbn. constructor.
Qed.

Lemma invCD_reach progs s : reach progs s -> invC s /\ invD s.
Proof.
  apply (reach_ind progs (fun s => invC s /\ invD s)); [intro g; split; [apply invC_init | apply invD_init]|].
  intros s0 t c s1 [IC ID] H. apply step_inv in H. destruct H as [th [l [Ht H]]].
  split; [eapply invC_step | eapply invD_step]; eauto.
Qed.

(* prepare never hands out a nil *sql.Stmt: an entry whose [prepared] channel is closed
   carries either its error or its statement *)
Lemma no_nil_stmt progs s t th :
  reach progs s -> nth_error (s_thr s) t = Some th -> ~ In RNilStmt (t_res th).
Proof.
  intros Hr Ht. destruct (invCD_reach _ _ Hr) as [_ [DT _ _]].
  pose proof (DT _ _ Ht) as D. cbv beta in D. unfold thrD in D. tauto.
Qed.

Lemma closed_channel_has_result progs s e :
  reach progs s -> e_done (ent s e) = true -> e_err (ent s e) = true \/ exists st, e_stmt (ent s e) = Some st.
Proof.
  intros Hr Hd. destruct (invCD_reach _ _ Hr) as [_ [_ SD _]].
  destruct (e_err (ent s e)) eqn:E; [left; reflexivity|right].
  destruct (e_stmt (ent s e)) as [st|] eqn:Es; [eauto|]. exfalso. eapply SD; eauto.
Qed.

(* ---- a failed preparation reaches every waiter ... ---- *)
Lemma waiter_gets_error s t th e :
  t_pc th = P3 e -> e_done (ent s e) = true -> e_err (ent s e) = true ->
  step_th s t th CNone = Some (set_thr s t (set_pc th (Ret (perr th RErrPrep))), None).
Proof. intros Hp Hd He. unfold step_th. rewrite Hp. unfold a_P3. cbn [is_tau]. rewrite Hd, He. reflexivity. Qed.

(* the error is the only thing a goroutine can get out of a failed entry: whoever waits on it
   (P3 e) is not blocked once the channel is closed and ends with RErrPrep (or, for QueryRow,
   with the panic of the swallowed error) *)
Lemma failed_entry_owner_fails progs s t th e :
  reach progs s -> nth_error (s_thr s) t = Some th -> failing (t_pc th) = Some e ->
  e_err (ent s e) = true /\ e_stmt (ent s e) = None /\ e_done (ent s e) = false.
Proof.
  intros Hr Ht Hf. destruct (invCD_reach _ _ Hr) as [_ [DT _ _]].
  pose proof (DT _ _ Ht) as D. cbv beta in D. destruct D as [D1 [D2 [_ [D4 _]]]].
  repeat split.
  - apply D4, Hf.
  - apply D2. destruct (t_pc th); cbn in *; try discriminate; exact Hf.
  - apply D1, failing_owner, Hf.
Qed.

(* ---- ... and is not cached ---- *)
Lemma step_eq_const s t th c s' l :
  step_th s t th c = Some (s', l) ->
  forall e, e < length (s_ents s) -> e_q (ent s' e) = e_q (ent s e) /\ e_tx (ent s' e) = e_tx (ent s e).
Proof.
  intros H e He. step_cases H.
  all: autorewrite with st; auto.
  all: try (rewrite ent_w_ents_app; destruct (e =? length (s_ents s)) eqn:E; [apply Nat.eqb_eq in E; lia | auto]).
  all: rewrite ent_set_ent; autorewrite with st;
    destruct ((e =? e0) && (e0 <? length (s_ents s))) eqn:E; auto;
    apply andb_prop in E; destruct E as [E _]; apply Nat.eqb_eq in E; subst e0; cbn; auto.
Qed.

Lemma step_err_change s t th c s' l :
  step_th s t th c = Some (s', l) ->
  forall e, e < length (s_ents s) -> e_err (ent s' e) = true ->
  e_err (ent s e) = true \/ t_pc th = P9w e.
Proof.
  intros H e He. step_cases H.
  all: autorewrite with st; auto.
  all: try (rewrite ent_w_ents_app; destruct (e =? length (s_ents s)) eqn:E; [apply Nat.eqb_eq in E; lia | auto]).
  all: rewrite ent_set_ent; autorewrite with st;
    destruct ((e =? e0) && (e0 <? length (s_ents s))) eqn:E; auto;
    apply andb_prop in E; destruct E as [E _]; apply Nat.eqb_eq in E; subst e0; cbn; auto.
Qed.

(* a lookup that succeeds after the step succeeded before it, or finds the entry just published *)
Lemma step_map_sub s t th c s' l :
  step_th s t th c = Some (s', l) ->
  forall k e, mlookup (s_map s') k = Some e ->
  mlookup (s_map s) k = Some e \/
  (t_pc th = P6 /\ k = cur_q th /\ e = length (s_ents s) /\ ent s' e = mkE k (cur_tx th) None false false).
Proof.
  intros H k e. step_cases H.
  all: autorewrite with st; auto.
  all: try (rewrite mlookup_remove; destruct (k =? cur_q th); [discriminate | auto]).
  all: try (cbn; discriminate).
  all: try (rewrite Heqo0; cbn; discriminate).
  all: try rewrite (mlookup_insert_hit _ _ _ _ _ Heqo); try rewrite mlookup_insert_some;
    destruct (k =? cur_q th) eqn:E;
    [ apply Nat.eqb_eq in E; subst k; intro Hk; inversion Hk; subst; right; repeat split; auto;
      rewrite ent_w_ents_app, Nat.eqb_refl; reflexivity
    | auto ].
Qed.

Lemma step_thr_other s t th c s' l t' :
  nth_error (s_thr s) t = Some th -> step_th s t th c = Some (s', l) ->
  t' <> t -> t' < length (s_thr s) -> nth_error (s_thr s') t' = nth_error (s_thr s) t'.
Proof.
  intros Ht H Hne Hlt. step_cases H.
  all: autorewrite with st; norm_thr.
  all: rewrite nth_error_app1 by (rewrite upd_length; exact Hlt); apply nth_error_upd_other; exact Hne.
Qed.

Lemma step_P11 s t th c s' l e :
  nth_error (s_thr s) t = Some th ->
  t_pc th = P11 e -> step_th s t th c = Some (s', l) ->
  nth_error (s_thr s') t = Some (set_pc th (P11b e)) /\ s_map s' = s_map s.
Proof.
  intros Ht Hp H. unfold step_th in H. rewrite Hp in H. unfold a_P11 in H.
  destruct (is_tau c); [|discriminate]. destruct (lock_free s); [|discriminate].
  inversion H; subst. autorewrite with st. split; [|reflexivity].
  eapply nth_error_upd_same; eauto.
Qed.

Lemma step_P11b s t th c s' l e :
  t_pc th = P11b e -> step_th s t th c = Some (s', l) ->
  mlookup (s_map s') (cur_q th) <> Some e.
Proof.
  intros Hp H. unfold step_th in H. rewrite Hp in H. unfold a_P11b, goto in H.
  destruct (is_tau c); [|discriminate]. cbv zeta in H.
  destruct (mlookup (s_map s) (cur_q th)) as [e'|] eqn:Em.
  - destruct (e' =? e) eqn:Ee; [|destruct (s_guard s)]; inversion H; subst; autorewrite with st.
    + rewrite mlookup_remove, Nat.eqb_refl. discriminate.
    + rewrite Em. intro X. inversion X; subst. rewrite Nat.eqb_refl in Ee. discriminate.
    + rewrite mlookup_remove, Nat.eqb_refl. discriminate.
  - inversion H; subst. autorewrite with st. rewrite mlookup_remove, Nat.eqb_refl. discriminate.
Qed.

Lemma step_P9w_fail s t th c s' l e :
  nth_error (s_thr s) t = Some th ->
  t_pc th = P9w e -> step_th s t th c = Some (s', l) -> e_err (ent s e) = false ->
  e < length (s_ents s) -> e_err (ent s' e) = true ->
  nth_error (s_thr s') t = Some (set_pc th (P11 e)).
Proof.
  intros Ht Hp H He Hl He'. unfold step_th in H. rewrite Hp in H. unfold a_P9w in H.
  destruct c; try discriminate; cbv zeta in H; inversion H; subst; autorewrite with st in *.
  - rewrite He in He'. discriminate.
  - eapply nth_error_upd_same; eauto.
Qed.

Record invE (s : state) : Prop := {
  E_key : forall k e, mlookup (s_map s) k = Some e -> e_q (ent s e) = k;
  E_fail : forall k e, mlookup (s_map s) k = Some e -> e_err (ent s e) = true ->
           exists t th, nth_error (s_thr s) t = Some th /\ (t_pc th = P11 e \/ t_pc th = P11b e)
}.

Lemma invE_step s t th c s' l :
  nth_error (s_thr s) t = Some th -> step_th s t th c = Some (s', l) ->
  invB0 s -> invD s -> invE s -> invE s'.
Proof.
  intros Ht H B0 [DT _ _] [EK EF]. split.
  - intros k e Hk. destruct (step_map_sub _ _ _ _ _ _ H _ _ Hk) as [Ho|[_ [-> [-> Hn]]]].
    + destruct (step_eq_const _ _ _ _ _ _ H e (B0 _ _ Ho)) as [-> _]. apply EK, Ho.
    + rewrite Hn. reflexivity.
  - intros k e Hk He'. destruct (step_map_sub _ _ _ _ _ _ H _ _ Hk) as [Ho|[_ [_ [-> Hn]]]].
    2:{ rewrite Hn in He'. discriminate. }
    pose proof (B0 _ _ Ho) as Hlt.
    destruct (step_err_change _ _ _ _ _ _ H e Hlt He') as [He|Hp].
    + destruct (EF _ _ Ho He) as [t1 [th1 [Hn1 Hp1]]].
      destruct (Nat.eq_dec t1 t) as [->|Hne].
      * rewrite Ht in Hn1. inversion Hn1; subst th1. destruct Hp1 as [Hp1|Hp1].
        -- destruct (step_P11 _ _ _ _ _ _ _ Ht Hp1 H) as [Hx _]. exists t, (set_pc th (P11b e)). split; [exact Hx|right; reflexivity].
        -- exfalso. pose proof (step_P11b _ _ _ _ _ _ _ Hp1 H) as Hnone.
           pose proof (DT _ _ Ht) as D. cbv beta in D. destruct D as [D1 _].
           destruct (D1 e) as [_ [Dq _]]; [rewrite Hp1; reflexivity|].
           rewrite (EK _ _ Ho) in Dq. subst k. exact (Hnone Hk).
      * exists t1, th1. split; [|exact Hp1].
        rewrite (step_thr_other _ _ _ _ _ _ t1 Ht H Hne); [exact Hn1|]. apply nth_error_Some. congruence.
    + pose proof (DT _ _ Ht) as D. cbv beta in D. destruct D as [_ [_ [_ [_ [D5 _]]]]].
      assert (Hf : e_err (ent s e) = false) by (apply D5; rewrite Hp; reflexivity).
      exists t, (set_pc th (P11 e)). split; [|left; reflexivity].
      eapply step_P9w_fail; eauto.
Qed.
