(* C01_Proofs7.v — main induction, part 3: every value of the domain binds exactly its
   [bound_values], in order, and what it writes satisfies [goodp]. *)
From Verif Require Import Base C01_Model C01_Stmt C01_Spec C01_Ind C01_Proofs C01_Proofs2 C01_Proofs3 C01_Proofs4 C01_Proofs5 C01_Proofs6.

Section Main.
Variable numbered : bool.
Notation B := (bval numbered).
Notation Q := (Q numbered).
Notation argr_of := (argr_of numbered).
Notation quoted := (quoted numbered).
Notation elems_of := (elems_of numbered).
Notation negated := (negated numbered).
Notation bexprs := (bexprs numbered).

Lemma elems_cases : forall e x,
  (exists l, (x = VList LIface l \/ x = VList LKnown l) /\ elems_of e x = Some (map (B e) l))
  \/ (elems_of e x = None
      /\ forall (A : Type) (f : list val -> A) (d : A),
           match x with VList LIface l | VList LKnown l => f l | _ => d end = d).
Proof.
  intros e x. destruct x; try (right; split; reflexivity).
  destruct k; [left; eauto | left; eauto | right; split; reflexivity | right; split; reflexivity].
Qed.

(* the parts of a comparison *)
Lemma cmp_parts : forall e c y, tinfo_ok e = true -> Her Q c -> Her Q y -> wfcol c = true -> wfb y = true ->
  (vars_of (quoted e c) = bvcol c /\ goodp (quoted e c) = true)
  /\ (vars_of (B e y) = bound_values y /\ goodp (B e y) = true)
  /\ (forall l, elems_of e y = Some l -> all_good l)
  /\ (forall l, (y = VList LIface l \/ y = VList LKnown l) ->
        List.concat (map vars_of (map (B e) l)) = flat_map bound_values l).
Proof.
  intros e c y He Hc Hy Wc Wy.
  split; [apply quoted_facts; assumption|]. split; [exact (her_q _ _ Hy e He Wy)|].
  split.
  - intros l El. destruct (elems_cases e y) as [[l' [[->| ->] E]]|[E _]]; rewrite E in El; try discriminate;
      inversion El; subst; apply her_kids in Hy; cbn [kids] in Hy; cbn [wfb] in Wy;
      apply (Q_list numbered e l' He Hy Wy).
  - intros l [->| ->]; apply her_kids in Hy; cbn [kids] in Hy; cbn [wfb] in Wy;
      apply Q_list_vars; assumption.
Qed.

Lemma cmp_facts : forall e o c y, tinfo_ok e = true -> Her Q c -> Her Q y -> wfcol c = true -> wfb y = true ->
  forall o', (o' = o \/ o' = neg_op o) ->
  vars_of (cmp_build o' (quoted e c) (elems_of e y) (eq_nil y) (B e y)) = bound_values (VCmp o c y)
  /\ goodp (cmp_build o' (quoted e c) (elems_of e y) (eq_nil y) (B e y)) = true.
Proof.
  intros e o c y He Hc Hy Wc Wy o' Ho.
  destruct (cmp_parts e c y He Hc Hy Wc Wy) as ((Vq & Gq) & (Vy & Gy) & Ge & Ve).
  split; [|apply cmp_build_good; assumption].
  rewrite cmp_build_vars, bv_VCmp, Vq. f_equal.
  assert (Cl : match o' with OEq | ONeq => true | _ => false end = match o with OEq | ONeq => true | _ => false end).
  { destruct Ho as [->| ->]; destruct o; reflexivity. }
  destruct (elems_cases e y) as [[l [Hl E]]|[E M]]; rewrite E.
  - pose proof (Ve l Hl) as V. destruct Hl as [->| ->]; rewrite V;
      destruct o', o; try discriminate; try reflexivity; cbn [eq_nil]; exact Vy.
  - rewrite M, Vy. destruct o', o; try discriminate; reflexivity.
Qed.

Lemma in_facts : forall e c vs, tinfo_ok e = true -> Her Q c -> Forall (Her Q) vs -> wfcol c = true ->
  forallb wfb vs = true -> forall neg si,
  vars_of (in_build neg (quoted e c) (map (B e) vs) si) = bound_values (VIn c vs)
  /\ goodp (in_build neg (quoted e c) (map (B e) vs) si) = true.
Proof.
  intros e c vs He Hc Hvs Wc Wvs neg si.
  destruct (quoted_facts numbered e c He Hc Wc) as [Vq Gq].
  destruct (Q_list numbered e vs He Hvs Wvs) as [V G].
  split; [|apply in_build_good; assumption].
  rewrite in_build_vars, bv_VIn, Vq, V, concat_map_flat. reflexivity.
Qed.

(* one member of NotConditions, negated on its own *)
Lemma negated_facts : forall e x, tinfo_ok e = true -> Her Q x -> wfb x = true ->
  vars_of (negated e x) = bound_values x /\ goodp (negated e x) = true.
Proof.
  intros e x He Hx Wx. pose proof (her_q _ _ Hx e He Wx) as [V G].
  pose proof (her_kids _ _ Hx) as K.
  destruct x; try (cbn [negated]; split;
                   [rewrite vars_of_app, vars_pstr, vars_wrap; exact V
                   | apply goodp_app; [reflexivity | apply goodp_wrap; exact G]]).
  - (* VCmp *) cbn [kids] in K. inversion K as [|? ? K1 K']; subst. inversion K' as [|? ? K2 K'']; subst.
    rewrite wfb_VCmp in Wx. apply andb_prop in Wx. destruct Wx as [W1 W2].
    cbn [negated]. apply cmp_facts; auto.
  - (* VIn *) cbn [kids] in K. inversion K as [|? ? K1 K']; subst.
    rewrite wfb_VIn in Wx. apply andb_prop in Wx. destruct Wx as [W1 W2].
    cbn [negated]. apply in_facts; assumption.
Qed.

Lemma negated_list : forall e l, tinfo_ok e = true -> Forall (Her Q) l -> forallb wfb l = true ->
  map vars_of (map (negated e) l) = map bound_values l /\ all_good (map (negated e) l).
Proof.
  intros e l He H. induction H as [|x l Hx Hl IH]; intro Hw; [split; constructor|].
  cbn in Hw. apply andb_prop in Hw. destruct Hw as [Hw1 Hw2].
  destruct (negated_facts e x He Hx Hw1) as [V G]. destruct (IH Hw2) as [V' G'].
  cbn [map]. split; [rewrite V, V'; reflexivity | constructor; assumption].
Qed.

Lemma tmpl_expr_facts : forall e wop sql vars, tinfo_ok e = true -> Forall (Her Q) vars ->
  wfb (VExpr wop sql vars) = true ->
  vars_of (B e (VExpr wop sql vars)) = bound_values (VExpr wop sql vars) /\ goodp (B e (VExpr wop sql vars)) = true.
Proof.
  intros e wop sql vars He H Hw. rewrite wfb_VExpr in Hw. apply andb_prop in Hw. destruct Hw as [Ha Ht].
  apply negb_true_iff in Ha. unfold template_ok in Ht. rewrite Ha in Ht.
  apply andb_prop in Ht. destruct Ht as [Ht Hr]. apply andb_prop in Ht. destruct Ht as [Ht _].
  apply andb_prop in Hr. destruct Hr as [Hc Hwv]. apply Nat.eqb_eq in Hc.
  rewrite B_VExpr, bv_VExpr. apply positional_facts; assumption.
Qed.

Theorem all_Q : forall v, Her Q v.
Proof.
  apply her_all. intros v K. destruct v; intros e He Hw; cbn [kids] in K;
    try (split; reflexivity); try discriminate.
  - (* VList *)
    cbn [wfb] in Hw. rewrite B_VList. destruct l as [|y l']; [split; reflexivity|].
    destruct (Q_list numbered e (y :: l') He K Hw) as [V G].
    split.
    + cbn [vars_of]. rewrite vars_of_app, vars_of_sepc by reflexivity. rewrite V, concat_map_flat.
      cbn [vars_of]. rewrite List.app_nil_r. reflexivity.
    + change (PC "(" :: sepc [PC ","] (map (B e) (y :: l')) ++ [PC ")"])
        with (pstr "(" ++ sepc [PC ","] (map (B e) (y :: l')) ++ pstr ")").
      repeat apply goodp_app; try reflexivity. apply goodp_sepc; [reflexivity | exact G].
  - (* VGormValuer *)
    inversion K; subst. cbn [wfb] in Hw. cbn [bval bound_values]. destruct isnil; [split; reflexivity|].
    exact (her_q _ _ H1 e He Hw).
  - (* VCol *)
    cbn [wfb] in Hw. apply andb_prop in Hw. destruct Hw as [Hw Hal]. apply andb_prop in Hw. destruct Hw as [Htb Hnm].
    cbn [bval bound_values]. split; [apply vars_of_ptext | apply goodp_ptext, good_quote_col; assumption].
  - (* VTable *)
    cbn [wfb] in Hw. apply andb_prop in Hw. destruct Hw as [Hnm Hal].
    cbn [bval bound_values]. split; [apply vars_of_ptext | apply goodp_ptext, good_quote_table; assumption].
  - (* VText *)
    cbn [wfb] in Hw. cbn [bval bound_values]. split; [apply vars_pstr | apply good_pstr; exact Hw].
  - (* VExpr *) apply tmpl_expr_facts; assumption.
  - (* VNamedExpr *)
    rewrite wfb_VNamedExpr in Hw. rewrite bv_VNamedExpr.
    exact (proj2 (template_facts numbered e sql vars He K Hw)).
  - (* VCmp *)
    inversion K as [|? ? K1 K']; subst. inversion K' as [|? ? K2 K'']; subst.
    rewrite wfb_VCmp in Hw. apply andb_prop in Hw. destruct Hw as [W1 W2].
    rewrite B_VCmp. apply cmp_facts; auto.
  - (* VIn *)
    inversion K as [|? ? K1 K']; subst.
    rewrite wfb_VIn in Hw. apply andb_prop in Hw. destruct Hw as [W1 W2].
    rewrite B_VIn. apply in_facts; assumption.
  - (* VAnd *)
    cbn [wfb] in Hw. rewrite B_VAnd. cbn [bound_values].
    split; [rewrite vars_wrap; apply bexprs_vars; assumption | apply goodp_wrap, bexprs_good; auto].
  - (* VOr *)
    cbn [wfb] in Hw. rewrite B_VOr. cbn [bound_values].
    split; [rewrite vars_wrap; apply bexprs_vars; assumption | apply goodp_wrap, bexprs_good; auto].
  - (* VNot *)
    cbn [wfb] in Hw. rewrite B_VNot. cbn [bound_values].
    destruct (existsb has_negation l && negb (existsb is_single_or (tl l))).
    + destruct (negated_list e l He K Hw) as [V G]. split.
      * rewrite vars_wrap, vars_of_sepc by apply vars_pstr. rewrite V. apply concat_map_flat.
      * apply goodp_wrap, goodp_sepc; [reflexivity | exact G].
    + destruct l as [|x [|y r]].
      * split; reflexivity.
      * inversion K; subst. cbn [forallb] in Hw. rewrite andb_true_r in Hw.
        destruct (her_q _ _ H1 e He Hw) as [V G]. cbn [flat_map]. rewrite List.app_nil_r. split.
        -- rewrite vars_of_app, vars_pstr, vars_wrap. exact V.
        -- apply goodp_app; [reflexivity | apply goodp_wrap; exact G].
      * split.
        -- rewrite vars_of_app, vars_pstr. cbn [app vars_of]. rewrite vars_of_app. cbn [vars_of].
           rewrite List.app_nil_r. apply bexprs_vars; assumption.
        -- change (PC "(" :: bexprs e " AND " (x :: y :: r) ++ [PC ")"])
             with (pstr "(" ++ bexprs e " AND " (x :: y :: r) ++ pstr ")").
           apply goodp_app; [reflexivity|]. apply goodp_app; [reflexivity|].
           apply goodp_app; [apply bexprs_good; auto | reflexivity].
  - (* VWhere *)
    cbn [wfb] in Hw. rewrite B_VWhere. cbn [bound_values].
    split; [apply bexprs_vars; assumption | apply bexprs_good; auto].
  - (* VSeq *)
    cbn [wfb] in Hw. apply andb_prop in Hw. destruct Hw as [Hs Hl].
    rewrite B_VSeq. cbn [bound_values]. destruct (Q_list numbered e l He K Hl) as [V G]. split.
    + rewrite vars_of_sepc by apply vars_pstr. rewrite V. apply concat_map_flat.
    + apply goodp_sepc; [|exact G]. destruct (s2l sp) eqn:E; [unfold pstr; rewrite E; reflexivity|].
      apply good_pstr. exact Hs.
  - (* VSubN *)
    inversion K as [|? ? K1 K']; subst. cbn [wfb] in Hw. apply andb_prop in Hw. destruct Hw as [Ht Hq].
    cbn [bval bound_values]. exact (her_q _ _ K1 ti Ht Hq).
  - (* VRawSub *)
    rewrite wfb_VRawSub in Hw. apply andb_prop in Hw. destruct Hw as [Ht Hb].
    destruct (proj1 (template_facts numbered e sql vars He K Ht)) as [V G].
    rewrite B_VRawSub. rewrite bv_VRawSub in Hb |- *.
    rewrite rebuild_same; [split; assumption | apply goodq_of_p; exact G |].
    apply nbap_no_bytes. rewrite V. exact Hb.
Qed.

Theorem vars_and_good : forall e v, tinfo_ok e = true -> wfb v = true ->
  vars_of (B e v) = bound_values v /\ goodp (B e v) = true.
Proof. intros e v He Hw. exact (her_q _ _ (all_Q v) e He Hw). Qed.

End Main.

(* ---- the three statements over pieces, put together ---- *)
Theorem vars_in_order : forall numbered e v, tinfo_ok e = true -> wfb v = true ->
  vars_of (bval numbered e v) = bound_values v.
Proof. intros. apply vars_and_good; assumption. Qed.

Theorem placeholders_in_order : forall numbered e v, tinfo_ok e = true -> wfb v = true ->
  placeholders numbered (render numbered (bval numbered e v)) = nseq (length (vars_of (bval numbered e v))).
Proof.
  intros numbered e v He Hw. destruct (vars_and_good numbered e v He Hw) as [_ G].
  apply goodp_elim in G. destruct G as (g1 & g2 & g3 & g4 & g5 & g6).
  destruct numbered; [apply placeholders_numbered | apply placeholders_qmark]; assumption.
Qed.
