(* C01_Proofs.v — pieces and rendering: placeholders of a rendered text. *)
From Verif Require Import Base C01_Model C01_Stmt C01_Spec.
From Coq Require Import DecimalN DecimalFacts.

(* ---- pieces ---- *)
Definition is_pc (c : ascii) (p : piece) : bool := match p with PC d => ceq c d | _ => false end.
Definition is_hidden (p : piece) : bool := match p with PH _ => true | _ => false end.
Definition no_char (c : ascii) (ps : pieces) : bool := negb (existsb (is_pc c) ps).
Definition no_hidden (ps : pieces) : bool := negb (existsb is_hidden ps).

Lemma vars_of_app : forall a b, vars_of (a ++ b) = vars_of a ++ vars_of b.
Proof.
  induction a as [|p a IH]; intros b; [reflexivity|].
  destruct p; cbn; rewrite IH; reflexivity.
Qed.

Lemma vars_of_ptext : forall s, vars_of (ptext s) = [].
Proof. induction s as [|c s IH]; [reflexivity|]. cbn. exact IH. Qed.

Lemma no_char_app : forall c a b, no_char c (a ++ b) = no_char c a && no_char c b.
Proof. intros c a b. unfold no_char. rewrite existsb_app, negb_orb. reflexivity. Qed.

Lemma no_hidden_app : forall a b, no_hidden (a ++ b) = no_hidden a && no_hidden b.
Proof. intros a b. unfold no_hidden. rewrite existsb_app, negb_orb. reflexivity. Qed.

Lemma count_c_app : forall c a b, count_c c (a ++ b) = (count_c c a + count_c c b)%nat.
Proof.
  intros c a b; induction a as [|x a IH]; [reflexivity|].
  cbn. rewrite IH. lia.
Qed.

(* ---- "?" dialect ---- *)
Lemma count_q_render : forall ps n,
  no_char "?" ps = true -> no_hidden ps = true ->
  count_c "?" (render_from false n ps) = length (vars_of ps).
Proof.
  induction ps as [|p ps IH]; intros n Hc Hh; [reflexivity|].
  unfold no_char, no_hidden in *. cbn [existsb] in Hc, Hh.
  rewrite negb_orb in Hc, Hh. apply andb_prop in Hc; destruct Hc as [Hc1 Hc2].
  apply andb_prop in Hh; destruct Hh as [Hh1 Hh2].
  destruct p as [c|v|v]; cbn [render_from vars_of].
  - cbn [is_pc] in Hc1. cbn [count_c]. apply negb_true_iff in Hc1. rewrite Hc1.
    cbn. apply IH; assumption.
  - cbn [app count_c length]. replace (ceq "?" "?") with true by reflexivity.
    rewrite (IH (N.succ n)); [reflexivity | assumption | assumption].
  - discriminate.
Qed.

Lemma placeholders_qmark : forall ps,
  no_char "?" ps = true -> no_hidden ps = true ->
  placeholders false (render false ps) = nseq (length (vars_of ps)).
Proof.
  intros ps Hc Hh. unfold placeholders, render. rewrite count_q_render by assumption. reflexivity.
Qed.
