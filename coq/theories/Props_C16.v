(* Props_C16.v — property C16: ONLY theorem statements, each closed by [exact] of a lemma from
   C16_Proofs / C16_Proofs2, followed by Print Assumptions.
   [step keep t now chain finisher] is the model of one call on table [t] with NowFunc() = now;
   keep = true is Statement.clone as it is in /repo (attrs/assigns copied, commit 2b43abc) and is what
   the correspondence checker evaluates ([step_repo]); keep = false is the tree before that fix.
   [wf t] = keys strictly increasing (a table as a primary-key index stores it). *)
From Verif Require Import Base C16_Model C16_Spec C16_Proofs C16_Proofs2 C16_Proofs3 C16_Proofs4.
Open Scope Z_scope.

(* ---- Save ------------------------------------------------------------------------------------ *)
(* Save stores the full value whether or not its key exists (live row, soft-deleted row, no row):
   afterwards the key holds the value (tracked times aside), no other row changed, no error, and
   at most one row was added. *)
Theorem c16_save_stores_value : forall t now v, wf t -> r_id v <> 0 ->
  let r := save t now v in
  res_err r = false /\ wf (res_tbl r)
  /\ without (r_id v) (res_tbl r) = without (r_id v) t
  /\ (exists row, lookup (res_tbl r) (r_id v) = Some row /\ strip_ts row = strip_ts v)
  /\ strip_ts (res_ret r) = strip_ts v
  /\ (length (res_tbl r) <= S (length t))%nat.
Proof. exact save_char. Qed.
Print Assumptions c16_save_stores_value.

(* a value without key gets a fresh key and is inserted *)
Theorem c16_save_new_key : forall t now v, wf t -> r_id v = 0 ->
  let r := save t now v in
  res_err r = false /\ wf (res_tbl r) /\ 0 < r_id (res_ret r)
  /\ lookup t (r_id (res_ret r)) = None
  /\ res_tbl r = insert t (res_ret r)
  /\ strip_ts (res_ret r) = strip_ts (with_id (r_id (res_ret r)) v).
Proof. exact save_zero_key. Qed.
Print Assumptions c16_save_new_key.

(* saving twice equals saving once, tracked timestamps aside (any two clock values) *)
Theorem c16_save_idempotent : forall t n1 n2 v, wf t -> r_id v <> 0 ->
  map strip_ts (res_tbl (save (res_tbl (save t n1 v)) n2 v))
  = map strip_ts (res_tbl (save t n1 v)).
Proof. exact save_idempotent. Qed.
Print Assumptions c16_save_idempotent.

Theorem c16_save_idempotent_new_key : forall t n1 n2 v, wf t -> r_id v = 0 ->
  let r := save t n1 v in
  map strip_ts (res_tbl (save (res_tbl r) n2 (res_ret r))) = map strip_ts (res_tbl r).
Proof. exact save_zero_key_again. Qed.
Print Assumptions c16_save_idempotent_new_key.

(* ---- Create with an OnConflict rule ---------------------------------------------------------- *)
(* exactly the rows and column values the rule defines: no collision (live or soft-deleted row
   under the key) -> the value is inserted; collision -> DoNothing keeps the stored row, DoUpdates
   copies exactly the listed columns, UpdateAll every column but key / created_at and sets
   updated_at to now; in all cases no other row changes. *)
Theorem c16_upsert_rule : forall t now ru v, wf t -> r_id v <> 0 ->
  let r := create t now (Some ru) v in
  let ex := fill_times now v in
  res_err r = false /\ res_ret r = ex /\ wf (res_tbl r)
  /\ without (r_id v) (res_tbl r) = without (r_id v) t
  /\ match lookup t (r_id v) with
     | None => lookup (res_tbl r) (r_id v) = Some ex /\ length (res_tbl r) = S (length t)
     | Some old => (exists row, lookup (res_tbl r) (r_id v) = Some row /\ rule_row now ru ex old row)
                   /\ length (res_tbl r) = length t
     end.
Proof. exact upsert_rule. Qed.
Print Assumptions c16_upsert_rule.

(* ---- FirstOrInit / FirstOrCreate ---------------------------------------------------------------- *)
(* FirstOrInit never writes: for EVERY chain (Session/WithContext anywhere) and either clone *)
Theorem c16_init_never_writes : forall keep t now ch ic,
  let r := step keep t now ch (FInit ic) in
  res_tbl r = t /\ res_writes r = 0 /\ res_err r = false.
Proof. exact init_never_writes. Qed.
Print Assumptions c16_init_never_writes.

(* FirstOrCreate writes at most one row, for EVERY chain whose Assign does not name the key *)
Theorem c16_create_at_most_one : forall keep t now ch ic, chain_keeps_key ch ->
  let r := step keep t now ch (FFoc ic) in
  (exists k, without k (res_tbl r) = without k t)
  /\ (length (res_tbl r) <= S (length t))%nat /\ res_writes r <= 1.
Proof. exact foc_step_one. Qed.
Print Assumptions c16_create_at_most_one.

(* what they return, read on what the caller wrote (Session/WithContext erased), for EVERY chain:
   the first match with Assign applied, or else the record built from conditions, then Attrs, then
   Assign *)
Theorem c16_init_reading : forall t now ch ic,
  step_repo t now ch (FInit ic) = ref_init t (ch_conds ch ++ ic) (ch_attrs ch) (ch_assigns ch).
Proof. exact init_reading_repo. Qed.
Print Assumptions c16_init_reading.

Theorem c16_create_reading : forall t now ch ic,
  step_repo t now ch (FFoc ic)
  = ref_foc t now (ch_conds ch) (ch_conds ch ++ ic) (ch_attrs ch) (ch_assigns ch).
Proof. exact foc_reading_repo. Qed.
Print Assumptions c16_create_reading.

(* a found row with Assign: exactly that row is updated, the record handed back is the row stored *)
Theorem c16_found_assign : forall t now wh ic attrs assigns r,
  wf t -> unscoped ic = false -> first_match t (wh ++ ic) = Some r -> assigns <> [] ->
  names_key (assign_map assigns) = false ->
  let res := ref_foc t now wh (wh ++ ic) attrs assigns in
  let r' := with_uat now (set_pairs (assign_map assigns) r) in
  res_ret res = r' /\ res_err res = false /\ res_ra res = 1
  /\ lookup (res_tbl res) (r_id r) = Some r'
  /\ without (r_id r) (res_tbl res) = without (r_id r) t /\ wf (res_tbl res).
Proof. exact foc_found_assign. Qed.
Print Assumptions c16_found_assign.

(* ---- position of Session / WithContext ------------------------------------------------------- *)
(* none of this depends on a Session or WithContext call placed anywhere in the chain: for every
   table, clock, chain and finisher the result equals that of the chain with them erased *)
Theorem c16_session_invariant : forall t now ch f,
  step_repo t now ch f = step_repo t now (erase ch) f.
Proof. exact session_invariant. Qed.
Print Assumptions c16_session_invariant.

(* the copy of attrs/assigns in Statement.clone is necessary: without it (the tree before commit
   2b43abc) Attrs(Acct{Email:"m@e"}).Session(&Session{}).FirstOrInit(&u, map{name:"zz"}) on an empty
   table returns a record without the e-mail (corpus/C16, replayed on gorm on every run) *)
Theorem c16_session_invariant_needs_clone_copy : exists t now ch f,
  res_ret (step false t now ch f) <> res_ret (step false t now (erase ch) f).
Proof. exact session_refuted. Qed.
Print Assumptions c16_session_invariant_needs_clone_copy.

(* ---- histories ---------------------------------------------------------------------------------- *)
(* every history from a well-formed table (e.g. the empty one) stays well-formed, so the theorems
   above apply at every step of every sequence of Save/upsert/FirstOrCreate/FirstOrInit *)
Theorem c16_history_wf : forall keep hs t,
  Forall (fun s : hstep => is_composite (snd s) = false /\ chain_keeps_key (snd (fst s))) hs ->
  wf t -> wf (run_history keep t hs).
Proof. exact history_wf. Qed.
Print Assumptions c16_history_wf.

(* Omit(cols...).Save(&v): with an empty Omit list the model function IS Save (so the Save theorems carry
   over at that point); for non-empty lists the stored columns are tied by the correspondence and
   C16_Spec.spec_save_omit evaluated on gorm's outputs: PARTIAL *)
Theorem c16_save_omit_nil : forall t now v, save_omit t now [] v = save t now v.
Proof. exact save_omit_nil. Qed.
Print Assumptions c16_save_omit_nil.

Theorem c16_save_omit_wf : forall t now os v, wf t -> wf (res_tbl (save_omit t now os v)).
Proof. exact save_omit_wf. Qed.
Print Assumptions c16_save_omit_wf.

(* a second unique index (unique e-mails): an incoming row with a fresh key whose e-mail another row
   holds leaves the table untouched and is an error under every rule whose conflict target is the key;
   only DO NOTHING without any target swallows it.  An error never changes the table. *)
Theorem c16_other_index_collision : forall t now ru tgt v, r_id v <> 0 -> lookup t (r_id v) = None ->
  email_clash t (r_id v) (r_email v) = true ->
  let r := create_u t now ru tgt v in
  res_tbl r = t /\ res_err r = negb (untargeted_nothing ru tgt) /\ res_ra r = 0.
Proof. exact create_u_clash. Qed.
Print Assumptions c16_other_index_collision.

Theorem c16_other_index_error_keeps_table : forall t now ru tgt v,
  res_err (create_u t now ru tgt v) = true -> res_tbl (create_u t now ru tgt v) = t.
Proof. exact create_u_err. Qed.
Print Assumptions c16_other_index_error_keeps_table.

(* a model type with a COMPOSITE primary key (id, region): a row sharing only ONE key member with the value
   is no collision (the value is inserted next to it), and saving twice equals saving once *)
Theorem c16_composite_other_member : forall t ru v, clookup t v = None ->
  ccreate t ru v = mk_result v 1 false 1 (t ++ [v]).
Proof. exact ccreate_other_member. Qed.
Print Assumptions c16_composite_other_member.

Theorem c16_composite_save_idempotent : forall t v,
  res_tbl (csave (res_tbl (csave t v)) v) = res_tbl (csave t v).
Proof. exact csave_twice. Qed.
Print Assumptions c16_composite_save_idempotent.

(* Save of a value whose composite key has a zero-valued member (and is not stored): the value is inserted under
   its full key, every other row — also those sharing the other key member — stays as it is *)
Theorem c16_composite_zero_member : forall t v, ckey_zero v = true -> clookup t v = None ->
  csave t v = mk_result v 1 false 1 (t ++ [v]).
Proof. exact csave_zero_member. Qed.
Print Assumptions c16_composite_zero_member.

(* Save of a slice: the table stays well-formed and every element gets a record handed back.  What
   the elements hold afterwards (values, keys handed back, other rows untouched) is tied by the
   correspondence and by C16_Spec.spec_slice evaluated on gorm's outputs only: PARTIAL. *)
Theorem c16_save_slice_wf_len : forall t now vs, wf t ->
  wf (fst (save_slice_run t now vs)) /\ length (snd (save_slice_run t now vs)) = length vs.
Proof. exact save_slice_wf_len. Qed.
Print Assumptions c16_save_slice_wf_len.

(* ---- Create from map values with an OnConflict rule ------------------------------------------------------
   one map with a key: no other row changes; a fresh key stores the map's row (named columns, the rest empty,
   no tracked time filled in); a stored key gets exactly what the rule writes, RowsAffected says whether it
   wrote.  Slices of maps are folds of this step (create_maps_run); what they leave is tied by the
   correspondence and C16_Spec.spec_oc_maps evaluated on gorm's outputs: PARTIAL for slices. *)
Theorem c16_create_map_rule : forall t now ru ks m, wf t -> r_id (map_rec m) <> 0 ->
  let ex := map_rec m in
  let r := create_map t now ru ks m in
  res_err r = false /\ wf (res_tbl r)
  /\ without (r_id ex) (res_tbl r) = without (r_id ex) t
  /\ match lookup t (r_id ex) with
     | None => lookup (res_tbl r) (r_id ex) = Some ex /\ res_ra r = 1
     | Some old => lookup (res_tbl r) (r_id ex) = Some (moc_apply now ru ks ex old)
                   /\ res_ra r = (if mrule_fires ru ks old then 1 else 0)
     end.
Proof. exact create_map_rule. Qed.
Print Assumptions c16_create_map_rule.

(* UpdateAll on a map: a data column takes the map's value exactly when the map (the call) names it *)
Theorem c16_create_map_update_all_columns : forall now ks ex old c, In c [CName; CAge; CEmail; CDel] ->
  get_col c (moc_apply now RAll ks ex old) = if named ks c then get_col c ex else get_col c old.
Proof. exact moc_all_columns. Qed.
Print Assumptions c16_create_map_update_all_columns.

(* Omit(cols...).Save(&v) (round 7): the executable specification spec_save_omit — the full value is stored except
   the omitted columns, which keep what the row had (or stay empty in a new row), nothing else changes, one row
   affected, the key handed back — holds of the model's own output for EVERY well-formed table, Omit list, value
   and clock value (live / soft-deleted / absent / zero key) *)
Theorem c16_save_omit_meets_spec : forall t now os v, wf t ->
  spec_save_omit t os v (obs_of_result (save_omit t now os v)) = true.
Proof. exact save_omit_meets_spec. Qed.
Print Assumptions c16_save_omit_meets_spec.

(* ---- the specification the checker evaluates on gorm's outputs holds of the model's own output ---- *)
(* for every well-formed table, clock value, chain and finisher of the domain (type-correct values,
   key-value form alone, Attrs/Assign on data columns, conditions on key/data columns with positive
   keys; [in_domain] and [sortedb] are evaluated on every executed case by C16_Check) *)
Theorem c16_model_meets_spec : forall t now ch f, wf t -> in_domain ch f = true ->
  spec_step t now ch f (obs_of_result (step_repo t now ch f)) = true.
Proof. exact model_meets_spec. Qed.
Print Assumptions c16_model_meets_spec.

(* non-vacuity of the hypotheses *)
Example c16_instance :
  wf [mk_rec 1 "a" 1 "" 2 3 None; mk_rec 3 "b" 0 "x@e" 2 3 (Some 8)]
  /\ chain_keeps_key [EAssign [AMap [(CEmail, VStr "m@e")]]]
  /\ first_match [mk_rec 1 "a" 1 "" 2 3 None] ([CMap [(CName, VStr "a")]] ++ []) = Some (mk_rec 1 "a" 1 "" 2 3 None).
Proof.
  split; [exists 0; cbn; lia|]. split; [|reflexivity].
  intros a [H|[]]. inversion H; subst. reflexivity.
Qed.
