(* C10_Proofs3.v — round 7: a handle used for several updates in a row (the SET clause the Update callback derives
   never outlives the callback) and values of another struct type than the model (ConvertToAssignments,
   isDiffSchema: the permission tags of BOTH types count). *)
From Verif Require Import Base C10_Model C10_Spec C10_Proofs C10_Proofs2.
Open Scope Z_scope.

(* ---- handle reuse -------------------------------------------------------------------------------------------- *)
Lemma handle_set_none earlier : handle_set None earlier = None.
Proof. induction earlier as [|d r IH]; cbn; [reflexivity|exact IH]. Qed.

(* whatever was written before through the same handle (any number of updates, any payloads), the update derives
   its own SET list: the case runs as on a fresh handle *)
Lemma run_case_reuse s table o selects omits ps stored mk wh vs earlier :
  run_case s table o selects omits ps stored mk wh vs earlier
  = run_case s table o selects omits ps stored mk wh vs [].
Proof. unfold run_case. rewrite !handle_set_none. reflexivity. Qed.

Lemma run_case_plain s table o selects omits ps stored mk wh earlier :
  run_case s table o selects omits ps stored mk wh None earlier
  = run_op s table o selects omits ps stored mk wh.
Proof. unfold run_case. rewrite handle_set_none. reflexivity. Qed.

(* a SET clause the CALLER put on the statement is what every update through the handle sends *)
Lemma handle_set_given set earlier : handle_set (Some set) earlier = Some set.
Proof. induction earlier as [|d r IH]; cbn; [reflexivity|exact IH]. Qed.

(* ---- values of another struct type ------------------------------------------------------------------------------ *)
Lemma assign_struct_single g sm skip p : has_col g = true ->
  assign_struct [g] sm skip false p = struct_body sm skip false p g.
Proof.
  intros Hc. unfold assign_struct, col_fields. cbn [filter]. rewrite Hc. cbn [flat_map]. rewrite app_nil_r.
  reflexivity.
Qed.
Lemma assign_struct_single_nocol g sm skip p : has_col g = false -> assign_struct [g] sm skip false p = [].
Proof. intros Hc. unfold assign_struct, col_fields. cbn [filter]. rewrite Hc. reflexivity. Qed.

Definition patch_body (us : schema) (sm : sel_map * bool) (skip : bool) (p : payload) (f : field) : list assignment :=
  match lookup_field us (f_db f) with
  | None => []
  | Some g => assign_struct [g] sm skip false p
  end.
Lemma assign_patch_unfold s us sm skip p :
  assign_patch s us sm skip p = flat_map (patch_body us sm skip p) (col_fields s).
Proof. reflexivity. Qed.

Lemma flat_map_ext_in {A B} (f g : A -> list B) l : (forall x, In x l -> f x = g x) -> flat_map f l = flat_map g l.
Proof.
  induction l as [|a l IH]; intros H; cbn; [reflexivity|].
  rewrite (H a (or_introl eq_refl)), IH; [reflexivity|]. intros x Hx. apply H. now right.
Qed.

Section Patch.
Variables (s : schema) (table : string).
Hypothesis Hwf : wf s.

(* the value is of the model's own type: the general loop is the same-type loop *)
Lemma assign_patch_same sm skip p : assign_patch s s sm skip p = assign_struct s sm skip false p.
Proof.
  rewrite assign_patch_unfold, assign_struct_unfold. apply flat_map_ext_in. intros f Hf.
  apply in_col_fields in Hf. destruct Hf as [Hin Hc]. unfold patch_body.
  rewrite (lookup_by_col s Hwf f Hin Hc). now apply assign_struct_single.
Qed.

(* no column is written whose tag denies update in the VALUE's type, nor in the MODEL's type *)
Lemma assign_patch_in us selects omits skip p c k :
  In (c, k) (assign_patch s us (select_and_omit s table selects omits false true) skip p) ->
  exists f g, In f s /\ has_col f = true /\ lookup_field us (f_db f) = Some g /\ has_col g = true
              /\ c = f_db g /\ updatable g = true
              /\ (f_db g = f_db f -> updatable f = true)
              /\ k = (if hooked skip g then KNow else KPay).
Proof.
  rewrite assign_patch_unfold. intros H. apply in_flat_map in H. destruct H as (f & Hf & H).
  apply in_col_fields in Hf. destruct Hf as [Hin Hc]. unfold patch_body in H.
  destruct (lookup_field us (f_db f)) as [g|] eqn:L; [|contradiction].
  destruct (has_col g) eqn:Cg; [|rewrite assign_struct_single_nocol in H by exact Cg; contradiction].
  rewrite assign_struct_single in H by exact Cg. unfold struct_body in H. cbn [andb] in H.
  rewrite andb_false_r in H. cbv zeta in H.
  destruct (sel_get _ (f_db g)) as [v|] eqn:G.
  - destruct v; [|contradiction]. cbn [orb] in H. destruct (updatable g) eqn:U; [|contradiction].
    destruct H as [H|[]]. inversion H; subst. exists f, g. repeat split; auto.
    intros E. apply (allowed_updatable s table Hwf selects omits f Hin Hc). rewrite <- E, G. discriminate.
  - destruct (negb (snd _) || _); [|contradiction]. destruct (_ && updatable g) eqn:E; [|contradiction].
    apply andb_prop in E. destruct E as [_ U]. destruct H as [H|[]]. inversion H; subst.
    exists f, g. repeat split; auto.
    intros E. apply (allowed_updatable s table Hwf selects omits f Hin Hc). rewrite <- E, G. discriminate.
Qed.

(* exactness: the model's column f is in the SET list iff BOTH types permit the update, no Omit names it, and
   it is listed by Select / (without Select) non-zero in the value / a tracked update-time field while hooks run *)
Lemma assign_patch_exact us selects omits skip p f g :
  In f s -> has_col f = true -> local table selects = true -> local table omits = true ->
  lookup_field us (f_db f) = Some g -> has_col g = true -> f_db g = f_db f ->
  (forall f' g', In f' s -> has_col f' = true -> lookup_field us (f_db f') = Some g' -> f_db g' = f_db f') ->
  (exists k, In (f_db f, k) (assign_patch s us (select_and_omit s table selects omits false true) skip p))
  <-> updatable f && updatable g && negb (listed table omits f)
      && (match selects with [] => negb (p_zero p g) | _ => listed table selects f end
          || (negb skip && tracked_update g)) = true.
Proof.
  intros Hin Hc Ls Lo L Cg E Huniq.
  pose proof (sao_get_field s table Hwf selects omits false true f Hin Hc Ls Lo) as G.
  unfold denied in G. cbn [andb orb] in G.
  set (sm := select_and_omit s table selects omits false true) in *.
  assert (Body : patch_body us sm skip p f = struct_body sm skip false p g).
  { unfold patch_body. rewrite L. now apply assign_struct_single. }
  assert (Cond :
    updatable f && updatable g && negb (listed table omits f)
      && (match selects with [] => negb (p_zero p g) | _ => listed table selects f end
          || (negb skip && tracked_update g)) = true
    <-> struct_body sm skip false p g <> []).
  { unfold struct_body. rewrite andb_false_r. cbv zeta. rewrite E, G. fold (tracked_update g).
    destruct (updatable f) eqn:U; cbn [negb andb orb].
    2:{ split; [discriminate|intros X; now contradiction X]. }
    destruct (listed table omits f) eqn:O; cbn [negb andb].
    { rewrite andb_false_r. cbn [andb]. split; [discriminate|intros X; now contradiction X]. }
    rewrite andb_true_r.
    destruct (listed table selects f) eqn:S.
    - destruct selects as [|i l]; [discriminate S|]. cbn [orb andb].
      destruct (updatable g); cbn; (split; [intros HH; first [discriminate | exact HH]
                                          |intros HH; first [now contradiction HH | reflexivity]]).
    - unfold sm. rewrite (sao_restricted s table selects omits false true f S O).
      destruct selects as [|i l]; destruct (updatable g); destruct (negb skip && tracked_update g); destruct (p_zero p g);
        cbn; (split; [intros HH; first [discriminate | exact HH]
                     |intros HH; first [now contradiction HH | reflexivity]]). }
  rewrite Cond, assign_patch_unfold. split.
  - intros (k & H). apply in_flat_map in H. destruct H as (f' & Hf' & H).
    apply in_col_fields in Hf'. destruct Hf' as [Hin' Hc']. unfold patch_body in H.
    destruct (lookup_field us (f_db f')) as [g'|] eqn:L'; [|contradiction].
    destruct (has_col g') eqn:Cg'; [|rewrite assign_struct_single_nocol in H by exact Cg'; contradiction].
    rewrite assign_struct_single in H by exact Cg'.
    destruct (struct_body_shape sm skip false p g') as [E'|[k' E']]; rewrite E' in H; [contradiction|].
    destruct H as [H|[]]. inversion H.
    assert (f' = f).
    { destruct Hwf as (W1 & _). apply W1; auto. rewrite <- (Huniq f' g' Hin' Hc' L'). congruence. }
    subst f'. rewrite L in L'. inversion L'; subst g'. rewrite E'. discriminate.
  - intros X. destruct (struct_body_shape sm skip false p g) as [E'|[k E']]; [congruence|].
    exists k. apply in_flat_map. exists f. split; [now apply in_col_fields|]. rewrite Body, E', E. now left.
Qed.

(* whole operations: Updates / UpdateColumns with a value of another struct type touch only rows that are stored,
   match the model value's key and the chain condition, and only columns both types allow to update *)
Lemma patch_cells us o skip selects omits ps stored mk wh earlier x :
  is_struct_update o = Some skip ->
  In x (out_cells (run_case s table o selects omits ps stored mk wh (Some us) earlier)) ->
  (exists ks, In (c_row x, ks) stored /\ key_match mk ks = true
              /\ match wh with None => True | Some l => In (c_row x) l end)
  /\ exists f g, In f s /\ has_col f = true /\ lookup_field us (f_db f) = Some g /\ has_col g = true
                 /\ c_col x = f_db g /\ updatable g = true /\ (f_db g = f_db f -> updatable f = true)
                 /\ c_src x = (if hooked skip g then KNow else KPay).
Proof.
  intros Ho H. rewrite run_case_reuse in H. unfold run_case in H. cbn [map handle_set] in H. rewrite Ho in H.
  apply (guarded_update_rows s) in H. destruct H as [H1 H2]. split; [now apply targeted_spec|].
  now apply assign_patch_in in H2.
Qed.
End Patch.
