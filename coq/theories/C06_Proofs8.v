(* C06_Proofs8.v — every step of a history preserves the invariant; isolation for all histories. *)
From Verif Require Import Base C06_Model C06_Proofs C06_Proofs2 C06_Proofs3 C06_Proofs4 C06_Proofs5 C06_Proofs6 C06_Proofs7.
Open Scope nat_scope.

Section Steps.
Variable grow : field -> nat -> nat -> nat.
Variable md : field -> bool.
Hypothesis Hmd : forall f, md f = false.

(* ---- Statement.clone ---- *)
Lemma copy_if_nonempty_spec h f x v h1 w :
  wf_slice h f x -> copy_if_nonempty f x h = (v, h1, w) ->
  w = [] /\ hext h h1 [] /\ wf_slice h1 f v /\ (v = SNil \/ fresh h v) /\ pcopy (rdo h1 v) = rd h x.
Proof.
  intros W E. unfold copy_if_nonempty in E. destruct (slen x) eqn:El.
  - rinv E. split; [reflexivity | split; [apply hext_refl | split; [exact I | split; [left; reflexivity |]]]]. cbn.
    assert (L := rd_length _ _ _ W). rewrite El in L. destruct (rd h x); [auto | discriminate L].
  - assert (R := h_copy_spec _ _ _ _ _ _ SNil E).
    assert (Ew : w = []) by (rewrite h_copy_eq in E; inversion E; auto). subst w.
    split; [reflexivity | split; [|split; [|split]]].
    + apply (sr_ext _ _ _ _ _ _ _ R).
    + apply (sr_wf _ _ _ _ _ _ _ R).
    + apply (sres_nil_shape _ _ _ _ _ _ R).
    + rewrite (sr_rd _ _ _ _ _ _ _ R). reflexivity.
Qed.

Lemma rdo_nowrite h h1 f x : hext h h1 [] -> wf_slice h f x -> rdo h1 x = rdo h x.
Proof. intros X W. eapply rdo_frame; eauto. Qed.

Lemma stmt_clone_spec h s c h1 w :
  swf h s -> stmt_clone s h = (c, h1, w) ->
  hext h h1 [] /\ swf h1 c /\ gp c = gp s
  /\ (forall f, excl f = false -> sl c f = sl s f)
  /\ (forall f, excl f = true -> sl c f = SNil \/ fresh h (sl c f))
  /\ peq (abs h1 c) (abs h s).
Proof.
  intros W E. unfold stmt_clone in E. binv E as E0 E1. binv E1 as E2 E3. rinv E3.
  destruct (copy_if_nonempty_spec _ _ _ _ _ _ (W FJoins) E0) as (-> & Xa & Wj & Sj & Rj).
  assert (Ws0 : wf_slice h0 FScopes (sl s FScopes)) by (eapply wf_slice_ext; eauto).
  destruct (copy_if_nonempty_spec _ _ _ _ _ _ Ws0 E2) as (-> & Xb & Wsp & Ssp & Rsp).
  rename h2 into h1.
  assert (X : hext h h1 []) by (apply (hext_trans _ _ _ [] [] Xa Xb)).
  split; auto. split; [|split; [|split; [|split]]].
  - intro g. cbn. destruct (field_eqb g FScopes) eqn:E1; [apply field_eqb_spec in E1; subst; auto|].
    destruct (field_eqb g FJoins) eqn:E2'; [apply field_eqb_spec in E2'; subst; apply (wf_slice_ext _ _ _ _ _ Xb Wj)|].
    apply (wf_slice_ext _ _ _ _ _ X (W g)).
  - reflexivity.
  - intros g Ex. destruct g; try discriminate Ex; reflexivity.
  - intros g Ex. destruct g; try discriminate Ex; cbn; auto.
    destruct Ssp as [-> | F]; auto. right. eapply fresh_mono; [|exact F]. apply Xa.
  - split; [reflexivity|]. intro g. cbn [abs pl sl set_sl].
    destruct (field_eqb g FScopes) eqn:E1.
    { apply field_eqb_spec in E1. subst. cbn [fnorm]. rewrite Rsp, pcopy_rdo.
      f_equal. rewrite <- !pcopy_rdo. apply (f_equal pcopy (rdo_nowrite _ _ _ _ Xa (W FScopes))). }
    destruct (field_eqb g FJoins) eqn:E2'.
    { apply field_eqb_spec in E2'. subst. cbn [fnorm].
      rewrite (rdo_nowrite _ _ _ _ Xb Wj), Rj, pcopy_rdo. reflexivity. }
    rewrite (rdo_nowrite _ _ _ _ X (W g)). reflexivity.
Qed.

Lemma hinv_clone h sts k c h1 w :
  hinv h sts -> k < length sts -> stmt_clone (get_stmt sts k) h = (c, h1, w) ->
  hinv h1 (sts ++ [c]).
Proof.
  intros Hi Lk E. assert (Hi' := Hi). destruct Hi' as (Hw & Hs & Ha).
  destruct (stmt_clone_spec _ _ _ _ _ (Hw k Lk) E) as (X & Wc & G & Sn & Sx & A).
  apply hinv_push; auto.
  - eapply hinv_ext; eauto.
  - intros j f l n c0 n' c' Lj Ec Ej.
    assert (Wj : wf_slice h f (SArr l n' c')) by (rewrite <- Ej; apply (Hw j Lj)).
    destruct (excl f) eqn:Ex.
    + exfalso. destruct (Sx f Ex) as [Q | F]; [congruence|]. rewrite Ec in F. cbn in F.
      apply wf_slice_lt in Wj. lia.
    + rewrite (Sn f Ex) in Ec. destruct (Hs k j f _ _ _ _ _ Lk Lj Ec Ej) as (-> & _). auto.
  - rewrite G. eapply peq_trans; [exact A | apply (Ha k Lk)].
Qed.

Lemma hinv_new h sts : hinv h sts -> hinv h (sts ++ [new_stmt]).
Proof.
  intro Hi. apply hinv_push; auto.
  - intro f. exact I.
  - intros j f l n c0 n' c' _ E. discriminate E.
  - apply peq_refl.
Qed.

Lemma get_instance_inv h sts hd sts1 i h1 w1 :
  hinv h sts -> fst hd < length sts -> get_instance sts hd h = ((sts1, i), h1, w1) ->
  hinv h1 sts1 /\ i < length sts1 /\ length sts <= length sts1.
Proof.
  intros Hi Lh E. unfold get_instance in E. destruct (snd hd) as [|[|m]].
  - apply ret_inv in E. destruct E as (Q & -> & ->). inversion Q; subst. auto.
  - apply ret_inv in E. destruct E as (Q & -> & ->). inversion Q; subst.
    split; [apply hinv_new; auto|]. rewrite app_length. cbn. lia.
  - binv E as E0 E1. apply ret_inv in E1. destruct E1 as (Q & -> & ->). inversion Q; subst.
    split; [eapply hinv_clone; eauto|]. rewrite app_length. cbn. lia.
Qed.

(* ---- the invariant on states ---- *)
Record inv (st : state) : Prop := {
  i_h : hinv (st_heap st) (st_stmts st);
  i_hd : forall p, fst (nth p (st_handles st) (0, 1)) < length (st_stmts st);
  i_out : isolated st
}.

Lemma hd_push (hds : list (nat * nat)) n i m :
  (forall p, fst (nth p hds (0, 1)) < n) -> i < n ->
  forall p, fst (nth p (hds ++ [(i, m)]) (0, 1)) < n.
Proof.
  intros H Li p. destruct (Nat.lt_ge_cases p (length hds)) as [L | L].
  - rewrite app_nth1; auto.
  - rewrite app_nth2; auto. destruct (p - length hds) as [|[|q]]; cbn; auto.
    + specialize (H (length hds)). rewrite nth_overflow in H; auto.
    + specialize (H (length hds)). rewrite nth_overflow in H; auto.
Qed.

Lemma hd_mono (hds : list (nat * nat)) n n' :
  (forall p, fst (nth p hds (0, 1)) < n) -> n <= n' -> forall p, fst (nth p hds (0, 1)) < n'.
Proof. intros H L p. specialize (H p). lia. Qed.

Lemma replay_snoc chain x : replay_alone (chain ++ [x]) = p_pop (replay_alone chain) x.
Proof. unfold replay_alone. apply fold_p_pop_app. Qed.

Lemma inv_step st x : inv st -> inv (do_step grow md st x).
Proof.
  intros [Hi Hh Ho]. unfold do_step. cbv zeta.
  assert (Lhd : forall p, fst (nth p (st_handles st) (0, 1)) < length (st_stmts st)) by (intro p; apply Hh).
  destruct x as [p o | p k | p f | p].
  - (* a chain method *)
    destruct (get_instance (st_stmts st) (nth p (st_handles st) (0, 1)) (st_heap st)) as [[[sts1 i] h1] w1] eqn:EG.
    destruct (get_instance_inv _ _ _ _ _ _ _ Hi (Lhd p) EG) as (Hi1 & Li & Ll).
    destruct (chain_op grow md (get_stmt sts1 i) o h1) as [[s' h2] w2] eqn:EC.
    unfold chain_op in EC. binv EC as E0 E1. rinv E1.
    assert (Hw1 : hwf h1 sts1) by apply Hi1.
    assert (O := apply_op_spec grow md Hmd _ _ _ _ _ _ (Hw1 i Li) E0).
    constructor; cbn [st_heap st_stmts st_handles st_outs].
    + eapply (hinv_update _ _ _ _ _ _ _ (fun q => p_op q o)); eauto.
      * intros a1 b1. apply p_op_peq.
      * cbn [gp push_gp]. rewrite replay_snoc, (os_gp _ _ _ _ _ _ O). apply peq_refl.
    + rewrite set_stmt_length. apply hd_push; auto. eapply hd_mono; eauto.
    + exact Ho.
  - (* Session / WithContext / Debug / Begin *)
    destruct k.
    + constructor; cbn [st_heap st_stmts st_handles st_outs]; auto. apply hd_push; auto.
    + constructor; cbn [st_heap st_stmts st_handles st_outs]; auto. apply hd_push; auto.
    + destruct (stmt_clone (get_stmt (st_stmts st) (fst (nth p (st_handles st) (0, 1)))) (st_heap st)) as [[c h1] w1] eqn:EC.
      constructor; cbn [st_heap st_stmts st_handles st_outs]; auto.
      * eapply hinv_clone; eauto.
      * rewrite app_length. cbn. apply hd_push; [|lia]. eapply hd_mono; eauto. lia.
    + destruct (get_instance (st_stmts st) (nth p (st_handles st) (0, 1)) (st_heap st)) as [[[sts1 i] h1] w1] eqn:EG.
      destruct (get_instance_inv _ _ _ _ _ _ _ Hi (Lhd p) EG) as (Hi1 & Li & Ll).
      constructor; cbn [st_heap st_stmts st_handles st_outs]; auto.
      apply hd_push; auto. eapply hd_mono; eauto.
    + destruct (get_instance (st_stmts st) (nth p (st_handles st) (0, 1)) (st_heap st)) as [[[sts1 i] h1] w1] eqn:EG.
      destruct (get_instance_inv _ _ _ _ _ _ _ Hi (Lhd p) EG) as (Hi1 & Li & Ll).
      destruct (stmt_clone (get_stmt sts1 i) h1) as [[c h2] w2] eqn:EC.
      constructor; cbn [st_heap st_stmts st_handles st_outs]; auto.
      * eapply hinv_clone; eauto.
      * rewrite app_length. cbn. apply hd_push; [|lia]. eapply hd_mono; eauto. lia.
    + destruct (stmt_clone (get_stmt (st_stmts st) (fst (nth p (st_handles st) (0, 1)))) (st_heap st)) as [[c h1] w1] eqn:EC.
      constructor; cbn [st_heap st_stmts st_handles st_outs]; auto.
      * eapply hinv_clone; eauto.
      * rewrite app_length. cbn. apply hd_push; [|lia]. eapply hd_mono; eauto. lia.
  - (* a finisher *)
    destruct (get_instance (st_stmts st) (nth p (st_handles st) (0, 1)) (st_heap st)) as [[[sts1 i] h1] w1] eqn:EG.
    destruct (get_instance_inv _ _ _ _ _ _ _ Hi (Lhd p) EG) as (Hi1 & Li & Ll).
    destruct (finish grow md (get_stmt sts1 i) f h1) as [[[s' out] h2] w2] eqn:EF.
    assert (Hw1 : hwf h1 sts1) by apply Hi1. assert (Ha1 : habs h1 sts1) by apply Hi1.
    destruct (finish_spec grow md Hmd _ _ _ _ _ _ _ (Hw1 i Li) EF) as (s4 & -> & O & Eo).
    constructor; cbn [st_heap st_stmts st_handles st_outs].
    + eapply (hinv_update _ _ _ _ _ _ _ (fun q => p_fin q f)); eauto.
      * intros a1 b1. apply p_fin_peq.
      * cbn [gp push_gp]. rewrite replay_snoc, (os_gp _ _ _ _ _ _ O). apply peq_refl.
    + rewrite set_stmt_length. apply hd_push; auto. eapply hd_mono; eauto.
    + intros chain out' Hin. apply in_app_iff in Hin. destruct Hin as [Hin | [Q | []]]; [apply Ho, Hin|].
      inversion Q; subst; clear Q. cbn [gp push_gp]. rewrite (os_gp _ _ _ _ _ _ O).
      unfold render_alone. rewrite split_last_app. apply render_peq. apply p_prefin_peq. apply (Ha1 i Li).
  - assert (L := Lhd p). destruct (nth p (st_handles st) (0, 1)) as [i m].
    constructor; cbn [st_heap st_stmts st_handles st_outs]; auto. apply hd_push; auto.
Qed.

Lemma inv_state0 : inv state0.
Proof.
  constructor; cbn.
  - split; [|split].
    + intros i Li f. destruct i as [|[|i]]; exact I.
    + intros i j f l n c n' c' Li Lj E. destruct i as [|[|i]]; discriminate E.
    + intros i Li. destruct i as [|i]; [apply peq_refl | cbn in Li; lia].
  - intro p. destruct p as [|[|p]]; cbn; lia.
  - intros chain out [].
Qed.

Lemma inv_run hist : inv (run_hist grow md hist).
Proof.
  unfold run_hist. assert (G : forall st, inv st -> inv (fold_left (do_step grow md) hist st)).
  { induction hist as [|x r IH]; intros st H; cbn; auto. apply IH, inv_step, H. }
  apply G, inv_state0.
Qed.

(* isolation: every finisher of every history renders what its own chain renders alone *)
Theorem isolation_all hist : isolated (run_hist grow md hist).
Proof. apply (i_out _ (inv_run hist)). Qed.

(* and the statement behind every handle is, modulo the swap of Where.Build, its own chain's *)
Theorem state_isolation hist i :
  let st := run_hist grow md hist in
  i < length (st_stmts st) ->
  peq (abs (st_heap st) (get_stmt (st_stmts st) i)) (replay_alone (gp (get_stmt (st_stmts st) i))).
Proof. intros st Li. destruct (i_h _ (inv_run hist)) as (_ & _ & Ha). apply Ha, Li. Qed.
End Steps.
