(* Props_C17_Thorough.v — property C17, the expensive bounded-exhaustive theorem (vm_compute of several
   minutes): built and audited in the thorough tier only (props.d/C17.json "thorough_props_mods").
   Not imported by Props_C17.v nor by the checker. *)
From Verif Require Import Base C17_Model C17_Check C17_Known C17_Proofs3 C17_Exh7.
Open Scope string_scope.
Open Scope list_scope.

(* Create shape: the seven built-ins of the create pipeline under their gorm names, two user names, every
   in-domain history of at most 2 calls over {built-ins, user names also before they are registered, an
   unknown name, "*"}: 25397 histories; each satisfies the whole property on the model or lies in a
   known-finding class. *)
Theorem c17_len2_exhaustive_create : forall h,
  In h (extensions 2 alpha_create (builtin_steps (a_builtins alpha_create))) -> spec_run h || hist_known h = true.
Proof. exact (all_ok_extensions 2 alpha_create _ exh_create). Qed.
Print Assumptions c17_len2_exhaustive_create.

Theorem c17_exhaustive_create_size :
  count_ext 2 alpha_create (builtin_steps (a_builtins alpha_create)) = 25397%N.
Proof. exact exh_create_count. Qed.
Print Assumptions c17_exhaustive_create_size.
